(* C18 phase 4 — evaluation entry points for the correspondence of the constraint
   LANGUAGE (go/build/constraint), the header scanner (go/build shouldBuild) and the
   post-load tweaks (build/context.go) — no proofs.  harness/py/props/c18.py writes
   cases files that import this module. *)
From Coq Require Import List String Bool.
From Verif Require Import Gen.C18_BuildEnv Gen.C18_PostTweaks Model.C18_Build Model.C18_NameSpec
  Model.C18_Constraint Model.C18_ConstraintNF Model.C18_Text Corr.C18_Eval.
Import ListNotations.
Local Open Scope string_scope.

Definition ostr_eqb (a b : option string) : bool :=
  match a, b with
  | Some x, Some y => x =? y
  | None, None => true
  | _, _ => false
  end.

Fixpoint cexpr_eqb (a b : cexpr) : bool :=
  match a, b with
  | Tag s, Tag t => s =? t
  | Not x, Not y => cexpr_eqb x y
  | And x y, And x' y' | Or x y, Or x' y' => cexpr_eqb x x' && cexpr_eqb y y'
  | _, _ => false
  end.

(* one line handed to go/build/constraint: IsGoBuild, IsPlusBuild, Parse (None = error,
   Some s = Expr.String()), PlusBuildLines (None = errComplex), Eval under tag sets *)
Record lcase := {
  l_line : string;
  l_isgo : bool;
  l_isplus : bool;
  l_parse : option string;
  l_plus : option (list string);
  l_evals : list (list string * bool)
}.

Definition lcase_ok (k : lcase) : bool :=
  Bool.eqb (is_go_build (l_line k)) (l_isgo k) &&
  Bool.eqb (is_plus_build (l_line k)) (l_isplus k) &&
  match parse_line (l_line k) with
  | None => match l_parse k with None => true | Some _ => false end
  | Some x =>
      ostr_eqb (Some (print x)) (l_parse k) &&
      match plus_build_lines x, l_plus k with
      | Some a, Some b => strs_eqb a b
      | None, None => true
      | _, _ => false
      end &&
      forallb (fun sb => Bool.eqb (eval (fun t => mem t (fst sb)) x) (snd sb)) (l_evals k) &&
      (* printing then parsing: the same tree for normal forms with proper tags (theorem
         parse_print_roundtrip), and whenever it parses at all the same meaning *)
      (if nf x && tags_valid x then match parse_expr (print x) with Some y => cexpr_eqb y x | None => false end else true) &&
      match parse_expr (print x) with
      | Some y => forallb (fun sb => Bool.eqb (eval (fun t => mem t (fst sb)) y) (snd sb)) (l_evals k)
      | None => true
      end
  end.

Fixpoint lmismatches_from (i : nat) (cs : list lcase) : list nat :=
  match cs with
  | [] => []
  | c :: r => if lcase_ok c then lmismatches_from (S i) r else i :: lmismatches_from (S i) r
  end.
Definition lmismatches (cs : list lcase) : list nat := lmismatches_from 0 cs.

(* a package directory given as TEXT *)
Record tcase := {
  tk_cfg : config;
  tk_virtual : bool;
  tk_import_path : string;
  tk_in_goroot : bool;
  tk_files : list tfile;
  tk_expect : tresult
}.

Definition set_eqb (a b : list string) : bool :=
  forallb (fun x => mem x b) a && forallb (fun x => mem x a) b.

Definition tresult_eqb (a b : tresult) : bool :=
  match a, b with
  | TPanic, TPanic | TBad, TBad | TNoGo, TNoGo => true
  | TOk g t x i j m tm xm, TOk g' t' x' i' j' m' tm' xm' =>
      strs_eqb g g' && strs_eqb t t' && strs_eqb x x' && strs_eqb i i' && strs_eqb j j' &&
      set_eqb m m' && set_eqb tm tm' && set_eqb xm xm'
  | _, _ => false
  end.

Definition tcase_ok (k : tcase) : bool :=
  tresult_eqb (import_text (tk_cfg k) (tk_virtual k) (tk_import_path k) (tk_in_goroot k) (tk_files k)) (tk_expect k).

Fixpoint tmismatches_from (i : nat) (cs : list tcase) : list nat :=
  match cs with
  | [] => []
  | c :: r => if tcase_ok c then tmismatches_from (S i) r else i :: tmismatches_from (S i) r
  end.
Definition tmismatches (cs : list tcase) : list nat := tmismatches_from 0 cs.

(* the structured files of the phase-1 directories, rendered by the MODEL's printer and
   read back by the MODEL's header scanner, must classify as the structured model says
   (exercises render_header / print / pline_text / should_build_text on every run) *)
Definition render_ok (k : case) : bool :=
  match go_ctx (k_cfg k) with
  | None => true
  | Some e0 =>
      let e := preload e0 (is_std (k_import_path k) (k_in_goroot k)) in
      forallb (fun f =>
                 negb ((match f_gobuild f with Some x => nf x && tags_valid x | None => true end) && forallb pline_valid (f_plus f))
                 || cls_eqb (classify_text e (render_file f [])) (classify e f)) (k_files k)
  end.

Fixpoint rmismatches_from (i : nat) (cs : list case) : list nat :=
  match cs with
  | [] => []
  | c :: r => if render_ok c then rmismatches_from (S i) r else i :: rmismatches_from (S i) r
  end.
Definition rmismatches (cs : list case) : list nat := rmismatches_from 0 cs.
