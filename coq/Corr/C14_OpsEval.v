(* C14 (phase 4) — evaluation entry points for the correspondence of the string operators (no proofs).
   harness/py/props/c14.py writes case files that import this module; the templates evaluated are the
   REGENERATED ones (Gen/C14_Templates.v). *)
From Coq Require Import List NArith ZArith Bool Arith.
From Verif Require Import Model.C14_Utf8 Model.C14_Ops Gen.C14_Templates Corr.C14_Eval.
Import ListNotations.

Definition zs_eqb := list_eqb Z.eqb.

Fixpoint list_eqb2 {A B} (eqb : A -> B -> bool) (a : list A) (b : list B) : bool :=
  match a, b with
  | [], [] => true
  | x :: a', y :: b' => eqb x y && list_eqb2 eqb a' b'
  | _, _ => false
  end.

Definition jv_eqb (a b : jv) : bool :=
  match a, b with
  | VStr x, VStr y => ns_eqb x y
  | VNum x, VNum y => Z.eqb x y
  | VNaN, VNaN => true
  | VBool x, VBool y => Bool.eqb x y
  | VUndef, VUndef => true
  | VBytes a1 o1 l1 c1, VBytes a2 o2 l2 c2 => ns_eqb a1 a2 && Nat.eqb o1 o2 && Nat.eqb l1 l2 && Nat.eqb c1 c2
  | VRunes a1 o1 l1 c1, VRunes a2 o2 l2 c2 => zs_eqb a1 a2 && Nat.eqb o1 o2 && Nat.eqb l1 l2 && Nat.eqb c1 c2
  | _, _ => false
  end.

Definition res_eqb (a b : res) : bool :=
  match a, b with
  | Ok x, Ok y => jv_eqb x y
  | Panic x, Panic y => ns_eqb x y
  | _, _ => false
  end.

(* slices with N fields (the case files avoid nat numerals) *)
Definition vbytes (arr : list N) (off len cap : N) : jv := VBytes arr (N.to_nat off) (N.to_nat len) (N.to_nat cap).
Definition vrunes (arr : list Z) (off len cap : N) : jv := VRunes arr (N.to_nat off) (N.to_nat len) (N.to_nat cap).
(* arr[i] = (a*i + b) mod 256 for i < n: the same formula as in the node driver *)
Definition gen_arr (n a b : N) : list N := map (fun i => (a * N.of_nat i + b) mod 256)%N (seq 0 (N.to_nat n)).

Inductive mapop := MSet (k : list N) (v : Z) | MDel (k : list N) | MGet (k : list N).

(* a script on a fresh map; every get goes through go_map_get2 AND the regenerated m[k] template *)
Fixpoint run_mapops (m : list (list N * (list N * Z))) (ops : list mapop) : list (Z * bool * res) * list (list N * (list N * Z)) :=
  match ops with
  | [] => ([], m)
  | MSet k v :: r => run_mapops (go_map_set m k v) r
  | MDel k :: r => run_mapops (go_map_delete m k) r
  | MGet k :: r =>
      let '(outs, m') := run_mapops m r in
      ((fst (go_map_get2 m k), snd (go_map_get2 m k), run t_MapGet [VMap m; VStr k]) :: outs, m')
  end.

Definition get_eqb (a : Z * bool * res) (b : Z * bool * Z) : bool :=
  let '(v, ok, r) := a in let '(v', ok', g) := b in
  Z.eqb v v' && Bool.eqb ok ok' && res_eqb r (Ok (VNum g)).

Inductive ocase :=
| OTmpl (t : jx) (args : list jv) (out : res)
(* x+y, x==y, x!=y, x<y, x<=y, x>y, x>=y on one pair of strings, in this order *)
| OPair (a b : list N) (outs : list res)
| OSwitch (tag : list N) (out : Z)
(* outputs of the gets, len(m), the JS Map's keys in insertion order, the Go keys of the entries *)
| OMap (ops : list mapop) (gets : list (Z * bool * Z)) (len : N) (keys gokeys : list (list N)).

Definition ocase_ok (c : ocase) : bool :=
  match c with
  | OTmpl t args out => res_eqb (run t args) out
  | OPair a b outs =>
      list_eqb2 (fun t o => res_eqb (run t [VStr a; VStr b]) o) [t_Add; t_Eql; t_Neq; t_Lss; t_Leq; t_Gtr; t_Geq] outs
  | OSwitch tag out =>
      Z.eqb (match switch_emitted tag SWITCH_EMITTED 0 with Some i => Z.of_nat i | None => (-1)%Z end) out
  | OMap ops gets len keys gokeys =>
      let '(outs, m) := run_mapops [] ops in
      list_eqb2 get_eqb outs gets && N.eqb (N.of_nat (length m)) len
      && list_eqb ns_eqb (map fst m) keys && list_eqb ns_eqb (go_map_keys m) gokeys
  end.

Fixpoint omismatches_from (i : N) (cs : list ocase) : list N :=
  match cs with
  | [] => []
  | c :: r => if ocase_ok c then omismatches_from (N.succ i) r else i :: omismatches_from (N.succ i) r
  end.

Definition omismatches (cs : list ocase) : list N := omismatches_from 0 cs.
