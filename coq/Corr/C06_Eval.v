(* C06 — evaluation entry points for the correspondence check (no proofs).
   harness/py/props/c06.py writes case files that import this module.

   The model that is evaluated here is the REGENERATED one (Gen/C06_Tables.v: the templates the
   compiler emitted in this run) composed over typed expression trees, plus the prelude model
   (Model/C06_Prelude64.v) for direct helper calls.  Results are compared through a digest per
   row (one x, all y of a grid), computed the same way in Python from the implementation's
   printed results. *)
From Coq Require Import ZArith Bool List.
From Verif Require Import Base.C06_JsNum Model.C06_Prelude64 Model.C06_Spec Gen.C06_Tables Model.C06_Templates.
Import ListNotations.
Local Open Scope Z_scope.

Inductive val := VN (a : jsnum) | VO (o : jso).

Definition enc (k : kind) (v : Z) : val := if is64 k then VO (enc64 k v) else VN (Fin v).

(* typed expression trees over two variables x, y of the base kind *)
Inductive gexpr :=
| EX | EY
| EK (k : kind) (c : Z)
| EBin (k : kind) (o : binop) (a b : gexpr)
| ECmp (k : kind) (c : cmpop) (a b : gexpr) (r : kind)   (* if a <c> b { 1 } else { 0 } of kind r *)
| EUn (k : kind) (u : unop) (a : gexpr)
| EShV (k : kind) (s : shop) (a n : gexpr)               (* n: any unsigned kind *)
| EShC (k : kind) (s : shop) (c : Z) (a : gexpr)
| EConv (k1 k2 : kind) (a : gexpr).

Definition rmap {A B} (f : A -> B) (r : res A) : res B := bind r (fun a => Ret (f a)).

Definition lookup_count {A} (c : Z) (t : list (Z * A)) : option A :=
  match find (fun p => fst p =? c) t with Some p => Some (snd p) | None => None end.

Definition ap_bin (k : kind) (o : binop) (a b : val) : res val :=
  match a, b with
  | VN a, VN b => match g_bin32 k o with Some f => rmap VN (f a b) | None => RUnk end
  | VO a, VO b => match g_bin64 k o with Some f => rmap VO (f a b) | None => RUnk end
  | _, _ => RUnk
  end.
Definition ap_cmp (k : kind) (c : cmpop) (a b : val) : res jb :=
  match a, b with
  | VN a, VN b => match g_cmp32 k c with Some f => f a b | None => RUnk end
  | VO a, VO b => match g_cmp64 k c with Some f => f a b | None => RUnk end
  | _, _ => RUnk
  end.
Definition ap_un (k : kind) (u : unop) (a : val) : res val :=
  match a with
  | VN a => match g_un32 k u with Some f => rmap VN (f a) | None => RUnk end
  | VO a => match g_un64 k u with Some f => rmap VO (f a) | None => RUnk end
  end.
(* %f of a 64-bit count is $flatten64.  Above 2^53 it is a rounded double; rounding is monotone, so such a
   count stays >= 2^53, and the templates only compare the count with 32 / 64 or take min(count, 31). *)
Definition count_num (n : val) : jsnum :=
  match n with
  | VN c => c
  | VO (O64 _ h l) => let v := h * two32 + l in if two53 <? v then Fin two53 else flatten64 (O64 true h l)
  | VO OUnk => Unk
  end.
Definition ap_shv (k : kind) (s : shop) (a n : val) : res val :=
  match a with
  | VN a => match g_shv32 k s with Some f => rmap VN (f a (count_num n)) | None => RUnk end
  | VO a => match g_shv64 k s with Some f => rmap VO (f a (count_num n)) | None => RUnk end
  end.
Definition ap_shc (k : kind) (s : shop) (c : Z) (a : val) : res val :=
  match a with
  | VN a => match lookup_count c (g_shc32 k s) with Some f => rmap VN (f a) | None => rmap VN (shc32 current k s c a) end
  | VO a => match lookup_count c (g_shc64 k s) with Some f => rmap VO (f a) | None => rmap VO (sh64 current k s a (Fin c)) end
  end.
Definition ap_conv (k1 k2 : kind) (a : val) : res val :=
  if kind_eqb k1 k2 then Ret a else
  match a with
  | VN a => if is64 k2 then match g_conv_no k1 k2 with Some f => rmap VO (f a) | None => RUnk end
            else match g_conv_nn k1 k2 with Some f => rmap VN (f a) | None => RUnk end
  | VO a => if is64 k2 then match g_conv_oo k1 k2 with Some f => rmap VO (f a) | None => RUnk end
            else match g_conv_on k1 k2 with Some f => rmap VN (f a) | None => RUnk end
  end.

Fixpoint eval (e : gexpr) (x y : val) : res val :=
  match e with
  | EX => Ret x
  | EY => Ret y
  | EK k c => Ret (enc k c)
  | EBin k o a b => bind (eval a x y) (fun va => bind (eval b x y) (fun vb => ap_bin k o va vb))
  | ECmp k c a b r =>
      bind (eval a x y) (fun va => bind (eval b x y) (fun vb =>
        bind (ap_cmp k c va vb) (fun t => match t with Some true => Ret (enc r 1) | Some false => Ret (enc r 0) | None => RUnk end)))
  | EUn k u a => bind (eval a x y) (ap_un k u)
  | EShV k s a n => bind (eval a x y) (fun va => bind (eval n x y) (fun vn => ap_shv k s va vn))
  | EShC k s c a => bind (eval a x y) (ap_shc k s c)
  | EConv k1 k2 a => bind (eval a x y) (ap_conv k1 k2)
  end.

(* ---- digests ---------------------------------------------------------------- *)
Definition words (z : Z) : list Z := [z mod two32; (z / two32) mod two32].
(* polynomial hash: exact in JS doubles (h * 1000003 + w < 2^53) *)
Definition fnv_step (h w : Z) : Z := (h * 1000003 + w) mod 4294967291.
Definition fnv (h : Z) (ws : list Z) : Z := fold_left fnv_step ws h.
Definition fnv0 : Z := 2166136261.

Definition enc_res (r : res val) : list Z :=
  match r with
  | Ret (VN (Fin v)) => 1 :: words v
  | Ret (VN NZ) => [2]
  | Throw DivideByZero => [3]
  | Ret (VO (O64 _ h l)) => 1 :: words (h * two32 + l)
  | _ => [4]
  end.

Definition row_digest (k : kind) (e : gexpr) (grid : list Z) (x : Z) : Z :=
  fold_left (fun h y => fnv h (enc_res (eval e (enc k x) (enc k y)))) grid fnv0.

(* rows: (expression index, x, digest observed on the implementation) *)
Fixpoint bad_rows_from (i : N) (k : kind) (exprs : list gexpr) (grid : list Z) (rows : list (nat * Z * Z)) : list N :=
  match rows with
  | [] => []
  | (ei, x, d) :: r =>
      let ok := match nth_error exprs ei with Some e => row_digest k e grid x =? d | None => false end in
      if ok then bad_rows_from (N.succ i) k exprs grid r else i :: bad_rows_from (N.succ i) k exprs grid r
  end.
Definition bad_rows := bad_rows_from 0.

(* ---- direct calls of the prelude helpers -------------------------------------- *)
Inductive helper := HMul | HQuo | HRem | HShl | HShr | HUshr | HCtor.

Definition enc_obj (r : res jso) : list Z :=
  match r with
  | Ret (O64 _ h l) => (5 :: words h) ++ words l
  | Throw DivideByZero => [3]
  | _ => [4]
  end.

(* second operand: a 64-bit value (yh, yl) for mul/div, a count yl for shifts, (high, low) for the constructor *)
Definition call_helper (h : helper) (sg : bool) (xh xl yh yl : Z) : res jso :=
  let x := O64 sg xh xl in
  match h with
  | HMul => Ret (gmul64 x (O64 sg yh yl))
  | HQuo => gdiv64 x (O64 sg yh yl) false
  | HRem => gdiv64 x (O64 sg yh yl) true
  | HShl => Ret (gshl64 x (Fin yl))
  | HShr => Ret (gshr64 x (Fin yl))
  | HUshr => Ret (gushr64 x (Fin yl))
  | HCtor => Ret (gnew64 sg (Fin yh) (Fin yl))
  end.

Definition hrow_digest (h : helper) (sg : bool) (grid : list (Z * Z)) (xh xl : Z) : Z :=
  fold_left (fun d y => fnv d (enc_obj (call_helper h sg xh xl (fst y) (snd y)))) grid fnv0.

Fixpoint bad_hrows_from (i : N) (h : helper) (sg : bool) (grid : list (Z * Z)) (rows : list (Z * Z * Z)) : list N :=
  match rows with
  | [] => []
  | (xh, xl, d) :: r =>
      if hrow_digest h sg grid xh xl =? d then bad_hrows_from (N.succ i) h sg grid r
      else i :: bad_hrows_from (N.succ i) h sg grid r
  end.
Definition bad_hrows := bad_hrows_from 0.

(* constructor applied to a real low = n/d (float -> 64-bit conversion): [(hi, lo)] or None *)
Definition ctor_real (sg : bool) (n d : Z) : option (Z * Z) :=
  match gnew64 sg (Fin 0) (if Z.rem n d =? 0 then Fin (Z.quot n d) else NonInt n d) with
  | O64 _ h l => Some (h, l) | OUnk => None end.
Fixpoint bad_reals_from (i : N) (rows : list (bool * Z * Z * Z * Z)) : list N :=
  match rows with
  | [] => []
  | (sg, n, d, h, l) :: r =>
      let ok := match ctor_real sg n d with Some (h', l') => (h =? h') && (l =? l') | None => false end in
      if ok then bad_reals_from (N.succ i) r else i :: bad_reals_from (N.succ i) r
  end.
Definition bad_reals := bad_reals_from 0.
