(* C16 - evaluation entry points for the correspondence check (no proofs).
   harness/py/props/c16.py writes case files that import this module. *)
From Coq Require Import List NArith Bool.
From Verif Require Import Model.C16_RemoveWs Model.C16_Lex Model.C16_Alloc Gen.C16_Keywords.
Import ListNotations.
Local Open Scope N_scope.

(* byte constants: case files write byte strings as lists of these names (identifiers are much
   cheaper to parse than numerals) *)
Definition b_0 : N := 0.
Definition b_1 : N := 1.
Definition b_2 : N := 2.
Definition b_3 : N := 3.
Definition b_4 : N := 4.
Definition b_5 : N := 5.
Definition b_6 : N := 6.
Definition b_7 : N := 7.
Definition b_8 : N := 8.
Definition b_9 : N := 9.
Definition b_10 : N := 10.
Definition b_11 : N := 11.
Definition b_12 : N := 12.
Definition b_13 : N := 13.
Definition b_14 : N := 14.
Definition b_15 : N := 15.
Definition b_16 : N := 16.
Definition b_17 : N := 17.
Definition b_18 : N := 18.
Definition b_19 : N := 19.
Definition b_20 : N := 20.
Definition b_21 : N := 21.
Definition b_22 : N := 22.
Definition b_23 : N := 23.
Definition b_24 : N := 24.
Definition b_25 : N := 25.
Definition b_26 : N := 26.
Definition b_27 : N := 27.
Definition b_28 : N := 28.
Definition b_29 : N := 29.
Definition b_30 : N := 30.
Definition b_31 : N := 31.
Definition b_32 : N := 32.
Definition b_33 : N := 33.
Definition b_34 : N := 34.
Definition b_35 : N := 35.
Definition b_36 : N := 36.
Definition b_37 : N := 37.
Definition b_38 : N := 38.
Definition b_39 : N := 39.
Definition b_40 : N := 40.
Definition b_41 : N := 41.
Definition b_42 : N := 42.
Definition b_43 : N := 43.
Definition b_44 : N := 44.
Definition b_45 : N := 45.
Definition b_46 : N := 46.
Definition b_47 : N := 47.
Definition b_48 : N := 48.
Definition b_49 : N := 49.
Definition b_50 : N := 50.
Definition b_51 : N := 51.
Definition b_52 : N := 52.
Definition b_53 : N := 53.
Definition b_54 : N := 54.
Definition b_55 : N := 55.
Definition b_56 : N := 56.
Definition b_57 : N := 57.
Definition b_58 : N := 58.
Definition b_59 : N := 59.
Definition b_60 : N := 60.
Definition b_61 : N := 61.
Definition b_62 : N := 62.
Definition b_63 : N := 63.
Definition b_64 : N := 64.
Definition b_65 : N := 65.
Definition b_66 : N := 66.
Definition b_67 : N := 67.
Definition b_68 : N := 68.
Definition b_69 : N := 69.
Definition b_70 : N := 70.
Definition b_71 : N := 71.
Definition b_72 : N := 72.
Definition b_73 : N := 73.
Definition b_74 : N := 74.
Definition b_75 : N := 75.
Definition b_76 : N := 76.
Definition b_77 : N := 77.
Definition b_78 : N := 78.
Definition b_79 : N := 79.
Definition b_80 : N := 80.
Definition b_81 : N := 81.
Definition b_82 : N := 82.
Definition b_83 : N := 83.
Definition b_84 : N := 84.
Definition b_85 : N := 85.
Definition b_86 : N := 86.
Definition b_87 : N := 87.
Definition b_88 : N := 88.
Definition b_89 : N := 89.
Definition b_90 : N := 90.
Definition b_91 : N := 91.
Definition b_92 : N := 92.
Definition b_93 : N := 93.
Definition b_94 : N := 94.
Definition b_95 : N := 95.
Definition b_96 : N := 96.
Definition b_97 : N := 97.
Definition b_98 : N := 98.
Definition b_99 : N := 99.
Definition b_100 : N := 100.
Definition b_101 : N := 101.
Definition b_102 : N := 102.
Definition b_103 : N := 103.
Definition b_104 : N := 104.
Definition b_105 : N := 105.
Definition b_106 : N := 106.
Definition b_107 : N := 107.
Definition b_108 : N := 108.
Definition b_109 : N := 109.
Definition b_110 : N := 110.
Definition b_111 : N := 111.
Definition b_112 : N := 112.
Definition b_113 : N := 113.
Definition b_114 : N := 114.
Definition b_115 : N := 115.
Definition b_116 : N := 116.
Definition b_117 : N := 117.
Definition b_118 : N := 118.
Definition b_119 : N := 119.
Definition b_120 : N := 120.
Definition b_121 : N := 121.
Definition b_122 : N := 122.
Definition b_123 : N := 123.
Definition b_124 : N := 124.
Definition b_125 : N := 125.
Definition b_126 : N := 126.
Definition b_127 : N := 127.
Definition b_128 : N := 128.
Definition b_129 : N := 129.
Definition b_130 : N := 130.
Definition b_131 : N := 131.
Definition b_132 : N := 132.
Definition b_133 : N := 133.
Definition b_134 : N := 134.
Definition b_135 : N := 135.
Definition b_136 : N := 136.
Definition b_137 : N := 137.
Definition b_138 : N := 138.
Definition b_139 : N := 139.
Definition b_140 : N := 140.
Definition b_141 : N := 141.
Definition b_142 : N := 142.
Definition b_143 : N := 143.
Definition b_144 : N := 144.
Definition b_145 : N := 145.
Definition b_146 : N := 146.
Definition b_147 : N := 147.
Definition b_148 : N := 148.
Definition b_149 : N := 149.
Definition b_150 : N := 150.
Definition b_151 : N := 151.
Definition b_152 : N := 152.
Definition b_153 : N := 153.
Definition b_154 : N := 154.
Definition b_155 : N := 155.
Definition b_156 : N := 156.
Definition b_157 : N := 157.
Definition b_158 : N := 158.
Definition b_159 : N := 159.
Definition b_160 : N := 160.
Definition b_161 : N := 161.
Definition b_162 : N := 162.
Definition b_163 : N := 163.
Definition b_164 : N := 164.
Definition b_165 : N := 165.
Definition b_166 : N := 166.
Definition b_167 : N := 167.
Definition b_168 : N := 168.
Definition b_169 : N := 169.
Definition b_170 : N := 170.
Definition b_171 : N := 171.
Definition b_172 : N := 172.
Definition b_173 : N := 173.
Definition b_174 : N := 174.
Definition b_175 : N := 175.
Definition b_176 : N := 176.
Definition b_177 : N := 177.
Definition b_178 : N := 178.
Definition b_179 : N := 179.
Definition b_180 : N := 180.
Definition b_181 : N := 181.
Definition b_182 : N := 182.
Definition b_183 : N := 183.
Definition b_184 : N := 184.
Definition b_185 : N := 185.
Definition b_186 : N := 186.
Definition b_187 : N := 187.
Definition b_188 : N := 188.
Definition b_189 : N := 189.
Definition b_190 : N := 190.
Definition b_191 : N := 191.
Definition b_192 : N := 192.
Definition b_193 : N := 193.
Definition b_194 : N := 194.
Definition b_195 : N := 195.
Definition b_196 : N := 196.
Definition b_197 : N := 197.
Definition b_198 : N := 198.
Definition b_199 : N := 199.
Definition b_200 : N := 200.
Definition b_201 : N := 201.
Definition b_202 : N := 202.
Definition b_203 : N := 203.
Definition b_204 : N := 204.
Definition b_205 : N := 205.
Definition b_206 : N := 206.
Definition b_207 : N := 207.
Definition b_208 : N := 208.
Definition b_209 : N := 209.
Definition b_210 : N := 210.
Definition b_211 : N := 211.
Definition b_212 : N := 212.
Definition b_213 : N := 213.
Definition b_214 : N := 214.
Definition b_215 : N := 215.
Definition b_216 : N := 216.
Definition b_217 : N := 217.
Definition b_218 : N := 218.
Definition b_219 : N := 219.
Definition b_220 : N := 220.
Definition b_221 : N := 221.
Definition b_222 : N := 222.
Definition b_223 : N := 223.
Definition b_224 : N := 224.
Definition b_225 : N := 225.
Definition b_226 : N := 226.
Definition b_227 : N := 227.
Definition b_228 : N := 228.
Definition b_229 : N := 229.
Definition b_230 : N := 230.
Definition b_231 : N := 231.
Definition b_232 : N := 232.
Definition b_233 : N := 233.
Definition b_234 : N := 234.
Definition b_235 : N := 235.
Definition b_236 : N := 236.
Definition b_237 : N := 237.
Definition b_238 : N := 238.
Definition b_239 : N := 239.
Definition b_240 : N := 240.
Definition b_241 : N := 241.
Definition b_242 : N := 242.
Definition b_243 : N := 243.
Definition b_244 : N := 244.
Definition b_245 : N := 245.
Definition b_246 : N := 246.
Definition b_247 : N := 247.
Definition b_248 : N := 248.
Definition b_249 : N := 249.
Definition b_250 : N := 250.
Definition b_251 : N := 251.
Definition b_252 : N := 252.
Definition b_253 : N := 253.
Definition b_254 : N := 254.
Definition b_255 : N := 255.

Fixpoint bytes_eqb (a b : list N) : bool :=
  match a, b with
  | [], [] => true
  | x :: a', y :: b' => (x =? y) && bytes_eqb a' b'
  | _, _ => false
  end.

Definition obytes_eqb (a b : option (list N)) : bool :=
  match a, b with
  | None, None => true
  | Some x, Some y => bytes_eqb x y
  | _, _ => false
  end.

Fixpoint names_eqb (a b : list (list N)) : bool :=
  match a, b with
  | [], [] => true
  | x :: a', y :: b' => bytes_eqb x y && names_eqb a' b'
  | _, _ => false
  end.

Definition out_eqb (a b : out) : bool :=
  match a, b with
  | ON x, ON y => bytes_eqb x y
  | OL x, OL y => names_eqb x y
  | _, _ => false
  end.

Fixpoint outs_eqb (a b : list out) : bool :=
  match a, b with
  | [], [] => true
  | x :: a', y :: b' => out_eqb x y && outs_eqb a' b'
  | _, _ => false
  end.

Definition token_eqb (a b : token) : bool :=
  match a, b with
  | TRun x, TRun y => bytes_eqb x y
  | TStr x, TStr y => bytes_eqb x y
  | _, _ => false
  end.

Fixpoint tokens_eqb (a b : list token) : bool :=
  match a, b with
  | [], [] => true
  | x :: a', y :: b' => token_eqb x y && tokens_eqb a' b'
  | _, _ => false
  end.

Inductive case :=
| CRw (input : list N) (observed : option (list N)) (require_well_lexed : bool)
      (* observed = output of the real removeWhitespace, None = it panicked *)
| CAlloc (minify : bool) (ops : list op) (observed : option (list out)).

(* 0 = agrees; 1 = remove_ws differs from the implementation; 2 = a real Decl blob is outside
   [well_lexed] (the hypothesis of remove_ws_tokens); 3 = newVariable differs; 4 = the blob is
   well_lexed but the token streams differ (would contradict the theorem) *)
Definition case_code (c : case) : N :=
  match c with
  | CRw b obs req =>
      let wl := well_lexed b in
      if negb (obytes_eqb (remove_ws b) obs) then 1
      else if req && negb wl then 2
      else if wl then
        match obs with
        | Some o => match tokenize o, tokenize b with
                    | Some t1, Some t2 => if tokens_eqb t1 t2 then 0 else 4
                    | _, _ => 4
                    end
        | None => 4
        end
      else 0
  | CAlloc m ops obs =>
      match run_root m reserved_keywords ops, obs with
      | Some (os, _), Some os' => if outs_eqb os os' then 0 else 3
      | None, None => 0
      | _, _ => 3
      end
  end.

Fixpoint mismatches_from (i : N) (cs : list case) : list N :=
  match cs with
  | [] => []
  | c :: r => let k := case_code c in
              if k =? 0 then mismatches_from (N.succ i) r else (i * 8 + k) :: mismatches_from (N.succ i) r
  end.

Definition mismatches (cs : list case) : list N := mismatches_from 0 cs.

(* how many cases exercise which model branch (printed into the evidence) *)
Definition count_well_lexed (cs : list case) : N :=
  N.of_nat (length (filter (fun c => match c with CRw b _ _ => well_lexed b | _ => false end) cs)).
