(* C01 stage 2 — evaluation entry point for the correspondence check (no proofs).
   harness/py/props/c01.py writes case files that import this module. *)
From Coq Require Import ZArith List String Bool.
From Verif Require Import Model.C01_GoSem Model.C01_JsSem Model.C01_Compile Model.C01_Wf Corr.C01_Eval
  Model.C01_S2_GoSem Model.C01_S2_JsSem Model.C01_S2_Compile Model.C01_S2_Wf.
Import ListNotations.
Local Open Scope Z_scope.

Definition opt_eqb {A} (eqb : A -> A -> bool) (a b : option A) : bool :=
  match a, b with
  | None, None => true
  | Some x, Some y => eqb x y
  | _, _ => false
  end.

Fixpoint jstmt2_eqb (a b : jstmt2) {struct a} : bool :=
  let l := fix l (x y : list jstmt2) {struct x} : bool :=
    match x, y with
    | [], [] => true
    | p :: x', q :: y' => jstmt2_eqb p q && l x' y'
    | _, _ => false
    end in
  match a, b with
  | J2Base x, J2Base y => jstmt_eqb x y
  | J2Call d f x, J2Call d' f' y => opt_eqb name_eqb d d' && String.eqb f f' && list_eqb jexpr_eqb x y
  | J2If c t e, J2If c' t' e' =>
      jexpr_eqb c c' && l t t' &&
      match e, e' with
      | None, None => true
      | Some x, Some y => l x y
      | _, _ => false
      end
  | J2While x, J2While y => l x y
  | J2Return x, J2Return y => opt_eqb jexpr_eqb x y
  | _, _ => false
  end.

Definition jfn_vars_eqb (a b : fname * jfdef) : bool :=
  String.eqb (fst a) (fst b) && list_eqb name_eqb (jf_params (snd a)) (jf_params (snd b)) &&
  list_eqb name_eqb (jf_vars (snd a)) (jf_vars (snd b)).
Definition jfn_body_eqb (a b : fname * jfdef) : bool :=
  String.eqb (fst a) (fst b) && list_eqb jstmt2_eqb (jf_body (snd a)) (jf_body (snd b)).

Record case2 := {
  c2_prog : prog2;
  c2_parsed : jprog2;        (* the functions of the program parsed from the REAL out.js, in source order *)
  c2_node : outcome;
  c2_native : outcome;
  c2_fuel : nat
}.

(* [wf; names (function names, parameters, var lists); bodies; closed; run_js2 parsed = run_go2;
    run_js2 (compile2 p) = run_go2; node = run_go2; native = run_go2; class of run_go2] *)
Definition verdict2 (c : case2) : list N :=
  let p := c2_prog c in
  let cp := compile2 p in
  let g := run_go2 (c2_fuel c) p in
  [ b2n (wf_prog2 p);
    b2n (list_eqb jfn_vars_eqb (jp2_funcs (c2_parsed c)) (jp2_funcs cp) && String.eqb (jp2_main (c2_parsed c)) (jp2_main cp));
    b2n (list_eqb jfn_body_eqb (jp2_funcs (c2_parsed c)) (jp2_funcs cp));
    b2n (closedb2 (c2_parsed c));
    b2n (outcome_eqb (run_js2 (c2_fuel c) (c2_parsed c)) g);
    b2n (outcome_eqb (run_js2 (c2_fuel c) cp) g);
    b2n (outcome_eqb (c2_node c) g);
    b2n (outcome_eqb (c2_native c) g);
    match g with Done _ _ => 0 | OutOfFuel => 1 | Stuck => 2 end%N ].

Definition verdicts2 (cs : list case2) : list (list N) := map verdict2 cs.
