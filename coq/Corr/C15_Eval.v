(* C15 — evaluation entry points for the correspondence check (no proofs).
   harness/py/props/c15.py writes case files that import this module. *)
From Coq Require Import List ZArith NArith Bool.
From Verif Require Import Gen.C15_Tables Model.C15_Keys Model.C15_JsMap.
Import ListNotations.

(* structural equality of observations (NOT Go's ==: here NaN = NaN, +0 <> -0) *)
Fixpoint kty_eqb (a b : kty) {struct a} : bool :=
  match a with
  | TBool => match b with TBool => true | _ => false end
  | TInt => match b with TInt => true | _ => false end
  | TString => match b with TString => true | _ => false end
  | TFloat => match b with TFloat => true | _ => false end
  | T64 => match b with T64 => true | _ => false end
  | TComplex => match b with TComplex => true | _ => false end
  | TRef => match b with TRef => true | _ => false end
  | TIface => match b with TIface => true | _ => false end
  | TNoKey => match b with TNoKey => true | _ => false end
  | TArray n e => match b with TArray n' e' => Nat.eqb n n' && kty_eqb e e' | _ => false end
  | TStruct fs =>
      match b with
      | TStruct fs' =>
          (fix go (l l' : list (bool * kty)) {struct l} : bool :=
             match l, l' with
             | [], [] => true
             | (b, x) :: r, (b', y) :: r' => Bool.eqb b b' && kty_eqb x y && go r r'
             | _, _ => false
             end) fs fs'
      | _ => false
      end
  end.

Definition fl_same (a b : fl) : bool :=
  match a, b with FNaN, FNaN => true | FNum x, FNum y => Z.eqb x y | _, _ => false end.

Definition dyn_eqb (a b : dyn) : bool :=
  N.eqb (d_id a) (d_id b) && str_eqb (d_str a) (d_str b) && kty_eqb (d_shape a) (d_shape b).

Fixpoint val_eqb (a b : val) {struct a} : bool :=
  match a with
  | VBool x => match b with VBool y => Bool.eqb x y | _ => false end
  | VInt x => match b with VInt y => Z.eqb x y | _ => false end
  | VString x => match b with VString y => str_eqb x y | _ => false end
  | VFloat x => match b with VFloat y => fl_same x y | _ => false end
  | V64 h l => match b with V64 h' l' => Z.eqb h h' && Z.eqb l l' | _ => false end
  | VComplex r i => match b with VComplex r' i' => fl_same r r' && fl_same i i' | _ => false end
  | VRef r => match b with VRef r' => N.eqb r r' | _ => false end
  | VNil => match b with VNil => true | _ => false end
  | VDyn d x => match b with VDyn d' y => dyn_eqb d d' && val_eqb x y | _ => false end
  | VArr l =>
      match b with
      | VArr l' =>
          (fix go (l l' : list val) {struct l} : bool :=
             match l, l' with
             | [], [] => true
             | x :: r, y :: r' => val_eqb x y && go r r'
             | _, _ => false
             end) l l'
      | _ => false
      end
  | VStruct l =>
      match b with
      | VStruct l' =>
          (fix go (l l' : list val) {struct l} : bool :=
             match l, l' with
             | [], [] => true
             | x :: r, y :: r' => val_eqb x y && go r r'
             | _, _ => false
             end) l l'
      | _ => false
      end
  | VOpaque => match b with VOpaque => true | _ => false end
  end.

Fixpoint list_eqb {A B} (eqb : A -> B -> bool) (a : list A) (b : list B) : bool :=
  match a, b with
  | [], [] => true
  | x :: a', y :: b' => eqb x y && list_eqb eqb a' b'
  | _, _ => false
  end.

Definition key_same (a b : jskey) : bool :=
  match a, b with
  | KNum x, KNum y => Z.eqb x y
  | KBool x, KBool y => Bool.eqb x y
  | KStr x, KStr y => str_eqb x y
  | _, _ => false
  end.

Definition entry_eqb (a b : entry) : bool := val_eqb (fst a) (fst b) && Z.eqb (snd a) (snd b).
Definition slot_eqb (a b : jskey * entry) : bool := key_same (fst a) (fst b) && entry_eqb (snd a) (snd b).

Definition obs_eqb (a b : obs) : bool :=
  match a, b with
  | RUnit, RUnit | RNilMapPanic, RNilMapPanic | RNoKeyFor, RNoKeyFor => true
  | RVal x, RVal y => Z.eqb x y
  | RVal2 x o, RVal2 y o' => Z.eqb x y && Bool.eqb o o'
  | RLen x, RLen y => N.eqb x y
  | _, _ => false
  end.

(* number -> string table observed on the implementation for the floats of the case *)
Fixpoint nts_of (tbl : list (Z * str)) (b : Z) : str :=
  match tbl with
  | [] => []
  | (b', s) :: r => if Z.eqb b b' then s else nts_of r b
  end.

(* ---- histories.  To keep case files small the key values of a case are a pool, operations and
   observed entries refer to pool positions, and the observed JS keys are a table as well.
   Per operation: its observation, and (node driver only) the exact Map contents in insertion
   order (key, entry.k, entry.v) and $idCounter after it *)
Inductive iop :=
| ISet (k : N) (v : Z) | IGet (k : N) | IGet2 (k : N) | IDel (k : N) | ILen
| ILit (kvs : list (N * Z)) | INil.

Definition expect := (obs * option (list (N * N * Z) * N))%type.

(* the expectations come as one flat list of numbers (fast to parse):
   per operation  oc a b hs [n (ki pi v)*n ctr]   with oc the observation code *)
Fixpoint take_slots (n : nat) (l : list N) : list (N * N * Z) * list N :=
  match n with
  | O => ([], l)
  | S n' => match l with
            | ki :: pi :: v :: r => let (sl, r') := take_slots n' r in ((ki, pi, Z.of_N v) :: sl, r')
            | _ => ([], [])
            end
  end.

Fixpoint decode (fuel : nat) (l : list N) : list expect :=
  match fuel with
  | O => []
  | S f =>
      match l with
      | oc :: a :: b :: hs :: r =>
          let ob := match oc with
                    | 0 => RUnit | 1 => RVal (Z.of_N a) | 2 => RVal2 (Z.of_N a) (N.eqb b 1) | 3 => RLen a
                    | 4 => RNilMapPanic | 5 => RNoKeyFor | _ => RLen 77777
                    end%N in
          if N.eqb hs 1 then
            match r with
            | n :: r1 => let (sl, r2) := take_slots (N.to_nat n) r1 in
                         match r2 with
                         | ct :: r3 => (ob, Some (sl, ct)) :: decode f r3
                         | [] => []
                         end
            | [] => []
            end
          else (ob, None) :: decode f r
      | _ => []
      end
  end.

Record hcase := { h_t : kty; h_nts : list (Z * str); h_ctr : N; h_nil : bool;
                  h_pool : list val; h_keys : list jskey;
                  h_ops : list iop; h_expect_flat : list N }.

Definition h_expect (c : hcase) : list expect := decode (length (h_expect_flat c)) (h_expect_flat c).

Definition pool_get (p : list val) (i : N) : val := nth (N.to_nat i) p VOpaque.

Definition op_of (p : list val) (o : iop) : op :=
  match o with
  | ISet k v => OSet (pool_get p k) v
  | IGet k => OGet (pool_get p k)
  | IGet2 k => OGet2 (pool_get p k)
  | IDel k => ODel (pool_get p k)
  | ILen => OLen
  | ILit kvs => OLit (map (fun kv => (pool_get p (fst kv), snd kv)) kvs)
  | INil => OMakeNil
  end.

Definition slot_ok (c : hcase) (got : jskey * entry) (want : N * N * Z) : bool :=
  let '(ki, pi, v) := want in
  key_same (fst got) (nth (N.to_nat ki) (h_keys c) (KStr [])) &&
  val_eqb (fst (snd got)) (pool_get (h_pool c) pi) && Z.eqb (snd (snd got)) v.

Definition snap_ok (c : hcase) (got : snapshot) (want : expect) : bool :=
  let '(ob, live, ct) := got in
  obs_eqb ob (fst want) &&
  match snd want with
  | None => true
  | Some (live', ct') => list_eqb (slot_ok c) live live' && N.eqb ct ct'
  end.

Definition model_run (c : hcase) : list snapshot :=
  run (nts_of (h_nts c)) c15_iface_by_id (h_t c) (map (op_of (h_pool c)) (h_ops c))
      (if h_nil c then None else Some []) {| ctr := h_ctr c; ids := [] |}.

Definition hcase_ok (c : hcase) : bool :=
  Nat.eqb (length (h_expect c)) (length (h_ops c)) && list_eqb (snap_ok c) (model_run c) (h_expect c).

(* ---- range loops (compiled programs): map literal, body table (when handed pool key i, do these
   operations), then the visited pairs in order and the map's contents (in iteration order) afterwards *)
Record rcase := { r_t : kty; r_nts : list (Z * str); r_pool : list val; r_init : list (N * Z);
                  r_body : list (N * list iop);
                  r_visited : list (N * Z); r_final : list (N * Z) }.

Definition ent_ok (p : list val) (got : entry) (want : N * Z) : bool :=
  val_eqb (fst got) (pool_get p (fst want)) && Z.eqb (snd got) (snd want).

Definition rcase_ok (c : rcase) : bool :=
  let nts := nts_of (r_nts c) in
  let p := r_pool c in
  match make_map nts c15_iface_by_id (r_t c) (map (fun kv => (pool_get p (fst kv), snd kv)) (r_init c)) [] {| ctr := 0; ids := [] |} with
  | (Some jm, s) =>
      let tb := map (fun b => (pool_get p (fst b), map (op_of p) (snd b))) (r_body c) in
      let '(vis, m', _) := go_range nts c15_iface_by_id (r_t c) tb (Some jm) s in
      list_eqb (ent_ok p) vis (r_visited c) && list_eqb (ent_ok p) (map snd (live_of m')) (r_final c)
  | (None, _) => false
  end.

(* ---- range loops that bind no variable (`for range m`, `for _, _ = range m`): the body cannot depend on the
   entry, it is a list of operations per iteration number; observed: the number of iterations and the
   contents afterwards.  The emitted loop is the same one (range_over). *)
Record icase := { i_t : kty; i_nts : list (Z * str); i_pool : list val; i_init : list (N * Z);
                  i_body : list (list iop); i_iters : N; i_final : list (N * Z) }.

Definition idx_body (nts : Z -> str) (t : kty) (tbi : list (list op)) (s : st * nat) (key : jskey) (e : entry)
  : (st * nat) * list (mop jskey entry) :=
  let (s0, n) := s in
  let (ms, s') := ops_to_mops nts c15_iface_by_id t (nth n tbi []) s0 in ((s', S n), ms).

Definition icase_ok (c : icase) : bool :=
  let nts := nts_of (i_nts c) in
  let p := i_pool c in
  match make_map nts c15_iface_by_id (i_t c) (map (fun kv => (pool_get p (fst kv), snd kv)) (i_init c)) [] {| ctr := 0; ids := [] |} with
  | (Some jm, s) =>
      let tbi := map (map (op_of p)) (i_body c) in
      let '(ev, jm', _) := range_over jskey_eqb (idx_body nts (i_t c) tbi) jm (s, O) in
      N.eqb (N.of_nat (length (filter (fun e => match e with EVisit _ _ => true | _ => false end) ev))) (i_iters c) &&
      list_eqb (ent_ok p) (map snd (m_live jm')) (i_final c)
  | (None, _) => false
  end.

Section Mis.
Context {A : Type} (ok : A -> bool).
Fixpoint mismatches_from (i : N) (cs : list A) : list N :=
  match cs with
  | [] => []
  | c :: r => if ok c then mismatches_from (N.succ i) r else i :: mismatches_from (N.succ i) r
  end.
End Mis.

Definition mismatches_h (cs : list hcase) : list N := mismatches_from hcase_ok 0 cs.
Definition mismatches_r (cs : list rcase) : list N := mismatches_from rcase_ok 0 cs.
Definition mismatches_i (cs : list icase) : list N := mismatches_from icase_ok 0 cs.

