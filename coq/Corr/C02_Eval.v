(* C02 — evaluation entry points for the correspondence check (no proofs).
   harness/py/props/c02.py writes cases files that import this module. *)
From Coq Require Import List ZArith Bool Arith.
From Verif Require Import Model.C02_Blocking Model.C02_Flat Model.C02_Wf Model.C02_Hoist.
Import ListNotations.

Fixpoint list_eqb {A} (eqb : A -> A -> bool) (a b : list A) : bool :=
  match a, b with
  | [], [] => true
  | x :: a', y :: b' => eqb x y && list_eqb eqb a' b'
  | _, _ => false
  end.

Definition tok_eqb (a b : tok) : bool :=
  match a, b with
  | TL x, TL y | TG x, TG y | TC x, TC y => Nat.eqb x y
  | TR, TR => true
  | TP, TP => true
  | _, _ => false
  end.

Definition FUEL : nat := 6000.

(* a finite schedule prefix, `false` afterwards; [None] = suspend at every receive *)
Definition sched_of (s : option (list bool)) : nat -> bool :=
  match s with
  | Some l => fun i => nth i l false
  | None => fun _ => true
  end.

(* ---- programs of the modelled fragment ---- *)
Record pcase := {
  pc_prog : sprog;               (* all marks false, as generated *)
  pc_nglob : nat;
  pc_main : fname;
  pc_args : list Z;
  pc_out : list Z;               (* observed (real compiler + node): printed values of one run *)
  pc_ret : Z;                    (* observed returned value *)
  pc_blocking : list bool;       (* observed Decl.Blocking of f0..fn-1 *)
  pc_skel : list (option (list tok));  (* observed skeleton of each function's emitted body (None = direct form) *)
  pc_live : list bool;           (* the function survived dead-code elimination, i.e. its code is in out.js *)
  pc_scheds : list (option (list bool))
}.

(* bit 1: run_direct differs from the observation        bit 2: run_flat (compile p) under some schedule differs from run_direct
   bit 4: model fixpoint differs from Decl.Blocking       bit 8: model flatten differs from the emitted code's skeleton
   bit 16: the model ran out of fuel
   bit 32: compile p is not well-formed (Model/C02_Wf.v) — the hypothesis of the schedule-independence theorem
   bit 64: the generated program does not satisfy [src_ok] — the hypothesis of compile_wf *)
Definition obs_eqb (a : option (list Z * Z * list Z)) (out : list Z) (ret : Z) : bool :=
  match a with
  | Some (o, v, _) => list_eqb Z.eqb o out && Z.eqb v ret
  | None => false
  end.

Definition obs_same (a b : option (list Z * Z * list Z)) : bool :=
  match a, b with
  | Some (o, v, g), Some (o', v', g') => list_eqb Z.eqb o o' && Z.eqb v v' && list_eqb Z.eqb g g'
  | _, _ => false
  end.

Definition skel_opt_eqb (a b : option (list tok)) : bool :=
  match a, b with
  | None, None => true
  | Some x, Some y => list_eqb tok_eqb x y
  | _, _ => false
  end.

Fixpoint skels_ok (m o : list (option (list tok))) (live : list bool) : bool :=
  match m, o, live with
  | [], [], [] => true
  | x :: m', y :: o', l :: live' => (if l then skel_opt_eqb x y else true) && skels_ok m' o' live'
  | _, _, _ => false
  end.

Definition pcase_code (c : pcase) : nat :=
  let d := run_direct (pc_prog c) (pc_nglob c) FUEL (pc_main c) (pc_args c) in
  let fp := compile (pc_prog c) in
  let b1 := if obs_eqb d (pc_out c) (pc_ret c) then 0 else 1 in
  let b2 := if forallb (fun s => obs_same (run_flat fp (sched_of s) (pc_nglob c) FUEL (pc_main c) (pc_args c)) d) (pc_scheds c)
            then 0 else 2 in
  let b4 := if list_eqb Bool.eqb (blocking_flags (pc_prog c)) (pc_blocking c) then 0 else 4 in
  let b8 := if skels_ok (map skel_fn fp) (pc_skel c) (pc_live c) then 0 else 8 in
  let b16 := match d with None => 16 | Some _ => 0 end in
  let b32 := if wf_progb fp then 0 else 32 in
  let b64 := if src_ok (pc_prog c) then 0 else 64 in
  b1 + b2 + b4 + b8 + b16 + b32 + b64.

Fixpoint pmismatches_from (i : nat) (cs : list pcase) : list (nat * nat) :=
  match cs with
  | [] => []
  | c :: r => let k := pcase_code c in
              if Nat.eqb k 0 then pmismatches_from (S i) r else (i, k) :: pmismatches_from (S i) r
  end.

Definition pmismatches (cs : list pcase) : list (nat * nat) := pmismatches_from 0 cs.

(* what the model says, for replay files *)
Definition pcase_model (c : pcase) :=
  (run_direct (pc_prog c) (pc_nglob c) FUEL (pc_main c) (pc_args c),
   blocking_flags (pc_prog c),
   map skel_fn (compile (pc_prog c))).

(* ---- call graphs of the programs outside the modelled fragment ---- *)
Record gcase := { gc_graph : graph; gc_blocking : list bool }.

(* only declared functions have a Decl; function literals are the trailing nodes of the graph *)
Definition gcase_ok (c : gcase) : bool :=
  list_eqb Bool.eqb (firstn (length (gc_blocking c)) (propagate (gc_graph c))) (gc_blocking c).

Fixpoint gmismatches_from (i : nat) (cs : list gcase) : list nat :=
  match cs with
  | [] => []
  | c :: r => if gcase_ok c then gmismatches_from (S i) r else i :: gmismatches_from (S i) r
  end.

Definition gmismatches_named (cs : list gcase) : list nat := gmismatches_from 0 cs.

(* ---- expression statements: order in which the calls run (Model/C02_Hoist.v, contains the recorded defects) ---- *)
Inductive hstmt := HAssign (e : hexpr) | HIndexAssign (idx rhs : hexpr) | HDelegated (args : list hexpr).
Record hcase := { hc_stmt : hstmt; hc_trace : list nat }.

Definition hmodel (s : hstmt) : list nat :=
  match s with HAssign e => trace_assign e | HIndexAssign i r => trace_index_assign i r | HDelegated a => trace_delegated a end.

Definition hcase_ok (c : hcase) : bool := list_eqb Nat.eqb (hmodel (hc_stmt c)) (hc_trace c).

Fixpoint hmismatches_from (i : nat) (cs : list hcase) : list nat :=
  match cs with
  | [] => []
  | c :: r => if hcase_ok c then hmismatches_from (S i) r else i :: hmismatches_from (S i) r
  end.

Definition hmismatches (cs : list hcase) : list nat := hmismatches_from 0 cs.
