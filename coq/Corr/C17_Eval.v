(* C17 — evaluation entry point for the correspondence check (no proofs).
   harness/py/props/c17.py writes cases files that import this module; every case carries the
   input given to the real code and what the real code returned. *)
From Coq Require Import List NArith Bool Arith.
From Verif Require Import Model.C17_Order.
Import ListNotations.

Fixpoint list_eqb {A} (eqb : A -> A -> bool) (a b : list A) : bool :=
  match a, b with
  | [], [] => true
  | x :: a', y :: b' => eqb x y && list_eqb eqb a' b'
  | _, _ => false
  end.

Definition keyed_eqb (a b : keyed) : bool := str_eqb (fst a) (fst b) && N.eqb (snd a) (snd b).
Definition strs_eqb := list_eqb str_eqb.
Definition obs_eqb (a b : list (N * list N)) : bool :=
  list_eqb (fun x y => N.eqb (fst x) (fst y) && list_eqb N.eqb (snd x) (snd y)) a b.

(* membership comparison of two value lists (both are duplicate free by construction) *)
Definition same_members (a b : list N) : bool :=
  forallb (fun x => n_mem x b) a && forallb (fun x => n_mem x a) b.
Definition obs_same_members (a b : list (N * list N)) : bool :=
  list_eqb (fun x y => N.eqb (fst x) (fst y) && same_members (snd x) (snd y)) a b.

Inductive case :=
  (* exact = keys pairwise distinct, or n <= 12 (Go's sort IS the insertion sort then) *)
| CFiles (exact : bool) (input observed : list keyed)
| CSources (exact : bool) (input observed : list keyed)
| CStrings (input observed : list str)
| CUnres (skip : list str) (files : list (list str)) (observed : list str)
| CDeps (names observed : list str)
  (* import list of one package as printed in out.js *)
| CImports (observed : list keyed)
  (* real Collector.propagate called in the order [sched] from the seeds *)
| CSched (fuel : nat) (seeds : list inst) (scan : scan_table) (sched pkgs : list N) (observed : list (N * list N))
  (* real Collector.Finish: membership always; exact ids when [exact] (the implementation was seen to be deterministic) *)
| CFinish (exact : bool) (fuel : nat) (paths : list str) (seeds : list inst) (scan : scan_table) (pkgs : list N)
          (observed : list (N * list N)).

Definition path_of (paths : list str) (k : N) : str := nth (N.to_nat k) paths [].

Definition case_ok (c : case) : bool :=
  match c with
  | CFiles exact i o =>
      if exact then list_eqb keyed_eqb (sort_files i) o else strs_eqb (map fst (sort_files i)) (map fst o)
  | CSources exact i o =>
      if exact then list_eqb keyed_eqb (sort_sources i) o else strs_eqb (map fst (sort_sources i)) (map fst o)
  | CStrings i o => strs_eqb (sort_strings i) o
  | CUnres skip files o => strs_eqb (unresolved_imports skip files) o
  | CDeps names o => strs_eqb (get_deps (rev (dep_set names))) o && strs_eqb (get_deps (dep_set names)) o
  | CImports o => list_eqb keyed_eqb (sort_imports (rev o)) o && list_eqb keyed_eqb (sort_imports o) o
  | CSched fuel seeds scan sched pkgs o =>
      obs_eqb (observe pkgs (run_schedule fuel scan sched (seed seeds))) o
  | CFinish exact fuel paths seeds scan pkgs o =>
      let m := finish_sorted fuel fuel (path_of paths) scan (seed seeds) in
      all_exhausted m &&
      (if exact then obs_eqb (observe pkgs m) o else obs_same_members (observe pkgs m) o)
  end.

Fixpoint mismatches_from (i : N) (cs : list case) : list N :=
  match cs with
  | [] => []
  | c :: r => if case_ok c then mismatches_from (N.succ i) r else i :: mismatches_from (N.succ i) r
  end.

Definition mismatches (cs : list case) : list N := mismatches_from 0 cs.
