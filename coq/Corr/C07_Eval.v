(* C07 — evaluation entry point for the correspondence check (no proofs).
   harness/py/props/c07.py writes cases files that import this module: every case carries the op sequence
   and what the REAL prelude produced (status of every op, canonical snapshot of all registers). *)
From Coq Require Import List ZArith Bool Arith.
From Verif Require Import Model.C07_Heap Model.C07_Ops.
Import ListNotations.

Fixpoint list_eqb {A} (eqb : A -> A -> bool) (a b : list A) : bool :=
  match a, b with
  | [], [] => true
  | x :: a', y :: b' => eqb x y && list_eqb eqb a' b'
  | _, _ => false
  end.

Fixpoint snap_eqb (a b : snap) {struct a} : bool :=
  match a, b with
  | SLeaf x, SLeaf y => Z.eqb x y
  | SSeen i, SSeen j => Nat.eqb i j
  | SNode i k es, SNode j k' es' =>
      Nat.eqb i j && Nat.eqb k k' &&
      (fix go (xs ys : list snap) : bool :=
         match xs, ys with
         | [], [] => true
         | x :: xr, y :: yr => snap_eqb x y && go xr yr
         | _, _ => false
         end) es es'
  | _, _ => false
  end.

Definition ssnap_eqb (a b : ssnap) : bool :=
  match a, b with
  | SSNil, SSNil => true
  | SSl x o l c, SSl y o' l' c' => snap_eqb x y && Z.eqb o o' && Z.eqb l l' && Z.eqb c c'
  | _, _ => false
  end.

Definition status_eqb (a b : status) : bool :=
  match a, b with
  | StOk, StOk | StErr, StErr | StSkip, StSkip => true
  | StN x, StN y => Z.eqb x y
  | _, _ => false
  end.

Record case := { c_ops : list op; c_status : list status; c_vsnap : list snap; c_ssnap : list ssnap }.

Definition case_ok (c : case) : bool :=
  let '(st, ss) := run init_state (c_ops c) in
  let '(vs, sl) := snapshot st in
  list_eqb status_eqb ss (c_status c) && list_eqb snap_eqb vs (c_vsnap c) && list_eqb ssnap_eqb sl (c_ssnap c).

Fixpoint mismatches_from (i : N) (cs : list case) : list N :=
  match cs with
  | [] => []
  | c :: r => if case_ok c then mismatches_from (N.succ i) r else i :: mismatches_from (N.succ i) r
  end.

Definition mismatches (cs : list case) : list N := mismatches_from 0 cs.
