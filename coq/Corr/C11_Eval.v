(* C11 — evaluation entry points for the correspondence check (no proofs).
   harness/py/props/c11.py writes cases files that import this module: each case is one conversion
   observed on the real prelude (input and observed output); [verdicts] says per case whether the model
   agrees (0), disagrees (1) or abstains because the input is outside the modelled domain (2). *)
From Coq Require Import List ZArith Bool.
From Verif Require Import Model.C11_JsMapping.
Import ListNotations.
Local Open Scope Z_scope.

Definition num_eqb (a b : num) : bool :=
  match a, b with
  | NumZ x, NumZ y => x =? y
  | NegZero, NegZero | NaN, NaN | PInf, PInf | MInf, MInf => true
  | Dyadic m e, Dyadic m' e' => (m =? m') && Pos.eqb e e'
  | _, _ => false
  end.

Definition list_eqb {A} (eqb : A -> A -> bool) : list A -> list A -> bool :=
  fix go (a b : list A) : bool :=
  match a, b with
  | [], [] => true
  | x :: a', y :: b' => eqb x y && go a' b'
  | _, _ => false
  end.

Definition tkind_eqb (a b : tkind) : bool :=
  match a, b with
  | I8, I8 | I16, I16 | I32, I32 | U8, U8 | U16, U16 | U32, U32 | F32, F32 | F64, F64 => true
  | _, _ => false
  end.

Definition kind_eqb (a b : kind) : bool :=
  match a, b with
  | KBool, KBool | KInt, KInt | KInt8, KInt8 | KInt16, KInt16 | KInt32, KInt32 | KInt64, KInt64
  | KUint, KUint | KUint8, KUint8 | KUint16, KUint16 | KUint32, KUint32 | KUint64, KUint64 | KUintptr, KUintptr
  | KFloat32, KFloat32 | KFloat64, KFloat64 | KString, KString => true
  | _, _ => false
  end.

Fixpoint jsval_eqb (a b : jsval) {struct a} : bool :=
  match a, b with
  | JUndef, JUndef | JNull, JNull => true
  | JBool x, JBool y => Bool.eqb x y
  | JNum x, JNum y => num_eqb x y
  | JStr x, JStr y => ustr_eqb x y
  | JArr x, JArr y => list_eqb jsval_eqb x y
  | JTyped k x, JTyped k' y => tkind_eqb k k' && list_eqb num_eqb x y
  | JObj x, JObj y =>
      (fix go (x : list (ustr * jsval)) (y : list (ustr * jsval)) {struct x} : bool :=
         match x, y with
         | [], [] => true
         | (k, v) :: x', (k', v') :: y' => ustr_eqb k k' && jsval_eqb v v' && go x' y'
         | _, _ => false
         end) x y
  | JFun x, JFun y => x =? y
  | _, _ => false
  end.

Fixpoint gtype_eqb (a b : gtype) {struct a} : bool :=
  match a, b with
  | TB x, TB y => kind_eqb x y
  | TSlice x, TSlice y => gtype_eqb x y
  | TArray n x, TArray m y => Nat.eqb n m && gtype_eqb x y
  | TMap x, TMap y => gtype_eqb x y
  | TStruct x, TStruct y =>
      (fix go (x y : list (ustr * bool * gtype)) {struct x} : bool :=
         match x, y with
         | [], [] => true
         | (n, e, t) :: x', (n', e', t') :: y' => ustr_eqb n n' && Bool.eqb e e' && gtype_eqb t t' && go x' y'
         | _, _ => false
         end) x y
  | TPtr x, TPtr y => gtype_eqb x y
  | TIface, TIface | TIfaceM, TIfaceM | TJsObj, TJsObj | TFuncAny, TFuncAny => true
  | _, _ => false
  end.

Definition backing_eqb (a b : backing) : bool :=
  match a, b with
  | BTyped x, BTyped y => tkind_eqb x y
  | BPlain, BPlain => true
  | _, _ => false
  end.

Fixpoint gval_eqb (a b : gval) {struct a} : bool :=
  match a, b with
  | GBool x, GBool y => Bool.eqb x y
  | GNum x, GNum y => num_eqb x y
  | G64 h l, G64 h' l' => (h =? h') && (l =? l')
  | GStr x, GStr y => ustr_eqb x y
  | GSlice None, GSlice None => true
  | GSlice (Some x), GSlice (Some y) => list_eqb gval_eqb x y
  | GArr bx x, GArr by_ y => backing_eqb bx by_ && list_eqb gval_eqb x y
  | GMap None, GMap None => true
  | GMap (Some x), GMap (Some y) =>
      (fix go (x : list (ustr * gval)) (y : list (ustr * gval)) {struct x} : bool :=
         match x, y with
         | [], [] => true
         | (k, v) :: x', (k', v') :: y' => ustr_eqb k k' && gval_eqb v v' && go x' y'
         | _, _ => false
         end) x y
  | GStruct x, GStruct y => list_eqb gval_eqb x y
  | GPtr None, GPtr None => true
  | GPtr (Some x), GPtr (Some y) => gval_eqb x y
  | GIface None, GIface None => true
  | GIface (Some (t, x)), GIface (Some (t', y)) => gtype_eqb t t' && gval_eqb x y
  | GJs x, GJs y => jsval_eqb x y
  | GFunJs x, GFunJs y => x =? y
  | _, _ => false
  end.

Definition err_eqb (a b : err) : bool :=
  match a, b with
  | ECannotExternalize, ECannotExternalize | ECannotInternalize, ECannotInternalize | EArraySize, EArraySize
  | ENullAsArray, ENullAsArray | EJsTypeError, EJsTypeError => true
  | _, _ => false
  end.

(* 0 = agree, 1 = disagree, 2 = model abstains *)
Definition verdict {A} (eqb : A -> A -> bool) (model observed : res A) : Z :=
  match model, observed with
  | Unm, _ => 2
  | Ok a, Ok b => if eqb a b then 0 else 1
  | Throw e, Throw e' => if err_eqb e e' then 0 else 1
  | _, _ => 1
  end.

(* JS objects and Go maps are compared as finite maps: the observation is brought into the model's canonical form *)
Fixpoint canon_js (j : jsval) : jsval :=
  match j with
  | JArr l => JArr (map canon_js l)
  | JObj kvs => JObj (assoc_of_list (map (fun kv => match kv with (k, v) => (k, canon_js v) end) kvs))
  | _ => j
  end.

Fixpoint canon_g (v : gval) : gval :=
  match v with
  | GSlice (Some l) => GSlice (Some (map canon_g l))
  | GArr b l => GArr b (map canon_g l)
  | GMap (Some kvs) => GMap (Some (assoc_of_list (map (fun kv => match kv with (k, x) => (k, canon_g x) end) kvs)))
  | GStruct l => GStruct (map canon_g l)
  | GPtr (Some x) => GPtr (Some (canon_g x))
  | GIface (Some (t, x)) => GIface (Some (t, canon_g x))
  | GJs j => GJs (canon_js j)
  | _ => v
  end.

Definition canon_res {A} (f : A -> A) (r : res A) : res A := match r with Ok a => Ok (f a) | _ => r end.

Inductive case :=
| CExt (t : gtype) (v : gval) (observed : res jsval)          (* $externalize(v, t) *)
| CInt (t : gtype) (j : jsval) (observed : res gval)          (* $internalize(j, t) *)
| CAcc (t : gtype) (j : jsval) (observed : res gval)          (* compiled accessor / js-tagged field read *)
| CFwd (t : gtype) (j : jsval) (g : gval) (observed : res jsval).  (* $externalize($internalize(j, t), t); g = observed intermediate *)

Definition case_verdict (c : case) : Z :=
  match c with
  | CExt t v o => verdict jsval_eqb (canon_res canon_js (externalize t v)) (canon_res canon_js o)
  | CInt t j o => verdict gval_eqb (canon_res canon_g (internalize t j)) (canon_res canon_g o)
  | CAcc t j o => verdict gval_eqb (canon_res canon_g (compiled_internalize t j)) (canon_res canon_g o)
  | CFwd t j g o =>
      match internalize t j with
      | Unm => 2           (* the intermediate Go value is outside the model: its transport is not trusted either *)
      | _ => verdict jsval_eqb (canon_res canon_js (externalize t g)) (canon_res canon_js o)
      end
  end.

Definition verdicts (cs : list case) : list Z := map case_verdict cs.

(* indices (from 0) of the cases with the given verdict *)
Fixpoint indices_from (i : Z) (want : Z) (vs : list Z) : list Z :=
  match vs with
  | [] => []
  | v :: r => if v =? want then i :: indices_from (i + 1) want r else indices_from (i + 1) want r
  end.

Definition mismatches (cs : list case) : list Z := indices_from 0 1 (verdicts cs).
Definition abstained (cs : list case) : list Z := indices_from 0 2 (verdicts cs).

(* wrapper cache / guard traces *)
Fixpoint run_externalize_functions (s : fstate) (fs : list (option Z)) : list jsval :=
  match fs with
  | [] => []
  | f :: r => let '(j, s') := externalize_function s f in j :: run_externalize_functions s' r
  end.
