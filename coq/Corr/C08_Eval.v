(* C08 — evaluation entry points for the correspondence check (no proofs).
   harness/py/props/c08.py writes case files that import this module. *)
From Coq Require Import List ZArith Bool Arith NArith.
From Verif Require Import Model.C08_Guards Model.C08_Guards2 Model.C08_Panic Gen.C08_Consts.
Import ListNotations.
Local Open Scope Z_scope.

Fixpoint zlist_eqb (a b : list Z) : bool :=
  match a, b with
  | [], [] => true
  | x :: a', y :: b' => (x =? y) && zlist_eqb a' b'
  | _, _ => false
  end.

Definition gres_eqb (a b : gres) : bool :=
  match a, b with
  | GThrow, GThrow => true
  | GOk x, GOk y => zlist_eqb x y
  | _, _ => false
  end.

(* ---- part A: a guard case = op code, operands, the observed result -------- *)
Record gcase := { g_op : Z; g_args : list Z; g_expect : gres }.

(* 0 = agrees; 1 = model disagrees with the observation; 2 = bad op *)
Definition gcase_model_ok (c : gcase) : bool :=
  match (match impl_op_v gen_substring_defaults_high gen_string_index_checked (g_op c) (g_args c) with
         | Some r => Some r
         | None => impl_op (g_op c) (g_args c) end) with
  | Some r => gres_eqb r (g_expect c)
  | None => false
  end.
(* does the specification predicate agree with the observation? *)
Definition gcase_spec_ok (c : gcase) : bool :=
  match spec_op (g_op c) (g_args c) with
  | Some r => gres_eqb r (g_expect c)
  | None => false
  end.

Fixpoint idx_where {A} (f : A -> bool) (i : N) (cs : list A) : list N :=
  match cs with
  | [] => []
  | c :: r => if f c then idx_where f (N.succ i) r else i :: idx_where f (N.succ i) r
  end.

Definition gmismatches (cs : list gcase) : list N := idx_where gcase_model_ok 0%N cs.
Definition gspec_mismatches (cs : list gcase) : list N := idx_where gcase_spec_ok 0%N cs.

(* ---- part B: a defer program and the observed (trace, final) -------------- *)
(* run-time error kinds are observed through their message: kinds 3/4 (nil pointer, nil func) and
   8/9 (negative / oversized make) print the same text *)
Definition rt_class (k : N) : N := match k with 4%N => 3%N | 9%N => 8%N | 14%N => 13%N | 15%N => 7%N | _ => k end.
Definition pval_eqb (a b : pval) : bool :=
  match a, b with
  | PInt x, PInt y => x =? y
  | PRt x, PRt y => N.eqb (rt_class x) (rt_class y)
  | PJsErr, PJsErr => true
  | _, _ => false
  end.
Definition event_eqb (a b : event) : bool :=
  match a, b with
  | ETrace x, ETrace y => x =? y
  | ETraceX x r, ETraceX y q => (x =? y) && (r =? q)
  | ERec None, ERec None => true
  | ERec (Some x), ERec (Some y) => pval_eqb x y
  | EPush a k, EPush b j => Nat.eqb a b && Nat.eqb k j
  | ERun a k, ERun b j => Nat.eqb a b && Nat.eqb k j
  | _, _ => false
  end.
Fixpoint events_eqb (a b : list event) : bool :=
  match a, b with
  | [], [] => true
  | x :: a', y :: b' => event_eqb x y && events_eqb a' b'
  | _, _ => false
  end.
Definition final_eqb (a b : final) : bool :=
  match a, b with
  | FNormal, FNormal => true
  | FFatal x, FFatal y => pval_eqb x y
  | FCrash, FCrash => true
  | _, _ => false
  end.
Definition result_eqb (a b : option (list event * final)) : bool :=
  match a, b with
  | Some (t, f), Some (u, g) => events_eqb t u && final_eqb f g
  | _, _ => false
  end.

Definition FUEL : nat := 4000.

(* the shape of the tree, as probed by the check (Gen/C08_Consts.v) *)
Definition cur_variant : variant :=
  {| v_goexit_rethrow := gen_goexit_rethrow; v_pushback_asleep_only := gen_pushback_asleep_only;
     v_exit_swallows_null_only := gen_exit_swallows_null_only |}.

(* observed: what the compiled program did under node (b_impl) and what native Go
   did (b_go).  b_use_go = false when native Go was not run for this program. *)
Record bcase := { b_prog : program; b_impl : list event * final; b_go : list event * final; b_use_go : bool }.

Definition bcase_impl_ok (c : bcase) : bool :=
  result_eqb (obs (impl_run cur_variant FUEL (b_prog c))) (Some (b_impl c)).
Definition bcase_spec_ok (c : bcase) : bool :=
  negb (b_use_go c) || result_eqb (obs (spec_run FUEL (b_prog c))) (Some (b_go c)).
(* do the two models agree with each other on this program? (used to classify) *)
Definition bcase_models_agree (c : bcase) : bool :=
  result_eqb (obs (impl_run cur_variant FUEL (b_prog c))) (obs (spec_run FUEL (b_prog c))).

Definition bmismatches_impl (cs : list bcase) : list N := idx_where bcase_impl_ok 0%N cs.
Definition bmismatches_spec (cs : list bcase) : list N := idx_where bcase_spec_ok 0%N cs.
Definition bmodels_differ (cs : list bcase) : list N := idx_where bcase_models_agree 0%N cs.

(* which recorded finding explains a program on which the current shape differs from SpecPanic:
   0 none needed (models agree); 1 the replaced-panic repair alone makes them agree; 2 the
   $goroutine catch-clause repair alone; 3 the Goexit repair alone; 4 all repairs together; 5 unexplained *)
Definition bclass (c : bcase) : N :=
  let sp := obs (spec_run FUEL (b_prog c)) in
  let agree v := result_eqb (obs (impl_run v FUEL (b_prog c))) sp in
  let cv := cur_variant in
  if agree cv then 0%N
  else if agree {| v_goexit_rethrow := v_goexit_rethrow cv; v_pushback_asleep_only := true; v_exit_swallows_null_only := v_exit_swallows_null_only cv |} then 1%N
  else if agree {| v_goexit_rethrow := v_goexit_rethrow cv; v_pushback_asleep_only := v_pushback_asleep_only cv; v_exit_swallows_null_only := true |} then 2%N
  else if agree {| v_goexit_rethrow := true; v_pushback_asleep_only := v_pushback_asleep_only cv; v_exit_swallows_null_only := v_exit_swallows_null_only cv |} then 3%N
  else if agree V_FULL then 4%N else 5%N.
Definition bclasses (cs : list bcase) : list N := map bclass cs.
(* indices of the cases in the classes of blocked-deferred-panic-recovered-by-caller-continues (A) and
   replaced-panic-resurrected-when-deferred-call-blocks (B) *)
Definition bblockflags (cs : list bcase) : list N := idx_where (fun c => negb (fst (fst (spec_blockflags FUEL (b_prog c))))) 0%N cs.
Definition bblockflags2 (cs : list bcase) : list N := idx_where (fun c => negb (snd (fst (spec_blockflags FUEL (b_prog c))))) 0%N cs.
Definition bblockflags3 (cs : list bcase) : list N := idx_where (fun c => negb (snd (spec_blockflags FUEL (b_prog c)))) 0%N cs.

(* dynamic features of the specification run that delimit the two recorded
   findings: a Goexit was executed; a panic was raised by a deferred call while
   its activation was already panicking (replaced panic). *)
Fixpoint has_goexit (fuel : nat) (ss : list stmt) : bool :=
  match fuel with O => false | S f =>
  existsb (fun s => match s with
                    | SGoexit => true
                    | SCallClo b | SDeferClo b => has_goexit f b
                    | _ => false end) ss
  end.
Definition prog_has_goexit (p : program) : bool := existsb (has_goexit 50) p.

(* ---- phase 4 ---------------------------------------------------------------- *)
(* part A: the value-shape guards (nil map store / read, nil struct pointer, $assertType) *)
Definition gcase2_model_ok (c : gcase) : bool :=
  match impl_op2 (g_op c) (g_args c) with
  | Some r => gres_eqb r (g_expect c)
  | None => false
  end.
Definition gmismatches2 (cs : list gcase) : list N := idx_where gcase2_model_ok 0%N cs.

(* part B: what C08_run_ends_clean / C08_defer_lifo_exactly_once state about the final state of ImplPanic,
   evaluated on the generated programs (out of fuel: no claim) *)
Definition impl_clean (vr : variant) (fuel : nat) (p : program) : bool :=
  match impl_fun vr fuel p 0 0 wrapper j_init with
  | None => true
  | Some (_, s) =>
      match j_deferStack s, j_panicStack s with
      | [], [] => (j_offset s =? 0) &&
                  forallb (fun e => match list_get (j_lists s) (fst e) with [] => true | _ => false end) (j_lists s)
      | _, _ => false
      end
  end.
Definition bunclean (cs : list bcase) : list N := idx_where (fun c => impl_clean cur_variant FUEL (b_prog c)) 0%N cs.
