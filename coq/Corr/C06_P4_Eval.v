(* C06 phase 4 — evaluation entry points for the float64 <-> 64-bit conversion correspondence (no proofs).
   The REGENERATED templates (Gen/C06_Tables.v: g_conv_fo = what the compiler emits for int64(x)/uint64(x) of a
   float64 x, g_conv_of = what it emits for float64(v) of a 64-bit v) are evaluated on the inputs the real
   constructors / the real $flatten64 were run on. *)
From Coq Require Import ZArith Bool List.
From Verif Require Import Base.C06_JsNum Model.C06_Prelude64 Model.C06_Spec Gen.C06_Tables Model.C06_Templates Model.C06_P4_Conv.
Import ListNotations.
Local Open Scope Z_scope.

Definition kind64 (sg : bool) : kind := if sg then Int64 else Uint64.

(* rows: (signed, n, d, high, low): the real `new $Int64/$Uint64(0, n/d)` gave (high, low) *)
Definition fo_model (sg : bool) (n d : Z) : option (Z * Z) :=
  match g_conv_fo (kind64 sg) with
  | Some f => match f (jreal n d) with Ret (O64 _ h l) => Some (h, l) | _ => None end
  | None => None
  end.
Fixpoint bad_fo_from (i : N) (rows : list (bool * Z * Z * Z * Z)) : list N :=
  match rows with
  | [] => []
  | (sg, n, d, h, l) :: r =>
      let ok := match fo_model sg n d with Some (h', l') => (h =? h') && (l =? l') | None => false end in
      if ok then bad_fo_from (N.succ i) r else i :: bad_fo_from (N.succ i) r
  end.
Definition bad_fo := bad_fo_from 0.

(* rows: (signed, high, low, f): the real $flatten64 of the object (high, low) gave the integer f (only rows with |f| <= 2^53) *)
Definition of_model (sg : bool) (h l : Z) : option Z :=
  match g_conv_of (kind64 sg) with
  | Some f => match f (O64 sg h l) with Ret (Fin v) => Some v | _ => None end
  | None => None
  end.
Fixpoint bad_of_from (i : N) (rows : list (bool * Z * Z * Z)) : list N :=
  match rows with
  | [] => []
  | (sg, h, l, f) :: r =>
      let ok := match of_model sg h l with Some v => v =? f | None => false end in
      if ok then bad_of_from (N.succ i) r else i :: bad_of_from (N.succ i) r
  end.
Definition bad_of := bad_of_from 0.
