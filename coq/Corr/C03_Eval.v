(* C03 — evaluation entry points for the correspondence check (no proofs).
   harness/py/props/c03.py writes cases files that import this module. *)
From Coq Require Import List NArith ZArith Bool Arith.
From Verif Require Import Model.C03_Chan.
Import ListNotations.

Fixpoint list_eqb {A} (eqb : A -> A -> bool) (a b : list A) : bool :=
  match a, b with
  | [], [] => true
  | x :: a', y :: b' => eqb x y && list_eqb eqb a' b'
  | _, _ => false
  end.

Definition pkind_eqb (a b : pkind) : bool :=
  match a, b with
  | PSendClosed, PSendClosed | PCloseClosed, PCloseClosed | PCloseNil, PCloseNil | PJsError, PJsError => true
  | _, _ => false
  end.

Definition event_eqb (a b : event) : bool :=
  match a, b with
  | EvSend, EvSend | EvClose, EvClose | EvSched, EvSched | EvGoexit, EvGoexit | EvOdd, EvOdd => true
  | EvRecv v ok, EvRecv v' ok' => N.eqb v v' && Bool.eqb ok ok'
  | EvSel i None, EvSel i' None => Nat.eqb i i'
  | EvSel i (Some (v, ok)), EvSel i' (Some (v', ok')) => Nat.eqb i i' && N.eqb v v' && Bool.eqb ok ok'
  | EvPanic k, EvPanic k' => pkind_eqb k k'
  | EvPrint v, EvPrint v' => N.eqb v v'
  | EvGo k, EvGo k' => Nat.eqb k k'
  | _, _ => false
  end.

Definition gev_eqb (a b : gid * event) : bool := Nat.eqb (fst a) (fst b) && event_eqb (snd a) (snd b).

Definition outcome_eqb (a b : outcome) : bool :=
  match a, b with OExit, OExit | ODeadlock, ODeadlock | OFuel, OFuel => true | _, _ => false end.

(* final channel summary: buffer, closed, |sendq|, |recvq| *)
Definition chsum := (list val * bool * nat * nat)%type.
Definition chsum_of (c : chanst) : chsum := (c_buf c, c_closed c, length (c_sendq c), length (c_recvq c)).
Definition chsum_eqb (a b : chsum) : bool :=
  let '(b1, c1, s1, r1) := a in let '(b2, c2, s2, r2) := b in
  list_eqb N.eqb b1 b2 && Bool.eqb c1 c2 && Nat.eqb s1 s2 && Nat.eqb r1 r2.

Record obs := { o_trace : list (gid * event); o_outcome : outcome; o_chans : list chsum;
                o_awake : Z; o_total : Z; o_main_finished : bool; o_picks_used : nat }.

Record case := { k_fx : variant; k_prog : program; k_picks : list nat; k_breaks : list bool;
                 k_fuel : nat; k_expect : obs }.

Definition model_obs (c : case) : obs :=
  let st := run (k_fx c) (k_prog c) (k_fuel c) (init_state (k_prog c) (k_picks c) (k_breaks c)) in
  {| o_trace := rev (trace st); o_outcome := outcome_of st; o_chans := map chsum_of (chans st);
     o_awake := awake st; o_total := total st; o_main_finished := main_finished st;
     o_picks_used := length (k_picks c) - length (picks st) |}.

Definition obs_eqb (a b : obs) : bool :=
  list_eqb gev_eqb (o_trace a) (o_trace b) && outcome_eqb (o_outcome a) (o_outcome b) &&
  list_eqb chsum_eqb (o_chans a) (o_chans b) && Z.eqb (o_awake a) (o_awake b) && Z.eqb (o_total a) (o_total b) &&
  Bool.eqb (o_main_finished a) (o_main_finished b) && Nat.eqb (o_picks_used a) (o_picks_used b).

Definition case_ok (c : case) : bool := obs_eqb (model_obs c) (k_expect c).

Fixpoint mismatches_from (i : N) (cs : list case) : list N :=
  match cs with
  | [] => []
  | c :: r => if case_ok c then mismatches_from (N.succ i) r else i :: mismatches_from (N.succ i) r
  end.

Definition mismatches (cs : list case) : list N := mismatches_from 0 cs.
