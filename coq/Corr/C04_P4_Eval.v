(* C04 phase 4 — evaluation entry points for the correspondence (no proofs).
   harness/py/props/c04.py writes case files importing this module; each entry point returns the indices of
   the cases on which the model disagrees with what the REAL code produced. *)
From Coq Require Import List NArith Bool Arith String.
From Verif Require Import Model.C04_Inst Model.C04_P4_Map Model.C04_P4_Name Corr.C04_Eval.
Import ListNotations.

(* ---- (a) InstanceMap histories: observations of the real map, as numbers
   set: old value (0 = absent), get: value (0 = absent), has/del: 0/1, len *)
Definition obs_num (o : obs N) : N :=
  match o with
  | RVal (Some v) => v
  | RVal None => 0%N
  | RBool true => 1%N
  | RBool false => 0%N
  | RLen n => N.of_nat n
  end.

Fixpoint ns_eqb (a b : list N) : bool :=
  match a, b with
  | [], [] => true
  | x :: a', y :: b' => N.eqb x y && ns_eqb a' b'
  | _, _ => false
  end.

Record mcase := { mc_ops : list (op N); mc_expect : list N; mc_keys : list inst }.

(* every key returned by the real Keys() is a key of the model map and the counts agree *)
Definition keys_ok (m : imap N) (ks : list inst) : bool :=
  Nat.eqb (List.length ks) (List.length (map_keys N m)) &&
  forallb (fun k => existsb (inst_eqb k) (map_keys N m)) ks.

Definition mcase_ok (c : mcase) : bool :=
  let r0 := map_run N hash_const empty_map (mc_ops c) in
  let r1 := map_run N hash_struct empty_map (mc_ops c) in
  let rs := spec_run N [] (mc_ops c) in
  ns_eqb (map obs_num (snd r0)) (mc_expect c) && ns_eqb (map obs_num (snd r1)) (mc_expect c)
  && ns_eqb (map obs_num (snd rs)) (mc_expect c)
  && keys_ok (fst r0) (mc_keys c) && keys_ok (fst r1) (mc_keys c).

Fixpoint bad_from {A : Type} (ok : A -> bool) (i : N) (cs : list A) : list N :=
  match cs with
  | [] => []
  | c :: r => if ok c then bad_from ok (N.succ i) r else i :: bad_from ok (N.succ i) r
  end.

Definition map_mismatches (cs : list mcase) : list N := bad_from mcase_ok 0 cs.

(* ---- (b) names of instances built directly: Instance.String / TypeString / TypeParamsString(" /* ", " */") *)
Record ncase := { nc_names : names; nc_inst : inst; nc_string : string; nc_type_string : string; nc_label : string;
                  nc_trivial : bool }.

Definition ncase_ok (c : ncase) : bool :=
  String.eqb (inst_string (nc_names c) (nc_inst c)) (nc_string c)
  && String.eqb (type_string (nc_names c) (nc_inst c)) (nc_type_string c)
  && String.eqb (params_string (nc_names c) " /* " " */" (nc_inst c)) (nc_label c)
  && Bool.eqb (is_trivial (nc_inst c)) (nc_trivial c).

Definition name_mismatches (cs : list ncase) : list N := bad_from ncase_ok 0 cs.

(* ---- (c) Resolver.Substitute: types.TypeString of the real result, and "a type parameter is left" *)
Fixpoint closedb (t : ty) : bool :=
  match t with
  | TBase _ => true
  | TCon _ l | TNamed _ l => forallb closedb l
  | _ => false
  end.

Record scase := { sc_names : names; sc_own : list ty; sc_nest : list ty; sc_ty : ty; sc_str : string; sc_has_param : bool }.

Definition scase_ok (c : scase) : bool :=
  let r := subst (sc_own c) (sc_nest c) (sc_ty c) in
  String.eqb (ty_str (sc_names c) r) (sc_str c) && Bool.eqb (negb (closedb r)) (sc_has_param c).

Definition subst_mismatches (cs : list scase) : list N := bad_from scase_ok 0 cs.

(* ---- (d) names in the COMPILED program: for the collected state of a model program, the JS reference the
   compiler printed for an instance (variable[id /* label */]) and the string given to $newType *)
Record jentry := { je_inst : inst; je_js : string; je_type_string : string (* "" for a function *) }.
Record jcase := { jc_prog : prog; jc_order : list nat; jc_rounds : nat; jc_names : names; jc_entries : list jentry }.

Definition jentry_ok (p : prog) (st : state) (nm : names) (e : jentry) : bool :=
  match js_name p st nm (je_inst e) with
  | Some s => String.eqb s (je_js e)
  | None => false
  end
  && (String.eqb (je_type_string e) "" || String.eqb (type_string nm (je_inst e)) (je_type_string e)).

Definition jcase_ok (c : jcase) : bool :=
  let st := collect (jc_prog c) fuel (rounds (jc_order c) (jc_rounds c)) in
  forallb (jentry_ok (jc_prog c) st (jc_names c)) (jc_entries c).

Definition js_mismatches (cs : list jcase) : list N := bad_from jcase_ok 0 cs.
