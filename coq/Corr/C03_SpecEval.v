(* C03 — evaluation of the Coq reference LTS (Model/C03_Spec.v) on explored histories (no proofs).
   For a case (program, oracles) whose model run equals the run of the real prelude (Corr/C03_Eval.case_ok),
   [spec_verdict] walks the history step by step and checks with the SPEC's own step function that every
   implementation step is the sequence of spec steps named by [actions_of], emitting exactly the events the
   step logged, between the abstractions of the two states; and that the final state is quiescent in the spec
   (no goroutine can proceed) with the report Go prescribes (deadlock iff main has not returned). *)
From Coq Require Import List NArith ZArith Bool Arith.
From Verif Require Import Model.C03_Chan Model.C03_Spec Model.C03_Abs Corr.C03_Eval.
Import ListNotations.

Definition comm_eqb (a b : comm) : bool :=
  match a, b with
  | CDefault, CDefault => true
  | CRecv c, CRecv c' => Nat.eqb c c'
  | CSend c v, CSend c' v' => Nat.eqb c c' && N.eqb v v'
  | _, _ => false
  end.
Definition op_eqb (a b : op) : bool :=
  match a, b with
  | Send c v, Send c' v' => Nat.eqb c c' && N.eqb v v'
  | Recv c, Recv c' | Close c, Close c' | Range c, Range c' => Nat.eqb c c'
  | Select cs, Select cs' => list_eqb comm_eqb cs cs'
  | Go k, Go k' => Nat.eqb k k'
  | Gosched, Gosched | Goexit, Goexit => true
  | Print v, Print v' => N.eqb v v'
  | _, _ => false
  end.
Definition sstatus_eqb (a b : sstatus) : bool :=
  match a, b with
  | SRun, SRun | SParked, SParked | SDone, SDone => true
  | SPend e, SPend e' => event_eqb e e'
  | _, _ => false
  end.
Definition sgor_eqb (a b : sgor) : bool := list_eqb op_eqb (sg_code a) (sg_code b) && sstatus_eqb (sg_st a) (sg_st b).
Definition schan_eqb (a b : schan) : bool :=
  Bool.eqb (sc_nil a) (sc_nil b) && Nat.eqb (sc_cap a) (sc_cap b) && list_eqb N.eqb (sc_buf a) (sc_buf b) && Bool.eqb (sc_closed a) (sc_closed b).
Definition sstate_eqb (a b : sstate) : bool :=
  list_eqb schan_eqb (s_chans a) (s_chans b) && list_eqb sgor_eqb (s_gors a) (s_gors b).

(* one implementation step is the spec steps [actions_of] with the same events *)
Definition refines_step_b (fx : variant) (prog : program) (st : state) : bool :=
  let st' := impl_step fx prog st in
  match ssteps prog (abs st) (actions_of fx prog st) with
  | Some (s', evs) => sstate_eqb s' (abs st') && list_eqb gev_eqb evs (new_events st st')
  | None => false
  end.

(* verdict of the spec on the final state of a history *)
Definition final_verdict_b (st : state) : bool :=
  quiescent (abs st) &&
  match halted st with
  | Some ODeadlock => negb (main_finished st)
  | Some _ => false
  | None => main_finished st
  end.

(* 0 = the whole history is allowed;  S k = step k (1-based) is not a spec step sequence;  [bad_final] = final verdict wrong *)
Definition bad_final : N := 1000000%N.
Fixpoint spec_walk (fx : variant) (prog : program) (fuel : nat) (k : N) (st : state) : N :=
  match fuel with
  | O => 0%N
  | S f => if final st then (if final_verdict_b st then 0%N else bad_final)
           else if refines_step_b fx prog st then spec_walk fx prog f (N.succ k) (impl_step fx prog st) else N.succ k
  end.

Definition spec_verdict (c : case) : N :=
  spec_walk (k_fx c) (k_prog c) (k_fuel c) 0%N (init_state (k_prog c) (k_picks c) (k_breaks c)).

(* the initial states correspond *)
Definition init_ok (c : case) : bool := sstate_eqb (abs (init_state (k_prog c) (k_picks c) (k_breaks c))) (sinit (k_prog c)).

Definition spec_case_ok (c : case) : bool := init_ok c && N.eqb (spec_verdict c) 0%N.

Fixpoint spec_bad_from (i : N) (cs : list case) : list N :=
  match cs with
  | [] => []
  | c :: r => if spec_case_ok c then spec_bad_from (N.succ i) r else i :: spec_bad_from (N.succ i) r
  end.
Definition spec_rejected (cs : list case) : list N := spec_bad_from 0 cs.

