(* C07 (phase 4) — evaluation entry point for the clone-decision correspondence (no proofs).
   harness/py/props/c07.py writes one [dcase] per compiled site function: the site and the number of `$clone(` and
   `.copy(` occurrences counted in the JavaScript the REAL compiler emitted for it. *)
From Coq Require Import List Bool Arith NArith.
From Verif Require Import Model.C07_Decision.
Import ListNotations.

Record dcase := { d_ctx : context; d_sh : shape; d_e : eclass; d_clones : nat; d_copies : nat }.

Definition dcase_ok (c : dcase) : bool :=
  valid (d_ctx c) (d_sh c) (d_e c) &&
  (let '(cl, cp) := site_counts (d_ctx c) (d_sh c) (d_e c) in Nat.eqb cl (d_clones c) && Nat.eqb cp (d_copies c)).

Fixpoint dmismatches_from (i : N) (cs : list dcase) : list N :=
  match cs with
  | [] => []
  | c :: r => if dcase_ok c then dmismatches_from (N.succ i) r else i :: dmismatches_from (N.succ i) r
  end.
Definition dmismatches (cs : list dcase) : list N := dmismatches_from 0 cs.

(* size of the model's domain of valid sites: the generator must produce exactly this many *)
Definition valid_sites : nat :=
  length (filter (fun x => let '(c, sh, e) := x in valid c sh e)
            (flat_map (fun c => flat_map (fun sh => map (fun e => (c, sh, e)) all_classes) all_shapes) all_contexts)).

(* the decision proper (does the context make the value independent?) and the Go-side classification, for the
   dynamic alias probe of every site: (copies_value, stores, finding, may_alias) *)
Definition site_flags (c : context) (sh : shape) (e : eclass) : bool * bool * bool * bool :=
  (copies_value c sh e, stores c, finding c, may_alias e).
