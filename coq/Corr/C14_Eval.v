(* C14 — evaluation entry points for the correspondence check (no proofs).
   harness/py/props/c14.py writes case files that import this module. *)
From Coq Require Import List NArith ZArith Bool Arith.
From Verif Require Import Model.C14_Utf8 Model.C14_Literal.
Import ListNotations.

Fixpoint list_eqb {A} (eqb : A -> A -> bool) (a b : list A) : bool :=
  match a, b with
  | [], [] => true
  | x :: a', y :: b' => eqb x y && list_eqb eqb a' b'
  | _, _ => false
  end.

Definition ns_eqb := list_eqb N.eqb.
Definition rw_eqb (a b : N * N) : bool := N.eqb (fst a) (fst b) && N.eqb (snd a) (snd b).
Definition opt_eqb {A} (eqb : A -> A -> bool) (a b : option A) : bool :=
  match a, b with Some x, Some y => eqb x y | None, None => true | _, _ => false end.

Definition nw (x : N * nat) : N * N := (fst x, N.of_nat (snd x)).

Inductive case :=
(* a string; $decodeRune at every position 0..len (len included: the NaN branch);
   $stringToRunes; $runesToString of that; $stringToBytes *)
| CStr (s : list N) (decs : list (N * N)) (runes : list N) (back : list N) (bytes : list N)
(* the compiled range loop: (index, rune) per iteration *)
| CRange (s : list N) (its : list (N * N))
| CEnc (r : Z) (out : list N)
| CI64 (x : Z) (out : list N)
| CR2S (arr : list Z) (off len : N) (out : list N)
| CB2S (arr : list N) (off len : N) (out : list N)
| CCopy (arr : list N) (off len : N) (src : list N) (n : N) (arr' : list N)
(* int(s[i]) in a compiled program; -1 = run-time panic observed *)
| CIdx (s : list N) (i : Z) (v : Z)
| CSub (s : list N) (lo : Z) (hi : option Z) (out : option (list N))
(* encodeString: constant, emitted literal, value node computed for the literal *)
| CLit (s : list N) (lit : list N) (val : list N).

Definition case_ok (c : case) : bool :=
  match c with
  | CStr s decs runes back bytes =>
      list_eqb rw_eqb (map (fun p => nw (decode_rune s p)) (seq 0 (S (length s)))) decs
      && ns_eqb (string_to_runes s) runes
      && ns_eqb (let rs := map Z.of_N (string_to_runes s) in runes_to_string rs 0 (length rs)) back
      && ns_eqb (string_to_bytes s) bytes
  | CRange s its =>
      list_eqb rw_eqb (map (fun x => (N.of_nat (fst (fst x)), snd (fst x))) (range_loop s)) its
  | CEnc r out => ns_eqb (encode_rune r) out
  | CI64 x out => ns_eqb (string_of_int64 x) out
  | CR2S arr off len out => ns_eqb (runes_to_string arr (N.to_nat off) (N.to_nat len)) out
  | CB2S arr off len out => ns_eqb (bytes_to_string arr (N.to_nat off) (N.to_nat len)) out
  | CCopy arr off len src n arr' =>
      let '(n0, a0) := copy_string arr (N.to_nat off) (N.to_nat len) src in
      N.eqb (N.of_nat n0) n && ns_eqb a0 arr'
  | CIdx s i v =>
      Z.eqb (match index_emitted false s i with Some x => Z.of_N (to_int x) | None => (-1)%Z end) v
  | CSub s lo hi out => opt_eqb ns_eqb (substring s lo hi) out
  | CLit s lit val =>
      ns_eqb (encode_string s) lit &&
      match js_unescape lit with
      | Some (v, []) => ns_eqb v val
      | _ => false
      end
  end.

Fixpoint mismatches_from (i : N) (cs : list case) : list N :=
  match cs with
  | [] => []
  | c :: r => if case_ok c then mismatches_from (N.succ i) r else i :: mismatches_from (N.succ i) r
  end.

Definition mismatches (cs : list case) : list N := mismatches_from 0 cs.

(* Named constants for the case files: writing [b226] instead of the numeral 226 avoids the number
   notation interpreter, which dominates the time needed to read a case file (4x faster). *)
Local Open Scope N_scope.
Definition b0 : N := 0. Definition b1 : N := 1. Definition b2 : N := 2. Definition b3 : N := 3. Definition b4 : N := 4. Definition b5 : N := 5. Definition b6 : N := 6. Definition b7 : N := 7.
Definition b8 : N := 8. Definition b9 : N := 9. Definition b10 : N := 10. Definition b11 : N := 11. Definition b12 : N := 12. Definition b13 : N := 13. Definition b14 : N := 14. Definition b15 : N := 15.
Definition b16 : N := 16. Definition b17 : N := 17. Definition b18 : N := 18. Definition b19 : N := 19. Definition b20 : N := 20. Definition b21 : N := 21. Definition b22 : N := 22. Definition b23 : N := 23.
Definition b24 : N := 24. Definition b25 : N := 25. Definition b26 : N := 26. Definition b27 : N := 27. Definition b28 : N := 28. Definition b29 : N := 29. Definition b30 : N := 30. Definition b31 : N := 31.
Definition b32 : N := 32. Definition b33 : N := 33. Definition b34 : N := 34. Definition b35 : N := 35. Definition b36 : N := 36. Definition b37 : N := 37. Definition b38 : N := 38. Definition b39 : N := 39.
Definition b40 : N := 40. Definition b41 : N := 41. Definition b42 : N := 42. Definition b43 : N := 43. Definition b44 : N := 44. Definition b45 : N := 45. Definition b46 : N := 46. Definition b47 : N := 47.
Definition b48 : N := 48. Definition b49 : N := 49. Definition b50 : N := 50. Definition b51 : N := 51. Definition b52 : N := 52. Definition b53 : N := 53. Definition b54 : N := 54. Definition b55 : N := 55.
Definition b56 : N := 56. Definition b57 : N := 57. Definition b58 : N := 58. Definition b59 : N := 59. Definition b60 : N := 60. Definition b61 : N := 61. Definition b62 : N := 62. Definition b63 : N := 63.
Definition b64 : N := 64. Definition b65 : N := 65. Definition b66 : N := 66. Definition b67 : N := 67. Definition b68 : N := 68. Definition b69 : N := 69. Definition b70 : N := 70. Definition b71 : N := 71.
Definition b72 : N := 72. Definition b73 : N := 73. Definition b74 : N := 74. Definition b75 : N := 75. Definition b76 : N := 76. Definition b77 : N := 77. Definition b78 : N := 78. Definition b79 : N := 79.
Definition b80 : N := 80. Definition b81 : N := 81. Definition b82 : N := 82. Definition b83 : N := 83. Definition b84 : N := 84. Definition b85 : N := 85. Definition b86 : N := 86. Definition b87 : N := 87.
Definition b88 : N := 88. Definition b89 : N := 89. Definition b90 : N := 90. Definition b91 : N := 91. Definition b92 : N := 92. Definition b93 : N := 93. Definition b94 : N := 94. Definition b95 : N := 95.
Definition b96 : N := 96. Definition b97 : N := 97. Definition b98 : N := 98. Definition b99 : N := 99. Definition b100 : N := 100. Definition b101 : N := 101. Definition b102 : N := 102. Definition b103 : N := 103.
Definition b104 : N := 104. Definition b105 : N := 105. Definition b106 : N := 106. Definition b107 : N := 107. Definition b108 : N := 108. Definition b109 : N := 109. Definition b110 : N := 110. Definition b111 : N := 111.
Definition b112 : N := 112. Definition b113 : N := 113. Definition b114 : N := 114. Definition b115 : N := 115. Definition b116 : N := 116. Definition b117 : N := 117. Definition b118 : N := 118. Definition b119 : N := 119.
Definition b120 : N := 120. Definition b121 : N := 121. Definition b122 : N := 122. Definition b123 : N := 123. Definition b124 : N := 124. Definition b125 : N := 125. Definition b126 : N := 126. Definition b127 : N := 127.
Definition b128 : N := 128. Definition b129 : N := 129. Definition b130 : N := 130. Definition b131 : N := 131. Definition b132 : N := 132. Definition b133 : N := 133. Definition b134 : N := 134. Definition b135 : N := 135.
Definition b136 : N := 136. Definition b137 : N := 137. Definition b138 : N := 138. Definition b139 : N := 139. Definition b140 : N := 140. Definition b141 : N := 141. Definition b142 : N := 142. Definition b143 : N := 143.
Definition b144 : N := 144. Definition b145 : N := 145. Definition b146 : N := 146. Definition b147 : N := 147. Definition b148 : N := 148. Definition b149 : N := 149. Definition b150 : N := 150. Definition b151 : N := 151.
Definition b152 : N := 152. Definition b153 : N := 153. Definition b154 : N := 154. Definition b155 : N := 155. Definition b156 : N := 156. Definition b157 : N := 157. Definition b158 : N := 158. Definition b159 : N := 159.
Definition b160 : N := 160. Definition b161 : N := 161. Definition b162 : N := 162. Definition b163 : N := 163. Definition b164 : N := 164. Definition b165 : N := 165. Definition b166 : N := 166. Definition b167 : N := 167.
Definition b168 : N := 168. Definition b169 : N := 169. Definition b170 : N := 170. Definition b171 : N := 171. Definition b172 : N := 172. Definition b173 : N := 173. Definition b174 : N := 174. Definition b175 : N := 175.
Definition b176 : N := 176. Definition b177 : N := 177. Definition b178 : N := 178. Definition b179 : N := 179. Definition b180 : N := 180. Definition b181 : N := 181. Definition b182 : N := 182. Definition b183 : N := 183.
Definition b184 : N := 184. Definition b185 : N := 185. Definition b186 : N := 186. Definition b187 : N := 187. Definition b188 : N := 188. Definition b189 : N := 189. Definition b190 : N := 190. Definition b191 : N := 191.
Definition b192 : N := 192. Definition b193 : N := 193. Definition b194 : N := 194. Definition b195 : N := 195. Definition b196 : N := 196. Definition b197 : N := 197. Definition b198 : N := 198. Definition b199 : N := 199.
Definition b200 : N := 200. Definition b201 : N := 201. Definition b202 : N := 202. Definition b203 : N := 203. Definition b204 : N := 204. Definition b205 : N := 205. Definition b206 : N := 206. Definition b207 : N := 207.
Definition b208 : N := 208. Definition b209 : N := 209. Definition b210 : N := 210. Definition b211 : N := 211. Definition b212 : N := 212. Definition b213 : N := 213. Definition b214 : N := 214. Definition b215 : N := 215.
Definition b216 : N := 216. Definition b217 : N := 217. Definition b218 : N := 218. Definition b219 : N := 219. Definition b220 : N := 220. Definition b221 : N := 221. Definition b222 : N := 222. Definition b223 : N := 223.
Definition b224 : N := 224. Definition b225 : N := 225. Definition b226 : N := 226. Definition b227 : N := 227. Definition b228 : N := 228. Definition b229 : N := 229. Definition b230 : N := 230. Definition b231 : N := 231.
Definition b232 : N := 232. Definition b233 : N := 233. Definition b234 : N := 234. Definition b235 : N := 235. Definition b236 : N := 236. Definition b237 : N := 237. Definition b238 : N := 238. Definition b239 : N := 239.
Definition b240 : N := 240. Definition b241 : N := 241. Definition b242 : N := 242. Definition b243 : N := 243. Definition b244 : N := 244. Definition b245 : N := 245. Definition b246 : N := 246. Definition b247 : N := 247.
Definition b248 : N := 248. Definition b249 : N := 249. Definition b250 : N := 250. Definition b251 : N := 251. Definition b252 : N := 252. Definition b253 : N := 253. Definition b254 : N := 254. Definition b255 : N := 255.
Definition RE : N := 65533.
Definition E1 : N * N := (RE, 1).
