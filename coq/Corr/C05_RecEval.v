(* C05 phase 4 — evaluation entry point for the recorder correspondence (no proofs).
   A case = an abstract program + what the REAL compiler recorded for the Decls of the same program
   (harness h_c05 link -> decls.json; anonymous-type Decls collapsed by the harness): for every Decl
   its kind tag, object filter, method filter and dependency names. *)
From Coq Require Import List String Bool NArith Arith.
From Verif Require Import Model.C05_Select Model.C05_Record.
Import ListNotations.
Local Open Scope list_scope.
Local Open Scope string_scope.

Record rdecl := { r_tag : string; r_obj : string; r_meth : string; r_deps : list string; r_sel : bool (* selected by the Selector *) }.
Record rcase := { rc_prog : prog; rc_real : list rdecl }.

Definition smem (x : string) (l : list string) : bool := existsb (String.eqb x) l.
Definition sset_eqb (a b : list string) : bool := forallb (fun x => smem x b) a && forallb (fun x => smem x a) b.

Definition kind_tag (k : gkind) : string :=
  match k with
  | KFunc | KMethod _ _ => "func"
  | KVar => "var"
  | KType _ => "type"
  | KHolder _ => "holder"
  end.

Definition model_rdecls (p : prog) : list rdecl :=
  let ds := compile p in
  let ids := match select ds with Some l => l | None => [] end in
  map (fun gd => {| r_tag := kind_tag (g_kind (fst gd)); r_obj := d_obj (snd gd); r_meth := d_meth (snd gd); r_deps := d_deps (snd gd);
                    r_sel := existsb (N.eqb (d_id (snd gd))) ids |})
      (combine p ds).

Definition rdecl_eqb (a b : rdecl) : bool :=
  String.eqb (r_tag a) (r_tag b) && String.eqb (r_obj a) (r_obj b) && String.eqb (r_meth a) (r_meth b) && sset_eqb (r_deps a) (r_deps b) && Bool.eqb (r_sel a) (r_sel b).

(* indexes of model Decls without an equal real Decl, then (offset 1000) of real Decls without an equal
   model Decl; a difference in the number of Decls is reported as index 999 *)
Fixpoint unmatched (base : N) (i : N) (xs ys : list rdecl) : list N :=
  match xs with
  | [] => []
  | x :: r => if existsb (rdecl_eqb x) ys then unmatched base (N.succ i) r ys else (base + i)%N :: unmatched base (N.succ i) r ys
  end.

Definition rcase_bad (c : rcase) : list N :=
  let m := model_rdecls (rc_prog c) in
  (unmatched 0 0 m (rc_real c) ++ unmatched 1000 0 (rc_real c) m ++
   (if Nat.eqb (List.length m) (List.length (rc_real c)) then [] else [999%N]))%list.

Fixpoint rec_mismatches_from (i : N) (cs : list rcase) : list (N * list N) :=
  match cs with
  | [] => []
  | c :: r => match rcase_bad c with
              | [] => rec_mismatches_from (N.succ i) r
              | bad => (i, bad) :: rec_mismatches_from (N.succ i) r
              end
  end.
Definition rec_mismatches (cs : list rcase) : list (N * list N) := rec_mismatches_from 0 cs.

(* for diagnostics / replay: what the model records *)
Definition show (p : prog) : list (string * string * string * list string * bool) :=
  map (fun r => (r_tag r, r_obj r, r_meth r, r_deps r, r_sel r)) (model_rdecls p).

(* shorthands for the generated case files *)
Definition G (k : gkind) (pkg name : string) (targs : tys) (root : bool) (b : list ref) : gdecl :=
  {| g_kind := k; g_pkg := pkg; g_name := name; g_targs := targs; g_root := root; g_body := b |}.
Definition R (tag obj meth : string) (deps : list string) (sel : bool) : rdecl :=
  {| r_tag := tag; r_obj := obj; r_meth := meth; r_deps := deps; r_sel := sel |}.
Definition Sg (ps : tys) (va : bool) (rs : tys) : msig := {| ms_params := ps; ms_variadic := va; ms_results := rs |}.
Fixpoint TL (l : list ty) : tys := match l with [] => TNil | x :: r => TCons x (TL r) end.
