(* C09 - evaluation entry points for the correspondence check (no proofs).
   A family = declarations + a universe of types + a probe script.  [run_impl fl fam] replays the script
   on the model of the run-time (state threaded through: caches and memo tables), [run_spec fam] answers
   every probe by Go's rules.  harness/py/props/c09.py writes case files that import this module. *)
From Coq Require Import List NArith Bool String Ascii.
From Verif Require Import Gen.C09_Kinds Model.C09_Types.
Import ListNotations.
Local Open Scope N_scope.

Inductive probe :=
| PIdent (i j : N)            (* do universe types i and j get the same run-time type object? *)
| PAssert (i j : N)           (* value of dynamic type i asserted to type j *)
| PMset (i : N)               (* $methodSet of type i *)
| PEq (a b : val).            (* == on two interface values (VIface carries a universe index) *)

Inductive ans :=
| AIdent (b : bool)
| AAssert (ok : bool) (missing : string)
| AAssertL (ok : bool) (missing : list string)   (* model / spec side: ALL missing methods.  Which of several missing
                                                    methods a failed assertion names is an implementation detail (Go's
                                                    run-time walks its own sorted tables, gopherjs the interface's list) *)
| AMset (l : list (string * string * option N))
| AEq (r : option bool)
| ASkip.

Record family := { f_decls : list decl; f_univ : list ty; f_probes : list probe }.

Definition optN_eqb (a b : option N) : bool :=
  match a, b with Some x, Some y => x =? y | None, None => true | _, _ => false end.
Definition me_eqb (a b : string * string * option N) : bool :=
  String.eqb (fst (fst a)) (fst (fst b)) && String.eqb (snd (fst a)) (snd (fst b)) && optN_eqb (snd a) (snd b).

Definition ans_eqb (a b : ans) : bool :=
  match a, b with
  | ASkip, _ | _, ASkip => true
  | AIdent x, AIdent y => Bool.eqb x y
  | AAssert x m, AAssert y m' => Bool.eqb x y && (x || String.eqb m m')
  | AAssertL x l, AAssert y m | AAssert y m, AAssertL x l => Bool.eqb x y && (x || existsb (String.eqb m) l)
  | AAssertL x l, AAssertL y l' => Bool.eqb x y && (x || existsb (fun m => existsb (String.eqb m) l') l)
  | AMset l, AMset l' => (N.of_nat (List.length l) =? N.of_nat (List.length l')) && forallb (fun o => existsb (me_eqb o) l') l
  | AEq (Some x), AEq (Some y) => Bool.eqb x y
  | AEq None, AEq None => true
  | _, _ => false
  end.

Fixpoint index_of (x : N) (l : list N) (n : N) : option N :=
  match l with [] => None | y :: r => if x =? y then Some n else index_of x r (N.succ n) end.

Fixpoint val_ids (ids : list N) (v : val) : val :=
  match v with
  | VIface i x => VIface (nthN i ids 0) (val_ids ids x)
  | VTup vs => VTup (map (val_ids ids) vs)
  | x => x
  end.

Definition step_impl (fl : flags) (s : st) (ids : list N) (acc : list ans * memo) (p : probe) : list ans * memo :=
  let '(out, m) := acc in
  match p with
  | PIdent i j => (out ++ [AIdent (nthN i ids 0 =? nthN j ids 0)], m)
  | PAssert i j =>
      let '((ok, x), m') := assert_impl fl s (nthN i ids 0) (nthN j ids 0) m in
      (* the name $assertType reports is the first missing one in the interface's own order; accept any missing one *)
      let vms := mset_impl fl s (nthN i ids 0) in
      let all := map rm_name (filter (fun tm => negb (existsb (fun vm => meth_match vm tm) vms)) (iface_methods s (nthN j ids 0))) in
      (out ++ [if existsb (String.eqb x) all then AAssertL ok all else AAssert ok x], m')
  | PMset i =>
      (out ++ [AMset (map (fun x => (rm_name x, rm_pkg x, index_of (rm_owner x) (s_named s) 0)) (mset_impl fl s (nthN i ids 0)))], m)
  | PEq a b => (out ++ [AEq (iface_eq_impl s (val_ids ids a) (val_ids ids b))], m)
  end.

Definition run_impl (fl : flags) (f : family) : list ans :=
  let s0 := load_env fl (f_decls f) in
  let '(ids, s1) := canon_list fl (f_univ f) s0 in
  fst (fold_left (step_impl fl s1 ids) (f_probes f) ([], memo0)).

Definition tyN (f : family) (i : N) : ty := nthN i (f_univ f) (T (LBasic 0) []).

Definition run_spec (f : family) : list ans :=
  let env := f_decls f in
  let msets := map (spec_mset env) (f_univ f) in          (* once per type; the probes index into it *)
  let impl_of := fun (i : N) (it : ty) =>
    let ms := nthN i msets [] in
    match filter (fun tm => negb (existsb (fun vm => nm_eqb (fst vm) (fst tm) && identical (fst (snd vm)) (snd tm)) ms))
               (iface_meths env it) with
    | [] => AAssert true ""%string
    | l => AAssertL false (map (fun tm => fst (fst tm)) l)
    end in
  map (fun p =>
    match p with
    | PIdent i j => AIdent (identical (tyN f i) (tyN f j))
    | PAssert i j => if is_iface env (tyN f j) then impl_of i (tyN f j)
                     else AAssert (identical (tyN f i) (tyN f j)) ""%string
    | PMset i => AMset (map (fun x => (fst (fst x), snd (fst x), snd (snd x))) (nthN i msets []))
    | PEq a b => AEq (spec_iface_eq env (f_univ f) a b)
    end) (f_probes f).

Fixpoint diff_from (n : N) (a b : list ans) : list N :=
  match a, b with
  | x :: a', y :: b' => if ans_eqb x y then diff_from (N.succ n) a' b' else n :: diff_from (N.succ n) a' b'
  | [], [] => []
  | _, _ => [n]                       (* different lengths *)
  end.

(* a case: the family, the flag vectors to evaluate, the answers observed on the real run-time,
   and (for compiled families) the answers of native Go ([] when absent) *)
Record case := { c_fam : family; c_variants : list (list bool); c_obs : list ans; c_ref : list ans }.

(* result: per variant (probes where model and run-time disagree, probes where that variant and SPEC disagree);
   the probes where SPEC and run-time disagree; the probes where SPEC and native Go disagree *)
Definition eval_case (c : case) : list (list N * list N) * list N * list N :=
  let sp := run_spec (c_fam c) in
  (map (fun v => let a := run_impl (flags_of_list v) (c_fam c) in (diff_from 0 a (c_obs c), diff_from 0 a sp)) (c_variants c),
   diff_from 0 sp (c_obs c),
   match c_ref c with [] => [] | r => diff_from 0 sp r end).

Definition eval_cases (cs : list case) := map eval_case cs.
