(* C20 — evaluation entry points for the correspondence check (no proofs).
   harness/py/props/c20.py writes case files that import this module.  The model of
   Model/C20_Cache.v is instantiated with the toy codec (same shape as gzip(gob): header,
   length, data, checksum trailer; the reader verifies length and checksum before decoding) and with a file-name
   table built from the names the real cachedPath produced. *)
From Coq Require Import String Ascii.
From Coq Require Import List NArith ZArith Bool.
From Verif Require Import Model.C20_Cache.
Import ListNotations.
Local Open Scope N_scope.

Fixpoint chunks_eqb (a b : list bytes) : bool :=
  match a, b with
  | [], [] => true
  | x :: a', y :: b' => bytes_eqb x y && chunks_eqb a' b'
  | _, _ => false
  end.

(* one observed operation; configurations and import paths are referred to by index *)
Inductive mop :=
| MStore (ci ii : nat) (t : Z) (e : toyE) (o : outcome) (obs : option bool)   (* obs: returned value, None if the process died *)
| MLoad (ci ii : nat) (tsrc : Z) (obs : option toyE)                          (* observed hit (chunks) or miss *)
| MTrunc (ci ii : nat) (drop : nat)                                           (* final file shortened by [drop] bytes *)
| MKey (ci ii : nat) (obs_key : bytes) (obs_test : bool)                      (* observed packageKey / isTestPackage *)
| MLs (finals : list N) (ntemps : nat).                                       (* observed final-file names (as ids), number of other files *)

Record case := {
  c_cfgs : list (option cfg);
  c_ips : list bytes;
  c_names : list (nat * nat * N);         (* (cfg index, ip index) -> id of the file name the real cachedPath gave:
                                             equal ids <-> equal real names; the model's name is the id repeated 64 times *)
  c_ops : list mop
}.

Definition dummy_cfg : cfg :=
  {| goos := []; goarch := []; goroot := []; gopath := []; tags := None; version := []; tested := [] |}.

Definition name_of_id (id : N) : bytes := repeat id 64.

Section Run.
  Variable cs : case.
  Definition cfg_at (i : nat) : option cfg := nth i (c_cfgs cs) None.
  Definition ip_at (i : nat) : bytes := nth i (c_ips cs) [].
  Definition tbl : list (bytes * bytes) :=
    flat_map (fun x => let '(ci, ii, id) := x in
                       match cfg_at ci with Some c => [(key c (ip_at ii), name_of_id id)] | None => [] end) (c_names cs).
  Definition HT := table_H tbl.

  Definition m_store := store toyE HT toy_enc.
  Definition m_load := load toyE HT toy_unzip toy_dec_time toy_dec_body.

  Definition is_final (name : bytes) : bool := Nat.eqb (length name) 64.

  Definition op_ok (f : fs) (idx : nat) (o : mop) : fs * bool :=
    match o with
    | MStore ci ii t e oc obs =>
        let '(f', r) := m_store f (cfg_at ci) (ip_at ii) t e [N.of_nat (1000 + idx)] oc in
        (f', match obs with None => true | Some b => Bool.eqb b r end)
    | MLoad ci ii tsrc obs =>
        (f, match m_load f (cfg_at ci) (ip_at ii) tsrc, obs with
            | None, None => true
            | Some (_, e), Some e' => chunks_eqb e e'
            | _, _ => false
            end)
    | MTrunc ci ii drop =>
        match cfg_at ci with
        | None => (f, true)
        | Some c =>
            let name := HT (key c (ip_at ii)) in
            match fs_get f name with
            | None => (f, true)
            | Some b => (apply_op f (OpTruncate name (length b - drop)), true)
            end
        end
    | MKey ci ii k tst =>
        (f, match cfg_at ci with
            | None => true
            | Some c => bytes_eqb (key c (ip_at ii)) k && Bool.eqb (is_test c (ip_at ii)) tst
            end)
    | MLs finals ntemps =>
        let names := map fst f in
        let mf := filter is_final names in
        (f, Nat.eqb (length mf) (length finals)
            && forallb (fun id => existsb (bytes_eqb (name_of_id id)) mf) finals
            && Nat.eqb (length names - length mf) ntemps)
    end.

  Fixpoint run_ops (f : fs) (idx : nat) (ops : list mop) : option nat :=
    match ops with
    | [] => None
    | o :: r => let '(f', ok) := op_ok f idx o in
                if ok then run_ops f' (S idx) r else Some idx
    end.
End Run.

(* index of the first operation on which model and implementation disagree *)
Definition case_result (cs : case) : option nat := run_ops cs [] O (c_ops cs).

Fixpoint mismatches_from (i : nat) (l : list case) : list (nat * nat) :=
  match l with
  | [] => []
  | c :: r => match case_result c with
              | None => mismatches_from (S i) r
              | Some k => (i, k) :: mismatches_from (S i) r
              end
  end.

Definition mismatches (l : list case) : list (nat * nat) := mismatches_from O l.

(* key stream: many (configuration, import path) pairs with the observed key string *)
Record kcase := { k_cfg : cfg; k_ip : bytes; k_key : bytes; k_test : bool; k_wf : bool }.

Definition kcase_ok (k : kcase) : bool :=
  bytes_eqb (key (k_cfg k) (k_ip k)) (k_key k)
  && Bool.eqb (is_test (k_cfg k) (k_ip k)) (k_test k)
  && Bool.eqb (wfb (k_cfg k) (k_ip k)) (k_wf k).

Fixpoint kmismatches_from (i : nat) (l : list kcase) : list nat :=
  match l with
  | [] => []
  | c :: r => if kcase_ok c then kmismatches_from (S i) r else i :: kmismatches_from (S i) r
  end.

Definition kmismatches (l : list kcase) : list nat := kmismatches_from O l.
