(* C14 — helpers: JS bit operations on small non-negative numbers as arithmetic. *)
From Coq Require Import List NArith ZArith Bool Arith Lia ZifyN ZifyNat ZifyBool.

Import ListNotations.
Local Open Scope N_scope.
Ltac Zify.zify_post_hook ::= Z.div_mod_to_equations.

(* case split on every boolean test, in the goal and in the hypotheses *)
Ltac split_ifs :=
  repeat match goal with
  | |- context [if ?b then _ else _] => let E := fresh "E" in destruct b eqn:E
  | H : context [if ?b then _ else _] |- _ => let E := fresh "E" in destruct b eqn:E
  end.

Lemma lor_add (a n b : N) : b < 2 ^ n -> N.lor (a * 2 ^ n) b = a * 2 ^ n + b.
Proof.
  intros Hb.
  assert (H0 : N.land (a * 2 ^ n) b = 0).
  { apply N.bits_inj_0. intros i. rewrite N.land_spec.
    destruct (N.lt_ge_cases i n) as [Hi|Hi].
    - rewrite N.mul_pow2_bits_low by assumption. reflexivity.
    - replace (N.testbit b i) with false. apply andb_false_r.
      symmetry. rewrite <- (N.mod_small b (2 ^ n)) by assumption.
      apply N.mod_pow2_bits_high. assumption. }
  rewrite <- N.lxor_lor by assumption. symmetry. apply N.add_nocarry_lxor. assumption.
Qed.

Lemma land_mask (c k : N) : N.land c (N.ones k) = c mod 2 ^ k.
Proof. apply N.land_ones. Qed.

Lemma shl (a n : N) : N.shiftl a n = a * 2 ^ n.
Proof. apply N.shiftl_mul_pow2. Qed.

Lemma shr (a n : N) : N.shiftr a n = a / 2 ^ n.
Proof. apply N.shiftr_div_pow2. Qed.
