(* C06 — JavaScript numbers as far as GopherJS' integer code uses them (model only, no proofs).

   A JS number is an IEEE double.  Integer code only ever holds integer-valued doubles of
   magnitude <= 2^53 (which + - * represent exactly), the negative zero, the quotient of two
   such integers (consumed only by ToInt32/ToUint32 and by the NaN/Infinity tests of the
   division template) and NaN/+-Infinity from a zero divisor.  Everything else is [Unk]
   ("unknown"): an intermediate result that left the exactly representable range, or an
   operation this model does not cover.  [Unk] is absorbing, so a theorem
   [template x y = Ret (Fin v)] also states that every intermediate was exact.

   Trusted facts about V8 doubles used here (see TRUSTED in harness/py/props/c06.py):
   - + - * of integers are exact when the result has magnitude <= 2^53;
   - a/b for integers |a|,|b| <= 2^53, b<>0: the correctly rounded quotient has the same
     truncation toward zero as the exact quotient whenever |a| < 2^53 (error < 1/|b|), and
     is an integer exactly when b divides a;
   - a % b is exact (fmod) and takes the sign of the dividend, including a zero result;
   - ToInt32/ToUint32 truncate and reduce modulo 2^32; NaN, +-Infinity and -0 map to 0. *)
From Coq Require Import ZArith Bool List.
Import ListNotations.
Local Open Scope Z_scope.

(* ---- Go integer kinds (types.BasicKind names) --------------------------- *)
Inductive kind := Int8 | Int16 | Int32 | Int64 | Int | Uint8 | Uint16 | Uint32 | Uint64 | Uint | Uintptr.

Definition kind_eqb (a b : kind) : bool :=
  match a, b with
  | Int8, Int8 | Int16, Int16 | Int32, Int32 | Int64, Int64 | Int, Int
  | Uint8, Uint8 | Uint16, Uint16 | Uint32, Uint32 | Uint64, Uint64 | Uint, Uint | Uintptr, Uintptr => true
  | _, _ => false
  end.

Definition all_kinds : list kind := [Int8; Int16; Int32; Int64; Int; Uint8; Uint16; Uint32; Uint64; Uint; Uintptr].

Inductive binop := Add | Sub | Mul | Quo | Rem | And | Or | Xor | AndNot.
Inductive shop := Shl | Shr.
Inductive unop := Neg | Not.
Inductive cmpop := Eql | Neq | Lss | Leq | Gtr | Geq.

(* ---- 32-bit integer primitives over Z ----------------------------------- *)
Definition two31 : Z := 2147483648.
Definition two32 : Z := 4294967296.
Definition two53 : Z := 9007199254740992.

Definition to_uint32 (z : Z) : Z := z mod two32.
Definition to_int32 (z : Z) : Z := let u := z mod two32 in if u <? two31 then u else u - two32.

(* x << n, x >> n, x >>> n : operands through ToInt32/ToUint32, count masked with 31 *)
Definition cnt (n : Z) : Z := (to_uint32 n) mod 32.
Definition shl32 (a n : Z) : Z := to_int32 (to_int32 a * 2 ^ cnt n).
Definition shr32 (a n : Z) : Z := Z.shiftr (to_int32 a) (cnt n).
Definition ushr32 (a n : Z) : Z := Z.shiftr (to_uint32 a) (cnt n).
Definition and32 (a b : Z) : Z := Z.land (to_int32 a) (to_int32 b).
Definition or32 (a b : Z) : Z := Z.lor (to_int32 a) (to_int32 b).
Definition xor32 (a b : Z) : Z := Z.lxor (to_int32 a) (to_int32 b).
Definition not32 (a : Z) : Z := Z.lnot (to_int32 a).
Definition imul32 (a b : Z) : Z := to_int32 (to_int32 a * to_int32 b).   (* Math.imul *)

(* ---- JS numbers ---------------------------------------------------------- *)
Inductive jsnum :=
| Fin (z : Z)          (* the integer z, exactly *)
| NZ                   (* -0 *)
| NonInt (n d : Z)     (* the double nearest to n/d, d <> 0, d does not divide n *)
| PInf | NInf | NaN
| Unk.                 (* inexact / not covered; absorbing *)

Definition chk (z : Z) : jsnum := if Z.abs z <=? two53 then Fin z else Unk.

(* integer value of an integer-valued number (-0 counts as 0) *)
Definition jval (a : jsnum) : option Z :=
  match a with Fin z => Some z | NZ => Some 0 | _ => None end.

Definition jneg_sign (a : jsnum) : bool :=       (* sign bit of a zero/integer *)
  match a with NZ => true | Fin z => z <? 0 | _ => false end.

Definition js_neg (a : jsnum) : jsnum :=
  match a with
  | Fin 0 => NZ
  | Fin z => Fin (- z)
  | NZ => Fin 0
  | PInf => NInf | NInf => PInf | NaN => NaN
  | _ => Unk
  end.

Definition js_add (a b : jsnum) : jsnum :=
  match a, b with
  | Fin x, Fin y => chk (x + y)
  | NZ, NZ => NZ
  | NZ, Fin y => Fin y
  | Fin x, NZ => Fin x
  | _, _ => Unk
  end.

Definition js_sub (a b : jsnum) : jsnum := js_add a (js_neg b).

Definition js_mul (a b : jsnum) : jsnum :=
  match jval a, jval b with
  | Some x, Some y =>
      if x * y =? 0 then (if xorb (jneg_sign a) (jneg_sign b) then NZ else Fin 0) else chk (x * y)
  | _, _ => Unk
  end.

Definition js_div (a b : jsnum) : jsnum :=
  match jval a, jval b with
  | Some x, Some y =>
      let neg := xorb (jneg_sign a) (jneg_sign b) in
      if y =? 0 then (if x =? 0 then NaN else if neg then NInf else PInf)
      else if x =? 0 then (if neg then NZ else Fin 0)
      else if (Z.abs x <=? two53) && (Z.abs y <=? two53)
           then (if Z.rem x y =? 0 then Fin (Z.quot x y) else NonInt x y)
           else Unk
  | _, _ => Unk
  end.

Definition js_rem (a b : jsnum) : jsnum :=
  match jval a, jval b with
  | Some x, Some y =>
      if y =? 0 then NaN
      else let r := Z.rem x y in
           if r =? 0 then (if jneg_sign a then NZ else Fin 0) else Fin r
  | _, _ => Unk
  end.

(* ToInt32 / ToUint32 as options (None = Unk) *)
Definition trunc_of (a : jsnum) : option Z :=
  match a with
  | Fin z => Some z | NZ => Some 0 | NonInt n d => Some (Z.quot n d)
  | PInf | NInf | NaN => Some 0
  | Unk => None
  end.

Definition lift1 (f : Z -> Z) (a : jsnum) : jsnum :=
  match trunc_of a with Some x => Fin (f x) | None => Unk end.
Definition lift2 (f : Z -> Z -> Z) (a b : jsnum) : jsnum :=
  match trunc_of a, trunc_of b with Some x, Some y => Fin (f x y) | _, _ => Unk end.

Definition js_shl := lift2 shl32.
Definition js_shr := lift2 shr32.
Definition js_ushr := lift2 ushr32.
Definition js_and := lift2 and32.
Definition js_or := lift2 or32.
Definition js_xor := lift2 xor32.
Definition js_not := lift1 not32.
Definition js_imul := lift2 imul32.

(* Math.min on integer-valued arguments (the only use: $min(count, 31)) *)
Definition js_min (a b : jsnum) : jsnum :=
  match jval a, jval b with
  | Some x, Some y => if x <? y then a else if y <? x then b else (if jneg_sign a then a else b)
  | _, _ => match a, b with NaN, _ | _, NaN => NaN | _, _ => Unk end
  end.

(* ---- comparisons: [None] = the model cannot tell -------------------------- *)
Definition jb := option bool.

(* position on the extended real line for Fin/NZ/Inf *)
Inductive ext := EFin (z : Z) | EPInf | ENInf.
Definition ext_of (a : jsnum) : option ext :=
  match a with Fin z => Some (EFin z) | NZ => Some (EFin 0) | PInf => Some EPInf | NInf => Some ENInf | _ => None end.
Definition ext_lt (a b : ext) : bool :=
  match a, b with
  | EFin x, EFin y => x <? y
  | ENInf, ENInf => false | ENInf, _ => true
  | _, EPInf => match a with EPInf => false | _ => true end
  | _, _ => false
  end.
Definition ext_eq (a b : ext) : bool :=
  match a, b with EFin x, EFin y => x =? y | EPInf, EPInf => true | ENInf, ENInf => true | _, _ => false end.

Definition js_seq (a b : jsnum) : jb :=          (* === *)
  match a, b with
  | NaN, Unk | Unk, NaN | Unk, _ | _, Unk => match a, b with NaN, _ | _, NaN => Some false | _, _ => None end
  | NaN, _ | _, NaN => Some false
  | NonInt n d, NonInt n' d' => if (n =? n') && (d =? d') then Some true else None
  | NonInt _ _, _ | _, NonInt _ _ => Some false
  | _, _ => match ext_of a, ext_of b with Some x, Some y => Some (ext_eq x y) | _, _ => None end
  end.
Definition jb_not (a : jb) : jb := option_map negb a.
Definition js_sne (a b : jsnum) : jb := jb_not (js_seq a b).      (* !== *)
Definition js_lt (a b : jsnum) : jb :=
  match a, b with
  | NaN, _ | _, NaN => Some false
  | _, _ => match ext_of a, ext_of b with Some x, Some y => Some (ext_lt x y) | _, _ => None end
  end.
Definition js_gt (a b : jsnum) : jb := js_lt b a.
Definition js_le (a b : jsnum) : jb :=
  match a, b with
  | NaN, _ | _, NaN => Some false
  | _, _ => match ext_of a, ext_of b with Some x, Some y => Some (negb (ext_lt y x)) | _, _ => None end
  end.
Definition js_ge (a b : jsnum) : jb := js_le b a.
(* && and || of two side-effect-free operands *)
Definition jb_and (a b : jb) : jb :=
  match a with Some false => Some false | Some true => b | None => None end.
Definition jb_or (a b : jb) : jb :=
  match a with Some true => Some true | Some false => b | None => None end.

(* ---- results of a translated expression ------------------------------------- *)
Inductive throwmsg := DivideByZero | OtherThrow.
Inductive res (A : Type) := Ret (a : A) | Throw (m : throwmsg) | RUnk.
Arguments Ret {A} a. Arguments Throw {A} m. Arguments RUnk {A}.

Definition bind {A B} (r : res A) (f : A -> res B) : res B :=
  match r with Ret a => f a | Throw m => Throw m | RUnk => RUnk end.
Definition js_ite {A} (c : jb) (a b : res A) : res A :=           (* c ? a : b *)
  match c with Some true => a | Some false => b | None => RUnk end.
Definition js_ite_num (c : jb) (a b : jsnum) : jsnum :=
  match c with Some true => a | Some false => b | None => Unk end.

(* ---- fixNumber suffixes (the table itself is regenerated: Gen/C06_Tables.v) ---- *)
Inductive suffix :=
| SxShlShr (n : Z)      (* v << n >> n  *)
| SxShlUshr (n : Z)     (* v << n >>> n *)
| SxShr0                (* v >> 0  *)
| SxUshr0               (* v >>> 0 *)
| SxNone.               (* not an integer suffix ($fround, identity, or unrecognised) *)

Definition apply_suffix (s : suffix) (v : jsnum) : jsnum :=
  match s with
  | SxShlShr n => js_shr (js_shl v (Fin n)) (Fin n)
  | SxShlUshr n => js_ushr (js_shl v (Fin n)) (Fin n)
  | SxShr0 => js_shr v (Fin 0)
  | SxUshr0 => js_ushr v (Fin 0)
  | SxNone => Unk
  end.

Fixpoint lookup_suffix (k : kind) (t : list (kind * suffix)) : suffix :=
  match t with
  | [] => SxNone
  | (k', s) :: r => if kind_eqb k k' then s else lookup_suffix k r
  end.
