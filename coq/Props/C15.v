(* C15 — Maps use Go key equality for every comparable key type.
   This file holds ONLY the property theorems (each closed by [exact lemma]), their
   Print Assumptions and non-vacuity examples.
   Model: Model/C15_Keys.v (the keyFor family of compiler/prelude/types.js, $floatKey of numeric.js),
          Model/C15_JsMap.v (JS Map, the emitted map operations, the emitted range loop) — the code AFTER
          the fix commits 861b016 (interface keys by type id), cb04f65 (NaN in complex / float-array keys,
          zero-length arrays of unhashable elements), 1eafc63 (blank struct fields).
   Tie: harness/py/props/c15.py runs the real prelude type constructors / keyFor functions with the
   EMITTED map operations, and compiled programs vs native Go, against the model on every run; the
   variant of $ifaceKeyFor is probed on the real runtime (Gen.C15_Tables.c15_iface_by_id).

   All theorems are full strength for the prelude code as it is now (after 0da9cd0: $ifaceKeyFor throws for
   an uncomparable dynamic type).  One assumption of the model is NOT true of every compiled program: the
   type objects' `comparable` flags are taken to be exact.  A composite type ([n]B, struct{x B}) built over a
   named struct type before that type's init() has run keeps a stale `comparable = true` and does not panic
   as a key (known finding stale-comparable-flag-no-panic, probed by a compiled program; the node driver
   initialises types in dependency order, where the flags are exact). *)
From Coq Require Import List ZArith NArith Bool String.
From Verif Require Import Model.C15_Keys Model.C15_JsMap Proofs.C15_Escape Proofs.C15_Keys Proofs.C15_More
                          Proofs.C15_Map Proofs.C15_Range Proofs.C15_RangeOnce Proofs.C15_Tables Gen.C15_Tables.
Import ListNotations.

(* ---- Escape/join injectivity, in general over lists of strings (fixed arity) *)
Theorem C15_join_escape_injective : forall l l' : list str,
  List.length l = List.length l' -> join (map escape l) = join (map escape l') -> l = l'.
Proof. exact join_escape_inj. Qed.
Print Assumptions C15_join_escape_injective.

Theorem C15_decimal_injective : forall a b, dec a = dec b -> a = b.
Proof. exact dec_inj. Qed.
Print Assumptions C15_decimal_injective.

(* ---- key_iff_eq, full strength: for EVERY key type (bool, ints, floats incl. NaN and +-0, 64-bit,
   complex incl. NaN parts, strings, pointers/channels by identity, interfaces by dynamic type and
   value, arrays, structs incl. blank fields, nested arbitrarily) and any two well-typed keys of it whose
   keys were computed at ANY two moments of a run: the JS Map identifies them iff Go's == holds.
   Hypotheses: the trusted number printer (4 facts about V8's Number::toString), and that the
   universe D holds one record per type id (true by construction of $typeIDCounter). *)
Theorem C15_key_iff_eq : forall (nts : Z -> str),
  (forall x y, is_zero_bits x = false -> is_zero_bits y = false -> nts x = nts y -> x = y) ->
  (forall x, is_zero_bits x = false -> nts x <> of_string "0") ->
  (forall x, nts x <> of_string "NaN") ->
  (forall x, plain (nts x)) ->
  forall t a b D s0 ka s1 s2 kb s3,
    (forall d d', In d D -> In d' D -> d_id d = d_id d' -> d = d') -> incl (dyns a) D -> incl (dyns b) D ->
    wt t a = true -> wt t b = true ->
    wf s0 -> key_for nts true t a s0 = (Some ka, s1) -> sle s1 s2 -> wf s2 -> key_for nts true t b s2 = (Some kb, s3) ->
    (jskey_eqb ka kb = true <-> go_eq t a b = true).
Proof. exact key_iff_eq_by_id. Qed.
Print Assumptions C15_key_iff_eq.

(* the theorem above speaks about the variant of $ifaceKeyFor that the real runtime has on this run *)
Theorem C15_runtime_keys_interfaces_by_type_id : c15_iface_by_id = true.
Proof. exact eq_refl. Qed.
Print Assumptions C15_runtime_keys_interfaces_by_type_id.

(* NaN keys are never equal, whenever the two keys are computed (instance, also inside complex/arrays by key_iff_eq) *)
Theorem C15_nan_never_equal : forall nts by_id s ka s1 s2 kb s3,
  key_for nts by_id TFloat (VFloat FNaN) s = (Some ka, s1) -> sle s1 s2 ->
  key_for nts by_id TFloat (VFloat FNaN) s2 = (Some kb, s3) -> jskey_eqb ka kb = false.
Proof. exact nan_never_equal. Qed.
Print Assumptions C15_nan_never_equal.

(* ---- map_refines: EVERY history of set / get / comma-ok / delete / len / literal / nil-assignment run
   with the emitted operations on the JS representation shows, operation by operation, the same
   observation and the same contents as the abstract Go map (association by ==, nil map, panics on
   unhashable keys and on a store into a nil map).  Keys: any well-typed values whose dynamic types are in D. *)
Theorem C15_map_refines :
  forall (nts : Z -> str) (by_id : bool),
    (forall x y, is_zero_bits x = false -> is_zero_bits y = false -> nts x = nts y -> x = y) ->
    (forall x, is_zero_bits x = false -> nts x <> of_string "0") ->
    (forall x, nts x <> of_string "NaN") ->
    (forall x, plain (nts x)) ->
  forall t, comparable t = true -> forall D, univ_ok by_id D ->
  forall ops m am s,
    wf s -> Rm nts by_id t D s m am -> Forall (op_ok t D) ops ->
    map js_view (run nts by_id t ops m s) = a_run t ops am.
Proof. exact map_refines. Qed.
Print Assumptions C15_map_refines.

(* nil map: reads as empty, len 0, delete is a no-op, a store panics *)
Theorem C15_nil_map :
  forall (nts : Z -> str) (by_id : bool) t, comparable t = true -> forall D k v s,
    kok t D k -> wf s -> hashable t k = true ->
    fst (fst (step nts by_id t (OGet k) None s)) = RVal 0 /\
    fst (fst (step nts by_id t (OGet2 k) None s)) = RVal2 0 false /\
    fst (fst (step nts by_id t (ODel k) None s)) = RUnit /\ snd (fst (step nts by_id t (ODel k) None s)) = None /\
    fst (fst (step nts by_id t OLen None s)) = RLen 0 /\
    fst (fst (step nts by_id t (OSet k v) None s)) = RNilMapPanic /\ snd (fst (step nts by_id t (OSet k v) None s)) = None.
Proof. exact nil_map. Qed.
Print Assumptions C15_nil_map.

(* a comparable static key type and a hashable value always have a key (no spurious throw) *)
Theorem C15_hashable_has_key : forall nts by_id x ty s,
  wt ty x = true -> comparable ty = true -> hashable ty x = true ->
  exists k s', key_for nts by_id ty x s = (Some k, s').
Proof. exact hashable_has_key. Qed.
Print Assumptions C15_hashable_has_key.

(* ---- unhashable dynamic key types throw: for every comparable static key type (the only ones the type
   checker admits) and every key Go refuses to hash — slices, maps, funcs, arrays of any length and structs
   containing them, also only in blank fields, at any depth, behind interfaces *)
Theorem C15_unhashable_throws : forall nts by_id x t s,
  wt t x = true -> comparable t = true -> hashable t x = false -> fst (key_for nts by_id t x s) = None.
Proof. exact unhashable_throws. Qed.
Print Assumptions C15_unhashable_throws.

Theorem C15_blank_unhashable_throws :
  wt TIface (VDyn blank_slice (VStruct [VInt 1; VOpaque])) = true /\
  hashable TIface (VDyn blank_slice (VStruct [VInt 1; VOpaque])) = false /\
  fst (key_for nts_dummy true TIface (VDyn blank_slice (VStruct [VInt 1; VOpaque])) st0) = None.
Proof. exact blank_unhashable_throws. Qed.
Print Assumptions C15_blank_unhashable_throws.

Theorem C15_zero_length_array_throws : forall nts by_id n l s,
  key_for nts by_id (TArray n TNoKey) (VArr l) s = (None, s).
Proof. exact zero_length_array_throws. Qed.
Print Assumptions C15_zero_length_array_throws.

(* ---- range_law: range over a map whose body mutates it, for EVERY body script (any function from
   the loop's own state and the entry handed over to a list of Map mutations):
     - every entry handed to the body is in the map at that moment with its current value, so an
       entry deleted before the iterator reaches it is never visited;
     - the map after the loop is the initial map with exactly the body's mutations;
     - an entry present at loop start whose key the body never deletes is visited EXACTLY ONCE.
   [nodup]: live keys pairwise distinct - holds for every Map reachable from `new Map()`
   (C15_reachable_map_nodup); [keq] is SameValueZero on the keys that occur (C15_jskey_eqb_spec). *)
Theorem C15_range_law :
  forall (K E St : Type) (keq : K -> K -> bool), (forall a b, keq a b = true <-> a = b) ->
  forall (body : St -> K -> E -> St * list (mop K E)) m s ev m' s',
    nodup K E m -> range_over keq body m s = (ev, m', s') ->
    trace_ok K E keq m ev /\ m' = replay K E keq m ev /\
    forall k, m_get keq m k <> None -> (forall k', In (EMut (MDel k')) ev -> keq k' k = false) ->
              count_k K E keq k ev = 1%nat.
Proof. exact range_law. Qed.
Print Assumptions C15_range_law.

Theorem C15_reachable_map_nodup :
  forall (K E : Type) (keq : K -> K -> bool), (forall a b, keq a b = true <-> a = b) ->
  forall ops : list (mop K E), nodup K E (fold_left (apply_mop keq) ops []).
Proof. exact reachable_nodup. Qed.
Print Assumptions C15_reachable_map_nodup.

Theorem C15_jskey_eqb_spec : forall a b, jskey_eqb a b = true <-> a = b.
Proof. exact jskey_eqb_spec. Qed.
Print Assumptions C15_jskey_eqb_spec.

(* ---- the model's branches are those of the source as found on this run *)
Theorem C15_tables_tied :
  c15_keyfor_class = expected_keyfor_class /\ c15_native_array_kinds = expected_native /\
  c15_floatkey_as_modelled = true /\ c15_idkey_as_modelled = true /\ c15_ifacekey_as_modelled = true.
Proof. exact tables_tied. Qed.
Print Assumptions C15_tables_tied.

(* ---- non-vacuity: the hypotheses of key_iff_eq are satisfiable on adversarial pairs:
   struct{a,b string} keys ("a$","b") and ("a","$b") through an interface; a complex key with a NaN part
   against itself; struct keys that differ only in a blank field *)
Definition ex_t : dyn := {| d_id := 3; d_str := of_string "struct { a string; b string }";
                            d_shape := TStruct [(false, TString); (false, TString)] |}.
Definition ex_a := VDyn ex_t (VStruct [VString [97; 36]%N; VString [98]%N]).
Definition ex_b := VDyn ex_t (VStruct [VString [97]%N; VString [36; 98]%N]).
Example C15_nonvacuous :
  wt TIface ex_a = true /\ wt TIface ex_b = true /\ hashable TIface ex_a = true /\ wf st0 /\
  (exists ka s1 kb s3, key_for nts_dummy true TIface ex_a st0 = (Some ka, s1) /\
                       key_for nts_dummy true TIface ex_b s1 = (Some kb, s3) /\
                       jskey_eqb ka kb = false /\ go_eq TIface ex_a ex_b = false) /\
  (exists ka s1 kb s3, key_for nts_dummy true TComplex (VComplex FNaN (FNum 0)) st0 = (Some ka, s1) /\
                       key_for nts_dummy true TComplex (VComplex FNaN (FNum 0)) s1 = (Some kb, s3) /\
                       jskey_eqb ka kb = false /\ go_eq TComplex (VComplex FNaN (FNum 0)) (VComplex FNaN (FNum 0)) = false) /\
  (let t := TStruct [(false, TInt); (true, TInt)] in
   exists ka s1 kb s3, key_for nts_dummy true t (VStruct [VInt 1; VInt 2]) st0 = (Some ka, s1) /\
                       key_for nts_dummy true t (VStruct [VInt 1; VInt 3]) s1 = (Some kb, s3) /\
                       jskey_eqb ka kb = true /\ go_eq t (VStruct [VInt 1; VInt 2]) (VStruct [VInt 1; VInt 3]) = true).
Proof.
  split; [reflexivity|]. split; [reflexivity|]. split; [reflexivity|]. split; [cbn; split; intros; discriminate|].
  split; [|split]; do 4 eexists; repeat split; vm_compute; reflexivity.
Qed.

(* non-vacuity of map_refines' hypotheses: an empty non-nil map, the adversarial pair above as keys *)
Example C15_map_refines_nonvacuous :
  comparable TIface = true /\ Rm nts_dummy true TIface [ex_t] st0 (Some []) (Some []) /\
  Forall (op_ok TIface [ex_t]) [OSet ex_a 1; OSet ex_b 2; OLen; OGet2 ex_a; ODel ex_a; OLen] /\
  map js_view (run nts_dummy true TIface [OSet ex_a 1; OSet ex_b 2; OLen; OGet2 ex_a; ODel ex_a; OLen] (Some []) st0) =
  [(RUnit, [(ex_a, 1%Z)]); (RUnit, [(ex_a, 1%Z); (ex_b, 2%Z)]); (RLen 2, [(ex_a, 1%Z); (ex_b, 2%Z)]);
   (RVal2 1 true, [(ex_a, 1%Z); (ex_b, 2%Z)]); (RUnit, [(ex_b, 2%Z)]); (RLen 1, [(ex_b, 2%Z)])].
Proof.
  split; [reflexivity|]. split; [constructor|]. split; [|vm_compute; reflexivity].
  assert (Ka : kok TIface [ex_t] ex_a).
  { split; [reflexivity|]. intros d [<-|[]]. now left. }
  assert (Kb : kok TIface [ex_t] ex_b).
  { split; [reflexivity|]. intros d [<-|[]]. now left. }
  repeat (apply Forall_cons; [first [exact Ka | exact Kb | exact I]|]). apply Forall_nil.
Qed.

(* non-vacuity of range_law: map {1,2,3}; visiting 1 deletes 1 and 3 and re-inserts 1; the iterator then
   visits 2 and the re-created 1 (a NEW entry, Go allows producing it); 2 is present throughout: once *)
Example C15_range_law_nonvacuous :
  let m := fold_left (apply_mop Nat.eqb) [MSet 1 10; MSet 2 20; MSet 3 30]%nat ([] : jsmap nat nat) in
  let body := fun (s : unit) (k v : nat) => (s, if Nat.eqb k 1 then [MDel 1; MDel 3; MSet 1 11]%nat else []) in
  nodup nat nat m /\
  fst (fst (range_over Nat.eqb body m tt)) =
    [EVisit 1 10; EMut (MDel 1); EMut (MDel 3); EMut (MSet 1 11); EVisit 2 20; EVisit 1 11;
     EMut (MDel 1); EMut (MDel 3); EMut (MSet 1 11)]%nat /\
  count_k nat nat Nat.eqb 2%nat (fst (fst (range_over Nat.eqb body m tt))) = 1%nat.
Proof.
  cbn zeta. split; [|split; vm_compute; reflexivity].
  apply (reachable_nodup nat nat Nat.eqb Nat.eqb_eq).
Qed.
