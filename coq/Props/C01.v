(* C01 — temporary while phase-2 proofs are rewritten *)
From Coq Require Import ZArith List String Bool.
From Verif Require Import Model.C01_GoSem Model.C01_JsSem Model.C01_Compile Model.C01_Wf.
Import ListNotations.
Example C01_placeholder : wf_prog SSkip = true.
Proof. reflexivity. Qed.
