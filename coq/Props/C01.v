(* C01 — Compiled programs behave like the reference Go toolchain.
   This file holds ONLY the property statements, theorems closed by [exact lemma], their
   Print Assumptions and non-vacuity examples.
   Models: Model/C01_GoSem.v (MiniGo interpreter), Model/C01_JsSem.v (MiniJS interpreter),
   Model/C01_Compile.v (Gallina mirror of compiler/expressions.go + statements.go +
   filter/{assign,incdecstmt}.go + utils.go:newVariable for the fragment), Model/C01_Wf.v.
   Tie: harness/py/props/c01.py — on every generated program the body of the function in the REAL
   out.js is parsed and must be EQUAL to [compile p] (Corr/C01_Eval: temp names and the var list
   included), [run_js parsed] must equal [run_go p] (evaluated in Coq), and node / native Go must
   agree with [run_go p]. *)
From Coq Require Import ZArith List String Bool.
From Verif Require Import Model.C01_GoSem Model.C01_JsSem Model.C01_Compile Model.C01_Wf
  Proofs.C01_Arith Proofs.C01_SimBase Proofs.C01_SimExpr Proofs.C01_SimBin Proofs.C01_SimStmt4 Proofs.C01_Examples
  Model.C01_S2_GoSem Model.C01_S2_JsSem Model.C01_S2_Compile Model.C01_S2_Wf Proofs.C01_S2_Sim Proofs.C01_S2_Examples.
Import ListNotations.
Local Open Scope Z_scope.

(* ------------------------------------------------------------------------------------------
   The FULL property (all valid Go programs).  Unproved by design, never asserted: Go, its type
   checker, the real translator and node are not objects of this development, so they are
   parameters of the definition. *)
Definition C01_full_statement
  (GoProgram JsFile : Type) (valid_terminating_schedule_independent : GoProgram -> Prop)
  (reference_behaviour : GoProgram -> outcome -> Prop)        (* natively built program, int = 32 bit *)
  (gopherjs_build : GoProgram -> option JsFile)               (* None = rejected / internal error *)
  (syntactically_valid : JsFile -> Prop) (node_behaviour : JsFile -> outcome -> Prop) : Prop :=
  forall p, valid_terminating_schedule_independent p ->
    exists js, gopherjs_build p = Some js /\ syntactically_valid js /\
               forall o, reference_behaviour p o -> node_behaviour js o.

(* ------------------------------------------------------------------------------------------
   PROVED, for the stage-1 fragment (hence _partial w.r.t. the full property; nothing is excluded
   inside the fragment): every well-formed MiniGo program — one function; local variables of the
   kinds int8 int16 int32 int uint8 uint16 uint32 uint and bool; all integer operators
   + - * / % & | ^ &^ << >>, unary - ^ !, comparisons, && ||, conversions; define / assign /
   op-assign / ++ --; if / else-if / else; for with init, condition, post; labelled and unlabelled
   break / continue; println — whose Go run ends (normally or by the division panic) within the
   fuel is simulated by the translation produced by the model of the translator: same printed
   lines, same ending, and with the SAME fuel (one unit per loop iteration on both sides).
   Covers the temporaries _q _r x y and their numbering against user variables, the conditions of
   an else-if chain being translated before the bodies, the post statement duplicated at every
   continue, and wrap-around of every operator at every width. *)
Theorem compile_correct_partial : forall p, wf_prog p = true ->
  forall fuel out e, run_go fuel p = Done out e -> run_js fuel (compile p) = Done out e.
Proof. exact compile_correct_all. Qed.
Print Assumptions compile_correct_partial.

(* the form stated in the design: whenever the Go run does not run out of fuel (it is never stuck
   on a well-formed program, by the same simulation) some fuel makes the JavaScript run agree *)
Theorem compile_correct_partial_exists : forall p, wf_prog p = true ->
  forall fuel out e, run_go fuel p = Done out e -> exists fuel', run_js fuel' (compile p) = Done out e.
Proof. intros p H fuel out e G. exists fuel. exact (compile_correct_all p H fuel out e G). Qed.

(* expressions: the translation of every well-typed expression, at ANY state of the name
   allocator, evaluates to Go's value (and stays in range), throws exactly when Go panics, and
   leaves every previously allocated JavaScript variable unchanged *)
Theorem compile_expr_correct : forall g sg e t st je st' sj,
  wf_expr g e = Some t -> cexpr st e = (je, st') -> rho_ok st -> Inv g (rho st) sg sj ->
  ESim st t sg sj e je.
Proof. intros g sg e. exact (cexpr_sim g sg e). Qed.
Print Assumptions compile_expr_correct.

(* fixNumber is Go's wrap-around for every integer (not only in-range ones) and every kind *)
Theorem fixnumber_is_wraparound : forall k e s x s',
  jeval s e = JOk (JI x) s' -> jeval s (fix_number k e) = JOk (JI (norm k x)) s'.
Proof. exact fix_number_eval. Qed.
Print Assumptions fixnumber_is_wraparound.

(* ------------------------------------------------------------------------------------------
   Non-vacuity: a well-formed program with nested labelled loops, `continue` through two loops
   with a post statement that needs a temporary, shadowing, an else-if chain with divisions in the
   conditions, int8 overflow and a final division by zero; its run ends in a panic after six lines *)
Example C01_nonvacuous :
  wf_prog ex_prog = true /\
  exists out, run_go 50 ex_prog = Done out PanicExit /\ List.length out = 6%nat /\
              run_js 50 (compile ex_prog) = Done out PanicExit.
Proof. exact ex_prog_simulated. Qed.

(* the inputs on which /repo used to deviate (int8 MinInt / -1, -MinInt, negative >> 32, a
   panicking operand of a shift by >= 32) are inside the theorem now: both sides computed *)
Example C01_formerly_deviating :
  run_js 5 (compile p_quo_minint) = Done [[VI (-128)]] Exit /\ run_go 5 p_quo_minint = Done [[VI (-128)]] Exit /\
  run_js 5 (compile p_neg_minint) = Done [[VI (-2147483648)]] Exit /\ run_go 5 p_neg_minint = Done [[VI (-2147483648)]] Exit /\
  run_js 5 (compile p_shr_const) = Done [[VI (-1)]] Exit /\ run_go 5 p_shr_const = Done [[VI (-1)]] Exit /\
  run_js 5 (compile p_shift_skip) = Done [] PanicExit /\ run_go 5 p_shift_skip = Done [] PanicExit /\
  wf_prog p_quo_minint = true /\ wf_prog p_neg_minint = true /\ wf_prog p_shr_const = true /\ wf_prog p_shift_skip = true.
Proof. exact formerly_deviating. Qed.

(* ------------------------------------------------------------------------------------------
   STAGE 2 (phase 4), PROVED: programs of several top-level functions.  Models: Model/C01_S2_GoSem.v
   (functions with int8..uint / bool parameters and zero or one result; calls as statements and as
   the right-hand side of `v = f(..)` / `v := f(..)`, arguments / conditions / returned values are
   stage-1 expressions; if/else and for loops around calls; `return` also from inside those loops
   and ifs; call-free statements are arbitrary stage-1 statements; recursion bounded by the fuel),
   Model/C01_S2_JsSem.v (MiniJS with functions: fresh store per call, parameters bound left to
   right, `return`), Model/C01_S2_Compile.v (mirror of the translator: per-function name allocator
   with the parameters as the first names and listed in the var line, `f(args)` non-blocking call
   form, right-hand side translated before the defined variable is named, loop shape), Model/C01_S2_Wf.v.
   Every well-formed stage-2 program whose Go run ends (normal exit or the division panic, possibly
   inside a callee after some output) within the fuel is simulated by its translation: same printed
   lines, same ending, SAME fuel (one unit per call and per loop iteration on both sides).
   _partial w.r.t. the property text: calls nested inside operator expressions (`f(x) + g(y)`),
   calls as arguments of calls, package-level variables, break/continue across a loop that contains
   a call, composite types and everything listed in C01_full_statement beyond the fragment are not
   covered (compared against native Go on generated programs by the harness instead). *)
Theorem compile_correct_stage2_partial : forall p, wf_prog2 p = true ->
  forall fuel out e, run_go2 fuel p = Done out e -> run_js2 fuel (compile2 p) = Done out e.
Proof. exact compile_correct_stage2_all. Qed.
Print Assumptions compile_correct_stage2_partial.

(* statement level, for any function environment all of whose functions are well-formed: the
   translation of a statement (at ANY allocator state) simulates it, including `return` values *)
Theorem compile_stmt2_correct : forall fe, (forall f fd, find_fn fe f = Some fd -> wf_fn fe fd = true) ->
  forall fuel s, Dyn2 fe fuel s.
Proof. exact dyn2_all. Qed.
Print Assumptions compile_stmt2_correct.

(* Non-vacuity: recursion (h), a `return` from inside a for loop inside a function called from
   main (find), a result-less function with an early `return` (show), a bool parameter, and a
   division by zero three calls deep after two printed lines *)
Example C01_stage2_nonvacuous :
  wf_prog2 ex2_prog = true /\
  run_go2 60 ex2_prog = Done [[VI 3]; [VI 3; VB false]] PanicExit /\
  run_js2 60 (compile2 ex2_prog) = Done [[VI 3]; [VI 3; VB false]] PanicExit.
Proof. exact ex2_prog_simulated. Qed.
