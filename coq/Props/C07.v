(* C07 — Arrays and structs are values; pointers, slices and maps alias.
   This file holds ONLY the property theorems (each closed by [exact lemma]) and their Print Assumptions.
   Model: Model/C07_Heap.v (type.zero / type.copy / $clone / $copyArray / $subslice / $append / $growSlice / $copySlice),
   Model/C07_Ops.v (op sequences + canonical snapshot used by the correspondence).
   Tie: harness/py/props/c07.py runs the real prelude (node) and the model on the same op sequences, and compiled
   alias-probe programs against native Go for the translator's copying / aliasing contexts (not modelled in Coq).

   Reading guide: [R h t v d ns] = "in heap h, the value v of Go type shape t has deep value d and consists of the
   array/struct nodes ns" (references stored in fields are leaves of d: their identity, not their target). *)
From Coq Require Import List ZArith Bool Arith.
From Verif Require Import Model.C07_Heap Model.C07_Ops Proofs.C07_Clone Proofs.C07_Slices Proofs.C07_Memmove.
From Verif Require Import Model.C07_Decision Proofs.C07_P4_Decision Proofs.C07_P4_Overlap.
Import ListNotations.

(* $clone(src, T) for ANY nested array/struct shape T: it succeeds, the clone's deep value is the source's, and the
   source still reads the same. *)
Theorem C07_clone_value_eq : forall t h src d nss,
  is_node t = true -> wf h -> R h t src d nss ->
  exists c h' nsc, clone t h src = Some (c, h') /\ R h' t c d nsc /\ R h' t src d nss.
Proof. exact clone_value_eq. Qed.
Print Assumptions C07_clone_value_eq.

(* no array/struct node of the clone is a node of ANYTHING that was readable before (in particular of the source),
   and everything readable before reads the same after *)
Theorem C07_clone_disjoint : forall t h src d nss c h',
  is_node t = true -> wf h -> R h t src d nss -> clone t h src = Some (c, h') ->
  exists nsc, R h' t c d nsc /\
    forall t' v' d' ns', R h t' v' d' ns' -> R h' t' v' d' ns' /\ (forall l, In l nsc -> ~ In l ns').
Proof. exact clone_disjoint. Qed.
Print Assumptions C07_clone_disjoint.

(* hence: ANY later heap that differs only inside the nodes of one side leaves the other side's deep value unchanged *)
Theorem C07_clone_frame : forall t h src d nss c h',
  is_node t = true -> wf h -> R h t src d nss -> clone t h src = Some (c, h') ->
  exists nsc, R h' t c d nsc /\ R h' t src d nss /\ (forall l, In l nsc -> ~ In l nss) /\
    (forall h'', (forall l, ~ In l nsc -> lookup h'' l = lookup h' l) -> R h'' t src d nss) /\
    (forall h'', (forall l, ~ In l nss -> lookup h'' l = lookup h' l) -> R h'' t c d nsc).
Proof. exact clone_frame. Qed.
Print Assumptions C07_clone_frame.

(* a store into a cell of a node that does not belong to a value does not change that value *)
Theorem C07_write_other_side : forall h t1 v1 d1 ns1 l i v h',
  R h t1 v1 d1 ns1 -> ~ In l ns1 -> set_cell h l i v = Some h' -> R h' t1 v1 d1 ns1.
Proof. exact write_other_side. Qed.
Print Assumptions C07_write_other_side.

(* T.copy(dst, src) (assignment to an existing variable / field / element): dst gets src's deep value, keeps its own
   nodes (pointers to its fields stay valid), nothing outside dst's nodes changes *)
Theorem C07_copy_makes_equal_keeps_disjoint : forall t h dst src d d0 nss nsd,
  is_node t = true -> wf h -> R h t src d nss -> R h t dst d0 nsd -> NoDup nsd -> (forall l, In l nsd -> ~ In l nss) ->
  exists h', copy t h dst src = Some h' /\ R h' t dst d nsd /\ R h' t src d nss /\
             (forall l, ~ In l nsd -> lookup h' l = lookup h l).
Proof. exact copy_makes_equal_keeps_disjoint. Qed.
Print Assumptions C07_copy_makes_equal_keeps_disjoint.

(* pointers / slices / maps inside a copied struct still alias: equal deep values hold the same reference identity *)
Theorem C07_ptr_alias : forall h fs c s ds nc ns i,
  R h (TStruct fs) (VLoc c) (DNode ds) nc -> R h (TStruct fs) (VLoc s) (DNode ds) ns ->
  nth_error fs i = Some TRef ->
  get_cell h c i = get_cell h s i /\ exists z, get_cell h c i = Some (VNum z).
Proof. exact ref_field_shared. Qed.
Print Assumptions C07_ptr_alias.

(* deep value and node set are functions of (heap, type, value) *)
Theorem C07_deep_value_unique : forall h t v d ns d' ns', R h t v d ns -> R h t v d' ns' -> d = d' /\ ns = ns'.
Proof. exact R_det. Qed.
Print Assumptions C07_deep_value_unique.

(* $subslice accepts exactly 0 <= lo <= hi <= max <= cap and returns the window (same array) *)
Theorem C07_subslice_ok_iff : forall s lo hi mx,
  (exists s', subslice s lo hi mx = Some s') <->
  (0 <= lo /\ lo <= odef hi (slen s) /\ odef hi (slen s) <= odef mx (scap s) /\ odef mx (scap s) <= scap s)%Z.
Proof. exact subslice_ok_iff. Qed.
Print Assumptions C07_subslice_ok_iff.

Theorem C07_subslice_window : forall a o l c lo hi mx s',
  subslice (SHdr a o l c) lo hi mx = Some s' -> s' = SHdr a (o + lo) (odef hi l - lo) (odef mx c - lo).
Proof. exact subslice_window. Qed.
Print Assumptions C07_subslice_window.

(* append, ANY element type (arrays and structs included — $growSlice now clones them, fix 0872144).
   Within capacity: the result is a longer window onto the SAME backing array. *)
Theorem C07_append_in_place : forall e h a o l c src off n s' h',
  (0 < n)%Z -> (l + n <= c)%Z -> internal_append e h (SHdr a o l c) src off n = Some (s', h') -> s' = SHdr a o (l + n) c.
Proof. exact append_in_place. Qed.
Print Assumptions C07_append_in_place.

(* Beyond capacity: append succeeds; the result lives in a FRESH array whose capacity is the coded growth formula
   (>= needed); its cells are [own copies of the old window] ++ [the appended values] ++ [zero values] (deep values
   dsw ++ dss ++ dz); every array/struct node it consists of is freshly allocated (so it shares nothing with the old
   array or with the appended operands), and nothing that existed before is modified.
   Hypotheses only say that the slice window (w2) and the appended values (sc2) are readable. *)
Theorem C07_append_realloc : forall e h a o l c src off n w1 w2 w3 dsw nsw st sc1 sc2 sc3 dss nss,
  wf h -> (0 <= o)%Z -> (0 <= l)%Z -> (0 <= off)%Z -> (0 < n)%Z -> (c < l + n)%Z ->
  lookup h a = Some (OArr (is_num e) (w1 ++ w2 ++ w3)) -> length w1 = Z.to_nat o -> length w2 = Z.to_nat l ->
  RL h (repeat e (Z.to_nat l)) w2 dsw nsw ->
  lookup h src = Some (OArr st (sc1 ++ sc2 ++ sc3)) -> (st = true -> is_node e = false) -> length sc1 = Z.to_nat off ->
  RL h (repeat e (Z.to_nat n)) sc2 dss nss ->
  let cap' := calc_new_cap (l + n) c in
  exists a' h' cells' dz nsn,
    internal_append e h (SHdr a o l c) src off n = Some (SHdr a' 0 (l + n) cap', h') /\
    (l + n <= cap')%Z /\ lookup h a' = None /\ wf h' /\
    (forall x, x < hnext h -> lookup h' x = lookup h x) /\
    lookup h' a' = Some (OArr (is_num e) cells') /\
    RL h' (repeat e (Z.to_nat l) ++ repeat e (Z.to_nat n) ++ repeat e (Z.to_nat (cap' - l) - Z.to_nat n)) cells' (dsw ++ dss ++ dz) nsn /\
    NoDup nsn /\ (forall x, In x nsn -> hnext h <= x).
Proof. exact append_realloc. Qed.
Print Assumptions C07_append_realloc.

(* [N]T(s) (fix 978c5d8): the array receives the deep values of the first N elements of the slice WINDOW (offset
   respected), into its own nodes; nothing else changes. A slice shorter than the array is a run-time error. *)
Theorem C07_arr_from_slice_ok : forall e h dst a o l c dc d0 nsd w1 w2 w3 dsw nsw,
  wf h -> dst <> a -> (0 <= o)%Z ->
  lookup h dst = Some (OArr (is_num e) dc) -> RL h (repeat e (length dc)) dc d0 nsd -> NoDup nsd ->
  lookup h a = Some (OArr (is_num e) (w1 ++ w2 ++ w3)) -> length w1 = Z.to_nat o -> length w2 = length dc ->
  RL h (repeat e (length dc)) w2 dsw nsw -> (Z.of_nat (length dc) <= l)%Z ->
  ~ In dst nsd -> ~ In a nsd -> ~ In dst nsw -> (forall x, In x nsd -> ~ In x nsw) ->
  exists h', copy_arr_from_slice e h dst (SHdr a o l c) = Done h' /\
             R h' (TArr (length dc) e) (VLoc dst) (DNode dsw) (dst :: nsd) /\
             (forall x, x <> dst -> ~ In x nsd -> lookup h' x = lookup h x).
Proof. exact arr_from_slice_ok. Qed.
Print Assumptions C07_arr_from_slice_ok.

Theorem C07_arr_from_slice_too_short : forall e h dst s dt dc,
  lookup h dst = Some (OArr dt dc) -> (slen s < Z.of_nat (length dc))%Z -> copy_arr_from_slice e h dst s = Err.
Proof. exact arr_from_slice_too_short. Qed.
Print Assumptions C07_arr_from_slice_too_short.

(* copy(dst, src) / append(s, s...) on ONE backing array with overlapping windows = memmove: every destination cell gets
   the ORIGINAL content of its source cell, everything else is unchanged (typed-array branch and both loop directions).
   PARTIAL: elements that are not arrays/structs (enode = false). For array/struct elements copied between two
   DIFFERENT arrays the deep-copy statement is proved (it is the engine of C07_append_realloc / C07_arr_from_slice_ok);
   what is missing is the SAME-array overlapping case with array/struct elements (element nodes are overwritten
   in place in a direction-dependent order, which needs an invariant over the not-yet-copied suffix/prefix that
   is not formalised here) — that case is covered by the correspondence only. *)
Theorem C07_copy_slice_overlap_partial : forall cp h a ty cells dO sO n h',
  lookup h a = Some (OArr ty cells) -> (sO + n <= length cells)%nat -> (dO + n <= length cells)%nat ->
  copy_array cp false h a a dO sO n = Some h' ->
  exists cells', lookup h' a = Some (OArr ty cells') /\ length cells' = length cells /\
    forall p, nth_error cells' p =
              if (Nat.leb dO p && Nat.ltb p (dO + n))%bool then nth_error cells (sO + (p - dO)) else nth_error cells p.
Proof. exact copy_array_memmove. Qed.
Print Assumptions C07_copy_slice_overlap_partial.

(* ---------------------------------------------------------------- phase 4 *)

(* copy(dst, src) / append(s, s[i:]...) on ONE backing array with overlapping windows, elements that ARE arrays or
   structs (closes what C07_copy_slice_overlap_partial leaves open): $copyArray succeeds, the array keeps its element
   objects (cells and node set ns unchanged, so pointers to elements stay valid) and it is memmove on DEEP VALUES —
   every destination element ends with the ORIGINAL deep value of its source element, in both loop directions, for
   any nesting of the element type; nothing outside the element nodes changes.  [NoDup ns] = the elements of the
   backing array own pairwise disjoint nodes (invariant of every array built by the prelude). *)
Theorem C07_copy_slice_overlap_nodes : forall e h a cells ds ns dO sO n,
  is_node e = true -> wf h ->
  lookup h a = Some (OArr false cells) ->
  RL h (repeat e (length cells)) cells ds ns -> NoDup ns -> ~ In a ns ->
  sO + n <= length cells -> dO + n <= length cells ->
  exists h' ds',
    copy_array (copy e) true h a a dO sO n = Some h' /\
    wf h' /\
    lookup h' a = Some (OArr false cells) /\
    RL h' (repeat e (length cells)) cells ds' ns /\
    length ds' = length ds /\
    (forall p, nth_error ds' p =
               if (Nat.leb dO p && Nat.ltb p (dO + n))%bool then nth_error ds (sO + (p - dO)) else nth_error ds p) /\
    (forall l, ~ In l ns -> lookup h' l = lookup h l).
Proof. exact copy_array_overlap_nodes. Qed.
Print Assumptions C07_copy_slice_overlap_nodes.

(* append WITHIN capacity refines Go's append for every element type (together with C07_append_in_place and
   C07_append_realloc this is the full refinement): it succeeds, the header is the longer window onto the same array,
   positions o+l .. o+l+n-1 receive the deep values of src[off .. off+n-1] (copied INTO the array's own element
   nodes ns), every other element keeps its deep value and nothing outside the array and its element nodes changes.
   src <> a: any element type (operands of append(s, v...) / another slice); src = a (append(s[:i], s[j:]...)): array
   or struct elements via C07_copy_slice_overlap_nodes; src = a with leaf elements is the next theorem. *)
Theorem C07_append_refines_in_place : forall e h a o l c src off n dt cells ds ns st scells dss nsrc,
  wf h -> (0 < n)%Z -> (l + n <= c)%Z ->
  lookup h a = Some (OArr dt cells) ->
  RL h (repeat e (length cells)) cells ds ns -> NoDup ns -> ~ In a ns ->
  lookup h src = Some (OArr st scells) -> (st = true -> is_node e = false) ->
  RL h (repeat e (length scells)) scells dss nsrc ->
  Z.to_nat (o + l) + Z.to_nat n <= length cells -> Z.to_nat off + Z.to_nat n <= length scells ->
  (src = a -> is_node e = true) ->
  (src <> a -> ~ In src ns /\ ~ In a nsrc /\ (forall x, In x ns -> ~ In x nsrc)) ->
  exists h' cells' ds',
    internal_append e h (SHdr a o l c) src off n = Some (SHdr a o (l + n) c, h') /\
    wf h' /\
    lookup h' a = Some (OArr dt cells') /\ length cells' = length cells /\
    RL h' (repeat e (length cells')) cells' ds' ns /\ length ds' = length ds /\
    (forall p, nth_error ds' p =
               if (Nat.leb (Z.to_nat (o + l)) p && Nat.ltb p (Z.to_nat (o + l) + Z.to_nat n))%bool
               then nth_error dss (Z.to_nat off + (p - Z.to_nat (o + l))) else nth_error ds p) /\
    (forall x, x <> a -> ~ In x ns -> lookup h' x = lookup h x).
Proof. exact append_in_place_content. Qed.
Print Assumptions C07_append_refines_in_place.

Theorem C07_append_refines_in_place_self_leaf : forall e h a o l c off n dt cells,
  is_node e = false -> (0 < n)%Z -> (l + n <= c)%Z ->
  lookup h a = Some (OArr dt cells) ->
  Z.to_nat (o + l) + Z.to_nat n <= length cells -> Z.to_nat off + Z.to_nat n <= length cells ->
  exists h' cells',
    internal_append e h (SHdr a o l c) a off n = Some (SHdr a o (l + n) c, h') /\
    lookup h' a = Some (OArr dt cells') /\ length cells' = length cells /\
    (forall p, nth_error cells' p =
               if (Nat.leb (Z.to_nat (o + l)) p && Nat.ltb p (Z.to_nat (o + l) + Z.to_nat n))%bool
               then nth_error cells (Z.to_nat off + (p - Z.to_nat (o + l))) else nth_error cells p) /\
    (forall x, x <> a -> lookup h' x = lookup h x).
Proof. exact append_in_place_content_self_leaf. Qed.
Print Assumptions C07_append_refines_in_place_self_leaf.

(* the hypotheses of the two theorems above are satisfiable for every array/struct element type and every length *)
Theorem C07_overlap_hypotheses_satisfiable : forall e k,
  is_node e = true ->
  exists h a cells ds ns,
    wf h /\ lookup h a = Some (OArr false cells) /\ length cells = k /\
    RL h (repeat e (length cells)) cells ds ns /\ NoDup ns /\ ~ In a ns.
Proof. exact overlap_hypotheses_satisfiable. Qed.
Print Assumptions C07_overlap_hypotheses_satisfiable.

(* THE TRANSLATOR'S COPY DECISIONS (Model/C07_Decision.v mirrors translateAssign / translateImplicitConversionWithCloning /
   translateArgs / makeReceiver / CompositeLit / SendStmt / RangeStmt / translateResults; tied site by site to the
   JavaScript the real compiler emits).  Complete case analysis over the finite domain 45 contexts x 8 type shapes x
   13 expression classes.
   In every context where Go's semantics stores a copy of a struct/array value ([stores]) and the JavaScript object the
   source expression evaluates to may stay reachable ([may_alias]: variables, fields, elements, *p, m[k], i.(T), and
   call results because `return` does not clone), the translator emits a $clone or a T.copy or hands the value to a
   run-time helper that copies ($append) — outside the three recorded findings ([finding]). *)
Theorem C07_clone_decision_sound : forall c sh e,
  underlying_value sh = true -> stores c = true -> finding c = false -> may_alias e = true ->
  copies_value c sh e = true.
Proof. exact clone_decision_sound. Qed.
Print Assumptions C07_clone_decision_sound.

(* the unrestricted statement is kept visible; the faithful model refutes it with one witness per recorded finding *)
Definition C07_clone_decision_full_statement : Prop := forall c sh e,
  valid c sh e = true -> underlying_value sh = true -> stores c = true -> may_alias e = true -> copies_value c sh e = true.

(* `var i any = s` (box-into-interface-does-not-copy) *)
Theorem C07_clone_decision_box_refuted :
  valid CBoxAssign ShNamedStruct EVar = true /\ stores CBoxAssign = true /\ may_alias EVar = true /\
  copies_value CBoxAssign ShNamedStruct EVar = false /\ ~ C07_clone_decision_full_statement.
Proof. exact box_refuted_witness. Qed.
(* `for i, v := range arr` (range-over-array-value-does-not-copy) *)
Theorem C07_clone_decision_range_refuted :
  valid CRangeExprArray ShNamedArray EVar = true /\ stores CRangeExprArray = true /\
  copies_value CRangeExprArray ShNamedArray EVar = false /\ ~ C07_clone_decision_full_statement.
Proof. exact range_refuted_witness. Qed.
(* `var k I = &a; k.M()` with a value-receiver M (value-receiver-indirect-call-does-not-copy) *)
Theorem C07_clone_decision_receiver_refuted :
  valid CIfacePtrCall ShNamedStruct EDeref = true /\ stores CIfacePtrCall = true /\
  copies_value CIfacePtrCall ShNamedStruct EDeref = false /\ ~ C07_clone_decision_full_statement.
Proof. exact receiver_refuted_witness. Qed.
Print Assumptions C07_clone_decision_receiver_refuted.

(* the findings are exactly the storing contexts that never copy *)
Theorem C07_finding_iff_never_copies : forall c,
  stores c = true -> (finding c = true <-> forall sh e, copies_value c sh e = false).
Proof. exact finding_iff_never_copies. Qed.

(* outside the findings a storing context omits the copy exactly for `x := T{...}` (a fresh literal) *)
Theorem C07_clone_skip_exact : forall c sh e,
  underlying_value sh = true -> stores c = true -> finding c = false ->
  (copies_value c sh e = false <->
   e = ECompLit /\ In c [CDefine; CVarDecl; CVarDeclInfer; CTupleDefine; CCommaOk; CTypeSwitchBind;
                          CRangeValSlice; CRangeValArray; CRangeValPtrArray; CRangeValMap]).
Proof. exact clone_skip_exact. Qed.
Print Assumptions C07_clone_skip_exact.

(* the aliasing half: for pointers, slices, maps and basic types no context ever emits a $clone or a copy *)
Theorem C07_reference_shapes_never_copied : forall c sh e,
  underlying_value sh = false -> site_counts c sh e = (0, 0) /\ copies_value c sh e = false.
Proof. exact reference_shapes_never_copied. Qed.
Print Assumptions C07_reference_shapes_never_copied.

(* unbounded: a value that reaches the context through ANY number of `return`s (none of which copies) is copied by
   the receiving context *)
Theorem C07_clone_decision_flow_sound : forall f c sh,
  underlying_value sh = true -> stores c = true -> finding c = false -> flow_aliases f = true ->
  flow_copied sh f || copies_value c sh (flow_head f) = true.
Proof. exact clone_decision_flow_sound. Qed.
Theorem C07_return_never_copies : forall f sh, flow_copied sh f = false.
Proof. exact return_never_copies. Qed.
Print Assumptions C07_clone_decision_flow_sound.

(* decision + heap model: in a context that decides for $clone, the run-time clone yields the source's deep value in
   nodes disjoint from everything readable before (C07_clone_disjoint) *)
Theorem C07_decided_clone_independent : forall c sh e t h src d nss,
  underlying_value sh = true -> stores c = true -> finding c = false -> may_alias e = true ->
  em_copies (decide c sh e) = 0 -> em_runtime (decide c sh e) = false ->
  is_node t = true -> wf h -> R h t src d nss ->
  0 < em_clones (decide c sh e) /\
  exists cl h' nsc, clone t h src = Some (cl, h') /\ R h' t cl d nsc /\ R h' t src d nss /\
    forall t' v' d' ns', R h t' v' d' ns' -> R h' t' v' d' ns' /\ (forall l, In l nsc -> ~ In l ns').
Proof. exact decided_clone_independent. Qed.
Print Assumptions C07_decided_clone_independent.

Example C07_decision_nonvacuous :
  site_counts CDefine ShNamedStruct EVar = (1, 0) /\ site_counts CDefine ShNamedStruct ECompLit = (0, 0) /\
  site_counts CAssignField ShArray ECall = (0, 1) /\ site_counts CSend ShStruct EConvOther = (3, 0) /\
  site_counts CBoxArg ShNamedStruct EVar = (0, 0) /\ site_counts CArg ShSlice EVar = (0, 0).
Proof. exact decision_examples. Qed.

(* Non-vacuity: for every array/struct shape the hypotheses of the clone theorems are satisfiable (the zero value
   in the empty heap), and a concrete nested shape evaluates. *)
Theorem C07_hypotheses_satisfiable : forall t,
  is_node t = true ->
  exists v h d ns, zero t empty_heap = (v, h) /\ wf h /\ R h t v d ns /\ NoDup ns /\
                   exists c h', clone t h v = Some (c, h').
Proof. exact zero_then_clone_exists. Qed.
Print Assumptions C07_hypotheses_satisfiable.

Example C07_nonvacuous :
  let t := TStruct [TArr 2 (TStruct [TNum; TRef]); TArr 3 TNum; TScalar] in
  let '(v, h) := zero t empty_heap in
  match clone t h v with
  | Some (c, h') => snapshot (mkState h' [(t, v); (t, c)] []) =
      ([SNode 0 2 [SNode 1 0 [SNode 2 2 [SLeaf 0; SLeaf 0]; SNode 3 2 [SLeaf 0; SLeaf 0]]; SNode 4 1 [SLeaf 0; SLeaf 0; SLeaf 0]; SLeaf 0];
        SNode 5 2 [SNode 6 0 [SNode 7 2 [SLeaf 0; SLeaf 0]; SNode 8 2 [SLeaf 0; SLeaf 0]]; SNode 9 1 [SLeaf 0; SLeaf 0; SLeaf 0]; SLeaf 0]], [])
  | None => False
  end.
Proof. vm_compute. reflexivity. Qed.

(* Non-vacuity of the append theorems: a reallocating append on a slice of structs evaluates, and the new backing
   array shares no node with the old one (no SSeen marker in the canonical snapshot). *)
Example C07_append_nonvacuous :
  let t := TStruct [TScalar; TArr 2 TNum] in
  snd (snapshot (fst (run init_state [OMake t 1 1; OSWrite 0 0 [0] 7; OZero t; OAppend 0 [IR 0 []]%nat]))) =
  [SSl (SNode 2 0 [SNode 3 2 [SLeaf 7; SNode 4 1 [SLeaf 0; SLeaf 0]]]) 0 1 1;
   SSl (SNode 5 0 [SNode 6 2 [SLeaf 7; SNode 7 1 [SLeaf 0; SLeaf 0]]; SNode 8 2 [SLeaf 0; SNode 9 1 [SLeaf 0; SLeaf 0]]]) 0 2 2]%Z.
Proof. vm_compute. reflexivity. Qed.
