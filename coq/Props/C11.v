(* C11 — Go and JavaScript values convert as documented and round-trip.
   ONLY the property theorems (each closed by [exact lemma]) and their Print Assumptions.
   Model: Model/C11_JsMapping.v ($externalize/$internalize of compiler/prelude/jsmapping.js, $decodeRune/$encodeRune,
   $flatten64 and the 64-bit constructors, fc.internalize of compiler/expressions.go, $externalizeFunction's cache, $block).
   Tie: harness/py/props/c11.py replays generated conversions on the real prelude (node) and on the model, and runs
   compiled programs.

   The four defects found in phase 1 (sign of zero lost by $internalize, unpaired high surrogates, nil map -> empty map,
   nil struct pointer -> TypeError) are repaired in /repo (commit 0509738); the model follows the repaired code and the
   theorems below are the full statements. *)
From Coq Require Import List ZArith Bool.
From Verif Require Import Model.C11_JsMapping Proofs.C11_Strings Proofs.C11_Numbers.
Import ListNotations.
Local Open Scope Z_scope.

(* ---------------------------------------------------------------- strings *)

(* Go -> JS -> Go is the identity on every valid UTF-8 string (any scalar values, non-BMP included), and the JS string
   in between is the UTF-16 encoding of the same scalar values. *)
Theorem C11_string_roundtrip : forall s, valid_utf8 s -> int_string (ext_string s) = s.
Proof. exact string_roundtrip. Qed.
Print Assumptions C11_string_roundtrip.

Theorem C11_string_transcoding : forall rs, Forall scalar rs ->
  ext_string (utf8 rs) = utf16 rs /\ int_string (utf16 rs) = utf8 rs.
Proof. exact string_transcoding. Qed.
Print Assumptions C11_string_transcoding.

(* the model's encoder is UTF-8 as defined by the Unicode standard (table 3-6) *)
Theorem C11_encoder_is_utf8 : forall r, scalar r -> encode_rune r = utf8_spec r.
Proof. exact encode_rune_is_utf8. Qed.
Print Assumptions C11_encoder_is_utf8.

(* JS -> Go -> JS is the identity on every well-formed UTF-16 string *)
Theorem C11_utf16_roundtrip : forall u, wellformed_utf16 u -> ext_string (int_string u) = u.
Proof. exact utf16_roundtrip. Qed.
Print Assumptions C11_utf16_roundtrip.

(* invalid UTF-8: a byte that cannot start a sequence, or a lead byte without its continuation, becomes U+FFFD and
   decoding resumes at the next byte *)
Theorem C11_invalid_utf8_lead : forall c rest, (0x80 <= c < 0xC0 \/ 0xF8 <= c) ->
  ext_loop 0 (c :: rest) = 0xFFFD :: ext_loop 0 rest.
Proof. exact ext_invalid_lead. Qed.
Print Assumptions C11_invalid_utf8_lead.

Theorem C11_invalid_utf8_truncated : forall c c1 rest, 0xC0 <= c -> cont_bad c1 = true ->
  ext_loop 0 (c :: c1 :: rest) = 0xFFFD :: ext_loop 0 (c1 :: rest).
Proof. exact ext_truncated. Qed.
Print Assumptions C11_invalid_utf8_truncated.

(* ill-formed UTF-16: EVERY JS string converts like Go's unicode/utf16.Decode followed by UTF-8 encoding
   (unpaired surrogates, high or low, become U+FFFD and nothing else is consumed) *)
Theorem C11_utf16_degradation : forall u, Forall (fun c => 0 <= c) u ->
  int_string u = utf8 (utf16_decode u).
Proof. exact int_string_degrades. Qed.
Print Assumptions C11_utf16_degradation.

(* ---------------------------------------------------------------- integers *)

(* every non-64-bit integer kind, every value of its range: Go -> JS is the same number, JS -> Go gives it back *)
Theorem C11_int_roundtrip : forall k lo hi z, int_range k = Some (lo, hi) -> lo <= z <= hi ->
  externalize (TB k) (GNum (NumZ z)) = Ok (JNum (NumZ z)) /\
  internalize (TB k) (JNum (NumZ z)) = Ok (GNum (NumZ z)).
Proof. exact int_roundtrip. Qed.
Print Assumptions C11_int_roundtrip.

(* the accessor o.Int() / js-tagged integer fields ($parseInt + fixNumber) *)
Theorem C11_compiled_int_roundtrip : forall k lo hi z, int_range k = Some (lo, hi) -> lo <= z <= hi ->
  compiled_internalize (TB k) (JNum (NumZ z)) = Ok (GNum (NumZ z)).
Proof. exact compiled_int_roundtrip. Qed.
Print Assumptions C11_compiled_int_roundtrip.

(* 64-bit integers in normal form ($high int32 / uint32, $low uint32) below 2^53 in magnitude *)
Theorem C11_int64_roundtrip : forall hi lo,
  - two31 <= hi < two31 -> 0 <= lo < two32 -> Z.abs (hi * two32 + lo) < two53 ->
  externalize (TB KInt64) (G64 hi lo) = Ok (JNum (NumZ (hi * two32 + lo))) /\
  internalize (TB KInt64) (JNum (NumZ (hi * two32 + lo))) = Ok (G64 hi lo).
Proof. exact int64_roundtrip. Qed.
Print Assumptions C11_int64_roundtrip.

Theorem C11_uint64_roundtrip : forall hi lo,
  0 <= hi < two32 -> 0 <= lo < two32 -> hi * two32 + lo < two53 ->
  externalize (TB KUint64) (G64 hi lo) = Ok (JNum (NumZ (hi * two32 + lo))) /\
  internalize (TB KUint64) (JNum (NumZ (hi * two32 + lo))) = Ok (G64 hi lo).
Proof. exact uint64_roundtrip. Qed.
Print Assumptions C11_uint64_roundtrip.

(* ---------------------------------------------------------------- floats, booleans *)

(* every number: NaN, the infinities, denormals and -0 included *)
Theorem C11_float_roundtrip : forall k n, (k = KFloat32 \/ k = KFloat64) ->
  externalize (TB k) (GNum n) = Ok (JNum n) /\ internalize (TB k) (JNum n) = Ok (GNum n).
Proof. exact float_roundtrip. Qed.
Print Assumptions C11_float_roundtrip.

(* ... and through interface{} (the Number row of the table) *)
Theorem C11_float_through_interface : forall n,
  internalize TIface (JNum n) = Ok (GIface (Some (TB KFloat64, GNum n))).
Proof. exact float_through_interface. Qed.
Print Assumptions C11_float_through_interface.

(* o.Float() and js-tagged float fields keep the sign of zero *)
Theorem C11_compiled_float_roundtrip : forall k n, (k = KFloat32 \/ k = KFloat64) ->
  compiled_externalize (TB k) (GNum n) = Ok (JNum n) /\ compiled_internalize (TB k) (JNum n) = Ok (GNum n).
Proof. exact compiled_float_roundtrip. Qed.
Print Assumptions C11_compiled_float_roundtrip.

Theorem C11_bool_roundtrip : forall b,
  externalize (TB KBool) (GBool b) = Ok (JBool b) /\ internalize (TB KBool) (JBool b) = Ok (GBool b).
Proof. exact bool_roundtrip. Qed.
Print Assumptions C11_bool_roundtrip.

(* ---------------------------------------------------------------- the interface{} table of js/js.go *)

(* bool -> bool, numbers -> float64, string -> string *)
Theorem C11_interface_table_scalars : forall k v j g,
  externalize (TB k) v = Ok j -> internalize TIface j = Ok g -> iface_type g = table_row (TB k).
Proof. exact table_scalars. Qed.
Print Assumptions C11_interface_table_scalars.

(* []int8 -> []int8, ..., []int32 and []int -> []int, []uint32 and []uint -> []uint, other slices -> []interface{} *)
Theorem C11_interface_table_slices : forall e l j g,
  externalize (TSlice e) (GSlice (Some l)) = Ok j -> internalize TIface j = Ok g ->
  iface_type g = table_row (TSlice e).
Proof. exact table_slices. Qed.
Print Assumptions C11_interface_table_slices.

(* maps and structs -> map[string]interface{} *)
Theorem C11_interface_table_maps : forall e kvs j g,
  externalize (TMap e) (GMap (Some kvs)) = Ok j -> internalize TIface j = Ok g ->
  iface_type g = table_row (TMap e).
Proof. exact table_maps. Qed.
Print Assumptions C11_interface_table_maps.

Theorem C11_interface_table_structs : forall fs vs j g,
  search_js_object 8 (TStruct fs) (GStruct vs) = None ->
  externalize (TStruct fs) (GStruct vs) = Ok j -> internalize TIface j = Ok g ->
  iface_type g = table_row (TStruct fs).
Proof. exact table_structs. Qed.
Print Assumptions C11_interface_table_structs.

(* nil slices / maps / pointers / interfaces <-> null *)
Theorem C11_nil_is_null : forall t v,
  (v = GSlice None \/ v = GMap None \/ v = GPtr None \/ v = GIface None) ->
  forall j, externalize t v = Ok j -> j = JNull /\ internalize TIface j = Ok (GIface None).
Proof. exact table_nil. Qed.
Print Assumptions C11_nil_is_null.

(* typed round trip of nil values: a nil slice / map / pointer / interface{} of ANY type becomes null and comes back as
   itself.  (An interface type with methods is excluded because $internalize rejects such types altogether, by design.) *)
Theorem C11_nil_roundtrip : forall t v, t <> TIfaceM -> is_nil v ->
  externalize t v = Ok JNull -> internalize t JNull = Ok v.
Proof. exact nil_roundtrip. Qed.
Print Assumptions C11_nil_roundtrip.

(* ---------------------------------------------------------------- exposed functions *)

(* the same Go function externalizes to the same JS function, whatever else is externalized in between *)
Theorem C11_wrapper_identity : forall s f gs,
  fst (externalize_function (run_ext (snd (externalize_function s (Some f))) gs) (Some f)) =
  fst (externalize_function s (Some f)).
Proof. exact wrapper_identity. Qed.
Print Assumptions C11_wrapper_identity.

(* externalizing again changes nothing (idempotence of the cache) *)
Theorem C11_wrapper_cached : forall s f,
  let '(j1, s1) := externalize_function s (Some f) in externalize_function s1 (Some f) = (j1, s1).
Proof. exact wrapper_cached. Qed.
Print Assumptions C11_wrapper_cached.

(* different Go functions get different JS functions *)
Theorem C11_wrapper_injective : forall s f g,
  cache_ok s -> f <> g ->
  fst (externalize_function s (Some f)) <>
  fst (externalize_function (snd (externalize_function s (Some f))) (Some g)).
Proof. exact wrapper_injective. Qed.
Print Assumptions C11_wrapper_injective.

(* blocking with no current goroutine (a JavaScript callback) raises the error and leaves the scheduler state untouched *)
Theorem C11_callback_guard : forall s, cur s = None -> block s = GuardError s.
Proof. exact callback_guard. Qed.
Print Assumptions C11_callback_guard.

(* ---------------------------------------------------------------- non-vacuity *)

(* "A😀é" + U+10FFFF: valid UTF-8, non-BMP; the hypotheses of the round trips are satisfiable and the conversion computes *)
Example C11_nonvacuous :
  let s := [0x41; 0xF0; 0x9F; 0x98; 0x80; 0xC3; 0xA9; 0xF4; 0x8F; 0xBF; 0xBF] in
  valid_utf8 s /\
  externalize (TB KString) (GStr s) = Ok (JStr [0x41; 0xD83D; 0xDE00; 0xE9; 0xDBFF; 0xDFFF]) /\
  internalize (TB KString) (JStr [0x41; 0xD83D; 0xDE00; 0xE9; 0xDBFF; 0xDFFF]) = Ok (GStr s) /\
  int_range KInt8 = Some (-128, 127) /\
  internalize (TB KInt8) (JNum (NumZ 200)) = Ok (GNum (NumZ (-56))) /\
  internalize (TB KInt64) (JNum (NumZ (-5))) = Ok (G64 (-1) 4294967291) /\
  internalize (TB KFloat64) (JNum NegZero) = Ok (GNum NegZero) /\
  int_string [0xD800; 0x41] = [0xEF; 0xBF; 0xBD; 0x41] /\
  internalize (TMap (TB KInt)) JNull = Ok (GMap None) /\
  cache_ok {| wrappers := []; next_js := 0 |}.
Proof.
  cbv zeta. split.
  - exists [0x41; 0x1F600; 0xE9; 0x10FFFF]. split; [|reflexivity].
    repeat constructor; unfold scalar; cbn; intuition; try discriminate; try (intro; discriminate).
  - repeat split; try reflexivity; cbn; intros; try contradiction; discriminate.
Qed.
