(* C08 — Panics, deferred calls, recover and run-time errors follow the spec.
   Theorems are stated for the CURRENT code; historic (unrepaired) shapes live in Model/Proofs only.
   ONLY property theorems (closed by [exact lemma]) + Print Assumptions.
   Models: Model/C08_Guards.v (part A), Model/C08_Panic.v (part B).
   Tie: harness/py/props/c08.py. *)
From Coq Require Import List ZArith NArith Bool Arith.
From Verif Require Import Model.C08_Guards Model.C08_Guards2 Model.C08_Panic Gen.C08_Consts Proofs.C08_Guards Proofs.C08_Panic.
From Verif Require Import Proofs.C08_P4_Once Proofs.C08_P4_Thms Proofs.C08_P4_Guards.
Import ListNotations.
Local Open Scope Z_scope.

(* ======================= part A: guard_fires_iff_spec ======================= *)

Theorem C08_gen_consts_ok :
  gen_makeslice_len_max = MAXINT /\ gen_makeslice_cap_max = MAXINT /\
  gen_makechan_max = MAXINT /\ gen_makemap_max = MAXINT /\ gen_recover_delta = 2.
Proof. exact gen_consts_ok. Qed.
Print Assumptions C08_gen_consts_ok.

Theorem C08_index_guard_fires_iff_spec : forall i len, impl_index i len = spec_index i len.
Proof. exact index_guard_iff. Qed.
Print Assumptions C08_index_guard_fires_iff_spec.

Theorem C08_index_guard_throws_iff : forall i len, impl_index i len = GThrow <-> ~ (0 <= i < len).
Proof. exact index_throws_iff. Qed.
Print Assumptions C08_index_guard_throws_iff.

(* s[i] on a string: emitted through rangeCheck like any other index (a constant index is only
   left unchecked against a constant string, which go/types checks) *)
Theorem C08_string_index_guard_fires_iff_spec : forall i len, impl_index i len = spec_index i len.
Proof. exact index_guard_iff. Qed.
Print Assumptions C08_string_index_guard_fires_iff_spec.

Theorem C08_index_const_guard_fires_iff_spec : forall i len, 0 <= i -> impl_index_const i len = spec_index i len.
Proof. exact index_const_guard_iff. Qed.
Print Assumptions C08_index_const_guard_fires_iff_spec.

Theorem C08_subslice_guard_fires_iff_spec : forall offset len cap low high max,
  impl_subslice offset len cap low high max = spec_subslice offset len cap low high max.
Proof. exact subslice_guard_iff. Qed.
Print Assumptions C08_subslice_guard_fires_iff_spec.

Theorem C08_subslice_guard_throws_iff : forall offset len cap low h m,
  impl_subslice offset len cap low (Some h) (Some m) = GThrow <-> ~ (0 <= low <= h /\ h <= m <= cap).
Proof. exact subslice_throws_iff. Qed.
Print Assumptions C08_subslice_guard_throws_iff.

(* $substring(str, low, high) with high defaulting to str.length: all three forms s[l:h], s[l:], s[:h] *)
Theorem C08_substring_guard_fires_iff_spec : forall len low high,
  impl_substring_fixed len low high = spec_substring len low high.
Proof. exact substring_fixed_guard_iff. Qed.
Print Assumptions C08_substring_guard_fires_iff_spec.

Theorem C08_makeslice_guard_fires_iff_spec : forall len cap, impl_makeslice len cap = spec_makeslice len cap.
Proof. exact makeslice_guard_iff. Qed.
Print Assumptions C08_makeslice_guard_fires_iff_spec.

Theorem C08_makeslice_guard_throws_iff : forall len c,
  impl_makeslice len (Some c) = GThrow <-> (len < 0 \/ c < len \/ MAXINT < c).
Proof. exact makeslice_throws_iff. Qed.
Print Assumptions C08_makeslice_guard_throws_iff.

Theorem C08_makesize_guard_fires_iff_spec : forall n, impl_makesize n = spec_makesize n.
Proof. exact makesize_guard_iff. Qed.
Print Assumptions C08_makesize_guard_fires_iff_spec.

Theorem C08_quo_guard_fires_iff_spec : forall signed x y, impl_quo signed x y = spec_quo signed x y.
Proof. exact quo_guard_iff. Qed.
Print Assumptions C08_quo_guard_fires_iff_spec.

Theorem C08_quo_guard_throws_iff : forall signed x y, impl_quo signed x y = GThrow <-> y = 0.
Proof. exact quo_throws_iff. Qed.
Print Assumptions C08_quo_guard_throws_iff.

Theorem C08_rem_guard_fires_iff_spec : forall x y, impl_rem x y = spec_rem x y.
Proof. exact rem_guard_iff. Qed.
Print Assumptions C08_rem_guard_fires_iff_spec.

Theorem C08_slice2arr_guard_fires_iff_spec : forall slen alen, impl_slice2arr slen alen = spec_slice2arr slen alen.
Proof. exact slice2arr_guard_iff. Qed.
Print Assumptions C08_slice2arr_guard_fires_iff_spec.

Theorem C08_quo_value_exact_signed : forall z, -2147483648 <= z <= 2147483647 -> wrap32 true z = z.
Proof. exact wrap32_id_signed. Qed.
Print Assumptions C08_quo_value_exact_signed.

(* ======================= part B: unwinding machine ========================== *)
(* ImplPanic has three variant flags (Model/C08_Panic.v [variant]), one per repaired finding; the
   check probes the source on every run and evaluates the shape it finds.  /repo HEAD has all three
   repairs: V_FULL.  Historic shapes (V_OLD, V_GOEXIT, V_REPAIRED) and their refutations live in
   Proofs/C08_Panic.v only. *)

(* defer_lifo, unbounded: for EVERY program, every amount of fuel and every variant, the events of
   each $deferred list replay as a stack ([pend] is defined, and what is still pending is exactly what
   is still in the list): a deferred call is run only when it is the most recently pushed pending call
   of its activation — LIFO order, each call at most once, on normal return, panic and Goexit alike. *)
Theorem C08_impl_defer_lifo_at_most_once : forall vr fuel p out s,
  impl_fun vr fuel p 0 0 wrapper j_init = Some (out, s) ->
  forall id, pend id (j_trace s) = Some (heights (length (list_get (j_lists s) id))).
Proof. exact impl_defer_lifo_at_most_once. Qed.
Print Assumptions C08_impl_defer_lifo_at_most_once.

(* recover_legal_iff, the part that is proved: the numeric stack-depth test of $recover is
   equivalent to "called directly by the deferred function which the $callDeferred invocation
   owning the current panic called" (m = 0), for every depth D, offset o, and every number n of
   nested running $callDeferred invocations among the m frames in between.  Missing for the
   full statement: the invariant that in every run $panicStackDepth, when not null, belongs to
   a still running invocation and that $stackDepthOffset equals minus the number of running
   invocations (checked only differentially, by the correspondence). *)
Theorem C08_recover_legal_iff_partial : forall D o n m s,
  (m = 0 /\ n = 0) \/ (0 <= n < m) ->
  j_psd s = Some (o + (D + 1)) -> j_offset s = o - n ->
  (fst (js_recover (D + 1 + m) s) = Some (j_pv s) <-> m = 0) /\
  (m <> 0 -> fst (js_recover (D + 1 + m) s) = None).
Proof. exact recover_depth_test_iff. Qed.
Print Assumptions C08_recover_legal_iff_partial.

(* Full statements (for a variant vr): ImplPanic refines SpecPanic on every defer program, and at
   the end of every run nothing is pending (each pushed deferred call ran exactly once). *)
Definition C08_impl_refines_spec_panic_full_statement (vr : variant) : Prop :=
  forall p, impl_refines_spec_on vr p.
Definition C08_defer_lifo_once_full_statement (vr : variant) : Prop :=
  forall fuel p out s, impl_fun vr fuel p 0 0 wrapper j_init = Some (out, s) ->
  forall id, pend id (j_trace s) = Some [].

(* impl_refines_spec_panic and defer_lifo_once, bounded: on the 334 408 exhaustively enumerated
   programs [enum_full] ImplPanic (current shape) and SpecPanic terminate with the same observable
   trace and final status, and every pushed deferred call has run exactly once.  The class: one
   function with <= 2 statements over 79 statement shapes or <= 5 statements over 11 shapes; two
   functions with call / defer and panics in caller and callee; Goexit in function bodies and in
   deferred calls across two functions, with deferred calls that call functions having defers while
   the goroutine exits; panics raised INSIDE deferred calls (replaced panics, re-panic after recover,
   panic in a helper of a deferred call, nested deferred recover; one function with <= 4 statements
   over 16 shapes, two functions that call / defer each other and both panic); Goexit mixed with
   panics in deferred calls.  Not unbounded: no simulation proof between the two machines exists
   (it needs the stack-shape invariant mentioned at recover_legal_iff); suspension is not modelled. *)
Theorem C08_impl_refines_spec_panic_partial : forall p, In p enum_full ->
  exists r, obs (spec_run ENUM_FUEL p) = Some r /\ obs (impl_run V_FULL ENUM_FUEL p) = Some r.
Proof. exact refines_full. Qed.
Print Assumptions C08_impl_refines_spec_panic_partial.
Theorem C08_defer_lifo_once_partial : forall p, In p enum_full ->
  exists out s, impl_fun V_FULL ENUM_FUEL p 0 0 wrapper j_init = Some (out, s) /\
    forall id, (id < j_next s)%nat -> pend id (j_trace s) = Some [].
Proof. exact lifo_once_full. Qed.
Print Assumptions C08_defer_lifo_once_partial.

(* the minimal witnesses of the five repaired findings (Goexit swallowed, Goexit repair aborting a
   deferring callee, replaced panic resurrected, deferred call skipped, panic during Goexit swallowed)
   behave as in Go on the current shape *)
Theorem C08_repaired_witnesses :
  obs (impl_run V_FULL 100 wit_goexit) = obs (spec_run 100 wit_goexit) /\
  obs (impl_run V_FULL 100 wit_goexit_fixed) = obs (spec_run 100 wit_goexit_fixed) /\
  obs (impl_run V_FULL 100 wit_replaced) = obs (spec_run 100 wit_replaced) /\
  obs (impl_run V_FULL 100 wit_skipped) = obs (spec_run 100 wit_skipped) /\
  obs (impl_run V_FULL 100 wit_goexit_panic) = obs (spec_run 100 wit_goexit_panic) /\
  obs (spec_run 100 wit_goexit_panic) = Some ([], FFatal (PInt 2)) /\
  obs (spec_run 100 wit_skipped) = Some ([ERec (Some (PInt 2)); ERec None; ETrace 0; ETraceX 0 0], FNormal).
Proof. exact witnesses_full. Qed.
Print Assumptions C08_repaired_witnesses.

Theorem C08_enumeration_sizes :
  N.of_nat (length enum_calm) = 226477%N /\ N.of_nat (length enum_all) = 329727%N /\ N.of_nat (length enum_full) = 334408%N.
Proof. exact enum_sizes. Qed.
Print Assumptions C08_enumeration_sizes.


(* ======================= phase 4 ============================================ *)
(* ---- part A: guards on the shape of a value (Model/C08_Guards2.v) ---- *)
(* m[k] = v panics exactly when m is the nil map (`false`), otherwise it stores *)
Theorem C08_map_store_guard_fires_iff_spec : forall m k v, impl_map_store m k v = spec_map_store m k v.
Proof. exact map_store_guard_iff. Qed.
Print Assumptions C08_map_store_guard_fires_iff_spec.
Theorem C08_map_store_guard_throws_iff : forall m k v, impl_map_store m k v = GThrow <-> m = JMNil.
Proof. exact map_store_throws_iff. Qed.
Print Assumptions C08_map_store_guard_throws_iff.
(* v, ok = m[k] through $mapIndex never panics, also on the nil map, and gives the stored entry / the zero value *)
Theorem C08_map_read_guard_fires_iff_spec : forall m k, impl_map_read m k = spec_map_read m k /\ impl_map_read m k <> GThrow.
Proof. exact map_read_both. Qed.
Print Assumptions C08_map_read_guard_fires_iff_spec.
(* p.f and p.f = v through a struct pointer: panic exactly when p is typ.ptr.nil (f one of the struct's fields) *)
Theorem C08_nil_ptr_get_guard_fires_iff_spec : forall p i, (i < ptr_nfields p)%nat ->
  impl_ptr_get p i = spec_ptr_get p i /\ (impl_ptr_get p i = GThrow <-> exists n, p = JPNil n).
Proof. exact ptr_get_both. Qed.
Print Assumptions C08_nil_ptr_get_guard_fires_iff_spec.
Theorem C08_nil_ptr_set_guard_fires_iff_spec : forall p i v, (i < ptr_nfields p)%nat ->
  impl_ptr_set p i v = spec_ptr_set p i v /\ (impl_ptr_set p i v = GThrow <-> exists n, p = JPNil n).
Proof. exact ptr_set_both. Qed.
Print Assumptions C08_nil_ptr_set_guard_fires_iff_spec.
(* x.(T) panics exactly when the assertion does not hold (nil interface, other dynamic type, missing method) *)
Theorem C08_assert_guard_throws_iff : forall v t, impl_assert v t false = GThrow <-> ~ assert_holds v t.
Proof. exact assert_throws_iff. Qed.
Print Assumptions C08_assert_guard_throws_iff.
(* v, ok := x.(T) never panics; ok iff the assertion holds; then v is the dynamic value, else the zero value *)
Theorem C08_assert_commaok_never_throws : forall v t,
  impl_assert v t true <> GThrow /\
  ((exists pl, impl_assert v t true = GOk [pl; 1]) <-> assert_holds v t) /\
  (~ assert_holds v t -> impl_assert v t true = GOk [0; 0]) /\
  (forall tid ms pl, v = JIVal tid ms pl -> assert_holds v t -> impl_assert v t true = GOk [pl; 1] /\ impl_assert v t false = GOk [pl]).
Proof. exact assert_commaok_iff. Qed.
Print Assumptions C08_assert_commaok_never_throws.

(* ---- part B: the stack-shape invariant of ImplPanic, UNBOUNDED (every program, every fuel, every JS depth) for every
   variant whose $callDeferred re-queues a panic only when the goroutine goes to sleep (the current code, V_FULL, and
   V_REPAIRED).  [Inv] (Proofs/C08_P4_Once.v): the deferStack has no duplicates, its ids are older than the id counter,
   every $deferred list that is not on the deferStack is empty, and no panic is queued while compiled Go code runs. ---- *)

(* one activation of a compiled function, however it is left (normal return, panic, Goexit, recovered panic unwinding
   through it): invariant kept, $stackDepthOffset restored, deferStack cut back to a suffix (unchanged on normal return),
   and every list that does not belong to a still active frame is empty *)
Theorem C08_activation_restores_stack_shape : forall vr fuel p d cell body s out s',
  v_pushback_asleep_only vr = true -> Inv s ->
  impl_fun vr fuel p d cell body s = Some (out, s') ->
  Inv s' /\ j_offset s' = j_offset s /\ suffix (j_deferStack s') (j_deferStack s) /\
  ((forall e, out <> JThrow e) -> j_deferStack s' = j_deferStack s) /\
  (forall id, ~ In id (j_deferStack s) -> list_get (j_lists s') id = []).
Proof. exact fun_leaves_clean. Qed.
Print Assumptions C08_activation_restores_stack_shape.

(* an epilogue $callDeferred(deferred, err) finds its own $deferred array on top of the deferStack or not at all, and pops
   exactly that frame when it returns normally *)
Theorem C08_epilogue_pops_own_frame : forall vr fuel p d id jsErr s out s',
  v_pushback_asleep_only vr = true -> Inv s ->
  (In id (j_deferStack s) -> exists ds0, j_deferStack s = id :: ds0) ->
  impl_cd vr fuel p d (Some id) jsErr false s = Some (out, s') ->
  Inv s' /\ j_offset s' = j_offset s /\ ~ In id (j_deferStack s') /\
  ((forall e, out <> JThrow e) -> exists ds0, j_deferStack s = id :: ds0 /\ j_deferStack s' = ds0).
Proof. exact epilogue_pops_own_frame. Qed.
Print Assumptions C08_epilogue_pops_own_frame.

(* $panic(v) never returns to its caller *)
Theorem C08_panic_never_returns : forall vr fuel p d v s out s',
  v_pushback_asleep_only vr = true -> Inv s ->
  impl_cd vr fuel p d None None true (j_set_ps (v :: j_panicStack s) s) = Some (out, s') ->
  (exists e, out = JThrow e) /\ Inv s' /\ j_offset s' = j_offset s /\ suffix (j_deferStack s') (j_deferStack s).
Proof. exact panic_never_returns. Qed.
Print Assumptions C08_panic_never_returns.

(* defer_lifo_exactly_once (no longer partial for the non-suspending machine): C08_defer_lifo_once_full_statement holds for
   the current code — for EVERY program and fuel, at the end of the goroutine every pushed deferred call has run exactly
   once, in LIFO order within its activation ([pend] replays push/run events as a stack and ends empty), whether the
   functions returned, panicked (recovered or fatal) or the goroutine exited *)
Theorem C08_defer_lifo_exactly_once : C08_defer_lifo_once_full_statement V_FULL.
Proof. exact (defer_once_full V_FULL eq_refl). Qed.
Print Assumptions C08_defer_lifo_exactly_once.
Theorem C08_defer_lifo_exactly_once_any_asleep_only_variant : forall vr, v_pushback_asleep_only vr = true ->
  C08_defer_lifo_once_full_statement vr.
Proof. exact defer_once_full. Qed.
Print Assumptions C08_defer_lifo_exactly_once_any_asleep_only_variant.
(* ... and per activation, at the moment the activation is left (its own list has the fresh id j_next s) *)
Theorem C08_defer_exactly_once_per_activation : forall vr fuel p d cell body s out s',
  v_pushback_asleep_only vr = true -> Inv s -> inv s ->
  impl_fun vr fuel p d cell body s = Some (out, s') ->
  forall id, ~ In id (j_deferStack s) -> pend id (j_trace s') = Some [].
Proof. exact defer_exactly_once_per_activation. Qed.
Print Assumptions C08_defer_exactly_once_per_activation.
(* the final state of every run: nothing left on the deferStack, no queued panic, $stackDepthOffset back at 0, all lists empty *)
Theorem C08_run_ends_clean : forall vr fuel p out s,
  v_pushback_asleep_only vr = true ->
  impl_fun vr fuel p 0 0 wrapper j_init = Some (out, s) ->
  j_deferStack s = [] /\ j_panicStack s = [] /\ j_offset s = 0 /\ forall id, list_get (j_lists s) id = [].
Proof. exact run_ends_clean. Qed.
Print Assumptions C08_run_ends_clean.

(* still partial: impl_refines_spec_panic (C08_impl_refines_spec_panic_full_statement) and recover_legal_iff.  The
   invariant above is the stack-shape half of the simulation; the other half — relating $panicStackDepth/$panicValue to
   SpecPanic's per-activation [l_rk] across the two machines' different recursion structure ($panic runs the callers'
   deferred calls from inside the callee) and their different cell numbering — is not proved. *)

(* Non-vacuity: guards on concrete boundary operands; the machines on a program with a
   recovered run-time error, a helper-level recover that must return nil, a named
   result changed after recover and a deferred call with its argument fixed at the defer. *)
Example C08_nonvacuous :
  impl_subslice 2 3 5 1 (Some 5) (Some 5) = GOk [3; 4; 4] /\
  impl_subslice 2 3 5 1 (Some 6) None = GThrow /\
  impl_makeslice 2147483647 None = GOk [0; 2147483647; 2147483647] /\
  impl_makeslice 2147483648 None = GThrow /\
  impl_quo true (-2147483648) (-1) = GOk [-2147483648] /\
  let p := [[SDeferClo [SRecover; SSetR 7]; SDeferClo [SCallClo [SRecover]]; SDefer 1%nat; SSetX 4; SPanic (PRt 0)]; [STraceX]] in
  obs (impl_run V_FULL 100 p) = Some ([ETraceX 0 0; ERec None; ERec (Some (PRt 0)); ETraceX 7 0], FNormal) /\
  obs (spec_run 100 p) = obs (impl_run V_FULL 100 p).
Proof. vm_compute. repeat split; reflexivity. Qed.

Example C08_phase4_nonvacuous :
  Inv j_init /\ v_pushback_asleep_only V_FULL = true /\
  impl_map_store JMNil 1 2 = GThrow /\ impl_map_store (JMMap [(1, 5)]) 1 2 = GOk [1; 2] /\
  impl_ptr_get (JPNil 2) 1 = GThrow /\ impl_ptr_get (JPObj [7; 8]) 1 = GOk [8] /\
  impl_assert (JIVal 3 [10; 11] 42) (TIface [11]) false = GOk [42] /\ impl_assert (JIVal 3 [10] 42) (TIface [11]) false = GThrow /\
  (exists out s, impl_fun V_FULL 100 [[SDeferClo [SRecover]; SDeferClo [SPanic (PInt 2)]; SPanic (PInt 1)]] 0 0 wrapper j_init = Some (out, s)).
Proof.
  split; [exact Inv_init|]. split; [reflexivity|].
  repeat (split; [vm_compute; reflexivity|]).
  vm_compute. eexists. eexists. reflexivity.
Qed.
