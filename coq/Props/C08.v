(* C08 — Panics, deferred calls, recover and run-time errors follow the spec.
   Where a finding has since been repaired in /repo the model keeps BOTH shapes; the check probes the
   source on every run (Gen/C08_Consts: gen_goexit_rethrow, gen_substring_defaults_high,
   gen_string_index_checked) and compares the real code with the shape it finds.  The _refuted theorems
   below are about the unrepaired shape; still open: replaced-panic-resurrected-after-recover.
   ONLY property theorems (closed by [exact lemma]) + Print Assumptions.
   Models: Model/C08_Guards.v (part A), Model/C08_Panic.v (part B).
   Tie: harness/py/props/c08.py. *)
From Coq Require Import List ZArith NArith Bool Arith.
From Verif Require Import Model.C08_Guards Model.C08_Panic Gen.C08_Consts Proofs.C08_Guards Proofs.C08_Panic.
Import ListNotations.
Local Open Scope Z_scope.

(* ======================= part A: guard_fires_iff_spec ======================= *)

Theorem C08_gen_consts_ok :
  gen_makeslice_len_max = MAXINT /\ gen_makeslice_cap_max = MAXINT /\
  gen_makechan_max = MAXINT /\ gen_makemap_max = MAXINT /\ gen_recover_delta = 2.
Proof. exact gen_consts_ok. Qed.
Print Assumptions C08_gen_consts_ok.

Theorem C08_index_guard_fires_iff_spec : forall i len, impl_index i len = spec_index i len.
Proof. exact index_guard_iff. Qed.
Print Assumptions C08_index_guard_fires_iff_spec.

Theorem C08_index_guard_throws_iff : forall i len, impl_index i len = GThrow <-> ~ (0 <= i < len).
Proof. exact index_throws_iff. Qed.
Print Assumptions C08_index_guard_throws_iff.

(* s[i] on a string — full statement: forall i len, impl_strindex i len = spec_index i len.  FALSE
   (finding string-index-out-of-range-no-panic: no guard is emitted); true exactly in range. *)
Definition C08_string_index_full_statement : Prop := forall i len, impl_strindex i len = spec_index i len.
Theorem C08_string_index_guard_partial : forall i len, 0 <= i < len -> impl_strindex i len = spec_index i len.
Proof. exact strindex_in_range. Qed.
Print Assumptions C08_string_index_guard_partial.
Theorem C08_string_index_refuted : forall i len, ~ (0 <= i < len) -> impl_strindex i len <> spec_index i len.
Proof. exact strindex_refuted. Qed.
Print Assumptions C08_string_index_refuted.

Theorem C08_index_const_guard_fires_iff_spec : forall i len, 0 <= i -> impl_index_const i len = spec_index i len.
Proof. exact index_const_guard_iff. Qed.
Print Assumptions C08_index_const_guard_fires_iff_spec.

Theorem C08_subslice_guard_fires_iff_spec : forall offset len cap low high max,
  impl_subslice offset len cap low high max = spec_subslice offset len cap low high max.
Proof. exact subslice_guard_iff. Qed.
Print Assumptions C08_subslice_guard_fires_iff_spec.

Theorem C08_subslice_guard_throws_iff : forall offset len cap low h m,
  impl_subslice offset len cap low (Some h) (Some m) = GThrow <-> ~ (0 <= low <= h /\ h <= m <= cap).
Proof. exact subslice_throws_iff. Qed.
Print Assumptions C08_subslice_guard_throws_iff.

Theorem C08_substring_guard_fires_iff_spec : forall len low h,
  impl_substring len low (Some h) = spec_substring len low (Some h).
Proof. exact substring_guard_iff. Qed.
Print Assumptions C08_substring_guard_fires_iff_spec.

(* s[low:] — full statement: forall len low, 0 <= len -> impl = spec.  It is FALSE
   (finding string-slice-low-beyond-len-no-panic); proved outside that input class
   and refuted on all of it. *)
Definition C08_substring_open_full_statement : Prop :=
  forall len low, 0 <= len -> impl_substring len low None = spec_substring len low None.
Theorem C08_substring_open_guard_fires_iff_spec_partial : forall len low, 0 <= len -> low <= len ->
  impl_substring len low None = spec_substring len low None.
Proof. exact substring_open_guard_iff. Qed.
Print Assumptions C08_substring_open_guard_fires_iff_spec_partial.
Theorem C08_substring_open_refuted : forall len low, 0 <= len < low ->
  impl_substring len low None <> spec_substring len low None.
Proof. exact substring_open_refuted. Qed.
Print Assumptions C08_substring_open_refuted.

(* the repaired $substring (high defaults to str.length before the check) satisfies the full statement *)
Theorem C08_substring_repaired_guard_fires_iff_spec : forall len low high,
  impl_substring_fixed len low high = spec_substring len low high.
Proof. exact substring_fixed_guard_iff. Qed.
Print Assumptions C08_substring_repaired_guard_fires_iff_spec.

Theorem C08_makeslice_guard_fires_iff_spec : forall len cap, impl_makeslice len cap = spec_makeslice len cap.
Proof. exact makeslice_guard_iff. Qed.
Print Assumptions C08_makeslice_guard_fires_iff_spec.

Theorem C08_makeslice_guard_throws_iff : forall len c,
  impl_makeslice len (Some c) = GThrow <-> (len < 0 \/ c < len \/ MAXINT < c).
Proof. exact makeslice_throws_iff. Qed.
Print Assumptions C08_makeslice_guard_throws_iff.

Theorem C08_makesize_guard_fires_iff_spec : forall n, impl_makesize n = spec_makesize n.
Proof. exact makesize_guard_iff. Qed.
Print Assumptions C08_makesize_guard_fires_iff_spec.

Theorem C08_quo_guard_fires_iff_spec : forall signed x y, impl_quo signed x y = spec_quo signed x y.
Proof. exact quo_guard_iff. Qed.
Print Assumptions C08_quo_guard_fires_iff_spec.

Theorem C08_quo_guard_throws_iff : forall signed x y, impl_quo signed x y = GThrow <-> y = 0.
Proof. exact quo_throws_iff. Qed.
Print Assumptions C08_quo_guard_throws_iff.

Theorem C08_rem_guard_fires_iff_spec : forall x y, impl_rem x y = spec_rem x y.
Proof. exact rem_guard_iff. Qed.
Print Assumptions C08_rem_guard_fires_iff_spec.

Theorem C08_slice2arr_guard_fires_iff_spec : forall slen alen, impl_slice2arr slen alen = spec_slice2arr slen alen.
Proof. exact slice2arr_guard_iff. Qed.
Print Assumptions C08_slice2arr_guard_fires_iff_spec.

Theorem C08_quo_value_exact_signed : forall z, -2147483648 <= z <= 2147483647 -> wrap32 true z = z.
Proof. exact wrap32_id_signed. Qed.
Print Assumptions C08_quo_value_exact_signed.

(* ======================= part B: unwinding machine ========================== *)

(* Full statement: ImplPanic refines SpecPanic on every defer program.  FALSE:
   refuted by the two findings below. *)
Definition C08_impl_refines_spec_panic_full_statement : Prop :=
  forall gx p, impl_refines_spec_on gx p.

Theorem C08_replaced_panic_refuted :
  obs (spec_run 100 wit_replaced) = Some ([ERec (Some (PInt 2)); ETraceX 0 0], FNormal) /\
  obs (impl_run false 100 wit_replaced) = Some ([ERec (Some (PInt 2))], FFatal (PInt 1)).
Proof. exact wit_replaced_runs. Qed.
Print Assumptions C08_replaced_panic_refuted.

Theorem C08_goexit_refuted :
  obs (spec_run 100 wit_goexit) = Some ([ETrace 1], FNormal) /\
  obs (impl_run false 100 wit_goexit) = Some ([ETrace 1; ETrace 9; ETraceX 0 0], FNormal).
Proof. exact wit_goexit_runs. Qed.
Print Assumptions C08_goexit_refuted.

Theorem C08_deferred_call_skipped_refuted :
  obs (spec_run 100 wit_skipped) = Some ([ERec (Some (PInt 2)); ERec None; ETrace 0; ETraceX 0 0], FNormal) /\
  obs (impl_run false 100 wit_skipped) = Some ([ERec (Some (PInt 2)); ERec (Some (PInt 1)); ETraceX 0 0], FNormal).
Proof. exact wit_skipped_runs. Qed.
Print Assumptions C08_deferred_call_skipped_refuted.

(* defer_lifo: in ImplPanic, for EVERY program and every amount of fuel, the events of each
   $deferred list replay as a stack ([pend] is defined, and what is still pending is exactly
   what is still in the list): a deferred call is run only when it is the most recently
   pushed pending call of its activation — LIFO order, each call at most once, on normal
   return, panic and Goexit alike. *)
Theorem C08_impl_defer_lifo_at_most_once : forall gx fuel p out s,
  impl_fun gx fuel p 0 0 wrapper j_init = Some (out, s) ->
  forall id, pend id (j_trace s) = Some (heights (length (list_get (j_lists s) id))).
Proof. exact impl_defer_lifo_at_most_once. Qed.
Print Assumptions C08_impl_defer_lifo_at_most_once.

(* Full statement of defer_lifo_once: ... and at the end of the run nothing is pending
   (every pushed call has run exactly once).  FALSE for ImplPanic in general
   (C08_deferred_call_skipped_refuted); proved on the exhaustively enumerated class. *)
Definition C08_defer_lifo_once_full_statement : Prop :=
  forall gx fuel p out s, impl_fun gx fuel p 0 0 wrapper j_init = Some (out, s) ->
  forall id, pend id (j_trace s) = Some [].
Theorem C08_defer_lifo_once_partial : forall p, enumerated p ->
  exists out s, impl_fun false ENUM_FUEL p 0 0 wrapper j_init = Some (out, s) /\
    forall id, (id < j_next s)%nat -> pend id (j_trace s) = Some [].
Proof. exact defer_lifo_once_bounded. Qed.
Print Assumptions C08_defer_lifo_once_partial.

(* recover_legal_iff, the part that is proved: the numeric stack-depth test of $recover is
   equivalent to "called directly by the deferred function which the $callDeferred invocation
   owning the current panic called" (m = 0), for every depth D, offset o, and every number n of
   nested running $callDeferred invocations among the m frames in between.  Missing for the
   full statement: the invariant that in every run $panicStackDepth, when not null, belongs to
   a still running invocation and that $stackDepthOffset equals minus the number of running
   invocations (checked only differentially, by the correspondence). *)
Theorem C08_recover_legal_iff_partial : forall D o n m s,
  (m = 0 /\ n = 0) \/ (0 <= n < m) ->
  j_psd s = Some (o + (D + 1)) -> j_offset s = o - n ->
  (fst (js_recover (D + 1 + m) s) = Some (j_pv s) <-> m = 0) /\
  (m <> 0 -> fst (js_recover (D + 1 + m) s) = None).
Proof. exact recover_depth_test_iff. Qed.
Print Assumptions C08_recover_legal_iff_partial.

(* impl_refines_spec_panic, bounded: on all 201 322 enumerated programs (one function with <= 2
   statements over 79 shapes, <= 5 statements over 11 shapes; two functions with call / defer /
   panics in the callee) in which no Goexit occurs and no panic is raised inside deferred-call
   code, both machines terminate with the same observable trace and final status. *)
Theorem C08_impl_refines_spec_panic_partial : forall p, enumerated p ->
  exists r, obs (spec_run ENUM_FUEL p) = Some r /\ obs (impl_run false ENUM_FUEL p) = Some r.
Proof. exact impl_refines_spec_bounded. Qed.
Print Assumptions C08_impl_refines_spec_panic_partial.

(* The repair of goexit-swallowed-by-deferring-frame (goexit_rethrow = true: Goexit records
   exitFrames = deferStack.length; an exhausted $deferred list re-throws null while the goroutine is
   exiting and deferStack.length < exitFrames): on the 25 155 enumerated two-function programs with
   Goexit in function bodies and in deferred calls, with deferred calls that call functions having
   defers while the goroutine is exiting, the repaired machine equals SpecPanic and every pushed
   deferred call runs exactly once. *)
Theorem C08_goexit_repaired_partial : forall p, In p enum5 ->
  exists r, obs (spec_run ENUM_FUEL p) = Some r /\ obs (impl_run true ENUM_FUEL p) = Some r.
Proof. exact goexit_repaired_bounded. Qed.
Print Assumptions C08_goexit_repaired_partial.
(* the two Goexit witnesses under the repaired variant *)
Theorem C08_goexit_repaired_witnesses :
  obs (spec_run 100 wit_goexit_fixed) = Some ([ETrace 3; ETrace 5], FNormal) /\
  obs (impl_run true 100 wit_goexit_fixed) = Some ([ETrace 3; ETrace 5], FNormal) /\
  obs (impl_run true 100 wit_goexit) = obs (spec_run 100 wit_goexit).
Proof. exact wit_goexit_fixed_runs. Qed.
Print Assumptions C08_goexit_repaired_witnesses.

Theorem C08_enumeration_sizes :
  N.of_nat (length enum1) = 6321%N /\ N.of_nat (length enum2) = 177156%N /\
  N.of_nat (length enum3) = 11137%N /\ N.of_nat (length enum4) = 6708%N /\ N.of_nat (length enum5) = 25155%N.
Proof. exact enum_sizes. Qed.
Print Assumptions C08_enumeration_sizes.

(* Non-vacuity: guards on concrete boundary operands; the machines on a program with a
   recovered run-time error, a helper-level recover that must return nil, a named
   result changed after recover and a deferred call with its argument fixed at the defer. *)
Example C08_nonvacuous :
  impl_subslice 2 3 5 1 (Some 5) (Some 5) = GOk [3; 4; 4] /\
  impl_subslice 2 3 5 1 (Some 6) None = GThrow /\
  impl_makeslice 2147483647 None = GOk [0; 2147483647; 2147483647] /\
  impl_makeslice 2147483648 None = GThrow /\
  impl_quo true (-2147483648) (-1) = GOk [-2147483648] /\
  let p := [[SDeferClo [SRecover; SSetR 7]; SDeferClo [SCallClo [SRecover]]; SDefer 1%nat; SSetX 4; SPanic (PRt 0)]; [STraceX]] in
  obs (impl_run false 100 p) = Some ([ETraceX 0 0; ERec None; ERec (Some (PRt 0)); ETraceX 7 0], FNormal) /\
  obs (spec_run 100 p) = obs (impl_run false 100 p).
Proof. vm_compute. repeat split; reflexivity. Qed.
