(* C03 — Channels, select and the goroutine scheduler follow Go semantics.
   This file holds ONLY the property theorems (each closed by [exact lemma]) and their Print Assumptions.
   Model: Model/C03_Chan.v ([impl_step] mirrors compiler/prelude/goroutines.js statement by statement).
   The current code is the variant [repaired] (close(nil) panics; the send entry registered by a blocked select
   records closedDuringSend): harness/py/props/c03.py probes the real runtime on every run and reports a
   violation if it is anything else.  The historic variant [as_is] and its refutations live in Proofs/C03_Chan.v.
   Tie: harness/js/c03_driver.js (real prelude) and compiled programs are run against the model on every run.

   "for every history / schedule" = [reachable]: any number of [impl_step]s from [init_state prog picks breaks],
   for every program, every pick oracle (Math.random in $select) and every time-slice oracle ($runScheduled). *)
From Coq Require Import List NArith ZArith Bool Arith.
From Verif Require Import Model.C03_Chan Proofs.C03_Chan.
Import ListNotations.

(* Channel invariants in every reachable state:
   |buf| <= cap;  waiting receivers -> empty buffer;  waiting senders -> full buffer;  closed -> no queued goroutine;
   a channel with queued senders AND receivers holds entries of one goroutine only (a select on both directions);
   the nil channel never queues or buffers anything;  conservation: accepted = received ++ buffered, in order
   (no loss, duplication or reordering between what the channel accepted and what receivers were handed). *)
Theorem C03_chan_invariants : forall prog st,
  reachable repaired prog st ->
  Forall (fun ch =>
    length (c_buf ch) <= c_cap ch /\
    (c_recvq ch <> [] -> c_buf ch = []) /\
    (c_sendq ch <> [] -> length (c_buf ch) = c_cap ch) /\
    (c_closed ch = true -> c_sendq ch = [] /\ c_recvq ch = []) /\
    (forall se re, In se (c_sendq ch) -> In re (c_recvq ch) -> sowner se = rowner re) /\
    (c_nil ch = true -> c_sendq ch = [] /\ c_recvq ch = [] /\ c_buf ch = [] /\ c_cap ch = 0) /\
    c_acc ch = c_rcv ch ++ c_buf ch) (chans st).
Proof. exact chan_invariants_repaired. Qed.
Print Assumptions C03_chan_invariants.

(* Registration: a goroutine asleep on an operation has its entry in the queue of every (non-nil) channel of that
   operation — plain send/receive: one entry; select: one entry per communication case (index = case index). *)
Theorem C03_registration : forall prog st, reachable repaired prog st -> reg_ok st.
Proof. exact registration_repaired. Qed.
Print Assumptions C03_registration.

(* No lost wake-up, full statement: in every reachable state a goroutine that sleeps on an operation cannot perform
   that operation (send: channel closed, buffer space, or a receiver of another goroutine waiting; receive: channel
   closed, buffered value, or a sender of another goroutine waiting; select: some case).  Hence a goroutine whose
   operation becomes possible is no longer asleep after the step that made it possible (it is in $scheduled). *)
Theorem C03_no_lost_wakeup : forall prog st, reachable repaired prog st -> no_lost_wakeup_at st.
Proof. exact no_lost_wakeup_repaired. Qed.
Print Assumptions C03_no_lost_wakeup.

(* close wakes a goroutine asleep in select { case c <- 5: } and that goroutine panics; close(nil) panics. *)
Theorem C03_close_witnesses :
  events_of repaired f7_prog = [(0, EvGo 1); (0, EvSched); (0, EvClose); (0, EvPrint 9%N); (1, EvPanic PSendClosed)] /\
  events_of repaired f6_prog = [(0, EvPanic PCloseNil)].
Proof. exact (conj f7_repaired f6_repaired). Qed.
Print Assumptions C03_close_witnesses.

(* Deadlock report.  Full statement (NOT proved; checked on every run by the reference LTS in c03_spec.py):
   the runtime halts with the fatal error exactly when main has not finished and no goroutine can ever proceed. *)
Definition C03_deadlock_report_iff_full_statement : Prop :=
  forall prog st, reachable repaired prog st ->
    (halted st = Some ODeadlock <->
     ((main_finished st = false) /\ (scheduled st = []) /\ (forall g, ~ In (TWake g) (timers st)) /\
      (forall g, (g < length (gors st))%nat -> g_asleep (get_g st g) = true) /\ no_lost_wakeup_at st /\ (md st = MIdle))).

(* _partial: the report is made only when $awakeGoroutines = 0 and main has not finished; together with
   C03_no_lost_wakeup no sleeping goroutine can proceed in that state.  Missing for the full statement: the counting
   invariant awake = #(goroutines not asleep) + #(pending Gosched timers), and the converse direction. *)
Theorem C03_deadlock_report_sound_partial : forall prog st,
  reachable repaired prog st -> halted st = Some ODeadlock -> awake st = 0%Z /\ main_finished st = false.
Proof. exact (deadlock_report_sound_partial repaired). Qed.
Print Assumptions C03_deadlock_report_sound_partial.

(* Refinement of the textbook LTS of Go channels: NOT proved in Coq.  The statement is checked per run by
   harness/py/c03_spec.py (is the observed behaviour of every goroutine a path of the LTS, ending in a state where
   no unfinished goroutine is enabled, with the right report?) on every generated history. *)

(* Non-vacuity: a reachable state in which a sender and a receiver are queued and a value is buffered. *)
Example C03_nonvacuous :
  let prog := {| p_caps := [1; 0]; p_scripts := [[Go 1; Send 1 7%N; Send 1 8%N]; [Recv 2]] |} in
  let st := run repaired prog 200 (init_state prog [] []) in
  reachable repaired prog st /\ map (fun ch => (c_buf ch, length (c_sendq ch), length (c_recvq ch))) (chans st)
                               = [([], 0, 0); ([7%N], 1, 0); ([], 0, 1)].
Proof. split. apply run_reachable. constructor. reflexivity. Qed.
