(* C03 — Channels, select and the goroutine scheduler follow Go semantics.
   This file holds ONLY the property theorems (each closed by [exact lemma]) and their Print Assumptions.
   Model: Model/C03_Chan.v ([impl_step] mirrors compiler/prelude/goroutines.js statement by statement).
   The current code is the variant [repaired] (close(nil) panics; the send entry registered by a blocked select
   records closedDuringSend): harness/py/props/c03.py probes the real runtime on every run and reports a
   violation if it is anything else.  The historic variant [as_is] and its refutations live in Proofs/C03_Chan.v.
   Tie: harness/js/c03_driver.js (real prelude) and compiled programs are run against the model on every run.

   "for every history / schedule" = [reachable]: any number of [impl_step]s from [init_state prog picks breaks],
   for every program, every pick oracle (Math.random in $select) and every time-slice oracle ($runScheduled). *)
From Coq Require Import List NArith ZArith Bool Arith.
From Verif Require Import Model.C03_Chan Model.C03_Spec Model.C03_Abs Proofs.C03_Chan Proofs.C03_P4_Entries Proofs.C03_P4_Count Proofs.C03_P4_Deadlock Proofs.C03_P4_Refine.
Import ListNotations.

(* Channel invariants in every reachable state:
   |buf| <= cap;  waiting receivers -> empty buffer;  waiting senders -> full buffer;  closed -> no queued goroutine;
   a channel with queued senders AND receivers holds entries of one goroutine only (a select on both directions);
   the nil channel never queues or buffers anything;  conservation: accepted = received ++ buffered, in order
   (no loss, duplication or reordering between what the channel accepted and what receivers were handed). *)
Theorem C03_chan_invariants : forall prog st,
  reachable repaired prog st ->
  Forall (fun ch =>
    length (c_buf ch) <= c_cap ch /\
    (c_recvq ch <> [] -> c_buf ch = []) /\
    (c_sendq ch <> [] -> length (c_buf ch) = c_cap ch) /\
    (c_closed ch = true -> c_sendq ch = [] /\ c_recvq ch = []) /\
    (forall se re, In se (c_sendq ch) -> In re (c_recvq ch) -> sowner se = rowner re) /\
    (c_nil ch = true -> c_sendq ch = [] /\ c_recvq ch = [] /\ c_buf ch = [] /\ c_cap ch = 0) /\
    c_acc ch = c_rcv ch ++ c_buf ch) (chans st).
Proof. exact chan_invariants_repaired. Qed.
Print Assumptions C03_chan_invariants.

(* Registration: a goroutine asleep on an operation has its entry in the queue of every (non-nil) channel of that
   operation — plain send/receive: one entry; select: one entry per communication case (index = case index). *)
Theorem C03_registration : forall prog st, reachable repaired prog st -> reg_ok st.
Proof. exact registration_repaired. Qed.
Print Assumptions C03_registration.

(* No lost wake-up, full statement: in every reachable state a goroutine that sleeps on an operation cannot perform
   that operation (send: channel closed, buffer space, or a receiver of another goroutine waiting; receive: channel
   closed, buffered value, or a sender of another goroutine waiting; select: some case).  Hence a goroutine whose
   operation becomes possible is no longer asleep after the step that made it possible (it is in $scheduled). *)
Theorem C03_no_lost_wakeup : forall prog st, reachable repaired prog st -> no_lost_wakeup_at st.
Proof. exact no_lost_wakeup_repaired. Qed.
Print Assumptions C03_no_lost_wakeup.

(* close wakes a goroutine asleep in select { case c <- 5: } and that goroutine panics; close(nil) panics. *)
Theorem C03_close_witnesses :
  events_of repaired f7_prog = [(0, EvGo 1); (0, EvSched); (0, EvClose); (0, EvPrint 9%N); (1, EvPanic PSendClosed)] /\
  events_of repaired f6_prog = [(0, EvPanic PCloseNil)].
Proof. exact (conj f7_repaired f6_repaired). Qed.
Print Assumptions C03_close_witnesses.

(* Deadlock report.  Full statement (phase 4: PROVED below as C03_deadlock_report_iff; also checked on every run by the reference LTSs):
   the runtime halts with the fatal error exactly when main has not finished and no goroutine can ever proceed. *)
Definition C03_deadlock_report_iff_full_statement : Prop :=
  forall prog st, reachable repaired prog st ->
    (halted st = Some ODeadlock <->
     ((main_finished st = false) /\ (scheduled st = []) /\ (forall g, ~ In (TWake g) (timers st)) /\
      (forall g, (g < length (gors st))%nat -> g_asleep (get_g st g) = true) /\ no_lost_wakeup_at st /\ (md st = MIdle))).

(* _partial (phase 2, kept): the report is made only when $awakeGoroutines = 0 and main has not finished.  The counting
   invariant and the converse direction that were missing are C03_counting_invariant / C03_deadlock_report_iff below. *)
Theorem C03_deadlock_report_sound_partial : forall prog st,
  reachable repaired prog st -> halted st = Some ODeadlock -> awake st = 0%Z /\ main_finished st = false.
Proof. exact (deadlock_report_sound_partial repaired). Qed.
Print Assumptions C03_deadlock_report_sound_partial.

(* ---------------------------------------------------------------- phase 4 *)
(* The whole-scheduler counting invariant: in every reachable state $awakeGoroutines is exactly the number of goroutines
   that are not asleep plus the number of pending Gosched timers ($setTimeout's token). *)
Theorem C03_counting_invariant : forall prog st, reachable repaired prog st ->
  awake st = (Z.of_nat (length (filter (fun x => negb (g_asleep x)) (gors st))) +
              Z.of_nat (length (filter (fun t => match t with TWake _ => true | TRun _ => false end) (timers st))))%Z.
Proof. exact counting_invariant_repaired. Qed.
Print Assumptions C03_counting_invariant.

(* The deadlock report, FULL statement: the runtime halts with "all goroutines are asleep" exactly when main has not
   finished, nothing is scheduled, no Gosched timer is pending, every goroutine is asleep (none of which can proceed, by
   no-lost-wakeup) and control is back in the event loop. *)
Theorem C03_deadlock_report_iff : C03_deadlock_report_iff_full_statement.
Proof. exact deadlock_report_iff. Qed.
Print Assumptions C03_deadlock_report_iff.

(* No stale registrations (the converse of C03_registration): every entry in a channel's wait queue is the
   registration of a goroutine that sleeps on exactly that operation (plain send/receive, or that case of its select). *)
Theorem C03_no_stale_entries : forall prog st, reachable repaired prog st ->
  forall c, (forall e, In e (sq st c) -> sentry_ok st c e) /\ (forall e, In e (rq st c) -> rentry_ok st c e).
Proof. exact (fun prog st => no_stale_entries repaired prog st repaired_fix). Qed.
Print Assumptions C03_no_stale_entries.

(* Whole-queue and run-queue invariant: entries are exact and duplicate-free; blocked goroutines are asleep; $scheduled holds
   existing, awake goroutines without duplicates; the running goroutine is awake and not in $scheduled; a pending Gosched timer
   belongs to a goroutine blocked on that timer, at most one per goroutine. *)
Theorem C03_entries_invariant : forall prog st, reachable repaired prog st -> ent_ok st /\ run_ok st.
Proof. exact (fun prog st => entries_invariant repaired prog st repaired_fix). Qed.
Print Assumptions C03_entries_invariant.

Theorem C03_scheduled_awake : forall prog st, reachable repaired prog st ->
  forall g, In g (scheduled st) -> g < length (gors st) /\ g_asleep (get_g st g) = false.
Proof. exact (fun prog st => scheduled_awake repaired prog st repaired_fix). Qed.
Print Assumptions C03_scheduled_awake.

(* Refinement of the reference LTS of Go channels (Model/C03_Spec.v: capacity + FIFO buffer + closed flag, unbuffered
   rendezvous, select with free choice among the cases that can proceed, panics) through the abstraction Model/C03_Abs.abs.
   FULL statement (NOT proved in general; evaluated by Coq on every explored history, Corr/C03_SpecEval.spec_verdict):
   every step of the implementation is the sequence of spec steps [actions_of] between the abstractions of the two
   states, emitting exactly the events the step logged. *)
Definition C03_impl_refines_spec_full_statement : Prop :=
  forall prog st, reachable repaired prog st ->
    ssteps prog (abs st) (actions_of repaired prog st)
    = Some (abs (impl_step repaired prog st), new_events st (impl_step repaired prog st)).

(* _partial: proved for every reachable state, for the steps [covered]: all scheduler steps except the Gosched timer
   callback, the return of a goroutine, the resumption of a goroutine after ANY wake-up (it observes exactly the result its
   partner, close or the timer left for it), print, Goexit, Gosched.  (C03_running_wf supplies: the running goroutine exists,
   has not exited, is not registered as blocked.)  Missing: the step in which a goroutine itself executes
   send / receive / range / close / select / go, and the timer callback. *)
Theorem C03_running_wf : forall prog st, reachable repaired prog st ->
  forall g, md st = MRun g -> g < length (gors st) /\ g_exit (get_g st g) = false /\ g_blocked (get_g st g) = None.
Proof. exact (fun prog st => running_wf repaired prog st repaired_fix). Qed.
Print Assumptions C03_running_wf.

Theorem C03_impl_refines_spec_partial : forall prog st, reachable repaired prog st -> covered st ->
  ssteps prog (abs st) (actions_of repaired prog st)
  = Some (abs (impl_step repaired prog st), new_events st (impl_step repaired prog st)).
Proof. exact (fun prog st R => impl_refines_spec_covered repaired prog st (running_wf repaired prog st repaired_fix R)). Qed.
Print Assumptions C03_impl_refines_spec_partial.

(* The reference LTS itself: what it allows and what it forbids (sanity of the spec, by evaluation). *)
Example C03_spec_rendezvous :
  let prog := {| p_caps := [0]; p_scripts := [[Go 1; Send 1 7%N]; [Recv 1]] |} in
  (* go; the child arrives first and parks; main's send meets it; both observe; both return *)
  match ssteps prog (sinit prog) [AOp 0 0; AObs 0; APark 1; ARv 0 0 1 0; AObs 0; AObs 1; AFin 0; AFin 1] with
  | Some (s, evs) => evs = [(0, EvGo 1); (0, EvSend); (1, EvRecv 7%N true)] /\ quiescent s = true
  | None => False
  end.
Proof. vm_compute. split; reflexivity. Qed.

Example C03_spec_forbids :
  let p1 := {| p_caps := [0; 1]; p_scripts := [[Recv 1]] |} in
  let p2 := {| p_caps := [1]; p_scripts := [[Send 1 5%N; Select [CRecv 1; CDefault]; Send 0 1%N]] |} in
  let p3 := {| p_caps := [1]; p_scripts := [[Close 1; Close 1]] |} in
  (* receive from an empty open channel cannot complete; nor can it rendezvous with itself *)
  sstep p1 (sinit p1) (AOp 0 0) = None /\ sstep p1 (sinit p1) (ARv 0 0 0 0) = None /\
  (* after the send the buffered value must be received: the default case is not allowed, parking neither *)
  (match ssteps p2 (sinit p2) [AOp 0 0; AObs 0] with
   | Some (s, _) => sstep p2 s (AOp 0 1) = None /\ sstep p2 s (APark 0) = None /\
                    (exists s', sstep p2 s (AOp 0 0) = Some (s', []))
   | None => False end) /\
  (* the second close panics; a send on the nil channel never completes *)
  (match ssteps p3 (sinit p3) [AOp 0 0; AObs 0; AOp 0 0; AObs 0] with
   | Some (_, evs) => evs = [(0, EvClose); (0, EvPanic PCloseClosed)]
   | None => False end) /\
  (match ssteps p2 (sinit p2) [AOp 0 0; AObs 0; AOp 0 0; AObs 0] with
   | Some (s, evs) => evs = [(0, EvSend); (0, EvSel 0 (Some (5%N, true)))] /\ sstep p2 s (AOp 0 0) = None /\
                      (exists s', sstep p2 s (APark 0) = Some (s', []))
   | None => False end).
Proof. vm_compute. repeat split; eauto. Qed.

(* Non-vacuity: a reachable state in which a sender and a receiver are queued and a value is buffered. *)
Example C03_nonvacuous :
  let prog := {| p_caps := [1; 0]; p_scripts := [[Go 1; Send 1 7%N; Send 1 8%N]; [Recv 2]] |} in
  let st := run repaired prog 200 (init_state prog [] []) in
  reachable repaired prog st /\ map (fun ch => (c_buf ch, length (c_sendq ch), length (c_recvq ch))) (chans st)
                               = [([], 0, 0); ([7%N], 1, 0); ([], 0, 1)].
Proof. split. apply run_reachable. constructor. reflexivity. Qed.
