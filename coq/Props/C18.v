(* C18 — Source files are selected by the documented build constraints.
   This file holds ONLY the property theorems (each closed by [exact lemma]),
   their Print Assumptions and a non-vacuity example.
   Model: Model/C18_Build.v (build/context.go, compiler/incjs/file.go and the
   selection part of go/build); constants: Gen/C18_BuildEnv.v, REGENERATED from
   the sources on every run; lemmas: Proofs/C18_Build.v.
   Tie: harness/py/props/c18.py runs the real NewBuildContext(...).Import and the
   model on the same generated package directories.

   Vocabulary:  [sat user std m t]  = the real environment (model of goCtx +
   applyPreloadTweaks + go/build matchTag, GOOS/GOARCH unset in the process
   environment, toolchain Go 1.m) satisfies tag t for a user (std = false) or
   standard-library (std = true) package;  [doc_tags user std t] = the tag is one
   of those the property text lists: js, ecmascript (wasm for std), gc, gopherjs,
   netgo, purego, math_big_pure_go, go1.1 .. go1.N, or a user tag.  N = doc_N is
   the release documented by compiler.Version "+go1.N.p" / README.md. *)
From Coq Require Import List String Ascii Arith.
From Verif Require Import Gen.C18_BuildEnv Model.C18_Build Proofs.C18_Build.
Import ListNotations.
Local Open Scope string_scope.

(* Full statement of the environment clause.  It is REFUTED for one tag (see
   C18_env_is_documented_all_tags_refuted): go/build renames the constraint tag
   `boringcrypto` to goexperiment.boringcrypto before looking it up. *)
Definition C18_env_full_statement : Prop :=
  forall user std m t, doc_N <= m -> (sat user std m t = true <-> doc_tags user std t).

Theorem C18_env_is_documented_all_tags_refuted : ~ C18_env_full_statement.
Proof. exact env_is_documented_all_tags_refuted. Qed.
Print Assumptions C18_env_is_documented_all_tags_refuted.

(* what happens instead for that tag *)
Theorem C18_boringcrypto_alias : forall user std m, doc_N <= m ->
  (sat user std m "boringcrypto" = true <-> In "goexperiment.boringcrypto" user).
Proof. exact boringcrypto_alias. Qed.
Print Assumptions C18_boringcrypto_alias.

(* For EVERY other tag, every set of user tags, user and std packages and every
   toolchain that can build the compiler: satisfied <-> documented.  Depends on
   the regenerated tables: dropping / adding a default tag, changing GOOS /
   GOARCH / compiler / CgoEnabled, or shifting the release-tag truncation away
   from [:GoVersion], or GoVersion away from the documented release, breaks it. *)
Theorem C18_env_is_documented : forall user std m t,
  doc_N <= m -> t <> "boringcrypto" ->
  (sat user std m t = true <-> doc_tags user std t).
Proof. exact env_is_documented. Qed.
Print Assumptions C18_env_is_documented.

(* go1.k is satisfied exactly for 1 <= k <= N (unless given as a user tag) *)
Theorem C18_release_tag_iff : forall user std m k,
  doc_N <= m -> ~ In (go_tag k) user ->
  (sat user std m (go_tag k) = true <-> 1 <= k <= doc_N).
Proof. exact release_tag_iff. Qed.
Print Assumptions C18_release_tag_iff.

(* A file of a loaded directory is among GoFiles exactly when: it is a regular
   non-hidden non-test .go file, every OS/arch element of its name (go/build's
   file-name rule, name_tags) is a documented tag, its constraint (//go:build
   expression, else the detached // +build lines) holds under the documented
   valuation, it is not package documentation and does not import "C". *)
Theorem C18_selected_iff : forall user std m fs f,
  doc_N <= m ->
  NoDup (map f_name fs) -> In f fs ->
  ~ In "boringcrypto" (mentioned f) ->
  forall e0, go_ctx (default_cfg user m) = Some e0 ->
  loaded (import_with e0 std fs) ->
  (In (f_name f) (go_files (import_with e0 std fs)) <->
     f_isdir f = false /\ selectable_name (f_name f) /\
     Forall (doc_tags user std) (name_tags (f_name f)) /\
     constraint_holds (doc_tags user std) f /\
     f_pkg f <> PkgDoc /\ f_cgo f = false).
Proof. exact selected_iff. Qed.
Print Assumptions C18_selected_iff.

(* the file-name rule (name_tags = go/build goodOSArchFile): only elements that
   are KNOWN GOOS / GOARCH names of go/build's syslist constrain a file, so a
   name is never tied to ecmascript; names without "_" are unconstrained *)
Theorem C18_name_rule_known_only : forall name t,
  In t (name_tags name) -> In t (known_os ++ known_arch)%list.
Proof. exact name_tags_known. Qed.
Print Assumptions C18_name_rule_known_only.

Theorem C18_ecmascript_not_a_name_tag : forall name, ~ In "ecmascript" (name_tags name).
Proof. exact ecmascript_not_a_name_tag. Qed.
Print Assumptions C18_ecmascript_not_a_name_tag.

Theorem C18_no_underscore_unconstrained : forall name,
  contains_char "_"%char (cut_dot name) = false -> name_tags name = [].
Proof. exact no_underscore_unconstrained. Qed.
Print Assumptions C18_no_underscore_unconstrained.

Theorem C18_name_rule_examples :
  name_tags "x_js.go" = ["js"] /\ name_tags "x_wasm.go" = ["wasm"] /\ name_tags "x_linux.go" = ["linux"] /\
  name_tags "x_js_wasm.go" = ["wasm"; "js"] /\ name_tags "x_js_wasm_test.go" = ["wasm"; "js"] /\
  name_tags "x_ecmascript.go" = [] /\ name_tags "js_wasm.go" = ["wasm"] /\ name_tags "wasm.go" = [] /\
  name_tags "a.b_linux.go" = [].
Proof. exact js_wasm_linux_are_name_tags. Qed.
Print Assumptions C18_name_rule_examples.

(* the decomposition into independent conditions, for ANY environment
   (also with GOOS/GOARCH overridden) *)
Theorem C18_file_taken_iff : forall e f,
  classify e f = CGo <->
  f_isdir f = false /\ selectable_name (f_name f) /\
  good_os_arch_file e (f_name f) = true /\ should_build e f = true /\
  f_pkg f <> PkgDoc /\ f_cgo f = false.
Proof. exact classify_go_iff. Qed.
Print Assumptions C18_file_taken_iff.

(* a user tag that no file of the directory mentions (in its constraint or in
   its name; `boringcrypto` counts as goexperiment.boringcrypto) changes nothing:
   same GoFiles, TestGoFiles, XTestGoFiles, IgnoredGoFiles, JSFiles, same errors *)
Theorem C18_user_tag_frame : forall user u m goos goarch path in_goroot fs,
  (forall f, In f fs -> ~ In u (map alias (mentioned f))) ->
  import_pkg {| c_env_goos := goos; c_env_goarch := goarch; c_user_tags := u :: user; c_toolchain := m |} path in_goroot fs =
  import_pkg {| c_env_goos := goos; c_env_goarch := goarch; c_user_tags := user; c_toolchain := m |} path in_goroot fs.
Proof. exact user_tag_frame. Qed.
Print Assumptions C18_user_tag_frame.

(* .inc.js: every non-hidden one of a loaded directory, nothing else, and the
   same set whatever the environment *)
Theorem C18_incjs_always : forall e0 std fs f,
  loaded (import_with e0 std fs) -> In f fs ->
  has_suffix ".inc.js" (f_name f) = true -> f_isdir f = false -> hidden (f_name f) = false ->
  In (f_name f) (js_files (import_with e0 std fs)).
Proof. exact incjs_always. Qed.
Print Assumptions C18_incjs_always.

Theorem C18_incjs_only : forall e0 std fs n,
  In n (js_files (import_with e0 std fs)) ->
  exists f, In f fs /\ f_name f = n /\ has_suffix ".inc.js" n = true /\ f_isdir f = false /\ hidden n = false.
Proof. exact incjs_only. Qed.
Print Assumptions C18_incjs_only.

Theorem C18_incjs_env_independent : forall e0 e1 std std' fs,
  loaded (import_with e0 std fs) -> loaded (import_with e1 std' fs) ->
  js_files (import_with e0 std fs) = js_files (import_with e1 std' fs).
Proof. exact incjs_env_independent. Qed.
Print Assumptions C18_incjs_env_independent.

(* cgo files are never used, whatever the process environment and the tags *)
Theorem C18_cgo_files_never_used : forall c e0 std fs f,
  go_ctx c = Some e0 -> NoDup (map f_name fs) -> In f fs -> f_cgo f = true ->
  ~ In (f_name f) (go_files (import_with e0 std fs)).
Proof. exact cgo_files_never_used. Qed.
Print Assumptions C18_cgo_files_never_used.

(* standard-library packages are matched as js/wasm; a package reached through
   a local import path is never treated as one *)
Theorem C18_std_selected_as_js_wasm : forall user m e, doc_N <= m ->
  file_env user true m = Some e -> e_goos e = "js" /\ e_goarch e = "wasm".
Proof. exact std_selected_as_js_wasm. Qed.
Print Assumptions C18_std_selected_as_js_wasm.

Theorem C18_std_selected_as_js_wasm_any_env : forall c e0,
  go_ctx c = Some e0 -> e_goos (preload e0 true) = "js" /\ e_goarch (preload e0 true) = "wasm".
Proof. exact std_selected_as_js_wasm_any_env. Qed.
Print Assumptions C18_std_selected_as_js_wasm_any_env.

(* legacy mode: GOOS / GOARCH set in the process environment are used for user packages *)
Theorem C18_user_env_follows_process_env : forall c e0,
  go_ctx c = Some e0 ->
  e_goos (preload e0 false) = (if c_env_goos c =? "" then "js" else c_env_goos c) /\
  e_goarch (preload e0 false) = (if c_env_goarch c =? "" then "ecmascript" else c_env_goarch c).
Proof. exact user_env_follows_process_env. Qed.
Print Assumptions C18_user_env_follows_process_env.

Theorem C18_local_import_is_never_std : forall p g, is_local_import p = true -> is_std p g = false.
Proof. exact local_import_is_never_std. Qed.
Print Assumptions C18_local_import_is_never_std.

(* Non-vacuity: a user package built with --tags foo (toolchain bound 99 so that the
   example survives version bumps).
   The hypotheses of C18_selected_iff are satisfiable (context exists, directory
   loads) and selection is neither everything nor nothing. *)
Example C18_nonvacuous :
  let mk n gb cgo := {| f_name := n; f_isdir := false; f_gobuild := gb; f_plus := []; f_detached := true;
                        f_pkg := PkgSame; f_cgo := cgo |} in
  let fs := [ mk "a.go" None false;
              mk "b_js.go" (Some (And (Tag "go1.18") (Not (Tag "go1.99")))) false;
              mk "c_wasm.go" None false;
              mk "d.go" (Some (Or (Tag "foo") (Tag "linux"))) false;
              mk "e.go" (Some (Tag "bar")) false;
              mk "f.go" None true;
              mk "g_linux.inc.js" (Some (Tag "ignore")) false ] in
  doc_N <= 99 /\
  import_pkg (default_cfg ["foo"] 99) "." false fs =
    ROk ["a.go"; "b_js.go"; "d.go"] [] [] ["c_wasm.go"; "e.go"; "f.go"] ["g_linux.inc.js"] /\
  import_pkg (default_cfg ["foo"] 99) "c18std/x" true fs =
    ROk ["a.go"; "b_js.go"; "c_wasm.go"; "d.go"] [] [] ["e.go"; "f.go"] ["g_linux.inc.js"].
Proof. split; [unfold doc_N; apply Nat.leb_le; vm_compute; reflexivity | vm_compute; split; reflexivity]. Qed.
