(* C18 — Source files are selected by the documented build constraints.
   This file holds ONLY the property theorems (each closed by [exact lemma]),
   their Print Assumptions and a non-vacuity example.
   Model: Model/C18_Build.v (build/context.go, compiler/incjs/file.go and the
   selection part of go/build); constants: Gen/C18_BuildEnv.v, REGENERATED from
   the sources on every run; lemmas: Proofs/C18_Build.v.
   Tie: harness/py/props/c18.py runs the real NewBuildContext(...).Import and the
   model on the same generated package directories.

   Vocabulary:  [sat user std m t]  = the real environment (model of goCtx +
   applyPreloadTweaks + go/build matchTag, GOOS/GOARCH unset in the process
   environment, toolchain Go 1.m) satisfies tag t for a user (std = false) or
   standard-library (std = true) package;  [doc_tags user std t] = the tag is one
   of those the property text lists: js, ecmascript (wasm for std), gc, gopherjs,
   netgo, purego, math_big_pure_go, go1.1 .. go1.N, or a user tag.  N = doc_N is
   the release documented by compiler.Version "+go1.N.p" / README.md. *)
From Coq Require Import List String Ascii Arith.
From Verif Require Import Gen.C18_BuildEnv Model.C18_Build Proofs.C18_Build.
From Verif Require Import Gen.C18_PostTweaks Model.C18_NameSpec Model.C18_Constraint Model.C18_ConstraintNF Model.C18_Text.
From Verif Require Import Proofs.C18_P4_Name Proofs.C18_P4_Constraint Proofs.C18_P4_Header Proofs.C18_P4_Text.
Import ListNotations.
Local Open Scope string_scope.

(* Full statement of the environment clause.  It is REFUTED for one tag (see
   C18_env_is_documented_all_tags_refuted): go/build renames the constraint tag
   `boringcrypto` to goexperiment.boringcrypto before looking it up. *)
Definition C18_env_full_statement : Prop :=
  forall user std m t, doc_N <= m -> (sat user std m t = true <-> doc_tags user std t).

Theorem C18_env_is_documented_all_tags_refuted : ~ C18_env_full_statement.
Proof. exact env_is_documented_all_tags_refuted. Qed.
Print Assumptions C18_env_is_documented_all_tags_refuted.

(* what happens instead for that tag *)
Theorem C18_boringcrypto_alias : forall user std m, doc_N <= m ->
  (sat user std m "boringcrypto" = true <-> In "goexperiment.boringcrypto" user).
Proof. exact boringcrypto_alias. Qed.
Print Assumptions C18_boringcrypto_alias.

(* For EVERY other tag, every set of user tags, user and std packages and every
   toolchain that can build the compiler: satisfied <-> documented.  Depends on
   the regenerated tables: dropping / adding a default tag, changing GOOS /
   GOARCH / compiler / CgoEnabled, or shifting the release-tag truncation away
   from [:GoVersion], or GoVersion away from the documented release, breaks it. *)
Theorem C18_env_is_documented : forall user std m t,
  doc_N <= m -> t <> "boringcrypto" ->
  (sat user std m t = true <-> doc_tags user std t).
Proof. exact env_is_documented. Qed.
Print Assumptions C18_env_is_documented.

(* go1.k is satisfied exactly for 1 <= k <= N (unless given as a user tag) *)
Theorem C18_release_tag_iff : forall user std m k,
  doc_N <= m -> ~ In (go_tag k) user ->
  (sat user std m (go_tag k) = true <-> 1 <= k <= doc_N).
Proof. exact release_tag_iff. Qed.
Print Assumptions C18_release_tag_iff.

(* A file of a loaded directory is among GoFiles exactly when: it is a regular
   non-hidden non-test .go file, every OS/arch element of its name (go/build's
   file-name rule, name_tags) is a documented tag, its constraint (//go:build
   expression, else the detached // +build lines) holds under the documented
   valuation, it is not package documentation and does not import "C". *)
Theorem C18_selected_iff : forall user std m fs f,
  doc_N <= m ->
  NoDup (map f_name fs) -> In f fs ->
  ~ In "boringcrypto" (mentioned f) ->
  forall e0, go_ctx (default_cfg user m) = Some e0 ->
  loaded (import_with e0 std fs) ->
  (In (f_name f) (go_files (import_with e0 std fs)) <->
     f_isdir f = false /\ selectable_name (f_name f) /\
     Forall (doc_tags user std) (name_tags (f_name f)) /\
     constraint_holds (doc_tags user std) f /\
     f_pkg f <> PkgDoc /\ f_cgo f = false).
Proof. exact selected_iff. Qed.
Print Assumptions C18_selected_iff.

(* the file-name rule (name_tags = go/build goodOSArchFile): only elements that
   are KNOWN GOOS / GOARCH names of go/build's syslist constrain a file, so a
   name is never tied to ecmascript; names without "_" are unconstrained *)
Theorem C18_name_rule_known_only : forall name t,
  In t (name_tags name) -> In t (known_os ++ known_arch)%list.
Proof. exact name_tags_known. Qed.
Print Assumptions C18_name_rule_known_only.

Theorem C18_ecmascript_not_a_name_tag : forall name, ~ In "ecmascript" (name_tags name).
Proof. exact ecmascript_not_a_name_tag. Qed.
Print Assumptions C18_ecmascript_not_a_name_tag.

Theorem C18_no_underscore_unconstrained : forall name,
  contains_char "_"%char (cut_dot name) = false -> name_tags name = [].
Proof. exact no_underscore_unconstrained. Qed.
Print Assumptions C18_no_underscore_unconstrained.

Theorem C18_name_rule_examples :
  name_tags "x_js.go" = ["js"] /\ name_tags "x_wasm.go" = ["wasm"] /\ name_tags "x_linux.go" = ["linux"] /\
  name_tags "x_js_wasm.go" = ["wasm"; "js"] /\ name_tags "x_js_wasm_test.go" = ["wasm"; "js"] /\
  name_tags "x_ecmascript.go" = [] /\ name_tags "js_wasm.go" = ["wasm"] /\ name_tags "wasm.go" = [] /\
  name_tags "a.b_linux.go" = [].
Proof. exact js_wasm_linux_are_name_tags. Qed.
Print Assumptions C18_name_rule_examples.

(* the decomposition into independent conditions, for ANY environment
   (also with GOOS/GOARCH overridden) *)
Theorem C18_file_taken_iff : forall e f,
  classify e f = CGo <->
  f_isdir f = false /\ selectable_name (f_name f) /\
  good_os_arch_file e (f_name f) = true /\ should_build e f = true /\
  f_pkg f <> PkgDoc /\ f_cgo f = false.
Proof. exact classify_go_iff. Qed.
Print Assumptions C18_file_taken_iff.

(* a user tag that no file of the directory mentions (in its constraint or in
   its name; `boringcrypto` counts as goexperiment.boringcrypto) changes nothing:
   same GoFiles, TestGoFiles, XTestGoFiles, IgnoredGoFiles, JSFiles, same errors *)
Theorem C18_user_tag_frame : forall user u m goos goarch path in_goroot fs,
  (forall f, In f fs -> ~ In u (map alias (mentioned f))) ->
  import_pkg {| c_env_goos := goos; c_env_goarch := goarch; c_user_tags := u :: user; c_toolchain := m |} path in_goroot fs =
  import_pkg {| c_env_goos := goos; c_env_goarch := goarch; c_user_tags := user; c_toolchain := m |} path in_goroot fs.
Proof. exact user_tag_frame. Qed.
Print Assumptions C18_user_tag_frame.

(* .inc.js: every non-hidden one of a loaded directory, nothing else, and the
   same set whatever the environment *)
Theorem C18_incjs_always : forall e0 std fs f,
  loaded (import_with e0 std fs) -> In f fs ->
  has_suffix ".inc.js" (f_name f) = true -> f_isdir f = false -> hidden (f_name f) = false ->
  In (f_name f) (js_files (import_with e0 std fs)).
Proof. exact incjs_always. Qed.
Print Assumptions C18_incjs_always.

Theorem C18_incjs_only : forall e0 std fs n,
  In n (js_files (import_with e0 std fs)) ->
  exists f, In f fs /\ f_name f = n /\ has_suffix ".inc.js" n = true /\ f_isdir f = false /\ hidden n = false.
Proof. exact incjs_only. Qed.
Print Assumptions C18_incjs_only.

Theorem C18_incjs_env_independent : forall e0 e1 std std' fs,
  loaded (import_with e0 std fs) -> loaded (import_with e1 std' fs) ->
  js_files (import_with e0 std fs) = js_files (import_with e1 std' fs).
Proof. exact incjs_env_independent. Qed.
Print Assumptions C18_incjs_env_independent.

(* cgo files are never used, whatever the process environment and the tags *)
Theorem C18_cgo_files_never_used : forall c e0 std fs f,
  go_ctx c = Some e0 -> NoDup (map f_name fs) -> In f fs -> f_cgo f = true ->
  ~ In (f_name f) (go_files (import_with e0 std fs)).
Proof. exact cgo_files_never_used. Qed.
Print Assumptions C18_cgo_files_never_used.

(* standard-library packages are matched as js/wasm; a package reached through
   a local import path is never treated as one *)
Theorem C18_std_selected_as_js_wasm : forall user m e, doc_N <= m ->
  file_env user true m = Some e -> e_goos e = "js" /\ e_goarch e = "wasm".
Proof. exact std_selected_as_js_wasm. Qed.
Print Assumptions C18_std_selected_as_js_wasm.

Theorem C18_std_selected_as_js_wasm_any_env : forall c e0,
  go_ctx c = Some e0 -> e_goos (preload e0 true) = "js" /\ e_goarch (preload e0 true) = "wasm".
Proof. exact std_selected_as_js_wasm_any_env. Qed.
Print Assumptions C18_std_selected_as_js_wasm_any_env.

(* legacy mode: GOOS / GOARCH set in the process environment are used for user packages *)
Theorem C18_user_env_follows_process_env : forall c e0,
  go_ctx c = Some e0 ->
  e_goos (preload e0 false) = (if c_env_goos c =? "" then "js" else c_env_goos c) /\
  e_goarch (preload e0 false) = (if c_env_goarch c =? "" then "ecmascript" else c_env_goarch c).
Proof. exact user_env_follows_process_env. Qed.
Print Assumptions C18_user_env_follows_process_env.

Theorem C18_local_import_is_never_std : forall p g, is_local_import p = true -> is_std p g = false.
Proof. exact local_import_is_never_std. Qed.
Print Assumptions C18_local_import_is_never_std.

(* Non-vacuity: a user package built with --tags foo (toolchain bound 99 so that the
   example survives version bumps).
   The hypotheses of C18_selected_iff are satisfiable (context exists, directory
   loads) and selection is neither everything nor nothing. *)
Example C18_nonvacuous :
  let mk n gb cgo := {| f_name := n; f_isdir := false; f_gobuild := gb; f_plus := []; f_detached := true;
                        f_pkg := PkgSame; f_cgo := cgo |} in
  let fs := [ mk "a.go" None false;
              mk "b_js.go" (Some (And (Tag "go1.18") (Not (Tag "go1.99")))) false;
              mk "c_wasm.go" None false;
              mk "d.go" (Some (Or (Tag "foo") (Tag "linux"))) false;
              mk "e.go" (Some (Tag "bar")) false;
              mk "f.go" None true;
              mk "g_linux.inc.js" (Some (Tag "ignore")) false ] in
  doc_N <= 99 /\
  import_pkg (default_cfg ["foo"] 99) "." false fs =
    ROk ["a.go"; "b_js.go"; "d.go"] [] [] ["c_wasm.go"; "e.go"; "f.go"] ["g_linux.inc.js"] /\
  import_pkg (default_cfg ["foo"] 99) "c18std/x" true fs =
    ROk ["a.go"; "b_js.go"; "c_wasm.go"; "d.go"] [] [] ["e.go"; "f.go"] ["g_linux.inc.js"].
Proof. split; [unfold doc_N; apply Nat.leb_le; vm_compute; reflexivity | vm_compute; split; reflexivity]. Qed.

(* ====================================================================== *)
(* Phase 4                                                                *)
(* ====================================================================== *)

(* ---- (1) the file-name rule equals an independent suffix specification ---- *)

(* name_tags (mirror of go/build goodOSArchFile: split on "_", drop "test", look at the
   last two elements) = spec_name_tags (Model/C18_NameSpec.v: strip everything from the
   first ".", strip one trailing "_test", then search the known GOOS x GOARCH table for a
   suffix _GOOS_GOARCH, else the known table for a suffix _X), for EVERY file name.
   Depends on the regenerated tables: no known name contains "_" or is empty. *)
Theorem C18_name_rule_eq_spec : forall name : string, name_tags name = spec_name_tags name.
Proof. exact name_rule_eq_spec. Qed.
Print Assumptions C18_name_rule_eq_spec.

(* the same against the TEXT of the go/build documentation, as a relation on strings
   (name = stem[.ext], b = stem without one "_test", b = p_GOOS_GOARCH | p_X | neither;
   the "_" before the element is the pre-Go1.4 exception: linux.go is unconstrained) *)
Theorem C18_name_rule_iff_text_spec : forall name ts, name_requires name ts <-> name_tags name = ts.
Proof. exact name_rule_iff_text_spec. Qed.
Print Assumptions C18_name_rule_iff_text_spec.

Theorem C18_good_name_eq_spec : forall e name, good_os_arch_file e name = spec_good_name e name.
Proof. exact good_name_eq_spec. Qed.
Print Assumptions C18_good_name_eq_spec.

(* ---- (2) the constraint language ---------------------------------------- *)

(* parse/print round trip: Expr.String then parseExpr gives back the same TREE for every
   expression in the parser's normal form (left-nested && and ||, no double negation)
   whose tags are proper tags.  For all such expressions, of any size. *)
Theorem C18_parse_print_roundtrip : forall e, nf e = true -> tags_valid e = true ->
  parse_expr (print e) = Some e.
Proof. exact parse_print_roundtrip. Qed.
Print Assumptions C18_parse_print_roundtrip.

(* The full retraction statement is REFUTED by the faithful model (and by the real
   go/build/constraint, replayed on every run): "!(!a)" parses, prints as "!!a", and
   that is rejected (double negation). *)
Definition C18_print_parse_retraction_full_statement : Prop :=
  forall s x, parse_expr s = Some x -> parse_expr (print x) = Some x.
Theorem C18_print_parse_retraction_refuted : ~ C18_print_parse_retraction_full_statement.
Proof. exact print_parse_retraction_refuted. Qed.
Print Assumptions C18_print_parse_retraction_refuted.

(* without parentheses the parser does produce normal forms only *)
Theorem C18_parse_nf_without_parens : forall ts e, np ts = true -> parse_toks ts = Some e -> nf e = true.
Proof. exact parse_toks_nf_noparen. Qed.
Print Assumptions C18_parse_nf_without_parens.

(* go/build reads a legacy line through constraint.Parse (parsePlusBuildExpr); that
   expression means exactly the documented reading: space = OR, comma = AND, ! = NOT,
   a malformed term = the tag `ignore`, an empty line = `ignore` — for EVERY text and
   EVERY tag assignment *)
Theorem C18_plusbuild_equiv_gobuild : forall sat text,
  eval sat (parse_plus_expr text) = pline_ok sat (plus_pline text).
Proof. exact parse_plus_expr_equiv. Qed.
Print Assumptions C18_plusbuild_equiv_gobuild.

(* the conversion the toolchain performs the other way (constraint.PlusBuildLines: push
   negations to the leaves, split into AND of ORs of ANDs of literals, merge when no OR
   is left): whenever it succeeds, the lines (several lines = AND) mean the expression *)
Theorem C18_gobuild_to_plusbuild_sound : forall x ls, plus_build_plines x = Some ls ->
  forall sat, forallb (pline_ok sat) ls = eval sat x.
Proof. exact plus_build_plines_sound. Qed.
Print Assumptions C18_gobuild_to_plusbuild_sound.

(* evaluation is monotone in the tags that occur positively and antitone in those that
   occur negatively — and NOT monotone in general *)
Theorem C18_eval_monotone_in_positive_tags : forall (s s' : string -> bool) e,
  (forall t, In t (pos_tags e) -> s t = true -> s' t = true) ->
  (forall t, In t (neg_tags e) -> s' t = true -> s t = true) ->
  eval s e = true -> eval s' e = true.
Proof. exact eval_monotone. Qed.
Print Assumptions C18_eval_monotone_in_positive_tags.

Theorem C18_eval_not_monotone_in_general : exists e s s',
  (forall t, s t = true -> s' t = true) /\ eval s e = true /\ eval s' e = false.
Proof. exact eval_not_monotone_in_general. Qed.
Print Assumptions C18_eval_not_monotone_in_general.

(* placement rules, on TEXT: the header of a file rendered from (//go:build x, +build
   lines, detached?) is read back by go/build's header scanner + constraint parser as:
   the //go:build line wins; otherwise the +build lines count only when a blank line
   separates the comment block from the package clause; several lines = AND *)
Theorem C18_should_build_text_render : forall sat gb plus detached,
  header_valid gb plus ->
  should_build_text sat (render_header gb plus detached) =
  Some (match gb with
        | Some x => eval sat x
        | None => if detached then forallb (pline_ok sat) plus else true
        end).
Proof. exact should_build_text_of_render. Qed.
Print Assumptions C18_should_build_text_render.

(* hence the text-level classification of a rendered file is the structured one of
   phase 1 (so C18_selected_iff / C18_user_tag_frame transfer to rendered text) *)
Theorem C18_classify_text_render : forall e f imps,
  header_valid (f_gobuild f) (f_plus f) ->
  classify_text e (render_file f imps) = classify e f.
Proof. exact classify_text_render. Qed.
Print Assumptions C18_classify_text_render.

(* C18_selected_iff restated on source TEXT (any text, well-formed or not): a file is
   among GoFiles iff regular, selectable name, every tag of the SUFFIX SPECIFICATION of
   its name is satisfied, go/build's header scanner + parser accept the text and the
   constraint found holds, not documentation, no cgo — for every package that is not one
   of the four tweaked ones (or comes from a virtual context).  [sat user std m] is the
   environment characterised by C18_env_is_documented. *)
Theorem C18_selected_iff_text : forall user std m v path fs f e0,
  go_ctx (default_cfg user m) = Some e0 ->
  NoDup (map t_name fs) -> In f fs ->
  (v = true \/ ~ In path tweaked_paths) ->
  t_loaded (import_text_with e0 std v path fs) ->
  (In (t_name f) (t_go_files (import_text_with e0 std v path fs)) <->
     t_isdir f = false /\ selectable_name (t_name f) /\
     Forall (fun t => sat user std m t = true) (spec_name_tags (t_name f)) /\
     should_build_text (sat user std m) (t_content f) = Some true /\
     t_pkg f <> PkgDoc /\ t_cgo f = false).
Proof. exact selected_iff_text_documented. Qed.
Print Assumptions C18_selected_iff_text.

(* a malformed //go:build line (or two of them) makes the file invalid — unless the name
   already excludes it *)
Theorem C18_bad_header_is_reported : forall e f,
  t_isdir f = false -> hidden (t_name f) = false -> ext_of (t_name f) = ".go" ->
  spec_good_name e (t_name f) = true ->
  should_build_text (match_tag e) (t_content f) = None -> classify_text e f = CBad.
Proof. exact classify_text_bad_header. Qed.
Print Assumptions C18_bad_header_is_reported.

(* ---- (3) GopherJS's own post-filtering ------------------------------------ *)

(* applyPostloadTweaks (table regenerated from its switch): exactly the four documented
   packages are touched, files are only ever removed, virtual contexts are never tweaked *)
Theorem C18_postload_documented : forall go test,
  postload false "runtime" go test = ([], test) /\
  postload false "runtime/pprof" go test = ([], test) /\
  postload false "sync" go test = (exclude go ["pool.go"], test) /\
  postload false "syscall/js" go test = ([], []).
Proof. exact postload_documented. Qed.
Print Assumptions C18_postload_documented.

Theorem C18_postload_other_paths_untouched : forall v p go test,
  ~ In p tweaked_paths -> postload v p go test = (go, test).
Proof. exact postload_other_paths. Qed.
Print Assumptions C18_postload_other_paths_untouched.

Theorem C18_postload_only_removes : forall v p go test f,
  (In f (fst (postload v p go test)) -> In f go) /\ (In f (snd (postload v p go test)) -> In f test).
Proof. exact postload_only_removes. Qed.
Print Assumptions C18_postload_only_removes.

Theorem C18_postload_sync_iff : forall go test f,
  In f (fst (postload false "sync" go test)) <-> In f go /\ f <> "pool.go".
Proof. exact postload_sync_iff. Qed.
Print Assumptions C18_postload_sync_iff.

Theorem C18_overlay_never_tweaked : forall p go test, postload true p go test = (go, test).
Proof. exact postload_virtual_id. Qed.
Print Assumptions C18_overlay_never_tweaked.

(* updateImports: an import path is reported iff a REMAINING source file imports it *)
Theorem C18_update_imports_iff : forall srcs fs p,
  In p (update_imports srcs fs) <-> exists f, In f fs /\ In (t_name f) srcs /\ In p (t_imports f).
Proof. exact update_imports_iff. Qed.
Print Assumptions C18_update_imports_iff.

(* Non-vacuity of phase 4: texts, one of them malformed, a tweaked package *)
Example C18_p4_nonvacuous :
  let mk n c := {| t_name := n; t_isdir := false; t_content := c; t_pkg := PkgSame; t_cgo := false; t_imports := ["io"] |} in
  let nlc := String "010"%char "" in
  let fs := [ mk "a.go" ("//go:build js && !linux" ++ nlc ++ nlc ++ "package p" ++ nlc);
              mk "b_linux_amd64.go" ("package p" ++ nlc);
              mk "c.go" ("// +build linux" ++ nlc ++ "package p" ++ nlc);
              mk "d.go" ("// +build linux" ++ nlc ++ nlc ++ "package p" ++ nlc);
              mk "pool.go" ("package p" ++ nlc) ] in
  import_text (default_cfg [] 99) false "sync" true fs =
    TOk ["a.go"; "c.go"] [] [] ["b_linux_amd64.go"; "d.go"] [] ["io"] [] [] /\
  import_text (default_cfg [] 99) true "sync" true fs =
    TOk ["a.go"; "c.go"; "pool.go"] [] [] ["b_linux_amd64.go"; "d.go"] [] ["io"] [] [] /\
  import_text (default_cfg [] 99) false "." false (mk "e.go" ("//go:build (js" ++ nlc ++ "package p" ++ nlc) :: fs) = TBad /\
  parse_expr "a && (b || !c)" = Some (And (Tag "a") (Or (Tag "b") (Not (Tag "c")))) /\
  header_valid (Some (And (Tag "a") (Or (Tag "b") (Not (Tag "c"))))) [[[(false, "x"); (true, "y")]; [(false, "z")]]].
Proof. vm_compute. repeat split; reflexivity. Qed.
