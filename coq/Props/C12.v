(* C12 — Standard-library overlays merge exactly as the directives say.
   This file holds ONLY the property theorems (each closed by [exact lemma]), their
   Print Assumptions and non-vacuity examples.
   Model: Model/C12_Merge.v (build/build.go: augmentOverlayFile, augmentOriginalImports,
   augmentOriginalFile, pruneImports, finalizeRemovals, glue of parseAndAugment;
   compiler/astutil: FuncKey, FuncReceiverKey, ImportName, directive regexp).
   Law (specification): Model/C12_Law.v.  Tables from the source: Gen/C12_Tables.v.
   Tie: harness/py/props/c12.py runs the real functions and the model on the same printed packages. *)
From Coq Require Import List String Bool ZArith.
From Verif Require Import Gen.C12_Tables Model.C12_Merge Model.C12_Law Proofs.C12_Merge Proofs.C12_Consts Proofs.C12_Imports.
Import ListNotations.
Local Open Scope string_scope.

(* The result declares every override declaration, every original declaration whose name is
   not overridden, and nothing else — for every code variant [cb], import path and pair of
   well-formed file lists:
   - the overrides map is exactly what the overlay's declarations and directives say
     (later entry of the same key wins, "init" never overrides);
   - each overlay file declares what it declared minus purged declarations/specs and
     override-signature stubs;
   - each original file declares, item by item and in order, [law_item] of what it declared:
     overridden funcs/methods/types/vars/consts are gone, keep-original keeps the body under
     keep_prefix ++ name, override-signature keeps the body under the overlay's signature,
     methods of a purged type are gone, everything else is untouched. *)
Theorem C12_merge_declares : forall cb path ovs origs,
  forallb wf_file ovs = true -> forallb wf_file origs = true ->
  let '(ov, ovs', origs') := merge cb path ovs origs in
  (forall k, lookup k ov =
             if String.eqb k "init" then None else lookup_after k (flat_map file_entries ovs) None) /\
  map declared ovs' = map overlay_law ovs /\
  map declared origs' = map (fun f => flat_map (law_item ov) (declared f)) origs.
Proof. exact merge_declares. Qed.
Print Assumptions C12_merge_declares.

(* Surviving original declarations form a subsequence of the original ones, in original order. *)
Theorem C12_merge_preserves_order : forall cb ov f,
  wf_file f = true ->
  exists l, sublist l (declared f) /\ Forall2 same_origin l (declared (rewrite_original_file cb ov f)).
Proof. exact merge_preserves_order. Qed.
Print Assumptions C12_merge_preserves_order.

(* A method whose receiver type is purged survives only through an override of its own. *)
Theorem C12_purge_removes_methods : forall cb ov f tname info fd',
  wf_file f = true ->
  lookup tname ov = Some info -> o_purge info = true -> tname <> "" ->
  In (DIFunc fd') (declared (rewrite_original_file cb ov f)) ->
  func_receiver_key fd' = tname ->
  exists fd, In (DIFunc fd) (declared f) /\ has_key (func_key fd) ov = true /\ law_func ov fd = [DIFunc fd'].
Proof. exact purge_removes_methods. Qed.
Print Assumptions C12_purge_removes_methods.

(* Imports: in a file that is not import-only (or carries a go:linkname directive), an import
   survives iff it is blank/dot, or still used, or required by a directive (then it is made
   blank); what the file declares does not change.  An import-only file without go:linkname loses everything. *)
Theorem C12_imports_law : forall f,
  (is_only_imports f && negb (has_directive_prefix f linkname_prefix)) = false ->
  NoDup (filter (fun n => negb (String.eqb n "")) (map import_name (file_imports f))) ->
  file_imports (prune_imports f) = flat_map (law_import f) (file_imports f) /\
  declared (prune_imports f) = declared f.
Proof. exact imports_law. Qed.
Print Assumptions C12_imports_law.

Theorem C12_imports_law_import_only : forall f,
  (is_only_imports f && negb (has_directive_prefix f linkname_prefix)) = true -> prune_imports f = [].
Proof. exact imports_law_import_only. Qed.
Print Assumptions C12_imports_law_import_only.

(* No overlay: the package is the original one (up to the sync -> nosync substitution of the
   listed packages). *)
Theorem C12_merge_idempotent_on_empty_overlay : forall cb path origs,
  merge cb path [] origs = ([], [], map (augment_original_imports path) origs) /\
  (mem path nosync_pkgs = false -> merge cb path [] origs = ([], [], origs)).
Proof. exact merge_idempotent_on_empty_overlay. Qed.
Print Assumptions C12_merge_idempotent_on_empty_overlay.

(* "Initial values are untouched", for constants: every constant that is not overridden keeps
   its value (Go's iota / implicit-repetition rules: Model.C12_Merge.file_consts), for every
   overrides map and every file in which unparenthesised declarations hold one spec (as
   go/parser produces them).  The code blanks overridden names of a parenthesised const group
   instead of deleting their specs (fix 1220791); [C12_current_variant] ties the theorem to the
   tree: the variant is probed on the real augmentOriginalFile on every run.  (The earlier
   variant, refuted by `const (A = iota; B; C)` with B overridden, is kept in
   Proofs/C12_Consts.v: untouched_values_refuted / untouched_values_partial.) *)
Theorem C12_current_variant : const_group_blanking = true.
Proof. exact current_variant. Qed.
Print Assumptions C12_current_variant.

Theorem C12_untouched_values : forall ov f,
  wf_paren f = true -> consts_preserved ov f (rewrite_original_file const_group_blanking ov f).
Proof. exact untouched_values. Qed.
Print Assumptions C12_untouched_values.

(* The directive regexp the model implements is the one in astutil.go. *)
Theorem C12_directive_regex_tied : directive_regex = "^\/(?:\/|\*)gopherjs:([\w-]+)".
Proof. exact directive_regex_tied. Qed.
Print Assumptions C12_directive_regex_tied.

(* The prefix used for keep-original is the one doc/pargma.md documents (the check also reads the doc). *)
Theorem C12_keep_prefix_documented : keep_prefix = "_gopherjs_original_".
Proof. exact keep_prefix_tied. Qed.
Print Assumptions C12_keep_prefix_documented.

(* Non-vacuity: a pair exercising replace, keep-original, override-signature, purge with
   methods, a single-call spec and import pruning; hypotheses of the theorems hold on it. *)
Example C12_nonvacuous :
  let T0 := DGen (mkg TType false [] [SType (mkt "T" 0 (mkpart "M1" []) [] [])]) in
  let m0 := DFunc (mkf "M" (Some (mkrecv "r" true 0 "T")) None (mkpart "p2" []) None (Some (mkpart "2" ["alpha"])) []) in
  let f0 := DFunc (mkf "f" None None (mkpart "p3" []) None (Some (mkpart "3" [])) []) in
  let g0 := DFunc (mkf "g" None None (mkpart "p4" ["alpha"]) None (Some (mkpart "4" [])) []) in
  let v0 := DGen (mkg TVar false [] [SValue (mkv ["a"; "b"] false [VCall "beta" "F2"] [] [])]) in
  let imp := DGen (mkg TImport true [] [SImport (mki None "p/alpha" [] []); SImport (mki None "q/beta" [] [])]) in
  let orig := [imp; T0; m0; f0; g0; v0] in
  let ovl := [DGen (mkg TType false ["//gopherjs:purge"] [SType (mkt "T" 0 (mkpart "M9" []) [] [])]);
              DFunc (mkf "f" None None (mkpart "p5" []) None (Some (mkpart "5" [])) ["//gopherjs:keep-original"]);
              DFunc (mkf "g" None None (mkpart "p6" []) None None ["//gopherjs:override-signature"]);
              DGen (mkg TVar false [] [SValue (mkv ["a"] false [VLit 1] [] [])])] in
  forallb wf_file [ovl] = true /\ forallb wf_file [orig] = true /\
  let '(ov, ovs', origs') := merge const_group_blanking "x/p" [ovl] [orig] in
  map (fun e => fst e) ov = ["T"; "f"; "g"; "a"] /\
  map declared origs' =
    [[DIFunc (mkf "_gopherjs_original_f" None None (mkpart "p3" []) None (Some (mkpart "3" [])) []);
      DIFunc (mkf "g" None None (mkpart "p6" []) None (Some (mkpart "4" [])) []);
      DIValue TVar "b" false None]] /\
  map file_imports origs' = [[mki None "q/beta" [] []]].
Proof. vm_compute. repeat split; reflexivity. Qed.
