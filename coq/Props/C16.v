(* C16 - Minification preserves behaviour.
   This file holds ONLY the property theorems (each closed by [exact lemma]), their
   Print Assumptions, and non-vacuity examples.
   Models: Model/C16_RemoveWs.v (removeWhitespace), Model/C16_Lex.v (lexical structure and the
   side condition well_lexed), Model/C16_Alloc.v (newVariable / nestedFunctionContext / newRootCtx).
   Generated table: Gen/C16_Keywords.v (reservedKeywords of compiler/compiler.go, regenerated on
   every run).  Tie: harness/py/props/c16.py runs the real removeWhitespace / Decl.minify /
   newVariable and the models on the same inputs, and checks well_lexed on every real Decl blob.

   Full property (C16_full_statement, informal): for every Go program the -m build behaves like
   the plain build.  What is PROVED here is the part that is about the two minification
   mechanisms themselves; that the translator only emits blobs satisfying [well_lexed], and the
   behavioural equality of whole programs, are checked on generated programs (not proved):
   hence the suffix _partial on the token theorem. *)
From Coq Require Import List NArith Arith Bool.
From Verif Require Import Model.C16_RemoveWs Model.C16_Lex Model.C16_Alloc Gen.C16_Keywords.
From Verif Require Import Proofs.C16_RemoveWs Proofs.C16_Alloc.
Import ListNotations.
Local Open Scope N_scope.

(* The statement one would like without any hypothesis; it is false (see C16_hypothesis_needed). *)
Definition C16_tokens_unconditional : Prop :=
  forall b o, remove_ws b = Some o -> tokenize o = tokenize b.

(* Whitespace/comment removal keeps the token stream (no two tokens merge, nothing but
   whitespace and comments disappears, strings are tokens), and does not panic, for EVERY blob
   satisfying the decidable side condition [well_lexed].
   Missing for the full property: a proof that the code generator emits only such blobs
   (checked on every Decl blob of every generated program at run time). *)
Theorem C16_remove_ws_tokens_partial : forall b, well_lexed b = true ->
  exists o ts, remove_ws b = Some o /\ tokenize o = Some ts /\ tokenize b = Some ts.
Proof. exact remove_ws_tokens. Qed.
Print Assumptions C16_remove_ws_tokens_partial.

Theorem C16_remove_ws_strings_intact : forall b, well_lexed b = true ->
  exists o ss, remove_ws b = Some o /\ strings_in o = Some ss /\ strings_in b = Some ss.
Proof. exact remove_ws_strings_intact. Qed.
Print Assumptions C16_remove_ws_strings_intact.

(* the hint sequence and the element (character or string) each hint precedes are unchanged *)
Theorem C16_remove_ws_hints_intact : forall b, well_lexed b = true ->
  exists o hv, remove_ws b = Some o /\ hints_in o = Some hv /\ hints_in b = Some hv.
Proof. exact remove_ws_hints_intact. Qed.
Print Assumptions C16_remove_ws_hints_intact.

(* ... and for every blob of the lexicon, whatever its spacing (no side condition): the result is
   the rendering of an element list with the same string literals and the same hints *)
Theorem C16_remove_ws_strings_hints_any_spacing : forall b es o,
  scan b = Some es -> remove_ws b = Some o ->
  exists es', o = render es' /\ strings_of es' = strings_of es /\ hint_view es' = hint_view es.
Proof. exact remove_ws_views. Qed.
Print Assumptions C16_remove_ws_strings_hints_any_spacing.

(* the scanner used in all statements is sound and canonical: the elements render back to the
   blob, and rendering followed by scanning is the identity *)
Theorem C16_scan_sound : forall b es, scan b = Some es -> render es = b /\ canon es.
Proof. exact scan_eq. Qed.
Print Assumptions C16_scan_sound.

(* Names.  Full statement: after EVERY history of context creation / allocation / pointer-name
   reuse, in both modes, the names visible in any live context are pairwise distinct. *)
Definition C16_alloc_distinct_full : Prop :=
  forall minify kws ops outs fin,
  (minify = false -> Forall op_clean ops) ->
  run_root minify kws ops = Some (outs, fin) ->
  Forall (fun f => NoDup (fseen f)) fin.

(* Finding (known_findings.d/C16.txt, key minified-generic-instance-reuses-varptr-name): FALSE.
   varPtrName hands the pointer name cached by the first instantiation of a generic function to the
   second one without recording it in allVars (OReuse); under minification the next local of that
   instance gets the same letter.  Witness: g[int], g[string] with  x := n; use(&x); y := 3; use(&x). *)
Theorem C16_alloc_distinct_refuted : ~ C16_alloc_distinct_full.
Proof.
  intros H.
  assert (R : exists outs fin,
            run_root true reserved_keywords
              [OEnter [103]; OAlloc [120] false; OAlloc [120;36;50;52;112;116;114] false; OAlloc [121] false; OLeave;
               OEnter [103]; OAlloc [120] false; OReuse [98]; OAlloc [121] false] = Some (outs, fin) /\
            forallb (fun f => nodupb (fseen f)) fin = false) by (vm_compute; eexists; eexists; split; reflexivity).
  destruct R as (outs & fin & R & Hd).
  specialize (H true _ _ _ _ (fun E => ltac:(discriminate E)) R).
  assert (Hb : forallb (fun f => nodupb (fseen f)) fin = true).
  { apply forallb_forall. intros f Hf. rewrite Forall_forall in H. apply NoDup_nodupb. apply H. exact Hf. }
  congruence.
Qed.
Print Assumptions C16_alloc_distinct_refuted.

(* The positive theorem, excluding exactly that class (no OReuse in the history; non-minified:
   base names must not end in $digits) *)
Theorem C16_alloc_distinct : forall minify kws ops outs fin,
  (minify = false -> Forall op_clean ops) -> Forall op_no_reuse ops ->
  run_root minify kws ops = Some (outs, fin) ->
  Forall (fun f => NoDup (fseen f)) fin.
Proof. exact alloc_distinct. Qed.
Print Assumptions C16_alloc_distinct.

(* ... and the next name handed out is new in its context (and in every enclosing context when it
   is a package-level name) *)
Theorem C16_alloc_fresh : forall minify kws ops outs c rest base pkg v st',
  (minify = false -> Forall op_clean ops) -> Forall op_no_reuse ops -> (minify = false -> cleanb base = true) ->
  run_root minify kws ops = Some (outs, c :: rest) ->
  alloc minify base pkg (c :: rest) = Some (v, st') ->
  ~ In v (fseen c) /\ (pkg = true -> Forall (fun f => ~ In v (fseen f)) rest).
Proof. exact alloc_fresh. Qed.
Print Assumptions C16_alloc_fresh.

(* No allocation ever returns an ECMAScript reserved word.  [js_reserved] is written from the
   standard; [reserved_keywords] is regenerated from compiler.go: dropping a reserved word from
   the compiler's table makes the [vm_compute] below fail. *)
Lemma C16_table_has_no_dollar : forallb no_dollar reserved_keywords = true.
Proof. vm_compute. reflexivity. Qed.
Lemma C16_table_covers_js_reserved :
  forallb (fun k => existsb (name_eqb k) reserved_keywords) js_reserved = true.
Proof. vm_compute. reflexivity. Qed.

Theorem C16_alloc_not_reserved : forall minify ops outs fin,
  Forall (op_reuse_not_in reserved_keywords) ops ->     (* a re-used name is one returned earlier *)
  run_root minify reserved_keywords ops = Some (outs, fin) ->
  forall v, In (ON v) outs -> ~ In v js_reserved.
Proof. exact (fun minify ops outs fin => alloc_not_reserved reserved_keywords js_reserved minify ops outs fin
                C16_table_has_no_dollar C16_table_covers_js_reserved). Qed.
Print Assumptions C16_alloc_not_reserved.

(* Finding (known_findings.d/C16.txt, key plain-build-go-identifier-shadows-js-global): the full
   statement "no returned name is a JavaScript global that the emitted code reads" is FALSE without
   minification - a Go local called console is emitted as `var console`, println then calls
   console.log on it and the plain build throws, while the -m build (which renames it) runs. *)
Definition C16_alloc_avoids_js_globals_full : Prop :=
  forall minify ops outs fin, run_root minify reserved_keywords ops = Some (outs, fin) ->
  forall v, In (ON v) outs -> ~ In v js_globals_used.

Theorem C16_alloc_avoids_js_globals_refuted : ~ C16_alloc_avoids_js_globals_full.
Proof.
  intros H.
  assert (R : exists fin, run_root false reserved_keywords [OEnter [109;97;105;110]; OAlloc [99;111;110;115;111;108;101] false]
              = Some ([ON [109;97;105;110]; ON [99;111;110;115;111;108;101]], fin)) by (vm_compute; eexists; reflexivity).
  destruct R as [fin R]. apply (H false _ _ _ R [99;111;110;115;111;108;101]); vm_compute; tauto.
Qed.
Print Assumptions C16_alloc_avoids_js_globals_refuted.

(* the positive half, excluding exactly that input class: when no requested Go identifier is
   itself such a global, no returned name is (non-minified mode; a $n suffix never creates one) *)
Lemma C16_globals_have_no_dollar : forallb no_dollar js_globals_used = true.
Proof. vm_compute. reflexivity. Qed.

Theorem C16_alloc_avoids_js_globals_partial : forall kws ops outs fin,
  Forall (op_base_not_in js_globals_used) ops ->
  run_root false kws ops = Some (outs, fin) ->
  forall v, In (ON v) outs -> ~ In v js_globals_used.
Proof. exact (fun kws ops outs fin Hops => run_nonminify_form js_globals_used ops [root_frame kws] outs fin C16_globals_have_no_dollar Hops). Qed.
Print Assumptions C16_alloc_avoids_js_globals_partial.

(* ---- non-vacuity ------------------------------------------------------------------------------ *)

(* tab tab x = a - -b; hint return slash-star c star-slash quote a bslash quote b quote ; newline *)
Definition C16_sample : list N :=
  [9;9;120;32;61;32;97;32;45;32;45;98;59;10; 8;0;2;1;8; 9;9;114;101;116;117;114;110;32;47;42;32;99;32;42;47;32;34;97;92;34;32;32;98;34;59;10].

Example C16_nonvacuous_ws :
  well_lexed C16_sample = true /\
  remove_ws C16_sample =
    Some [120;61;97;45;32;45;98;59; 8;0;2;1;8; 114;101;116;117;114;110;34;97;92;34;32;32;98;34;59] /\
  hints_in C16_sample = Some [([1;8], Some (SCh 114))].
Proof. vm_compute. repeat split; reflexivity. Qed.

(* the hypothesis of the token theorem is needed: a + +b becomes a++b *)
Example C16_hypothesis_needed : ~ C16_tokens_unconditional.
Proof.
  intros H. specialize (H [97;32;43;32;43;98;59] [97;43;43;98;59] eq_refl). vm_compute in H. discriminate.
Qed.

(* 140 variables in one minified function: past z (26) and past the keyword do (index 118); the
   histories with 800 variables (past zz = 702) are evaluated by the correspondence check *)
Example C16_nonvacuous_alloc :
  exists outs fin,
    run_root true reserved_keywords (OEnter [102] :: repeat (OAlloc [118] false) 140) = Some (outs, fin) /\
    nth 1 outs (OL []) = ON [97] /\ nth 27 outs (OL []) = ON [97;97] /\
    existsb (fun o => match o with ON v => name_eqb v [100;111] | _ => false end) outs = false /\
    existsb (fun o => match o with ON v => name_eqb v [100;112] | _ => false end) outs = true.
Proof. vm_compute. eexists. eexists. repeat split; reflexivity. Qed.

Example C16_nonvacuous_suffix :
  exists fin,
    run_root false reserved_keywords
      [OAlloc [110;101;119] false; OAlloc [120] true; OEnter [102]; OAlloc [120] false; OAlloc [120] true; OLeave; OAlloc [120] false]
    = Some ([ON [110;101;119;36;49]; ON [120]; ON [102]; ON [120;36;49]; ON [120;36;50]; OL [[120;36;49]]; ON [120;36;51]], fin).
Proof. vm_compute. eexists. reflexivity. Qed.
