(* C02 — Suspending and resuming a goroutine is invisible to the program.
   This file holds ONLY the property theorems (each closed by [exact lemma]), their Print Assumptions
   and a non-vacuity example.
   Models: Model/C02_Flat.v (direct form [exec]/[run_direct]; resumable form [run_code]/[call]/[drive]/[run_flat]
   with frames ($s, $r, $c, locals) and an arbitrary schedule oracle; the translation [annot]/[flatten]/[compile]),
   Model/C02_Blocking.v (propagateFunctionBlocking), Model/C02_Wf.v (decidable structural facts).
   Tie: harness/py/props/c02.py compiles generated programs with the real compiler and compares, per program,
   output under many suspension masks / Decl.Blocking / the skeleton of the emitted JavaScript with
   [run_direct], [run_flat (compile p)], [blocking_flags], [flatten]; it also evaluates [wf_progb (compile p)]. *)
From Coq Require Import List ZArith Bool Arith.
From Verif Require Import Model.C02_Blocking Model.C02_Flat Model.C02_Wf Model.C02_Hoist Model.C02_P4_Range.
From Verif Require Import Proofs.C02_Blocking Proofs.C02_Flat Proofs.C02_Compile Proofs.C02_Correct Proofs.C02_Hoist Proofs.C02_P4_Range.
Import ListNotations.

(* THE STATEMENT for the modelled fragment (stage 1: integer locals/globals, println, if/else, for with
   init/cond/post, labels, break/continue, calls, return, the blocking primitive): for EVERY source program and
   EVERY schedule of suspensions the compiled resumable form computes what the direct semantics computes
   (output, returned value, globals).  Proved from
     (B) resumable form without suspensions = direct semantics   (Proofs/C02_Correct.v),
     (C) [wf_prog (compile p)]: closed marks, unique case labels (Proofs/C02_Compile.v),
     (A) schedule independence of well-formed flat programs      (Proofs/C02_Flat.v).
   `_partial` only with respect to the property TEXT: defers, panics, goto, switch, range, closures and calls
   inside expressions (stage 2) are not in this model — they are covered by the differential runs and, for calls
   inside expressions, by Model/C02_Hoist.v below. *)
Theorem C02_flat_suspend_invariant_partial : forall sp sched nglob fuel main args o,
  src_ok sp = true ->
  run_direct sp nglob fuel main args = Some o ->
  exists fuel', run_flat (compile sp) sched nglob fuel' main args = Some o.
Proof. exact flat_suspend_invariant. Qed.
Print Assumptions C02_flat_suspend_invariant_partial.

(* (B) alone: the translation is correct when nothing suspends. *)
Theorem C02_resumable_form_computes_direct_semantics_partial : forall sp nglob fuel main args o,
  src_ok sp = true ->
  run_direct sp nglob fuel main args = Some o ->
  exists fuel', run_flat (compile sp) never nglob fuel' main args = Some o.
Proof. exact run_direct_run_flat_never. Qed.
Print Assumptions C02_resumable_form_computes_direct_semantics_partial.

(* (A) For every flat program — any instruction lists, not only translator output — in which code emitted in
   direct form calls only direct-form functions and case labels are unique: whatever the run WITHOUT any
   suspension returns (value, output, globals, even the number of receives), the run under ANY schedule
   — any subset of the dynamic receive operations suspending the goroutine, the whole call chain unwinding by
   saved frames and being re-entered innermost-last — returns exactly the same, given enough fuel.
   Partial w.r.t. the property text: stage 1 only (no defers/panics/closures/goto; whole-locals frames). *)
Theorem C02_flat_schedule_independent_partial : forall p sched fuel main args w v w',
  wf_prog p ->
  run_machine p never fuel main args w = Some (v, w') ->
  exists fuel', run_machine p sched fuel' main args w = Some (v, w').
Proof. exact suspend_invisible. Qed.
Print Assumptions C02_flat_schedule_independent_partial.

(* (C) The translation model only produces well-formed programs.  This is where the analysis matters: code left
   in direct form cannot reach a blocking function because the propagated flags are closed and [annot] marks
   every ancestor of a blocking call and of a `continue` that leads to a blocking post statement. *)
Theorem C02_compile_wf : forall sp, src_ok sp = true -> wf_prog (compile sp).
Proof. exact compile_wf. Qed.
Print Assumptions C02_compile_wf.

(* (A)+(C): for EVERY MiniGo source program (calls go to existing functions, loop post statements are simple
   statements) and EVERY schedule, the compiled program computes what it computes without suspensions. *)
Theorem C02_compile_schedule_independent_partial : forall sp sched nglob fuel main args o,
  src_ok sp = true ->
  run_flat (compile sp) never nglob fuel main args = Some o ->
  exists fuel', run_flat (compile sp) sched nglob fuel' main args = Some o.
Proof. exact compile_schedule_independent. Qed.
Print Assumptions C02_compile_schedule_independent_partial.

(* Two arbitrary schedules can never produce two different results. *)
Theorem C02_flat_schedules_agree_partial : forall p sc1 sc2 nglob f0 f1 f2 main args o o1 o2,
  wf_prog p ->
  run_flat p never nglob f0 main args = Some o ->
  run_flat p sc1 nglob f1 main args = Some o1 ->
  run_flat p sc2 nglob f2 main args = Some o2 ->
  o1 = o /\ o2 = o.
Proof. exact flat_schedules_agree. Qed.
Print Assumptions C02_flat_schedules_agree_partial.

(* Functions emitted in direct form never reach the scheduler: identical under every schedule, same fuel. *)
Theorem C02_direct_form_never_suspends : forall p sched, wf_prog p ->
  forall n f args w x, is_directb p f = true ->
  call p never n (Fresh (CFn f) args) w = Some x -> call p sched n (Fresh (CFn f) args) w = Some x.
Proof. exact direct_indep. Qed.
Print Assumptions C02_direct_form_never_suspends.

(* Blocking analysis, cross-function part.  Soundness: whoever can reach — along call edges — a function that
   blocks directly is marked blocking (so it is compiled in resumable form). *)
Theorem C02_propagate_sound : forall g f f',
  reaches g f f' -> is_direct g f' -> flag (propagate g) f = true.
Proof. exact propagate_sound. Qed.
Print Assumptions C02_propagate_sound.

(* Minimality: nothing is marked without such a path; the result is below every closed superset of the
   direct blockers. *)
Theorem C02_propagate_least : forall g f,
  flag (propagate g) f = true -> exists f', reaches g f f' /\ is_direct g f'.
Proof. exact propagate_least. Qed.
Print Assumptions C02_propagate_least.

Theorem C02_propagate_minimal : forall g bl,
  (forall f, is_direct g f -> flag bl f = true) -> closed g bl ->
  forall f, flag (propagate g) f = true -> flag bl f = true.
Proof. exact propagate_minimal. Qed.
Print Assumptions C02_propagate_minimal.

(* Termination bound: after at most [length g] changing passes the `for !done` loop of PropagateAnalysis has
   reached a genuine fixpoint of one more pass, and the flags are closed under "a callee blocks". *)
Theorem C02_propagate_terminates : forall g,
  pass g (propagate g) = propagate g /\ closed g (propagate g) /\
  passes_used (length g) g (init_flags g) <= S (length g).
Proof. intros g. exact (conj (propagate_fixpoint g) (conj (propagate_closed g) (passes_used_bound _ _ _))). Qed.
Print Assumptions C02_propagate_terminates.

(* ---- partially evaluated expressions: which calls are hoisted into preceding statements (Model/C02_Hoist.v,
   faithful to translateCall / translateArgs / translateAssign, INCLUDING two recorded defects).
   Full statement: the calls of every expression statement run in Go's order in the resumable form. *)
Definition C02_expression_order_full_statement : Prop :=
  forall e, trace_assign e = go_order e.

(* Recorded finding hoisted-blocking-call-overtakes-earlier-nonblocking-call: `nb#1() + yv#2()` runs 2 first. *)
Theorem C02_expression_order_refuted : exists e, trace_assign e <> go_order e.
Proof. exact hoist_order_refuted. Qed.
Print Assumptions C02_expression_order_refuted.

(* Outside exactly that class — no binary operation whose left operand leaves a call inline while its right
   operand contains a blocking call — the order is Go's. *)
Theorem C02_expression_order_preserved : forall e, ordered e = true -> trace_assign e = go_order e.
Proof. exact hoist_order_preserved. Qed.
Print Assumptions C02_expression_order_preserved.

(* translateArgs (`_arg` temporaries): a call never disturbs the order of its arguments, whatever they are. *)
Theorem C02_args_order_preserved : forall blk id args,
  Forall seq_ok args -> seq_ok (HCall blk id args).
Proof. exact args_order_preserved. Qed.
Print Assumptions C02_args_order_preserved.

(* the same for `defer f(args)` and `go f(args)` *)
Theorem C02_delegated_args_order_preserved : forall args,
  Forall seq_ok args -> trace_delegated args = go_delegated args.
Proof. exact delegated_order_preserved. Qed.
Print Assumptions C02_delegated_args_order_preserved.

(* Recorded finding assign-rhs-blocking-call-evaluated-before-lhs-operand-call: `a[yv#1()] = yv#2()` runs 2 first,
   although both sides are in the order-preserving class. *)
Theorem C02_index_assign_order_refuted : exists idx rhs,
  ordered idx = true /\ ordered rhs = true /\ trace_index_assign idx rhs <> go_index_assign idx rhs.
Proof. exact index_assign_refuted. Qed.
Print Assumptions C02_index_assign_order_refuted.

Theorem C02_index_assign_order_preserved : forall idx rhs,
  ordered idx = true -> ordered rhs = true ->
  marked rhs = false \/ go_order idx = [] ->
  trace_index_assign idx rhs = go_index_assign idx rhs.
Proof. exact index_assign_preserved. Qed.
Print Assumptions C02_index_assign_order_preserved.

(* Non-vacuity: a labelled loop whose init and post statements are blocking calls, a `continue` that the
   analysis must flatten because of the blocking post, a labelled break from direct-form code, a yield in the
   body, a direct-form callee.  The compiled program is well-formed, and the schedule that suspends at EVERY
   receive as well as an alternating one give the direct result. *)
Local Open Scope Z_scope.
Definition C02_example : sprog := [
  {| sf_nparams := 1%nat; sf_body :=
     SSeq (SAssign 1%nat (EConst 0))
    (SSeq (SFor false (Some 1%nat) (SCall false (Some 2%nat) 1%nat [EConst (-1)]) (EBin OLt (EVar 2%nat) (EConst 3))
                (SCall false (Some 2%nat) 1%nat [EVar 2%nat])
                (SSeq (SIf false (EBin OEq (EVar 2%nat) (EConst 1)) (SContinue None))
                (SSeq SYield
                (SSeq (SAssign 1%nat (EBin OAdd (EVar 1%nat) (EVar 2%nat)))
                (SSeq (SPrint (EVar 1%nat))
                      (SIf false (EBin OLt (EConst 2) (EVar 1%nat)) (SBreak (Some 1%nat))))))))
    (SSeq (SCall false (Some 3%nat) 2%nat [EConst 7])
          (SReturn (EBin OAdd (EVar 1%nat) (EVar 3%nat))))) |};
  {| sf_nparams := 1%nat; sf_body := SSeq SYield (SReturn (EBin OAdd (EVar 0%nat) (EConst 1))) |};
  {| sf_nparams := 1%nat; sf_body := SReturn (EBin OAdd (EVar 0%nat) (EConst 1)) |} ].

Example C02_nonvacuous :
  src_ok C02_example = true /\
  wf_prog (compile C02_example) /\
  blocking_flags C02_example = [true; true; false] /\
  run_direct C02_example 1 200 0%nat [5] = Some ([0; 2], 10, [0]) /\
  run_flat (compile C02_example) never 1 200 0%nat [5] = Some ([0; 2], 10, [0]) /\
  run_flat (compile C02_example) (fun _ => true) 1 200 0%nat [5] = Some ([0; 2], 10, [0]) /\
  run_flat (compile C02_example) Nat.even 1 200 0%nat [5] = Some ([0; 2], 10, [0]).
Proof. vm_compute. repeat split; reflexivity. Qed.

(* ---- phase 4 (b): `for k = range s` over a slice of integer length (Model/C02_P4_Range.v).
   [rexec]/[run_rdirect]: direct semantics of the source language extended with range (length captured once in the
   frame slot `_ref`, hidden counter `_i`, key assigned at the top of each iteration, continue advances the counter);
   [desugar]: the translator's own reduction of a range statement to translateLoopingStmt (init `_ref = s; _i = 0`,
   cond `_i < _ref.$length`, body prefix `k = _i`, post `_i++`); [rcompile] = [compile] after that reduction.
   For EVERY program of the extended language and EVERY schedule the resumable form computes what the direct
   semantics computes.  `_partial` w.r.t. the property text only (switch, goto, defer, panics, closures are outside). *)
Theorem C02_range_suspend_invariant_partial : forall rp sched nglob fuel main args o,
  rsrc_ok rp = true ->
  run_rdirect rp nglob fuel main args = Some o ->
  exists fuel', run_flat (rcompile rp) sched nglob fuel' main args = Some o.
Proof. exact range_suspend_invariant. Qed.
Print Assumptions C02_range_suspend_invariant_partial.

(* the reduction itself preserves the direct semantics, statement by statement, for any callee semantics *)
Theorem C02_range_reduction_preserves_direct_semantics : forall callf n s loc w,
  rexec callf n s loc w = exec callf false n (desugar s) loc w.
Proof. exact rexec_desugar. Qed.
Print Assumptions C02_range_reduction_preserves_direct_semantics.

Theorem C02_range_compile_wf : forall rp, rsrc_ok rp = true -> wf_prog (rcompile rp).
Proof. exact rcompile_wf. Qed.
Print Assumptions C02_range_compile_wf.

(* Non-vacuity: a labelled range loop whose length expression reads a variable that the body overwrites (captured
   once), with a `continue` (counter must advance at the continue site), a yield and a blocking call in the body, a
   labelled break, nested in a for loop whose post statement is a blocking call. *)
Definition C02_range_example : rprog := [
  {| rf_nparams := 1%nat; rf_body :=
     RSeq (RAssign 1%nat (EConst 3))
    (RSeq (RFor None (RAssign 5%nat (EConst 0)) (EBin OLt (EVar 5%nat) (EConst 2)) (RCall (Some 5%nat) 1%nat [EVar 5%nat])
            (RRange false (Some 1%nat) (Some 2%nat) 3%nat 4%nat (EVar 1%nat)
               (RSeq (RAssign 1%nat (EConst 1))
               (RSeq (RIf (EBin OEq (EVar 2%nat) (EConst 1)) (RContinue None))
               (RSeq RYield
               (RSeq (RCall (Some 6%nat) 1%nat [EVar 2%nat])
               (RSeq (RPrint (EBin OAdd (EBin OMul (EVar 5%nat) (EConst 10)) (EVar 6%nat)))
                     (RIf (EBin OLt (EConst 20) (EVar 6%nat)) (RBreak (Some 1%nat))))))))))
          (RReturn (EVar 2%nat))) |};
  {| rf_nparams := 1%nat; rf_body := RSeq RYield (RReturn (EBin OAdd (EVar 0%nat) (EConst 1))) |} ].

Example C02_range_nonvacuous :
  rsrc_ok C02_range_example = true /\
  wf_prog (rcompile C02_range_example) /\
  run_rdirect C02_range_example 0 300 0%nat [0] = Some ([1; 3; 11], 0, []) /\
  run_flat (rcompile C02_range_example) never 0 300 0%nat [0] = Some ([1; 3; 11], 0, []) /\
  run_flat (rcompile C02_range_example) (fun _ => true) 0 300 0%nat [0] = Some ([1; 3; 11], 0, []) /\
  run_flat (rcompile C02_range_example) Nat.even 0 300 0%nat [0] = Some ([1; 3; 11], 0, []).
Proof. vm_compute. repeat split; reflexivity. Qed.
