(* C20 — The build cache is transparent, never stale and tolerates damage.
   This file holds ONLY the property theorems (each closed by [exact lemma]), their
   Print Assumptions and non-vacuity examples.
   Model: Model/C20_Cache.v (build/cache/cache.go after c802f28: Load decompresses the whole stream,
   which verifies the gzip CRC-32 and size, before it decodes anything).
   Tie: harness/py/props/c20.py runs the real BuildCache, serializer and compiler and the model on
   the same histories / keys / damaged files.

   Code outside the repository appears as universally quantified parameters with explicit
   hypotheses (never axioms):
     H         SHA-256 -> file name: fixed length, injective on the keys that occur
     enc / unzip, dec_time, dec_body   gzip(gob(..)) and its reader:
       round trip;  every proper prefix of a stored file fails to decode;
       crc32_detects_single_byte_damage: a file with one changed byte fails to decode or decodes to
       the unchanged entry (gzip header bits that carry no data) — the hypothesis about CRC-32.
   These are satisfied by the toy codec (C20_codec_hypotheses_satisfiable) and are validated on
   the real codec at every run of the check. *)
From Coq Require Import String Ascii.
From Coq Require Import List NArith ZArith Bool.
From Verif Require Import Model.C20_Cache Proofs.C20_Cache.
Import ListNotations.
Local Open Scope N_scope.

(* Transparency at the cache level: what a completed Store wrote is what Load returns,
   as long as the sources are not newer than the build time. *)
Theorem C20_load_after_store :
  forall (E : Type) (H : bytes -> bytes) (enc : Z -> E -> bytes) (unzip : bytes -> option bytes)
         (dec_time : bytes -> option Z) (dec_body : bytes -> option E),
    (forall t e, dec_full E unzip dec_time dec_body (enc t e) = Some (t, e)) ->
    forall f c ip t e rnd tsrc,
      is_test c ip = false -> (tsrc <= t)%Z ->
      snd (store E H enc f (Some c) ip t e rnd Done) = true /\
      load E H unzip dec_time dec_body (fst (store E H enc f (Some c) ip t e rnd Done)) (Some c) ip tsrc = Some (t, e).
Proof. exact load_after_store. Qed.
Print Assumptions C20_load_after_store.

(* Soundness over EVERY history of stores (completed, killed after any file-system step or
   byte, failed), truncations of any file to any length and deletions: a Load that returns an
   entry returns what the last published Store for the same key string stored, and that entry is
   not older than the sources; the package under test never gets an entry. *)
Theorem C20_load_sound :
  forall (E : Type) (H : bytes -> bytes) (enc : Z -> E -> bytes) (unzip : bytes -> option bytes)
         (dec_time : bytes -> option Z) (dec_body : bytes -> option E),
    (forall t e, dec_full E unzip dec_time dec_body (enc t e) = Some (t, e)) ->
    forall hlen : nat, (forall k, length (H k) = hlen) ->
    (forall t e k, (k < length (enc t e))%nat -> dec_full E unzip dec_time dec_body (firstn k (enc t e)) = None) ->
    forall (h : list (event E)) c ip tsrc t e,
      rnds_ok E h = true ->
      (forall k, In k (keys_of E h) -> H k = H (key c ip) -> k = key c ip) ->
      load E H unzip dec_time dec_body (run E H enc h) (Some c) ip tsrc = Some (t, e) ->
      last_done E H enc h (key c ip) = Some (t, e) /\ (tsrc <= t)%Z /\ is_test c ip = false.
Proof. exact load_sound. Qed.
Print Assumptions C20_load_sound.

(* ... hence never another configuration's or another package's entry: for Clean-stable
   strings the store that produced the entry had the same GOOS, GOARCH, GOROOT, GOPATH,
   BuildTags, Version and the same import path. *)
Theorem C20_load_sound_same_config :
  forall (E : Type) (H : bytes -> bytes) (enc : Z -> E -> bytes) (unzip : bytes -> option bytes)
         (dec_time : bytes -> option Z) (dec_body : bytes -> option E),
    (forall t e, dec_full E unzip dec_time dec_body (enc t e) = Some (t, e)) ->
    forall hlen : nat, (forall k, length (H k) = hlen) ->
    (forall t e k, (k < length (enc t e))%nat -> dec_full E unzip dec_time dec_body (firstn k (enc t e)) = None) ->
    forall (h : list (event E)) c ip tsrc t e,
      rnds_ok E h = true ->
      (forall k, In k (keys_of E h) -> H k = H (key c ip) -> k = key c ip) ->
      forallb wf_event h = true -> wfb c ip = true ->
      load E H unzip dec_time dec_body (run E H enc h) (Some c) ip tsrc = Some (t, e) ->
      (tsrc <= t)%Z /\ is_test c ip = false /\
      exists c' rnd o,
        In (EStore (Some c') ip t e rnd o) h /\ common c' = common c /\ is_test c' ip = false /\
        publishes E H enc c' ip t e rnd o = true /\
        last_done E H enc h (key c ip) = Some (t, e).
Proof. exact load_sound_same_config. Qed.
Print Assumptions C20_load_sound_same_config.

(* The key is injective in every build parameter and the import path, for strings that
   path.Clean leaves alone ([wfb] is decidable: key = package/commonKey[/importPath]). *)
Theorem C20_key_injective : forall c1 ip1 c2 ip2,
  wfb c1 ip1 = true -> wfb c2 ip2 = true ->
  key c1 ip1 = key c2 ip2 -> common c1 = common c2 /\ ip1 = ip2.
Proof. exact key_injective. Qed.
Print Assumptions C20_key_injective.

(* Why the hypothesis is needed: path.Join cleans the whole key, so GOROOT=/a//b, GOROOT=/a/b
   and GOROOT=/a/x/../b collide. *)
Example C20_key_collision_unclean_example :
  let mk r := {| goos := s2b "linux"; goarch := s2b "js"; goroot := s2b r; gopath := s2b "/go";
                 tags := None; version := s2b "1.20"; tested := [] |} in
  let ip := s2b "p" in
  key (mk "/a//b"%string) ip = key (mk "/a/b"%string) ip /\ key (mk "/a/x/../b"%string) ip = key (mk "/a/b"%string) ip /\
  wfb (mk "/a/b"%string) ip = true /\ wfb (mk "/a//b"%string) ip = false /\ wfb (mk "/a/x/../b"%string) ip = false /\
  common (mk "/a//b"%string) <> common (mk "/a/b"%string).
Proof. vm_compute. repeat split; try reflexivity. intro Hx; discriminate Hx. Qed.

(* A crash after ANY number of file-system steps of Store (temp file created, any number of
   bytes written, renamed) leaves every final file as it was, or is the completed Store:
   every later Load gives what it gave before or what it gives after the complete Store. *)
Theorem C20_crash_is_miss_or_complete :
  forall (E : Type) (H : bytes -> bytes) (enc : Z -> E -> bytes) (unzip : bytes -> option bytes)
         (dec_time : bytes -> option Z) (dec_body : bytes -> option E) (hlen : nat),
    (forall k, length (H k) = hlen) ->
    forall f c ip t e (rnd : list N) n oc' ip' tsrc,
      rnd <> [] ->
      let f' := fst (store E H enc f (Some c) ip t e rnd (CrashAfter n)) in
      load E H unzip dec_time dec_body f' oc' ip' tsrc = load E H unzip dec_time dec_body f oc' ip' tsrc \/
      load E H unzip dec_time dec_body f' oc' ip' tsrc =
        load E H unzip dec_time dec_body (fst (store E H enc f (Some c) ip t e rnd Done)) oc' ip' tsrc.
Proof. exact crash_is_miss_or_complete. Qed.
Print Assumptions C20_crash_is_miss_or_complete.

Theorem C20_crash_unchanged_or_complete :
  forall (E : Type) (H : bytes -> bytes) (enc : Z -> E -> bytes) (hlen : nat),
    (forall k, length (H k) = hlen) ->
    forall f c ip t e (rnd : list N) n,
      rnd <> [] ->
      let f' := fst (store E H enc f (Some c) ip t e rnd (CrashAfter n)) in
      (forall k, fs_get f' (H k) = fs_get f (H k)) \/
      f' = fst (store E H enc f (Some c) ip t e rnd Done).
Proof. exact crash_unchanged_or_complete. Qed.
Print Assumptions C20_crash_unchanged_or_complete.

(* A Store whose serialisation fails after any number of bytes reports failure and changes
   no Load result. *)
Theorem C20_failed_store_changes_nothing :
  forall (E : Type) (H : bytes -> bytes) (enc : Z -> E -> bytes) (unzip : bytes -> option bytes)
         (dec_time : bytes -> option Z) (dec_body : bytes -> option E) (hlen : nat),
    (forall k, length (H k) = hlen) ->
    forall f c ip t e (rnd : list N) n oc' ip' tsrc,
      rnd <> [] ->
      snd (store E H enc f (Some c) ip t e rnd (Fail n)) = false /\
      load E H unzip dec_time dec_body (fst (store E H enc f (Some c) ip t e rnd (Fail n))) oc' ip' tsrc =
        load E H unzip dec_time dec_body f oc' ip' tsrc.
Proof. exact failed_store_changes_nothing. Qed.
Print Assumptions C20_failed_store_changes_nothing.

(* Damage.  A missing file is a miss; EVERY truncated file (any proper prefix, the trailer
   included) is a miss; a file with one changed byte is a miss or the unchanged complete entry
   (the latter under the named hypothesis about CRC-32). *)
Theorem C20_missing_is_miss :
  forall (E : Type) (H : bytes -> bytes) (unzip : bytes -> option bytes) (dec_time : bytes -> option Z)
         (dec_body : bytes -> option E) f c ip tsrc,
    fs_get f (final_name H c ip) = None -> load E H unzip dec_time dec_body f (Some c) ip tsrc = None.
Proof. exact missing_is_miss. Qed.
Print Assumptions C20_missing_is_miss.

Theorem C20_corruption_is_miss :
  forall (E : Type) (H : bytes -> bytes) (enc : Z -> E -> bytes) (unzip : bytes -> option bytes)
         (dec_time : bytes -> option Z) (dec_body : bytes -> option E),
    (forall t e k, (k < length (enc t e))%nat -> dec_full E unzip dec_time dec_body (firstn k (enc t e)) = None) ->
    forall f c ip t e k tsrc,
      fs_get f (final_name H c ip) = Some (firstn k (enc t e)) ->
      (k < length (enc t e))%nat ->
      load E H unzip dec_time dec_body f (Some c) ip tsrc = None.
Proof. exact truncated_is_miss. Qed.
Print Assumptions C20_corruption_is_miss.

Theorem C20_flipped_is_miss_or_same :
  forall (E : Type) (H : bytes -> bytes) (enc : Z -> E -> bytes) (unzip : bytes -> option bytes)
         (dec_time : bytes -> option Z) (dec_body : bytes -> option E),
    crc32_detects_single_byte_damage E enc unzip dec_time dec_body ->
    forall f c ip t e pre x y post tsrc,
      enc t e = pre ++ x :: post -> x <> y ->
      fs_get f (final_name H c ip) = Some (pre ++ y :: post) ->
      load E H unzip dec_time dec_body f (Some c) ip tsrc = None \/
      load E H unzip dec_time dec_body f (Some c) ip tsrc = Some (t, e).
Proof. exact flipped_is_miss_or_same. Qed.
Print Assumptions C20_flipped_is_miss_or_same.

(* The package under test (and its _test variant) is never stored nor loaded; a nil cache
   stores and loads nothing. *)
Theorem C20_test_package_never_cached :
  forall (E : Type) (H : bytes -> bytes) (enc : Z -> E -> bytes) (unzip : bytes -> option bytes)
         (dec_time : bytes -> option Z) (dec_body : bytes -> option E) f c ip t e rnd o tsrc,
    is_test c ip = true ->
    store E H enc f (Some c) ip t e rnd o = (f, false) /\ load E H unzip dec_time dec_body f (Some c) ip tsrc = None.
Proof. exact test_package_never_cached. Qed.
Print Assumptions C20_test_package_never_cached.

Theorem C20_nil_cache_never_caches :
  forall (E : Type) (H : bytes -> bytes) (enc : Z -> E -> bytes) (unzip : bytes -> option bytes)
         (dec_time : bytes -> option Z) (dec_body : bytes -> option E) f ip t e rnd o tsrc,
    store E H enc f None ip t e rnd o = (f, false) /\ load E H unzip dec_time dec_body f None ip tsrc = None.
Proof. exact nil_cache_never_caches. Qed.
Print Assumptions C20_nil_cache_never_caches.

(* Non-vacuity 1: the codec hypotheses used above (round trip, every proper prefix fails,
   single-byte damage detected) are satisfiable — the toy codec (magic, length, data, checksum
   trailer, all verified before decoding) satisfies all three. *)
Theorem C20_codec_hypotheses_satisfiable : codec_ok toyE toy_enc toy_unzip toy_dec_time toy_dec_body.
Proof. exact toy_codec_ok. Qed.
Print Assumptions C20_codec_hypotheses_satisfiable.

(* Non-vacuity 2: a concrete history (newest first): store under c1; store under c2 (other
   GOARCH); a second store under c1 killed after 5 steps; the c1 file cut by k bytes.
   Uncut (k = 0): c1 gets its complete entry, not c2's; sources newer by 1ns: miss;
   cut by 1 byte (inside the trailer): miss; the tested package: miss. *)
Example C20_nonvacuous :
  let c1 := {| goos := s2b "linux"; goarch := s2b "js"; goroot := s2b "/usr/go"; gopath := s2b "/go";
               tags := Some [s2b "a"]; version := s2b "1.20"; tested := [] |} in
  let c2 := {| goos := s2b "linux"; goarch := s2b "wasm"; goroot := s2b "/usr/go"; gopath := s2b "/go";
               tags := Some [s2b "a"]; version := s2b "1.20"; tested := [] |} in
  let ct := {| goos := s2b "linux"; goarch := s2b "js"; goroot := s2b "/usr/go"; gopath := s2b "/go";
               tags := Some [s2b "a"]; version := s2b "1.20"; tested := s2b "p" |} in
  let ip := s2b "p" in
  let Ht := table_H [(key c1 ip, repeat 1 64); (key c2 ip, repeat 2 64)] in
  let h k := [ETrunc (Ht (key c1 ip)) (length (toy_enc 10 [[1; 2]; []]) - k);
              EStore (Some c1) ip 20%Z [[9]] [7] (CrashAfter 5);
              EStore (Some c2) ip 11%Z [[3]] [6] Done;
              EStore (Some c1) ip 10%Z [[1; 2]; []] [5] Done] in
  let ld k c tsrc := load toyE Ht toy_unzip toy_dec_time toy_dec_body (run toyE Ht toy_enc (h k)) (Some c) ip tsrc in
  wfb c1 ip = true /\ wfb c2 ip = true /\ key c1 ip <> key c2 ip /\
  ld 0%nat c1 10%Z = Some (10%Z, [[1; 2]; []]) /\ ld 0%nat c2 10%Z = Some (11%Z, [[3]]) /\
  ld 0%nat c1 11%Z = None /\ ld 1%nat c1 10%Z = None /\ ld 0%nat ct 10%Z = None.
Proof. vm_compute. repeat split; try reflexivity. intro Hx; discriminate Hx. Qed.
