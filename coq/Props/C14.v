(* C14 — Strings are byte sequences with Go's UTF-8 behaviour.
   This file holds ONLY the property theorems (each closed by [exact lemma]), their
   Print Assumptions and non-vacuity examples.
   Model: Model/C14_Utf8.v (prelude.js $decodeRune/$encodeRune/$stringToRunes/$runesToString/
   $stringToBytes/$bytesToString/$copyString/$substring, the emitted range loop, s[i],
   string(int64)) and Model/C14_Literal.v (utils.go encodeString + the JS reading of its escapes).
   Specification: Unicode Table 3-6/3-7, no bit operations (spec_decode, spec_encode).
   Tie: harness/py/props/c14.py runs the real prelude in node, the real encodeString and compiled
   programs (vs native Go) and the model on the same inputs.

   Not modelled (list facts on the shared representation, checked only through compiled
   programs against native Go): len, concatenation, comparison, map keys, switch. *)
From Coq Require Import List NArith ZArith Bool Arith.
From Verif Require Import Model.C14_Utf8 Model.C14_Literal.
From Verif Require Import Proofs.C14_Decode Proofs.C14_Encode Proofs.C14_Strings Proofs.C14_Literal.
Import ListNotations.
Local Open Scope N_scope.

(* ---- decoder ------------------------------------------------------------------------- *)

(* For EVERY list of code units (bytes or not) and EVERY position (inside or past the end) the
   bit-twiddling decoder returns what the table-driven specification returns: the scalar value
   and length of a well-formed sequence, (U+FFFD, 1) for every truncated, overlong, surrogate,
   > U+10FFFF or otherwise ill-formed one. *)
Theorem C14_decode_eq_spec : forall s pos, decode_rune s pos = spec_decode (skipn pos s).
Proof. exact decode_eq_spec. Qed.
Print Assumptions C14_decode_eq_spec.

(* Inside the string the result is always a Unicode scalar value, the width stays inside the
   string, and unless it is the error result the bytes consumed are exactly the (unique, shortest)
   encoding of the rune. *)
Theorem C14_decode_rune_facts : forall s pos r w,
  (pos < length s)%nat -> decode_rune s pos = (r, w) ->
  (1 <= w <= 4)%nat /\ (pos + w <= length s)%nat /\ valid_scalar (Z.of_N r) = true /\
  ((r, w) = ERR \/ encode_rune (Z.of_N r) = firstn w (skipn pos s)).
Proof. exact decode_rune_facts. Qed.
Print Assumptions C14_decode_rune_facts.

(* ---- encoder ------------------------------------------------------------------------- *)

Theorem C14_encode_eq_spec : forall r : Z, encode_rune r = spec_string_of_rune r.
Proof. exact encode_eq_spec. Qed.
Print Assumptions C14_encode_eq_spec.

(* decode . encode = id for every valid scalar value, in every context *)
Theorem C14_decode_encode : forall pre r rest, valid_scalar r = true ->
  decode_rune (pre ++ encode_rune r ++ rest) (length pre) = (Z.to_N r, length (encode_rune r)).
Proof. exact decode_encode. Qed.
Print Assumptions C14_decode_encode.

(* negative, surrogate and > U+10FFFF code points give EF BF BD *)
Theorem C14_encode_invalid : forall r, valid_scalar r = false -> encode_rune r = [0xEF; 0xBF; 0xBD].
Proof. exact encode_invalid. Qed.
Print Assumptions C14_encode_invalid.

Theorem C14_encode_rune_bytes : forall r, is_bytes (encode_rune r) = true.
Proof. exact encode_rune_bytes. Qed.
Print Assumptions C14_encode_rune_bytes.

(* ---- range loop ---------------------------------------------------------------------- *)

(* the rune/width sequence of the specification: repeated decoding of the rest *)
Theorem C14_spec_runes_unfold : forall s, s <> [] ->
  spec_runes s = spec_decode s :: spec_runes (skipn (snd (spec_decode s)) s).
Proof. exact spec_runes_unfold. Qed.
Print Assumptions C14_spec_runes_unfold.

(* the emitted loop terminates (within the fuel = length) and visits exactly that sequence,
   each index being the sum of the widths before it ... *)
Theorem C14_range_loop_spec : forall s, range_loop s = with_offsets 0 (spec_runes s).
Proof. exact range_loop_spec. Qed.
Print Assumptions C14_range_loop_spec.

(* ... and the widths add up to the length: no byte skipped, none visited twice *)
Theorem C14_range_covers : forall s, sum_widths (spec_runes s) = length s.
Proof. exact range_covers. Qed.
Print Assumptions C14_range_covers.

(* ---- []rune <-> string ---------------------------------------------------------------- *)

Theorem C14_runes_of_encoded : forall rs, Forall (fun r => valid_scalar r = true) rs ->
  string_to_runes (runes_to_string rs 0 (length rs)) = map Z.to_N rs.
Proof. exact runes_of_encoded. Qed.
Print Assumptions C14_runes_of_encoded.

(* string([]rune(s)) = s on well-formed UTF-8 *)
Theorem C14_runes_roundtrip : forall s, valid_utf8 s -> back s = s.
Proof. exact runes_roundtrip. Qed.
Print Assumptions C14_runes_roundtrip.

(* well-formed (a concatenation of encodings of scalar values) = the decoder never reports an error *)
Theorem C14_valid_iff_no_error : forall s,
  valid_utf8 s <-> Forall (fun rw => rw <> ERR) (spec_runes s).
Proof. exact valid_iff_no_error. Qed.
Print Assumptions C14_valid_iff_no_error.

(* replacement law for arbitrary byte strings: string([]rune(s)) is well formed and has the runes of s *)
Theorem C14_back_valid : forall s, valid_utf8 (back s).
Proof. exact back_valid. Qed.
Print Assumptions C14_back_valid.

Theorem C14_runes_of_back : forall s, string_to_runes (back s) = string_to_runes s.
Proof. exact runes_of_back. Qed.
Print Assumptions C14_runes_of_back.

(* ---- []byte <-> string, copy ----------------------------------------------------------- *)

(* for every chunk size (the code uses 10000) the chunked conversion is the window of the array *)
Theorem C14_bytes_to_string_any_chunk : forall k arr off len, (0 < k)%nat ->
  bytes_to_string_k k arr off len = window arr off len.
Proof. exact bytes_to_string_k_spec. Qed.
Print Assumptions C14_bytes_to_string_any_chunk.

Theorem C14_bytes_roundtrip : forall b, is_bytes b = true ->
  string_to_bytes (bytes_to_string b 0 (length b)) = b.
Proof. exact bytes_roundtrip. Qed.
Print Assumptions C14_bytes_roundtrip.

Theorem C14_string_bytes_roundtrip : forall s, is_bytes s = true ->
  bytes_to_string (string_to_bytes s) 0 (length (string_to_bytes s)) = s.
Proof. exact string_bytes_roundtrip. Qed.
Print Assumptions C14_string_bytes_roundtrip.

Theorem C14_copy_string_spec : forall arr off len src,
  (off + len <= length arr)%nat -> is_bytes src = true ->
  let n := Nat.min (length src) len in
  fst (copy_string arr off len src) = n /\
  snd (copy_string arr off len src) = firstn off arr ++ firstn n src ++ skipn (off + n) arr /\
  length (snd (copy_string arr off len src)) = length arr.
Proof. exact copy_string_spec. Qed.
Print Assumptions C14_copy_string_spec.

(* ---- slicing ---------------------------------------------------------------------------- *)

(* s[lo:hi]: defined exactly when 0 <= lo <= hi <= len(s), and then the right bytes *)
Theorem C14_substring_three_arg : forall s lo hi, substring s lo (Some hi) = spec_slice s lo hi.
Proof. exact substring_three_arg. Qed.
Print Assumptions C14_substring_three_arg.

(* s[lo:] is s[lo:len(s)] for EVERY lo (a low bound beyond the length panics) *)
Theorem C14_substring_low_only : forall s lo,
  substring s lo None = spec_slice s lo (Z.of_nat (length s)).
Proof. exact substring_low_only. Qed.
Print Assumptions C14_substring_low_only.

(* ---- indexing --------------------------------------------------------------------------- *)

(* s[i] as emitted through rangeCheck: the byte when 0 <= i < len(s), the run-time panic otherwise —
   for every string and index; [c] = the index is a constant (then the type checker guarantees 0 <= i
   and only the upper bound is tested at run time) *)
Theorem C14_index_emitted_spec : forall c s i, (c = true -> 0 <= i)%Z ->
  index_emitted c s i = spec_index s i.
Proof. exact index_emitted_spec. Qed.
Print Assumptions C14_index_emitted_spec.

(* constant index into a constant string: range verified by the type checker, bare charCodeAt emitted *)
Theorem C14_index_unchecked_in_range : forall s i, (0 <= i < Z.of_nat (length s))%Z ->
  Some (index_unchecked s i) = spec_index s i.
Proof. exact index_unchecked_in_range. Qed.
Print Assumptions C14_index_unchecked_in_range.

(* ---- string(int64) ---------------------------------------------------------------------- *)

(* for EVERY integer x (in particular every int64/uint64): the encoding of x when it is a valid code
   point, EF BF BD otherwise *)
Theorem C14_string_of_int64_spec : forall x, string_of_int64 x = spec_string_of_rune x.
Proof. exact string_of_int64_spec. Qed.
Print Assumptions C14_string_of_int64_spec.

(* ---- string constants ------------------------------------------------------------------- *)

(* every byte string survives compilation: the emitted literal reads back as exactly the
   constant and ends exactly at its closing quote, whatever follows it *)
Theorem C14_literal_roundtrip : forall s tl, is_bytes s = true ->
  js_unescape (encode_string s ++ tl) = Some (s, tl).
Proof. exact literal_roundtrip_ctx. Qed.
Print Assumptions C14_literal_roundtrip.

(* the emitted text is printable ASCII ... *)
Theorem C14_encode_string_safe : forall s, is_bytes s = true ->
  forallb printable (encode_string s) = true.
Proof. exact encode_string_safe. Qed.
Print Assumptions C14_encode_string_safe.

(* ... hence never contains the source-map hint byte 0x08 (assumption of C19) ... *)
Theorem C14_encode_string_no_magic : forall s, is_bytes s = true ->
  forallb (fun x => negb (x =? 8)) (encode_string s) = true.
Proof. exact encode_string_no_magic. Qed.
Print Assumptions C14_encode_string_no_magic.

(* ... nor a raw line terminator *)
Theorem C14_encode_string_no_newline : forall s, is_bytes s = true ->
  forallb (fun x => negb ((x =? 10) || (x =? 13))) (encode_string s) = true.
Proof. exact encode_string_no_newline. Qed.
Print Assumptions C14_encode_string_no_newline.

(* ---- non-vacuity -------------------------------------------------------------------------- *)

(* a well-formed string with 1-, 2-, 3- and 4-byte sequences exists and round-trips; an ill-formed
   one (overlong C0 80, lone continuation, surrogate ED A0 80, F4 90 > U+10FFFF, truncated E2 82)
   decodes to U+FFFD per byte *)
Example C14_nonvacuous :
  valid_utf8 [0x41; 0xC3; 0xA9; 0xE2; 0x82; 0xAC; 0xF0; 0x9F; 0x98; 0x80] /\
  string_to_runes [0x41; 0xC3; 0xA9; 0xE2; 0x82; 0xAC; 0xF0; 0x9F; 0x98; 0x80] = [0x41; 0xE9; 0x20AC; 0x1F600] /\
  range_loop [0xC0; 0x80; 0xED; 0xA0; 0x80; 0xE2; 0x82] =
    [(0%nat, 0xFFFD, 1%nat); (1%nat, 0xFFFD, 1%nat); (2%nat, 0xFFFD, 1%nat); (3%nat, 0xFFFD, 1%nat); (4%nat, 0xFFFD, 1%nat); (5%nat, 0xFFFD, 1%nat); (6%nat, 0xFFFD, 1%nat)] /\
  decode_rune [0xF4; 0x90; 0x80; 0x80] 0 = ERR /\
  substring [97; 98; 99] 4 None = None /\ index_emitted false [97; 98; 99] 3 = None /\
  string_of_int64 4294967361 = [0xEF; 0xBF; 0xBD] /\
  is_bytes [0; 8; 10; 34; 92; 200] = true /\
  encode_string [0; 8; 10; 34; 92; 200] =
    [34; 92;120;48;48; 92;98; 92;110; 92;34; 92;92; 92;120;67;56; 34].
Proof.
  split; [|vm_compute; repeat split; reflexivity].
  exists [0x41; 0xE9; 0x20AC; 0x1F600]%Z. split; [|reflexivity].
  repeat constructor.
Qed.
