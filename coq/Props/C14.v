(* C14 — Strings are byte sequences with Go's UTF-8 behaviour.
   This file holds ONLY the property theorems (each closed by [exact lemma]), their
   Print Assumptions and non-vacuity examples.
   Model: Model/C14_Utf8.v (prelude.js $decodeRune/$encodeRune/$stringToRunes/$runesToString/
   $stringToBytes/$bytesToString/$copyString/$substring, the emitted range loop, s[i],
   string(int64)) and Model/C14_Literal.v (utils.go encodeString + the JS reading of its escapes).
   Specification: Unicode Table 3-6/3-7, no bit operations (spec_decode, spec_encode).
   Tie: harness/py/props/c14.py runs the real prelude in node, the real encodeString and compiled
   programs (vs native Go) and the model on the same inputs.

   Phase 4: len, +, the six comparisons, s[i], s[i:j], []byte/[]rune/string conversions, string(int64),
   map[string] access and the string switch are modelled AS EMITTED (Model/C14_Ops.v: a deep embedding of
   the emitted JavaScript templates with an evaluator over the helper models); the templates are
   regenerated from the compiler's real output on every run (Gen/C14_Templates.v) and proved equal to the
   hand-written T_* below by conversion (C14_templates_as_emitted). *)
From Coq Require Import List NArith ZArith Bool Arith.
From Verif Require Import Model.C14_Utf8 Model.C14_Literal.
From Verif Require Import Proofs.C14_Decode Proofs.C14_Encode Proofs.C14_Strings Proofs.C14_Literal.
From Verif Require Import Model.C14_Ops Gen.C14_Templates Proofs.C14_P4_Ops Proofs.C14_P4_Tie.
Import ListNotations.
Local Open Scope N_scope.

(* ---- decoder ------------------------------------------------------------------------- *)

(* For EVERY list of code units (bytes or not) and EVERY position (inside or past the end) the
   bit-twiddling decoder returns what the table-driven specification returns: the scalar value
   and length of a well-formed sequence, (U+FFFD, 1) for every truncated, overlong, surrogate,
   > U+10FFFF or otherwise ill-formed one. *)
Theorem C14_decode_eq_spec : forall s pos, decode_rune s pos = spec_decode (skipn pos s).
Proof. exact decode_eq_spec. Qed.
Print Assumptions C14_decode_eq_spec.

(* Inside the string the result is always a Unicode scalar value, the width stays inside the
   string, and unless it is the error result the bytes consumed are exactly the (unique, shortest)
   encoding of the rune. *)
Theorem C14_decode_rune_facts : forall s pos r w,
  (pos < length s)%nat -> decode_rune s pos = (r, w) ->
  (1 <= w <= 4)%nat /\ (pos + w <= length s)%nat /\ valid_scalar (Z.of_N r) = true /\
  ((r, w) = ERR \/ encode_rune (Z.of_N r) = firstn w (skipn pos s)).
Proof. exact decode_rune_facts. Qed.
Print Assumptions C14_decode_rune_facts.

(* ---- encoder ------------------------------------------------------------------------- *)

Theorem C14_encode_eq_spec : forall r : Z, encode_rune r = spec_string_of_rune r.
Proof. exact encode_eq_spec. Qed.
Print Assumptions C14_encode_eq_spec.

(* decode . encode = id for every valid scalar value, in every context *)
Theorem C14_decode_encode : forall pre r rest, valid_scalar r = true ->
  decode_rune (pre ++ encode_rune r ++ rest) (length pre) = (Z.to_N r, length (encode_rune r)).
Proof. exact decode_encode. Qed.
Print Assumptions C14_decode_encode.

(* negative, surrogate and > U+10FFFF code points give EF BF BD *)
Theorem C14_encode_invalid : forall r, valid_scalar r = false -> encode_rune r = [0xEF; 0xBF; 0xBD].
Proof. exact encode_invalid. Qed.
Print Assumptions C14_encode_invalid.

Theorem C14_encode_rune_bytes : forall r, is_bytes (encode_rune r) = true.
Proof. exact encode_rune_bytes. Qed.
Print Assumptions C14_encode_rune_bytes.

(* ---- range loop ---------------------------------------------------------------------- *)

(* the rune/width sequence of the specification: repeated decoding of the rest *)
Theorem C14_spec_runes_unfold : forall s, s <> [] ->
  spec_runes s = spec_decode s :: spec_runes (skipn (snd (spec_decode s)) s).
Proof. exact spec_runes_unfold. Qed.
Print Assumptions C14_spec_runes_unfold.

(* the emitted loop terminates (within the fuel = length) and visits exactly that sequence,
   each index being the sum of the widths before it ... *)
Theorem C14_range_loop_spec : forall s, range_loop s = with_offsets 0 (spec_runes s).
Proof. exact range_loop_spec. Qed.
Print Assumptions C14_range_loop_spec.

(* ... and the widths add up to the length: no byte skipped, none visited twice *)
Theorem C14_range_covers : forall s, sum_widths (spec_runes s) = length s.
Proof. exact range_covers. Qed.
Print Assumptions C14_range_covers.

(* ---- []rune <-> string ---------------------------------------------------------------- *)

Theorem C14_runes_of_encoded : forall rs, Forall (fun r => valid_scalar r = true) rs ->
  string_to_runes (runes_to_string rs 0 (length rs)) = map Z.to_N rs.
Proof. exact runes_of_encoded. Qed.
Print Assumptions C14_runes_of_encoded.

(* string([]rune(s)) = s on well-formed UTF-8 *)
Theorem C14_runes_roundtrip : forall s, valid_utf8 s -> back s = s.
Proof. exact runes_roundtrip. Qed.
Print Assumptions C14_runes_roundtrip.

(* well-formed (a concatenation of encodings of scalar values) = the decoder never reports an error *)
Theorem C14_valid_iff_no_error : forall s,
  valid_utf8 s <-> Forall (fun rw => rw <> ERR) (spec_runes s).
Proof. exact valid_iff_no_error. Qed.
Print Assumptions C14_valid_iff_no_error.

(* replacement law for arbitrary byte strings: string([]rune(s)) is well formed and has the runes of s *)
Theorem C14_back_valid : forall s, valid_utf8 (back s).
Proof. exact back_valid. Qed.
Print Assumptions C14_back_valid.

Theorem C14_runes_of_back : forall s, string_to_runes (back s) = string_to_runes s.
Proof. exact runes_of_back. Qed.
Print Assumptions C14_runes_of_back.

(* ---- []byte <-> string, copy ----------------------------------------------------------- *)

(* for every chunk size (the code uses 10000) the chunked conversion is the window of the array *)
Theorem C14_bytes_to_string_any_chunk : forall k arr off len, (0 < k)%nat ->
  bytes_to_string_k k arr off len = window arr off len.
Proof. exact bytes_to_string_k_spec. Qed.
Print Assumptions C14_bytes_to_string_any_chunk.

Theorem C14_bytes_roundtrip : forall b, is_bytes b = true ->
  string_to_bytes (bytes_to_string b 0 (length b)) = b.
Proof. exact bytes_roundtrip. Qed.
Print Assumptions C14_bytes_roundtrip.

Theorem C14_string_bytes_roundtrip : forall s, is_bytes s = true ->
  bytes_to_string (string_to_bytes s) 0 (length (string_to_bytes s)) = s.
Proof. exact string_bytes_roundtrip. Qed.
Print Assumptions C14_string_bytes_roundtrip.

Theorem C14_copy_string_spec : forall arr off len src,
  (off + len <= length arr)%nat -> is_bytes src = true ->
  let n := Nat.min (length src) len in
  fst (copy_string arr off len src) = n /\
  snd (copy_string arr off len src) = firstn off arr ++ firstn n src ++ skipn (off + n) arr /\
  length (snd (copy_string arr off len src)) = length arr.
Proof. exact copy_string_spec. Qed.
Print Assumptions C14_copy_string_spec.

(* ---- slicing ---------------------------------------------------------------------------- *)

(* s[lo:hi]: defined exactly when 0 <= lo <= hi <= len(s), and then the right bytes *)
Theorem C14_substring_three_arg : forall s lo hi, substring s lo (Some hi) = spec_slice s lo hi.
Proof. exact substring_three_arg. Qed.
Print Assumptions C14_substring_three_arg.

(* s[lo:] is s[lo:len(s)] for EVERY lo (a low bound beyond the length panics) *)
Theorem C14_substring_low_only : forall s lo,
  substring s lo None = spec_slice s lo (Z.of_nat (length s)).
Proof. exact substring_low_only. Qed.
Print Assumptions C14_substring_low_only.

(* ---- indexing --------------------------------------------------------------------------- *)

(* s[i] as emitted through rangeCheck: the byte when 0 <= i < len(s), the run-time panic otherwise —
   for every string and index; [c] = the index is a constant (then the type checker guarantees 0 <= i
   and only the upper bound is tested at run time) *)
Theorem C14_index_emitted_spec : forall c s i, (c = true -> 0 <= i)%Z ->
  index_emitted c s i = spec_index s i.
Proof. exact index_emitted_spec. Qed.
Print Assumptions C14_index_emitted_spec.

(* constant index into a constant string: range verified by the type checker, bare charCodeAt emitted *)
Theorem C14_index_unchecked_in_range : forall s i, (0 <= i < Z.of_nat (length s))%Z ->
  Some (index_unchecked s i) = spec_index s i.
Proof. exact index_unchecked_in_range. Qed.
Print Assumptions C14_index_unchecked_in_range.

(* ---- string(int64) ---------------------------------------------------------------------- *)

(* for EVERY integer x (in particular every int64/uint64): the encoding of x when it is a valid code
   point, EF BF BD otherwise *)
Theorem C14_string_of_int64_spec : forall x, string_of_int64 x = spec_string_of_rune x.
Proof. exact string_of_int64_spec. Qed.
Print Assumptions C14_string_of_int64_spec.

(* ---- string constants ------------------------------------------------------------------- *)

(* every byte string survives compilation: the emitted literal reads back as exactly the
   constant and ends exactly at its closing quote, whatever follows it *)
Theorem C14_literal_roundtrip : forall s tl, is_bytes s = true ->
  js_unescape (encode_string s ++ tl) = Some (s, tl).
Proof. exact literal_roundtrip_ctx. Qed.
Print Assumptions C14_literal_roundtrip.

(* the emitted text is printable ASCII ... *)
Theorem C14_encode_string_safe : forall s, is_bytes s = true ->
  forallb printable (encode_string s) = true.
Proof. exact encode_string_safe. Qed.
Print Assumptions C14_encode_string_safe.

(* ... hence never contains the source-map hint byte 0x08 (assumption of C19) ... *)
Theorem C14_encode_string_no_magic : forall s, is_bytes s = true ->
  forallb (fun x => negb (x =? 8)) (encode_string s) = true.
Proof. exact encode_string_no_magic. Qed.
Print Assumptions C14_encode_string_no_magic.

(* ... nor a raw line terminator *)
Theorem C14_encode_string_no_newline : forall s, is_bytes s = true ->
  forallb (fun x => negb ((x =? 10) || (x =? 13))) (encode_string s) = true.
Proof. exact encode_string_no_newline. Qed.
Print Assumptions C14_encode_string_no_newline.

(* ---- non-vacuity -------------------------------------------------------------------------- *)

(* a well-formed string with 1-, 2-, 3- and 4-byte sequences exists and round-trips; an ill-formed
   one (overlong C0 80, lone continuation, surrogate ED A0 80, F4 90 > U+10FFFF, truncated E2 82)
   decodes to U+FFFD per byte *)
Example C14_nonvacuous :
  valid_utf8 [0x41; 0xC3; 0xA9; 0xE2; 0x82; 0xAC; 0xF0; 0x9F; 0x98; 0x80] /\
  string_to_runes [0x41; 0xC3; 0xA9; 0xE2; 0x82; 0xAC; 0xF0; 0x9F; 0x98; 0x80] = [0x41; 0xE9; 0x20AC; 0x1F600] /\
  range_loop [0xC0; 0x80; 0xED; 0xA0; 0x80; 0xE2; 0x82] =
    [(0%nat, 0xFFFD, 1%nat); (1%nat, 0xFFFD, 1%nat); (2%nat, 0xFFFD, 1%nat); (3%nat, 0xFFFD, 1%nat); (4%nat, 0xFFFD, 1%nat); (5%nat, 0xFFFD, 1%nat); (6%nat, 0xFFFD, 1%nat)] /\
  decode_rune [0xF4; 0x90; 0x80; 0x80] 0 = ERR /\
  substring [97; 98; 99] 4 None = None /\ index_emitted false [97; 98; 99] 3 = None /\
  string_of_int64 4294967361 = [0xEF; 0xBF; 0xBD] /\
  is_bytes [0; 8; 10; 34; 92; 200] = true /\
  encode_string [0; 8; 10; 34; 92; 200] =
    [34; 92;120;48;48; 92;98; 92;110; 92;34; 92;92; 92;120;67;56; 34].
Proof.
  split; [|vm_compute; repeat split; reflexivity].
  exists [0x41; 0xE9; 0x20AC; 0x1F600]%Z. split; [|reflexivity].
  repeat constructor.
Qed.

(* ============================================================================================
   Phase 4 — the string operators as the compiler emits them
   ============================================================================================ *)

(* ---- tie: what the compiler / prelude of the tree under test emit today ------------------- *)

(* every template regenerated from the real compiler's output of the table program equals the hand-written
   template the theorems below are about (also for named string / byte-slice types) *)
Theorem C14_templates_as_emitted :
  t_Add = T_Add /\ t_Eql = T_Eql /\ t_Neq = T_Neq /\ t_Lss = T_Lss /\ t_Leq = T_Leq /\ t_Gtr = T_Gtr /\ t_Geq = T_Geq /\
  t_Len = T_Len /\ t_Idx = T_Idx /\ t_Sl2 = T_Sl2 /\ t_SlLo = T_SlLo /\ t_SlHi = T_SlHi /\
  t_ToBytes = T_ToBytes /\ t_FromBytes = T_FromBytes /\ t_ToRunes = T_ToRunes /\ t_FromRunes = T_FromRunes /\
  t_FromRune = T_FromRune /\ t_FromI64 = T_FromI64 /\ t_MapGet = T_MapGet /\
  t_MyAdd = T_Add /\ t_MyLss = T_Lss /\ t_MyEql = T_Eql /\ t_MyLen = T_Len /\ t_MyToBytes = T_ToBytes /\ t_MyFromBytes = T_FromBytes.
Proof. exact templates_as_emitted. Qed.
Print Assumptions C14_templates_as_emitted.

Theorem C14_key_prefix_as_in_prelude : forall s, STRING_KEY_PREFIX ++ s = key_for s.
Proof. exact key_prefix_as_in_prelude. Qed.
Print Assumptions C14_key_prefix_as_in_prelude.

Theorem C14_chunk_as_in_prelude : B2S_CHUNK = 10000 /\ N.to_nat B2S_CHUNK = CHUNK.
Proof. exact chunk_as_in_prelude. Qed.
Print Assumptions C14_chunk_as_in_prelude.

Theorem C14_switch_as_emitted : SWITCH_EMITTED = SWITCH_SOURCE.
Proof. exact switch_as_emitted. Qed.
Print Assumptions C14_switch_as_emitted.

(* ---- len, + ---------------------------------------------------------------------------------- *)

(* len(s) = x.length = the number of bytes, for every string *)
Theorem C14_len_spec : forall s, run T_Len [VStr s] = Ok (VNum (Z.of_nat (length s))).
Proof. exact len_spec. Qed.
Print Assumptions C14_len_spec.

(* a + b is the byte concatenation, len(a + b) = len(a) + len(b), and the result is again a Go string *)
Theorem C14_concat_spec : forall a b,
  run T_Add [VStr a; VStr b] = Ok (VStr (a ++ b)) /\
  run T_Len [VStr (a ++ b)] = Ok (VNum (Z.of_nat (length a) + Z.of_nat (length b))) /\
  (is_bytes a = true -> is_bytes b = true -> is_bytes (a ++ b) = true).
Proof. exact concat_spec. Qed.
Print Assumptions C14_concat_spec.

Theorem C14_concat_assoc_unit : forall a b c,
  run T_Add [VStr (a ++ b); VStr c] = run T_Add [VStr a; VStr (b ++ c)] /\
  run T_Add [VStr []; VStr a] = Ok (VStr a) /\ run T_Add [VStr a; VStr []] = Ok (VStr a).
Proof. exact concat_assoc_unit. Qed.
Print Assumptions C14_concat_assoc_unit.

(* ---- comparison ------------------------------------------------------------------------------ *)

(* ECMAScript's IsLessThan on two strings (prefix tests, then the first differing code unit) is Go's
   lexical byte-wise order, for EVERY pair of code-unit lists *)
Theorem C14_js_compare_is_lexicographic : forall a b, js_str_lt a b = true <-> bytes_lt a b.
Proof. exact js_str_lt_iff. Qed.
Print Assumptions C14_js_compare_is_lexicographic.

(* all six operators as emitted (=== , !(===), <, <=, >, >=) against the Go meaning, and each always
   evaluates to a boolean *)
Theorem C14_compare_iff_bytes_compare : forall a b,
  (holds T_Eql a b <-> a = b) /\ (holds T_Neq a b <-> a <> b) /\
  (holds T_Lss a b <-> bytes_lt a b) /\ (holds T_Leq a b <-> bytes_lt a b \/ a = b) /\
  (holds T_Gtr a b <-> bytes_lt b a) /\ (holds T_Geq a b <-> bytes_lt b a \/ b = a) /\
  (forall t, In t [T_Eql; T_Neq; T_Lss; T_Leq; T_Gtr; T_Geq] -> holds t a b \/ fails t a b).
Proof. exact compare_iff_bytes_compare. Qed.
Print Assumptions C14_compare_iff_bytes_compare.

(* the order is a strict total order on byte strings *)
Theorem C14_bytes_lt_strict_total_order :
  (forall a, ~ bytes_lt a a) /\ (forall a b c, bytes_lt a b -> bytes_lt b c -> bytes_lt a c) /\
  (forall a b, bytes_lt a b \/ a = b \/ bytes_lt b a) /\ (forall a b, bytes_lt a b -> ~ bytes_lt b a).
Proof. exact bytes_lt_strict_total_order. Qed.
Print Assumptions C14_bytes_lt_strict_total_order.

(* ---- indexing and slicing through the emitted templates --------------------------------------- *)

Theorem C14_index_template_spec : forall s i, run T_Idx [VStr s; VNum i] = idx_res (spec_index s i).
Proof. exact idx_spec. Qed.
Print Assumptions C14_index_template_spec.

Theorem C14_index_of_concat : forall a b i, (0 <= i)%Z ->
  run T_Idx [VStr (a ++ b); VNum i] =
  if (i <? Z.of_nat (length a))%Z then run T_Idx [VStr a; VNum i] else run T_Idx [VStr b; VNum (i - Z.of_nat (length a))].
Proof. exact idx_of_concat. Qed.
Print Assumptions C14_index_of_concat.

Theorem C14_slice_template_spec : forall s lo hi, run T_Sl2 [VStr s; VNum lo; VNum hi] = sub_res (spec_slice s lo hi).
Proof. exact sl2_spec. Qed.
Print Assumptions C14_slice_template_spec.

Theorem C14_slice_low_template_spec : forall s lo, run T_SlLo [VStr s; VNum lo] = sub_res (spec_slice s lo (Z.of_nat (length s))).
Proof. exact sllo_spec. Qed.
Print Assumptions C14_slice_low_template_spec.

Theorem C14_slice_high_template_spec : forall s hi, run T_SlHi [VStr s; VNum hi] = sub_res (spec_slice s 0 hi).
Proof. exact slhi_spec. Qed.
Print Assumptions C14_slice_high_template_spec.

(* (a + b)[:len(a)] = a, (a + b)[len(a):] = b, (a + b)[0:len(a)] = a *)
Theorem C14_slice_of_concat : forall a b,
  run T_SlHi [VStr (a ++ b); VNum (Z.of_nat (length a))] = Ok (VStr a) /\
  run T_SlLo [VStr (a ++ b); VNum (Z.of_nat (length a))] = Ok (VStr b) /\
  run T_Sl2 [VStr (a ++ b); VNum 0; VNum (Z.of_nat (length a))] = Ok (VStr a).
Proof. exact slice_of_concat. Qed.
Print Assumptions C14_slice_of_concat.

(* s[:i] + s[i:j] + s[j:] = s with the right lengths, for every 0 <= i <= j <= len(s) *)
Theorem C14_concat_of_slices : forall s i j, (0 <= i <= j)%Z -> (j <= Z.of_nat (length s))%Z ->
  exists p m q,
    run T_SlHi [VStr s; VNum i] = Ok (VStr p) /\ run T_Sl2 [VStr s; VNum i; VNum j] = Ok (VStr m) /\
    run T_SlLo [VStr s; VNum j] = Ok (VStr q) /\
    p ++ m ++ q = s /\ Z.of_nat (length p) = i /\ Z.of_nat (length m) = (j - i)%Z.
Proof. exact concat_of_slices. Qed.
Print Assumptions C14_concat_of_slices.

Theorem C14_slice_left_of_concat : forall a b lo hi, (0 <= lo <= hi)%Z -> (hi <= Z.of_nat (length a))%Z ->
  run T_Sl2 [VStr (a ++ b); VNum lo; VNum hi] = run T_Sl2 [VStr a; VNum lo; VNum hi].
Proof. exact slice_left_of_concat. Qed.
Print Assumptions C14_slice_left_of_concat.

(* ---- conversions through the emitted templates -------------------------------------------------- *)

(* string(b) for EVERY byte slice (any backing array, offset, length, capacity; any number of 10000-element
   chunks) is exactly b's window, is a Go string of length len(b), and []byte of it is a fresh slice with
   offset 0 and length = capacity = len(b) holding those bytes *)
Theorem C14_bytes_conv_roundtrip : forall arr off len cap, is_bytes arr = true -> (off + len <= length arr)%nat ->
  run T_FromBytes [VBytes arr off len cap] = Ok (VStr (window arr off len)) /\
  is_bytes (window arr off len) = true /\
  run T_Len [VStr (window arr off len)] = Ok (VNum (Z.of_nat len)) /\
  run T_ToBytes [VStr (window arr off len)] = Ok (VBytes (window arr off len) 0 len len).
Proof. exact bytes_conv_roundtrip. Qed.
Print Assumptions C14_bytes_conv_roundtrip.

Theorem C14_string_conv_roundtrip : forall s, is_bytes s = true ->
  run T_ToBytes [VStr s] = Ok (VBytes s 0 (length s) (length s)) /\
  run T_FromBytes [VBytes s 0 (length s) (length s)] = Ok (VStr s).
Proof. exact string_conv_roundtrip. Qed.
Print Assumptions C14_string_conv_roundtrip.

Theorem C14_bytes_to_string_chunk_indep : forall k arr off len, (0 < k)%nat ->
  bytes_to_string_k k arr off len = bytes_to_string arr off len.
Proof. exact bytes_to_string_chunk_indep. Qed.
Print Assumptions C14_bytes_to_string_chunk_indep.

Theorem C14_runes_templates : forall s rs off len cap r hi lo,
  run T_ToRunes [VStr s] =
    Ok (VRunes (map Z.of_N (string_to_runes s)) 0 (length (string_to_runes s)) (length (string_to_runes s))) /\
  run T_FromRunes [VRunes rs off len cap] = Ok (VStr (runes_to_string rs off len)) /\
  run T_FromRune [VNum r] = Ok (VStr (spec_string_of_rune r)) /\
  run T_FromI64 [VI64 hi lo] = Ok (VStr (encode_rune (if (hi =? 0)%Z then lo else (-1)%Z))).
Proof. exact runes_templates. Qed.
Print Assumptions C14_runes_templates.

(* string(x) for EVERY integer x given as the (high, low) pair of the 64-bit representation *)
Theorem C14_string_of_int64_template : forall x,
  run T_FromI64 [VI64 (x / 4294967296) (x mod 4294967296)] = Ok (VStr (spec_string_of_rune x)).
Proof. exact from_i64_spec. Qed.
Print Assumptions C14_string_of_int64_template.

(* every string-producing template gives a well-formed representation (all code units < 256) again *)
Theorem C14_results_wellformed :
  (forall a b, is_bytes a = true -> is_bytes b = true -> exists r, run T_Add [VStr a; VStr b] = Ok (VStr r) /\ is_bytes r = true) /\
  (forall s lo hi r, is_bytes s = true -> run T_Sl2 [VStr s; VNum lo; VNum hi] = Ok (VStr r) -> is_bytes r = true) /\
  (forall s lo r, is_bytes s = true -> run T_SlLo [VStr s; VNum lo] = Ok (VStr r) -> is_bytes r = true) /\
  (forall s hi r, is_bytes s = true -> run T_SlHi [VStr s; VNum hi] = Ok (VStr r) -> is_bytes r = true) /\
  (forall arr off len cap, is_bytes arr = true -> exists r, run T_FromBytes [VBytes arr off len cap] = Ok (VStr r) /\ is_bytes r = true) /\
  (forall rs off len cap, exists r, run T_FromRunes [VRunes rs off len cap] = Ok (VStr r) /\ is_bytes r = true) /\
  (forall x, exists r, run T_FromRune [VNum x] = Ok (VStr r) /\ is_bytes r = true) /\
  (forall hi lo, exists r, run T_FromI64 [VI64 hi lo] = Ok (VStr r) /\ is_bytes r = true) /\
  (forall s, exists arr n, run T_ToBytes [VStr s] = Ok (VBytes arr 0 n n) /\ is_bytes arr = true /\ n = length s /\ length arr = n) /\
  (forall s, is_bytes s = true -> is_bytes (key_for s) = true).
Proof. exact results_wellformed. Qed.
Print Assumptions C14_results_wellformed.

(* ---- map keys and switch ------------------------------------------------------------------------- *)

Theorem C14_key_injective : forall a b, key_for a = key_for b -> a = b.
Proof. exact key_injective. Qed.
Print Assumptions C14_key_injective.

(* after m[k] = v, m[k'] is (v, true) exactly when k' has the bytes of k, and is unchanged otherwise *)
Theorem C14_map_get_set : forall m k v k',
  go_map_get2 (go_map_set m k v) k' = if units_eqb k k' then (v, true) else go_map_get2 m k'.
Proof. exact go_map_get_set. Qed.
Print Assumptions C14_map_get_set.

Theorem C14_units_eqb_eq : forall a b, units_eqb a b = true <-> a = b.
Proof. exact units_eqb_eq. Qed.
Print Assumptions C14_units_eqb_eq.

(* the emitted m[k] expression reads the same value *)
Theorem C14_map_get_template : forall m k, run T_MapGet [VMap m; VStr k] = Ok (VNum (fst (go_map_get2 m k))).
Proof. exact map_get_template. Qed.
Print Assumptions C14_map_get_template.

(* the emitted if / else-if chain enters the FIRST clause that lists the tag's bytes ... *)
Theorem C14_switch_first_match : forall tag cls i j, switch_emitted tag cls i = Some j ->
  exists n cl, j = (i + n)%nat /\ nth_error cls n = Some cl /\ In tag cl /\
               forall n' cl', (n' < n)%nat -> nth_error cls n' = Some cl' -> ~ In tag cl'.
Proof. exact switch_some. Qed.
Print Assumptions C14_switch_first_match.

(* ... and falls through to the default only when no clause lists them *)
Theorem C14_switch_no_match : forall tag cls i, switch_emitted tag cls i = None -> forall cl, In cl cls -> ~ In tag cl.
Proof. exact switch_none. Qed.
Print Assumptions C14_switch_no_match.

(* non-vacuity: invalid UTF-8, NUL and '$' in operands; a prefix is smaller; FF sorts after every ASCII byte
   (UTF-16 code-unit order = byte order); the key of "$a" differs from the key of "a" *)
Example C14_p4_nonvacuous :
  holds T_Lss [0x61] [0x61; 0] /\ holds T_Lss [0x7A; 0x7A] [0xFF] /\ fails T_Lss [0xC3; 0xA9] [0xC3; 0xA9] /\
  holds T_Geq [0xFF] [0xC3; 0xA9] /\ holds T_Neq [0x24; 0x61] [0x61] /\
  run T_Idx [VStr [0x61; 0xFF]; VNum 2] = Panic MSG_INDEX /\ run T_Idx [VStr [0x61; 0xFF]; VNum 1] = Ok (VNum 255) /\
  run T_Sl2 [VStr [0x61; 0xFF; 0x62]; VNum 1; VNum 4] = Panic MSG_SLICE /\
  run T_FromBytes [VBytes [1; 2; 3; 4; 5] 1 3 4] = Ok (VStr [2; 3; 4]) /\
  go_map_get2 (go_map_set (go_map_set [] [0x61] 1) [0x24; 0x61] 2) [0x61] = (1%Z, true) /\
  switch_emitted [0x62; 0xFF] SWITCH_EMITTED 0 = Some 1%nat /\ switch_emitted [0x7A] SWITCH_EMITTED 0 = None.
Proof. vm_compute. repeat split; reflexivity. Qed.
