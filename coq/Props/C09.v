(* C09 - Dynamic types: identity, assertions, method sets, interface equality - theorems about the CURRENT code.
   ONLY property theorems (each closed by [exact lemma]) + Print Assumptions.  Model: Model/C09_Types.v
   (types.js / prelude.js; one boolean per defect class, [flags_current] = the tree as it is now: struct key with
   embedded bit / package / escaped tag, memo tables and `seen` keyed by type id, same-depth ambiguity excluded;
   four recorded $methodSet classes still present); lemmas: Proofs/C09_Types.v; tie: harness/py/props/c09.py (probes
   the real run-time with one witness per class on every run and compares with the variant it finds).

   FULL STATEMENTS (kept visible; what is proved below is weaker where the name says _partial): *)
From Coq Require Import List NArith Bool String.
From Verif Require Import Model.C09_Types Corr.C09_Eval Proofs.C09_Types.
From Verif Require Import Model.C09_P4_Wf Proofs.C09_P4_Strings Proofs.C09_P4_Keys Proofs.C09_P4_Canon Proofs.C09_P4_Ident.
Import ListNotations.
Local Open Scope N_scope.

(* for every environment and every sequence of canonicalisations, two types get the same run-time object iff identical *)
Definition C09_canon_full_statement : Prop :=
  forall env (ts : list ty) i j, let ids := fst (canon_list flags_current ts (load_env flags_current env)) in
    (i < List.length ts)%nat -> (j < List.length ts)%nat ->
    (nth i ids 0 = nth j ids 0 <-> identical (nth i ts (T (LBasic 0) [])) (nth j ts (T (LBasic 0) [])) = true).
(* for every family outside the four recorded classes, $methodSet / $assertType / $interfaceIsEqual answer every probe
   script as Go does *)
Definition C09_family_full_statement : Prop :=
  forall f : family, fam_clean f = true -> diff_from 0 (run_impl flags_current f) (run_spec f) = [].

(* ---- $assertType: the memo tables are state.  For EVERY type store and EVERY history of earlier assertions the
   answer is the memo-free answer (the tables are keyed by the type id, which identifies the dynamic type). *)
Theorem C09_assert_any_history : forall s hist c t,
  fst (assert_impl flags_current s c t (run_hist flags_current s hist memo0)) = pure_assert flags_current s c t.
Proof. exact assert_history_current. Qed.
Print Assumptions C09_assert_any_history.

(* the general form: any memo key that is injective on run-time types is sound (this is what failed when the key
   was the type string) *)
Theorem C09_assert_any_history_injective_key : forall fl s,
  (forall c c', tkey fl s c = tkey fl s c' -> c = c') ->
  forall hist c t, fst (assert_impl fl s c t (run_hist fl s hist memo0)) = pure_assert fl s c t.
Proof. exact assert_history. Qed.
Print Assumptions C09_assert_any_history_injective_key.

(* ---- identity.  PARTIAL (bounded): over the complete finite domain [dom] (two declarations that PRINT ALIKE, every
   type of constructor depth 1 over 4 leaves - pointers, slices, arrays, channels x3, maps, functions, structs over names
   x embedded x tags incl. a '$' tag forged to imitate a two-field key x both packages, interfaces with exported and
   per-package unexported methods - plus a depth-2 layer incl. variadic functions; > 500 types), canonicalised in one
   state, in the given and in the reverse order: same run-time object iff identical.  Missing for the full statement:
   the induction over arbitrary type terms / sequences (hash-consing invariant + injectivity of the typeKey strings). *)
Theorem C09_canon_iff_identical_bounded_partial :
  forall x y, let z := zip (fst (canon_list flags_current dom (load_env flags_current dom_env))) dom in
  In x z -> In y z -> (fst x = fst y <-> identical (snd x) (snd y) = true).
Proof. exact (forallb_zip_lift flags_current dom_env dom (proj1 canon_agree_current)). Qed.
Print Assumptions C09_canon_iff_identical_bounded_partial.
Theorem C09_canon_iff_identical_reverse_order_bounded_partial :
  forall x y, let z := zip (fst (canon_list flags_current (rev dom) (load_env flags_current dom_env))) (rev dom) in
  In x z -> In y z -> (fst x = fst y <-> identical (snd x) (snd y) = true).
Proof. exact (forallb_zip_lift flags_current dom_env (rev dom) (proj2 canon_agree_current)). Qed.

(* ---- identity, UNBOUNDED (phase 4).  For EVERY environment of declarations and EVERY sequence of type terms of ANY
   depth that are well-formed ([wfb], Model/C09_P4_Wf.v: constructor arities, indices in range, identifiers and package
   paths without , $ \ , exported = ASCII upper-case initial, struct package "" iff no unexported field, no chan that is
   both send-only and receive-only; TAGS ARBITRARY), canonicalised one after the other in one state by the model of
   $ptrType/$sliceType/$arrayType/$chanType/$mapType/$funcType/$structType/$interfaceType after $newType/init of all
   declarations: two of them get the same run-time object iff they are identical by Go's rules.  By structural
   induction over type terms and over the sequence (hash-consing invariant [Inv] + injectivity of the typeKey strings). *)
Definition C09_canon_wf_full_statement : Prop :=
  forall env (ts : list ty) i j, forallb (wfb (N.of_nat (List.length env))) ts = true ->
    let ids := fst (canon_list flags_current ts (load_env flags_current env)) in
    (i < List.length ts)%nat -> (j < List.length ts)%nat ->
    (nth i ids 0 = nth j ids 0 <-> identical (nth i ts (T (LBasic 0) [])) (nth j ts (T (LBasic 0) [])) = true).
Theorem C09_canon_iff_identical : C09_canon_wf_full_statement.
Proof. exact canon_iff_identical_wf. Qed.
Print Assumptions C09_canon_iff_identical.

(* [C09_canon_full_statement] as first written (no well-formedness hypothesis) is false, but only for junk terms that
   no compiler output contains: a declaration index out of range falls back to object 0 (= bool) *)
Theorem C09_canon_full_statement_junk_refuted : ~ C09_canon_full_statement.
Proof. exact canon_full_junk_refuted. Qed.

(* the hash-consing invariant after any environment and any sequence (no well-formedness needed for [Inv]: cache
   entries point to fresh objects, never to a predeclared / declared type, no object has two keys), and every
   well-formed term's object REPRESENTS it (component-wise, through the caches) *)
Theorem C09_canon_hashcons_invariant : forall env ts ids s,
  canon_list flags_current ts (load_env flags_current env) = (ids, s) ->
  Inv s /\ (forallb (wfb (N.of_nat (List.length env))) ts = true -> Forall2 (rep s) ids ts).
Proof. exact canon_hashcons. Qed.
(* ... and it stays the representative after arbitrarily many later canonicalisations *)
Theorem C09_canon_stable_later : forall env ts1 ts2 ids1 s1 ids2 s2,
  forallb (wfb (N.of_nat (List.length env))) ts1 = true ->
  canon_list flags_current ts1 (load_env flags_current env) = (ids1, s1) ->
  canon_list flags_current ts2 s1 = (ids2, s2) -> Forall2 (rep s2) ids1 ts1.
Proof. exact canon_stable_later. Qed.

(* the typeKey strings (cache, key) are injective over well-formed labels and component ids - all eight constructors *)
Theorem C09_typekey_injective : forall nd l ids l' ids' ck,
  composite l = true -> composite l' = true ->
  lab_wf nd l (List.length ids) = true -> lab_wf nd l' (List.length ids') = true ->
  key_of l ids = Some ck -> key_of l' ids' = Some ck -> l = l' /\ ids = ids'.
Proof. exact key_inj. Qed.
Print Assumptions C09_typekey_injective.
(* the tag escaping s.replace(/\\/g,"\\\\").replace(/\$/g,"\\$") is prefix-free w.r.t. the separator: an escaped string followed by
   end-of-key or by the separator determines the string and the rest *)
Theorem C09_tag_escape_prefix_free : forall x, x <> c_bslash -> forall a b r r',
  tail_ok x r -> tail_ok x r' -> escape x a ++ r = escape x b ++ r' -> a = b /\ r = r'.
Proof. exact esc_tok_inj. Qed.
(* one representative per Go type in ANY state satisfying the invariant *)
Theorem C09_representative_unique : forall s, Inv s -> forall t u i j,
  wfb (nd_of s) t = true -> wfb (nd_of s) u = true -> rep s i t -> rep s j u -> (i = j <-> identical t u = true).
Proof. exact rep_unique. Qed.

(* ---- method sets and assertions.  PARTIAL (bounded): over ALL 19683 families of four struct types (every embedding
   by value / by pointer of earlier types, every value/pointer-receiver placement of M on T0..T2, optional field M),
   every family outside the four recorded classes ([fam_clean]: 8725 of them) gets Go's method sets (names and owners)
   for T2,*T2,T3,*T3 and Go's answers for their assertion to interface{M()}.  Missing for the full statement: induction
   over arbitrary embedding graphs (BFS with `seen` vs shallowest-unique-depth). *)
Theorem C09_method_set_impl_eq_spec_bounded_partial :
  forall f, In f mset_fams -> fam_clean f = true -> diff_from 0 (run_impl flags_current f) (run_spec f) = [].
Proof. exact mset_fams_current_lift. Qed.
Print Assumptions C09_method_set_impl_eq_spec_bounded_partial.

(* the four recorded classes: each witness is outside [fam_clean] and refutes the unrestricted statement; the
   witnesses of the classes repaired in the tree now agree with Go *)
Theorem C09_method_set_recorded_classes_refuted :
  map (differs flags_current) [wit_field; wit_mpkg; wit_pshadow; wit_diamond] = [true; true; true; true] /\
  map fam_clean [wit_field; wit_mpkg; wit_pshadow; wit_diamond] = [false; false; false; false] /\
  map (differs flags_current) [wit_emb; wit_pkg; wit_tag; wit_memo; wit_ambig; wit_ifdup] = [false; false; false; false; false; false].
Proof. exact remaining_classes_refuted. Qed.
Print Assumptions C09_method_set_recorded_classes_refuted.

(* were the four classes repaired as modelled ([flags_fixed]), every one of the 19683 families would agree *)
Theorem C09_method_set_repaired_design_bounded_partial :
  forall f, In f mset_fams -> diff_from 0 (run_impl flags_fixed f) (run_spec f) = [].
Proof. exact mset_fams_lift. Qed.

(* ---- interface equality: the dynamic type decides first (different types: false, never a panic);
   same uncomparable type: panic (None) *)
Theorem C09_iface_eq_type_first_partial : forall s c c' a b, c <> c' -> iface_eq_impl s (VIface c a) (VIface c' b) = Some false.
Proof. exact iface_eq_types_differ. Qed.
Theorem C09_iface_eq_uncomparable_panics : forall s c a b, r_comparable (get s c) = false -> iface_eq_impl s (VIface c a) (VIface c b) = None.
Proof. exact iface_eq_uncomparable. Qed.
Print Assumptions C09_iface_eq_uncomparable_panics.

(* Non-vacuity *)
Example C09_nonvacuous :
  (500 <=? N.of_nat (List.length dom)) = true /\ N.of_nat (List.length mset_fams) = 19683 /\
  N.of_nat (List.length (filter fam_clean mset_fams)) = 8725.
Proof. split; [exact dom_size|]. split; [exact mset_fams_size|exact clean_count]. Qed.
(* the well-formedness hypothesis admits deep terms with hostile tags (forged separators, backslashes) *)
Example C09_wf_nonvacuous : forallb (wfb 2) p4_nasty = true.
Proof. exact p4_nasty_wf. Qed.
