(* C10 — Packages are linked and initialised in Go order; linknames resolve.
   This file holds ONLY the property theorems (each closed by [exact lemma]), their
   Print Assumptions and non-vacuity examples.
   Models: Model/C10_Order.v (ImportDependencies, Sources.Sort, importDecls order, the
   $init recursion and its flattened resumable form), Model/C10_Linkname.v (linkname.go).
   Tie: harness/py/props/c10.py runs the real code and the models on the same inputs. *)
From Coq Require Import List NArith Arith Bool Permutation Sorted String.
From Verif Require Import Model.C10_Order Model.C10_Linkname
  Proofs.C10_Order Proofs.C10_Deps Proofs.C10_Init Proofs.C10_Linkname Corr.C10_Eval.
Import ListNotations.

(* ---- link order ------------------------------------------------------------- *)

(* For EVERY closed acyclic import graph (any rank function witnessing acyclicity), any
   root and any order of the import lists: ImportDependencies succeeds with the fuel
   "number of packages", lists every package reachable from runtime or the root's imports
   exactly once and nothing else, every package after all its imports, the root last. *)
Theorem C10_import_deps_topological : forall g rank root root_imports,
  closed g -> ranked g rank ->
  (forall q, In q (RUNTIME :: root_imports) -> exists imps, lookup g q = Some imps) ->
  lookup g root = None ->
  exists l, import_deps g root root_imports = Some (l ++ [root]) /\
    NoDup (l ++ [root]) /\
    (forall x, In x l <-> exists q, In q (RUNTIME :: root_imports) /\ reach g q x) /\
    (forall p q, In p l -> edge g p q -> before q p (l ++ [root])) /\
    (forall q, In q root_imports -> before q root (l ++ [root])).
Proof. exact import_deps_topological. Qed.
Print Assumptions C10_import_deps_topological.

(* ---- run-time initialisation ------------------------------------------------- *)

(* For EVERY program whose import graph (imports sorted by path, as importDecls emits them)
   is closed and acyclic and in which nobody imports the main package: the run-time $init
   recursion ends, and its trace is exactly the concatenation of the packages' own
   initialisation sequences [own] along a list that contains every reachable package exactly
   once (NoDup inside [topo]), every package after all its imports, the main package last. *)
Theorem C10_run_init_once_and_ordered : forall prog main rank,
  ranked (pkg_graph prog) rank -> closed (pkg_graph prog) ->
  (exists i, lookup (pkg_graph prog) RUNTIME = Some i) ->
  (exists i, lookup (pkg_graph prog) main = Some i) ->
  (forall p, ~ edge (pkg_graph prog) p main) -> main <> RUNTIME ->
  exists l, run_program prog main = Some (evs prog main l ++ own prog main main) /\
    topo (pkg_graph prog) (l ++ [main]) /\
    (forall x, In x (l ++ [main]) <-> reach (pkg_graph prog) RUNTIME x \/ reach (pkg_graph prog) main x).
Proof. exact run_program_main_last. Qed.
Print Assumptions C10_run_init_once_and_ordered.

(* the same without the assumption on main: every package's sequence comes after the
   sequences of the packages it imports *)
Theorem C10_init_after_imports : forall prog main rank,
  closed (pkg_graph prog) -> ranked (pkg_graph prog) rank ->
  (exists i, lookup (pkg_graph prog) RUNTIME = Some i) ->
  (exists i, lookup (pkg_graph prog) main = Some i) ->
  exists order, run_program prog main = Some (evs prog main order) /\ NoDup order /\
    forall p q, In p order -> edge (pkg_graph prog) p q ->
      exists t1 t2 t3, evs prog main order = t1 ++ own prog main q ++ t2 ++ own prog main p ++ t3.
Proof. exact init_after_imports. Qed.
Print Assumptions C10_init_after_imports.

Theorem C10_main_main_last : forall prog main rank pk,
  closed (pkg_graph prog) -> ranked (pkg_graph prog) rank ->
  (exists i, lookup (pkg_graph prog) RUNTIME = Some i) ->
  lookup (pkg_table prog) main = Some pk -> pk_is_main pk = true ->
  (forall p, ~ edge (pkg_graph prog) p main) -> main <> RUNTIME ->
  exists t, run_program prog main = Some (t ++ [EMain main]).
Proof. exact main_main_last. Qed.
Print Assumptions C10_main_main_last.

(* Within a package: zero values, then the variables in the order go/types' InitOrder gives
   (an INPUT of the model — that InitOrder respects the dependencies between initialisers is
   go/types' contract and is not proved here, hence _partial), then the init functions in
   source order, the files taken in the order of Sources.Sort, then main.main. *)
Theorem C10_package_sequence_partial : forall main pk,
  own_events main pk =
    map (EZero (pk_path pk)) (pk_zero pk) ++
    flat_map (item_events (pk_path pk)) (map (fun xb => (IVar (fst xb), snd xb)) (pk_initorder pk)) ++
    flat_map (item_events (pk_path pk))
      (flat_map (fun f => map (fun kb => (IFn (fst f) (fst kb), snd kb)) (snd f)) (sort_files (pk_files pk))) ++
    main_events main pk.
Proof. exact package_sequence. Qed.
Print Assumptions C10_package_sequence_partial.

(* NOT proved: the flattened, resumable $init ([run_machine]: frames with a saved $s,
   suspension inside a blocking initialiser, re-entry from the outermost frame) yields the
   same trace as the direct recursion.  It is checked by evaluation on every generated
   program (Corr/C10_Eval.case_ok) and on the example below. *)
Definition C10_init_not_overtaken_full_statement : Prop :=
  forall prog main rank, ranked (pkg_graph prog) rank -> closed (pkg_graph prog) ->
    run_machine prog main = run_program prog main.

(* ---- file order -------------------------------------------------------------- *)

(* the order in which a package's files are processed depends only on their names *)
Theorem C10_file_order_depends_only_on_names : forall B (fs fs' : list (str * B)),
  Permutation fs fs' -> NoDup (map fst fs) -> sort_files fs = sort_files fs'.
Proof. exact file_order_depends_only_on_names. Qed.
Print Assumptions C10_file_order_depends_only_on_names.

Theorem C10_sorted_file_names : forall B (fs : list (str * B)),
  map fst (sort_files fs) = sort_by (fun a c => str_ltb c a) (map fst fs).
Proof. exact sorted_file_names. Qed.
Print Assumptions C10_sorted_file_names.

Theorem C10_import_order_depends_only_on_names : forall l l',
  Permutation l l' -> NoDup l -> sort_paths l = sort_paths l'.
Proof. exact import_order_depends_only_on_names. Qed.
Print Assumptions C10_import_order_depends_only_on_names.

(* ---- go:linkname directives --------------------------------------------------- *)

(* "//go:linkname" <ws> local <ws> dir base "." name <ws>: the target is split at the first
   dot after the last slash, for all ASCII strings of that shape (name may itself contain
   dots and parentheses: T.M, ( *T).M) *)
Theorem C10_parse_linkname_spec : forall pkg ws0 local ws1 dir base name ws2,
  allspace ws0 -> allspace ws1 -> ws1 <> [] -> allspace ws2 ->
  nospace local -> local <> [] ->
  nospace dir -> nospace base -> nospace name ->
  (dir = [] \/ exists d, dir = d ++ [SLASH]) ->
  index_byte SLASH base = None -> index_byte DOT base = None -> index_byte SLASH name = None ->
  local <> dir ++ base ++ DOT :: name ->
  read_linkname pkg (PREFIX ++ ws0 ++ local ++ ws1 ++ (dir ++ base ++ DOT :: name) ++ ws2)
  = PLink {| l_ref := (pkg, local); l_impl := (dir ++ base, name) |}.
Proof. exact parse_linkname_spec. Qed.
Print Assumptions C10_parse_linkname_spec.

Theorem C10_read_linkname_shapes : forall pkg text,
  has_prefix PREFIX text = true ->
  match fields text with
  | [_; _] => read_linkname pkg text = PNone
  | [_; l; e] => if str_eqb l e then read_linkname pkg text = PNone
                 else exists impl, read_linkname pkg text = PLink {| l_ref := (pkg, l); l_impl := impl |}
  | _ => read_linkname pkg text = PErr
  end.
Proof. exact read_linkname_shapes. Qed.
Print Assumptions C10_read_linkname_shapes.

(* unsupported uses are errors (tables of mitigated names: Gen/C10_Tables.v, regenerated) *)
Theorem C10_unsupported_uses_rejected : forall pkg decls text l,
  read_linkname pkg text = PLink l ->
  process_comment pkg false decls text = VError ENoUnsafe /\
  (lookup_node decls (snd (l_ref l)) = None -> process_comment pkg true decls text = VError ENotFound) /\
  (lookup_node decls (snd (l_ref l)) = Some NodeOther -> mitigated_var (l_ref l) = false ->
     process_comment pkg true decls text = VError ENotFunc) /\
  (lookup_node decls (snd (l_ref l)) = Some (NodeFunc true) -> mitigated_insert (l_ref l) = false ->
     process_comment pkg true decls text = VError EInsert).
Proof. exact unsupported_uses_rejected. Qed.
Print Assumptions C10_unsupported_uses_rejected.

Theorem C10_accepted_only_if_supported : forall pkg u decls text l,
  process_comment pkg u decls text = VLink l ->
  u = true /\ read_linkname pkg text = PLink l /\ lookup_node decls (snd (l_ref l)) = Some (NodeFunc false).
Proof. exact accepted_only_if_supported. Qed.
Print Assumptions C10_accepted_only_if_supported.

(* ---- resolution --------------------------------------------------------------- *)

(* Full statement (holds for the current code, fix cecde06): for EVERY list of per-package
   directive lists, if no reference is given twice the aggregation loop of WriteProgramCode
   succeeds, every directive resolves to exactly the implementation it names, the named
   implementation is kept alive / exported, unrelated symbols are untouched; and if some
   reference is given two implementations the build is rejected. *)
Theorem C10_resolve_functional : forall pkgs,
  (NoDup (refs (List.concat pkgs)) ->
     link_program pkgs = Some (program_gls pkgs) /\
     (forall e, In e (List.concat pkgs) ->
        gls_find (program_gls pkgs) (l_ref e) = Some (l_impl e) /\ gls_is_impl (program_gls pkgs) (l_impl e) = true) /\
     (forall s, ~ In s (refs (List.concat pkgs)) -> gls_find (program_gls pkgs) s = None)) /\
  (~ NoDup (refs (List.concat pkgs)) -> link_program pkgs = None).
Proof. exact resolve_full. Qed.
Print Assumptions C10_resolve_functional.

(* GoLinknameSet.Add reports a duplicated reference wherever it occurs in one list *)
Theorem C10_add_reports_conflict : forall es1 e es2 g,
  In (l_ref e) (refs es1) -> snd (gls_add (es1 ++ e :: es2) g) = true.
Proof. exact add_reports_conflict. Qed.
Print Assumptions C10_add_reports_conflict.

(* the former finding's witness (f linked to q.tgt and q.two, g to q.three) is now rejected *)
Example C10_conflict_witness_rejected :
  link_program [[ {| l_ref := (b "vp", b "f"); l_impl := (b "vp/q", b "tgt") |};
                  {| l_ref := (b "vp", b "f"); l_impl := (b "vp/q", b "two") |};
                  {| l_ref := (b "vp", b "g"); l_impl := (b "vp/q", b "three") |} ]] = None.
Proof. vm_compute. reflexivity. Qed.

(* ---- non-vacuity ---------------------------------------------------------------- *)

Definition ex_graph : graph :=
  [(b "runtime", [b "js"]); (b "js", []); (b "vp/a", [b "vp/b"; b "js"]); (b "vp/b", [])].
Definition ex_rank : list (str * nat) := [(b "runtime", 1); (b "js", 0); (b "vp/a", 1); (b "vp/b", 0)].

Example C10_nonvacuous_deps :
  closed ex_graph /\ ranked ex_graph (rank_of ex_rank) /\ lookup ex_graph (b "vp") = None /\
  import_deps ex_graph (b "vp") [b "vp/b"; b "vp/a"] = Some [b "js"; b "runtime"; b "vp/b"; b "vp/a"; b "vp"].
Proof.
  split; [apply closedb_sound; vm_compute; reflexivity |].
  split; [apply rankedb_sound; vm_compute; reflexivity |].
  split; vm_compute; reflexivity.
Qed.

(* two packages, a blocking initialiser, files given in the "wrong" order: recursion and
   flattened machine agree, b before a, z.go before a.go, main.main last *)
Definition ex_prog : program :=
  [ {| pk_path := b "vp"; pk_is_main := true; pk_imports := [b "vp/b"]; pk_zero := [b "z"];
       pk_initorder := [(b "x", true); (b "y", false)];
       pk_files := [(b "a.go", [(0, false)]); (b "z.go", [(0, true); (1, false)])] |};
    {| pk_path := b "runtime"; pk_is_main := false; pk_imports := []; pk_zero := []; pk_initorder := []; pk_files := [] |};
    {| pk_path := b "vp/b"; pk_is_main := false; pk_imports := []; pk_zero := [];
       pk_initorder := [(b "v", true)]; pk_files := [(b "b.go", [(0, false)])] |} ]%nat.

Example C10_nonvacuous_init :
  closed (pkg_graph ex_prog) /\
  ranked (pkg_graph ex_prog) (rank_of [(b "vp", 1); (b "runtime", 0); (b "vp/b", 0)]%nat) /\
  run_machine ex_prog (b "vp") = run_program ex_prog (b "vp") /\
  option_map (filter observable) (run_program ex_prog (b "vp")) =
  Some [ EStart (b "vp/b") (IVar (b "v")); EWake (b "vp/b") (IVar (b "v")); EStart (b "vp/b") (IFn (b "b.go") 0);
         EStart (b "vp") (IVar (b "x")); EWake (b "vp") (IVar (b "x")); EStart (b "vp") (IVar (b "y"));
         EStart (b "vp") (IFn (b "z.go") 0); EWake (b "vp") (IFn (b "z.go") 0); EStart (b "vp") (IFn (b "z.go") 1);
         EStart (b "vp") (IFn (b "a.go") 0); EMain (b "vp") ]%nat.
Proof.
  split; [apply closedb_sound; vm_compute; reflexivity |].
  split; [apply rankedb_sound; vm_compute; reflexivity |].
  split; vm_compute; reflexivity.
Qed.

Example C10_nonvacuous_linkname :
  read_linkname (b "vp") (b "//go:linkname  loc3	vp/a/q.(*T3).Pm ") =
    PLink {| l_ref := (b "vp", b "loc3"); l_impl := (b "vp/a/q", b "(*T3).Pm") |} /\
  sort_files [(b "m10.go", tt); (b "B.go", tt); (b "m2.go", tt)] = [(b "m2.go", tt); (b "m10.go", tt); (b "B.go", tt)].
Proof. split; vm_compute; reflexivity. Qed.
