(* C13 — JavaScript-backed standard-library overrides equal the Go originals.
   This file holds ONLY the property theorems (each closed by [exact lemma]) and their Print
   Assumptions.  Models: Model/C13_{Bits,Unicode,Nosync,Float,Atomic}.v.  Tie: harness/py/props/c13.py
   runs the GopherJS-compiled overrides, native Go and these models on the same inputs.

   Full statement (kept visible; what is proved of it is below):  *)
From Coq Require Import ZArith List Bool.
From Verif Require Import Model.C13_Bits Model.C13_Unicode Model.C13_Nosync Model.C13_Float Model.C13_Atomic.
From Verif Require Import Proofs.C13_Bits Proofs.C13_Unicode Proofs.C13_UnicodeTable Proofs.C13_Nosync Proofs.C13_Float Proofs.C13_FloatCurrent Proofs.C13_Atomic.
From Verif Require Import Gen.C13_CaseRanges Gen.C13_Variants.
Import ListNotations.
Local Open Scope Z_scope.

(* The float half of the property as stated, kept visible.  It holds for the current code (math.Trunc = Math.trunc,
   math.Modf = (Trunc f, Copysign(f - Trunc f, f)); fixes 453201c, b662087) EXCEPT for the sign of a NaN operand of
   Signbit/Copysign, which is a recorded finding: C13_float_current_correct below proves everything else and
   C13_signbit_copysign_nan_sign_refuted exhibits the remaining class. *)
Definition C13_float_full_statement : Prop :=
  forall a b, 0 <= a -> 0 <= b ->
    js_trunc trunc_impl (decode b) = go_trunc (decode b) /\
    obs2 (js_modf_impl modf_impl trunc_impl (decode b)) = obs2 (go_modf (decode b)) /\
    js_signbit (decode b) = go_signbit (decode b) /\
    obs (js_copysign (decode a) (decode b)) = obs (go_copysign (decode a) (decode b)).

(* ---------------------------------------------------------------- math/bits: all uint32 arguments, panics included *)
Theorem C13_mul32_correct : forall x y, u32 x -> u32 y -> mul32 x y = go_mul32 x y.
Proof. exact mul32_correct. Qed.
Print Assumptions C13_mul32_correct.

Theorem C13_add32_correct : forall x y c, u32 x -> u32 y -> (c = 0 \/ c = 1) -> add32 x y c = go_add32 x y c.
Proof. exact add32_correct. Qed.
Print Assumptions C13_add32_correct.

(* go_div32 = upstream: panics with the overflow error when y <= hi (y <> 0), the divide error when y = 0,
   else (z / y, z mod y) for z = hi * 2^32 + lo *)
Theorem C13_div32_correct : forall hi lo y, u32 hi -> u32 lo -> u32 y -> div32 hi lo y = go_div32 hi lo y.
Proof. exact div32_correct. Qed.
Print Assumptions C13_div32_correct.

Theorem C13_rem32_correct : forall hi lo y, u32 hi -> u32 lo -> u32 y -> rem32 hi lo y = go_rem32 hi lo y.
Proof. exact rem32_correct. Qed.
Print Assumptions C13_rem32_correct.

(* ---------------------------------------------------------------- unicode.to *)
(* on EVERY table the override's search equals upstream's search *)
Theorem C13_to_js_eq_go : forall tab c r, to_js tab c r = to_go tab c r.
Proof. exact to_js_eq_go. Qed.
Print Assumptions C13_to_js_eq_go.

(* on sorted, non-overlapping tables it is the first-match scan (UpperLower rule and bad _case included) *)
Theorem C13_to_eq_linear : forall tab c r, table_sorted tab = true -> to_js tab c r = to_linear tab c r.
Proof. exact to_eq_linear. Qed.
Print Assumptions C13_to_eq_linear.

(* ... instantiated with the real unicode.CaseRanges regenerated from GOROOT on every run *)
Theorem C13_to_caseranges_correct : forall c r,
  to_js CaseRanges c r = to_go CaseRanges c r /\ to_js CaseRanges c r = to_linear CaseRanges c r.
Proof. exact to_caseranges_correct. Qed.
Print Assumptions C13_to_caseranges_correct.

(* ---------------------------------------------------------------- nosync vs sync, every history on a fresh object *)
(* each nosync call returns what single-goroutine sync returns, or panics exactly when sync blocks, panics or
   dies; the sync-side history ends at the first blocked/fatal call.  The bound is the int32 reader count. *)
Theorem C13_nosync_refines_sync : forall (k : Z) (h : list op),
  Z.of_nat (length h) < 2147483648 ->
  agree_prefix (srun (abs (ninit k)) h) (nrun (ninit k) h) = true.
Proof. exact nosync_refines_sync. Qed.
Print Assumptions C13_nosync_refines_sync.

(* ---------------------------------------------------------------- sync/atomic (integers) *)
Theorem C13_atomic_add_correct : forall t cell d, std t ->
  let '(new, ret) := add t cell d in
  ret = new /\ in_range t new /\ (new - (cell + d)) mod 2 ^ width t = 0.
Proof. exact atomic_add_correct. Qed.
Print Assumptions C13_atomic_add_correct.

Theorem C13_atomic_cas_correct : forall cell old new,
  (cell = old -> cas cell old new = (new, true)) /\ (cell <> old -> cas cell old new = (cell, false)).
Proof. exact atomic_cas_correct. Qed.
Print Assumptions C13_atomic_cas_correct.

Theorem C13_atomic_swap_correct : forall cell new, swap cell new = (new, cell).
Proof. exact atomic_swap_correct. Qed.
Print Assumptions C13_atomic_swap_correct.

(* ---------------------------------------------------------------- math: float logic on all bit patterns *)
(* For EVERY 64-bit pattern b (and a), for the code as it is in /repo now (trunc_impl / modf_impl are regenerated from
   math.go on every run; the proof only goes through for the repaired shapes):
   Trunc and Modf equal upstream (signed zeros, denormals, NaN, +-Inf, magnitudes >= 2^31 included; NaNs compared
   canonicalised), IsNaN/IsInf are the IEEE classification, and Signbit/Copysign equal upstream whenever the operand
   whose sign is read is not a NaN. *)
Theorem C13_float_current_correct : forall b, 0 <= b ->
  js_trunc trunc_impl (decode b) = go_trunc (decode b) /\
  obs2 (js_modf_impl modf_impl trunc_impl (decode b)) = obs2 (go_modf (decode b)) /\
  (js_isnan (decode b) = false -> js_signbit (decode b) = go_signbit (decode b)) /\
  (forall a, 0 <= a -> js_isnan (decode b) = false ->
     obs (js_copysign (decode a) (decode b)) = obs (go_copysign (decode a) (decode b))) /\
  js_isnan (decode b) = (match decode b with FNaN _ => true | _ => false end) /\
  (forall s, js_isinf (decode b) s = match decode b with FInf false => 0 <=? s | FInf true => s <=? 0 | _ => false end).
Proof. exact float_current_correct. Qed.
Print Assumptions C13_float_current_correct.

(* the same two facts over the abstract values (no bit patterns) *)
Theorem C13_trunc_correct : forall x, js_trunc TruncViaMathTrunc x = go_trunc x.
Proof. exact trunc_math_trunc_correct. Qed.
Print Assumptions C13_trunc_correct.

Theorem C13_modf_correct : forall x, wf x ->
  obs2 (js_modf_via_trunc TruncViaMathTrunc x) = obs2 (go_modf x).
Proof. exact modf_via_trunc_correct. Qed.
Print Assumptions C13_modf_correct.

(* Signbit/Copysign: `_partial` because of the one recorded class (findings math-signbit-negative-nan and
   math-copysign-nan-sign-operand: JavaScript cannot observe the sign of a NaN): hypothesis = that operand is not a NaN *)
Theorem C13_signbit_agrees_partial : forall x, wf x -> js_isnan x = false -> js_signbit x = go_signbit x.
Proof. exact signbit_agrees. Qed.
Print Assumptions C13_signbit_agrees_partial.

Theorem C13_copysign_agrees_partial : forall x y, wf x -> wf y -> js_isnan y = false ->
  obs (js_copysign x y) = obs (go_copysign x y).
Proof. exact copysign_agrees. Qed.
Print Assumptions C13_copysign_agrees_partial.

Theorem C13_signbit_copysign_nan_sign_refuted :
  js_signbit (decode 18444492273895866369) <> go_signbit (decode 18444492273895866369) /\
  obs (js_copysign (decode 0) (decode 18444492273895866369)) <> obs (go_copysign (decode 0) (decode 18444492273895866369)).
Proof. exact signbit_copysign_refuted. Qed.
Print Assumptions C13_signbit_copysign_nan_sign_refuted.

Theorem C13_decode_wf : forall b, 0 <= b -> wf (decode b).
Proof. exact decode_wf. Qed.
Print Assumptions C13_decode_wf.

(* ---------------------------------------------------------------- non-vacuity *)
Example C13_nonvacuous :
  div32 1 0 3 = inl (1431655765, 1) /\ div32 5 0 3 = inr OverflowError /\ rem32 7 1 0 = inr DivideError /\
  mul32 4294967295 4294967295 = (4294967294, 1) /\ add32 4294967295 1 1 = (1, 1) /\
  table_sorted CaseRanges = true /\ to_js CaseRanges 0 97 = (65, true) /\ to_js CaseRanges 1 0x100 = (0x101, true) /\
  nrun (ninit 1) [RWRLock; RWLock; RWRUnlock; RWLock; RWRLock] = [NOk 0; NPanic 0; NOk 0; NOk 0; NPanic 0] /\
  srun (abs (ninit 1)) [RWRLock; RWLock; RWRUnlock] = [SRet 0; SBlock] /\
  wf (decode 4756540486875873280) /\
  obs (js_trunc trunc_impl (decode 4756540486875873280)) = 4756540486875873280 /\                 (* Trunc(1e10) = 1e10 *)
  obs (js_trunc trunc_impl (decode 9223372036854775809)) = 9223372036854775808 /\                 (* Trunc(-5e-324) = -0 *)
  obs2 (js_modf_impl modf_impl trunc_impl (decode 13826050856027422720)) = (9223372036854775808, 13826050856027422720). (* Modf(-0.5) = (-0, -0.5) *)
Proof. vm_compute. repeat split; reflexivity || discriminate. Qed.
