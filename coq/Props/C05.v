(* C05 — Dead-code elimination never changes behaviour.
   This file holds ONLY the property theorems (each closed by [exact lemma]) and their
   Print Assumptions.  Models: Model/C05_Select.v (dce.Info, dce.Selector, the Include loop of
   compiler.WriteProgramCode), Model/C05_SideEffect.v (analysis.HasSideEffect + decls.go:289).
   Tie: harness/py/props/c05.py runs the real dce.Selector on random declaration graphs and on the
   declaration graphs of real programs, the real HasSideEffect on generated expressions, and links
   generated programs twice (normally / every Decl forced alive) with the real compiler.

   What is NOT proved (and why the soundness theorem carries [_partial]): that the dependencies the
   translator records (filters.go names + DeclareDCEDep call sites) over-approximate what the
   emitted JavaScript references.  That is the explicit hypothesis [deps_overapprox] below; the
   check tests it on generated programs. *)
From Coq Require Import List String Bool NArith Permutation Relations.
From Verif Require Import Model.C05_Select Model.C05_SideEffect Proofs.C05_Select Proofs.C05_SideEffect.
Import ListNotations.
Local Open Scope string_scope.
Local Open Scope list_scope.

(* The work-list algorithm always terminates within its fuel (the Go loop terminates), and the set it
   returns is exactly [Alive]: roots, plus every declaration ALL of whose non-empty filters are
   dependencies of selected declarations. *)
Theorem C05_select_lfp : forall ds,
  exists ids, select ds = Some ids /\
              (forall id, In id ids <-> exists d, Alive ds d /\ d_id d = id).
Proof. exact select_spec. Qed.
Print Assumptions C05_select_lfp.

(* [Alive] is the LEAST set closed under the selection rule. *)
Theorem C05_alive_closed : forall ds, closed ds (Alive ds).
Proof. exact Alive_closed. Qed.
Print Assumptions C05_alive_closed.

Theorem C05_alive_least : forall ds (S : decl -> Prop), closed ds S -> forall d, Alive ds d -> S d.
Proof. exact Alive_least. Qed.
Print Assumptions C05_alive_least.

(* The selection does not depend on the order of Include calls, on repeated Include calls, nor on
   the order / multiplicity of the recorded dependencies. *)
Theorem C05_select_order_independent : forall ds ds' ids ids',
  same_decls ds ds' -> select ds = Some ids -> select ds' = Some ids' ->
  forall id, In id ids <-> In id ids'.
Proof. exact select_order_independent. Qed.
Print Assumptions C05_select_order_independent.

Theorem C05_include_order_is_a_case : forall ds ds', Permutation ds ds' -> same_decls ds ds'.
Proof. exact same_decls_perm. Qed.
Print Assumptions C05_include_order_is_a_case.

Theorem C05_deps_order_is_a_case : forall ds g, (forall d f, In f (g d) <-> In f (d_deps d)) ->
  same_decls ds (map (with_deps g) ds).
Proof. exact same_decls_deps. Qed.
Print Assumptions C05_deps_order_is_a_case.

(* More dependencies, more link targets or more alive flags never shrink the selection. *)
Theorem C05_select_monotone : forall ds ds' ids ids',
  decls_le ds ds' -> select ds = Some ids -> select ds' = Some ids' ->
  forall id, In id ids -> In id ids'.
Proof. exact select_monotone. Qed.
Print Assumptions C05_select_monotone.

(* Pruning removes only unreachable code: for ANY run-time reference relation [refs] between the
   declarations and ANY set of entry points, if entry points are roots, referenced declarations
   exist, and the recorded deps of d contain every filter of every d' that d references, then every
   declaration reachable from an entry point is selected.
   PARTIAL w.r.t. the property text: the third hypothesis is not proved of the translator. *)
Theorem C05_select_sound_partial :
  forall (ds : list decl) (refs : decl -> decl -> Prop) (entry : decl -> Prop),
  (forall d, In d ds -> entry d -> is_root d = true) ->
  (forall d d', In d ds -> refs d d' -> In d' ds) ->
  (forall d d' f, In d ds -> refs d d' -> In f (filters d') -> In f (d_deps d)) ->
  forall d0 d, In d0 ds -> entry d0 -> clos_refl_trans _ refs d0 d ->
  exists ids, select ds = Some ids /\ In (d_id d) ids.
Proof. exact select_sound_gen. Qed.
Print Assumptions C05_select_sound_partial.

(* ---- initialisers with side effects (decls.go:289 + sideeffect.go) -------- *)

(* the analysis never misses a call or a receive that evaluation would run (full statement; calls
   through values of named func types are recognised since the fix de84ca0) *)
Theorem C05_has_side_effect_conservative : forall e,
  evaluates_call_or_recv e = true -> has_side_effect e = true.
Proof. exact hse_conservative. Qed.
Print Assumptions C05_has_side_effect_conservative.

(* Full statement (visible, FALSE for the code as it is — recorded finding
   dce-drops-panicking-initializer-without-call):
     initialiser_root_full_statement =
       forall n e, can_have_effect e = true -> var_is_root n e = true *)
Theorem C05_initialiser_root_refuted : exists e, can_have_effect e = true /\ var_is_root 1 e = false.
Proof. exact initialiser_root_refuted. Qed.
Print Assumptions C05_initialiser_root_refuted.

Theorem C05_initialiser_root_full_statement_false : ~ initialiser_root_full_statement.
Proof. exact initialiser_root_full_statement_false. Qed.
Print Assumptions C05_initialiser_root_full_statement_false.

(* the positive theorem under the hypothesis that excludes exactly the finding's input class:
   expressions containing a node that can panic without being a call or a receive *)
Theorem C05_initialiser_root_partial : forall n e,
  may_panic e = false -> can_have_effect e = true -> var_is_root n e = true.
Proof. exact initialiser_root_excluding_panics. Qed.
Print Assumptions C05_initialiser_root_partial.

(* Non-vacuity: main (alive) uses type T and calls through interface I with unexported method m;
   T's exported method M needs only T; T.m needs BOTH "p.T" and "p.m()"; U.m has "p.m()" hit but
   "p.U" not, so it stays dead; an unnamed decl (package import) and a linkname target are roots;
   fuel suffices and the selection is {1,2,3,4,7,8} (listed in reverse pop order: 8, 7, 1 are popped first — LIFO). *)
Example C05_nonvacuous :
  let D id alive obj meth deps link :=
    {| d_id := id; d_alive := alive; d_obj := obj; d_meth := meth; d_deps := deps; d_link := link |} in
  let ds := [ D 1%N true  "p.main" "" ["p.T"; "p.I"; "p.m()"] false;
              D 2%N false "p.T" "" ["p.T"] false;
              D 3%N false "p.T" "" ["p.T"; "p.helper"] false;      (* func (T) M() *)
              D 4%N false "p.T" "p.m()" [] false;                  (* func (T) m() *)
              D 5%N false "p.U" "p.m()" [] false;                  (* func (U) m(): receiver dead *)
              D 6%N false "p.dead" "" ["p.U"] false;
              D 7%N false "" "" [] false;                          (* unnamed: always alive *)
              D 8%N false "p.linked" "" [] true ] in
  select ds = Some [2; 3; 4; 1; 7; 8]%N /\
  closed ds (Alive ds) /\
  (exists e, may_panic e = false /\ can_have_effect e = true).
Proof.
  cbv zeta. split; [vm_compute; reflexivity|]. split; [apply Alive_closed|].
  exists (ECall CNamedFunc EIdent []). vm_compute. split; reflexivity.
Qed.

(* ==== Phase 4: the recording of DCE names and dependencies is inside the model ================
   Model/C05_Record.v mirrors getFilters / filterGen (filters.go) and the DeclareDCEDep call sites for an
   abstract syntax of mentions: package-level functions and variables, named types (also through
   pointers, slices, maps, func types), generic instances, method calls/values through concrete
   receivers (promoted methods: the embedded type declares them), through interfaces, method
   expressions T.m / I.m, conversions (a type mention).  [compile p] is the Decl list handed to the
   Selector.  Proofs/C05_P4_Record.v defines, independently of any filter string, which declaration a
   mention needs, which method declarations a call can dispatch to (static selection / Go's
   method-set rule with types.Identical on signatures) and [Reach]: the declarations whose code can be
   executed or whose method can be reached by any dynamically possible call, a method body being
   executable only if some reachable code names the receiver type instance (values of a named type
   come into existence only in code that names the type). *)
From Verif Require Import Model.C05_Record Proofs.C05_P4_Record Proofs.C05_P4_Witness.

(* The method filter recorded at a call site (interface or concrete) equals the filter the implementing
   method declaration is named with whenever Go's rule says the call can reach it (identical
   signatures after substituting the receiver's type arguments), for alias-free spellings. *)
Theorem C05_method_filter_agrees : forall targs mp mn s s',
  sig_identical s' (sig_subst targs s) = true ->
  sig_canonical s' = true -> sig_canonical (sig_subst targs s) = true -> sig_wf s = true ->
  meth_filter [] mp mn s' = meth_filter (tys_filter [] targs) mp mn s.
Proof. exact method_filter_agrees. Qed.
Print Assumptions C05_method_filter_agrees.

(* ... the historic witness of the (repaired) finding dce-unexported-method-byte-uint8-spelling-mismatch,
   write([]byte) rune / write([]uint8) int32, now gets equal filters: filterGen.Type prints the canonical
   name of byte and rune.  (The general statement without the spelling hypothesis is not proved yet.) *)
Theorem C05_method_filter_alias_witness_agrees :
  sig_identical sig_write_uint8 (sig_subst TNil sig_write_byte) = true /\ sig_wf sig_write_byte = true /\
  meth_filter [] "main" "write" sig_write_uint8 = meth_filter [] "main" "write" sig_write_byte.
Proof. exact method_filter_alias_witness_agrees. Qed.
Print Assumptions C05_method_filter_alias_witness_agrees.

(* filterGen's replacement map = printing the substituted signature (generic receivers) *)
Theorem C05_filter_subst : forall ta s, sig_wf s = true ->
  sig_filter (tys_filter [] ta) s = sig_filter [] (sig_subst ta s).
Proof. exact sig_filter_subst. Qed.
Print Assumptions C05_filter_subst.

(* The recorded dependencies cover the references: every reachable declaration of a program built by
   the mirrored recorder is in the least fixed point [Alive] of the selection rule — the hypothesis
   [deps_overapprox] of C05_select_sound_partial is discharged for the modelled syntax. *)
Theorem C05_recorded_deps_cover_references : forall p, prog_ok p = true ->
  forall g, Reach p g -> forall i, nth_error p i = Some g -> Alive (compile p) (mk_decl p i g).
Proof. exact reach_alive. Qed.
Print Assumptions C05_recorded_deps_cover_references.

(* Soundness without the hypothesis: the real work-list algorithm, run on the recorded names and
   dependencies, selects every reachable declaration. *)
Theorem C05_select_sound : forall p, prog_ok p = true ->
  forall g i, Reach p g -> nth_error p i = Some g ->
  exists ids, select (compile p) = Some ids /\ In (N.of_nat i) ids.
Proof. exact reach_selected. Qed.
Print Assumptions C05_select_sound.

(* Full statement (visible, NOT proved): the same without [prog_ok], whose only semantic content is "no type
   is spelled byte / rune" (and variadic parameters are slices).  Its two historic counterexamples (findings
   dce-unexported-method-byte-uint8-spelling-mismatch and dce-generic-instance-byte-uint8-spelling-mismatch,
   both repaired in /repo) are now selected; no counterexample is known. *)
Definition C05_select_sound_full_statement : Prop :=
  forall p g i, Reach p g -> nth_error p i = Some g ->
  exists ids, select (compile p) = Some ids /\ In (N.of_nat i) ids.

Theorem C05_select_sound_alias_witness_iface :
  Reach w1 w1_meth /\ exists ids, select (compile w1) = Some ids /\ In 2%N ids.
Proof. exact select_sound_alias_witness_iface. Qed.
Print Assumptions C05_select_sound_alias_witness_iface.

Theorem C05_select_sound_alias_witness_instance :
  Reach w2 w2_inst /\ exists ids, select (compile w2) = Some ids /\ In 2%N ids.
Proof. exact select_sound_alias_witness_instance. Qed.
Print Assumptions C05_select_sound_alias_witness_instance.

(* Non-vacuity: a canonical program in which an unexported method of a generic instance is reached only
   through an interface call, and is selected *)
Example C05_p4_nonvacuous :
  prog_ok p4_example = true /\ Reach p4_example p4_example_method /\
  nth_error p4_example 3 = Some p4_example_method /\
  exists ids, select (compile p4_example) = Some ids /\ In 3%N ids /\ ~ In 5%N ids.
Proof. exact p4_example_ok. Qed.
