(* C19 — Source maps are complete, in range and point at the right Go lines.
   This file holds ONLY the property theorems (each closed by [exact lemma])
   and their Print Assumptions.  Model: Model/C19_Filter.v (hint.go, filter.go),
   Model/C16_RemoveWs.v (removeWhitespace).  Tie: harness/py/props/c19.py runs the real
   sourcemapx.Filter / Hint.Pack / removeWhitespace and the model on the same streams. *)
From Coq Require Import List NArith Arith Bool Sorted.
From Verif Require Import Model.C19_Filter Proofs.C19_Filter.
Import ListNotations.

(* Full statement, byte-stream half: for EVERY stream of code pieces and hints and
   EVERY chunking of it into Write calls that does not split a hint, the filter
   writes exactly the code with the hints erased, and reports for each hint the
   (1-based line, 0-based column) at which the code following it starts in that
   output. *)
Theorem C19_filter_chunking_invariant : forall items iss,
  chunking_of items iss ->
  run_chunks (map render iss) =
  Some (erase items,
        map (fun m => (N.of_nat (m_line m), N.of_nat (m_col m), m_payload m)) (spec_mappings [] items)).
Proof. exact filter_chunking_invariant. Qed.
Print Assumptions C19_filter_chunking_invariant.

(* The emitted JavaScript never contains hint bytes. *)
Theorem C19_output_no_magic : forall items,
  forallb item_ok items = true -> code_ok (erase items) = true.
Proof. exact output_no_magic. Qed.
Print Assumptions C19_output_no_magic.

(* Every mapping refers to a position that exists in the generated file. *)
Theorem C19_mappings_in_range : forall items m,
  In m (spec_mappings [] items) ->
  (1 <= m_line m <= length (lines (erase items)))%nat /\
  (m_col m <= length (nth (m_line m - 1) (lines (erase items)) []))%nat.
Proof. exact mappings_in_range. Qed.
Print Assumptions C19_mappings_in_range.

Theorem C19_mappings_monotone : forall items pre,
  StronglySorted pos_le (spec_mappings pre items).
Proof. exact mappings_monotone. Qed.
Print Assumptions C19_mappings_monotone.

(* Hint codec: any payload of at most 0xFFFF bytes (it may itself contain 0x08)
   is found and read back exactly; longer payloads are rejected. *)
Theorem C19_hint_roundtrip : forall p rest e,
  encode_hint p = Some e ->
  find_hint (e ++ rest) = Some O /\ read_hint (e ++ rest) = Some (p, length e).
Proof. exact hint_roundtrip. Qed.
Print Assumptions C19_hint_roundtrip.

Theorem C19_hint_too_long_rejected : forall p,
  (65535 < N.of_nat (length p))%N -> encode_hint p = None.
Proof. exact hint_too_long_rejected. Qed.
Print Assumptions C19_hint_too_long_rejected.

(* A Write call that ends inside a hint is rejected (the implementation panics). *)
Theorem C19_split_hint_rejected : forall st pre p k,
  code_ok pre = true -> item_ok (Hint p) = true ->
  (0 < k < length p + 3)%nat ->
  filter_write st (pre ++ firstn k (render [Hint p])) = None.
Proof. exact split_hint_rejected. Qed.
Print Assumptions C19_split_hint_rejected.

(* Non-vacuity: a concrete stream with a payload containing 0x08, a newline
   between hints, cut into three Write calls in the middle of code. *)
Example C19_nonvacuous :
  let items := [Code [97;10;98]; Hint [1;8;2]; Code [99;100;10]; Hint []; Code [101]]%N in
  let iss := [[Code [97;10]]; [Code [98]; Hint [1;8;2]; Code [99]]; [Code [100;10]; Hint []; Code [101]]]%N in
  chunking_of items iss /\
  run_chunks (map render iss) = Some ([97;10;98;99;100;10;101], [(2,1,[1;8;2]); (3,0,[])])%N.
Proof. vm_compute. split; [split|]; reflexivity. Qed.
