(* C19 — Source maps are complete, in range and point at the right Go lines.
   This file holds ONLY the property theorems (each closed by [exact lemma])
   and their Print Assumptions.  Model: Model/C19_Filter.v (hint.go, filter.go),
   Model/C16_RemoveWs.v (removeWhitespace).  Tie: harness/py/props/c19.py runs the real
   sourcemapx.Filter / Hint.Pack / removeWhitespace and the model on the same streams. *)
From Coq Require Import List NArith ZArith Arith Bool Sorted.
From Verif Require Import Model.C19_Filter Proofs.C19_Filter Model.C19_Vlq Proofs.C19_Vlq.
Import ListNotations.

(* Full statement, byte-stream half: for EVERY stream of code pieces and hints and
   EVERY chunking of it into Write calls that does not split a hint, the filter
   writes exactly the code with the hints erased, and reports for each hint the
   (1-based line, 0-based column) at which the code following it starts in that
   output. *)
Theorem C19_filter_chunking_invariant : forall items iss,
  chunking_of items iss ->
  run_chunks (map render iss) =
  Some (erase items,
        map (fun m => (N.of_nat (m_line m), N.of_nat (m_col m), m_payload m)) (spec_mappings [] items)).
Proof. exact filter_chunking_invariant. Qed.
Print Assumptions C19_filter_chunking_invariant.

(* The emitted JavaScript never contains hint bytes. *)
Theorem C19_output_no_magic : forall items,
  forallb item_ok items = true -> code_ok (erase items) = true.
Proof. exact output_no_magic. Qed.
Print Assumptions C19_output_no_magic.

(* Every mapping refers to a position that exists in the generated file. *)
Theorem C19_mappings_in_range : forall items m,
  In m (spec_mappings [] items) ->
  (1 <= m_line m <= length (lines (erase items)))%nat /\
  (m_col m <= length (nth (m_line m - 1) (lines (erase items)) []))%nat.
Proof. exact mappings_in_range. Qed.
Print Assumptions C19_mappings_in_range.

Theorem C19_mappings_monotone : forall items pre,
  StronglySorted pos_le (spec_mappings pre items).
Proof. exact mappings_monotone. Qed.
Print Assumptions C19_mappings_monotone.

(* Hint codec: any payload of at most 0xFFFF bytes (it may itself contain 0x08)
   is found and read back exactly; longer payloads are rejected. *)
Theorem C19_hint_roundtrip : forall p rest e,
  encode_hint p = Some e ->
  find_hint (e ++ rest) = Some O /\ read_hint (e ++ rest) = Some (p, length e).
Proof. exact hint_roundtrip. Qed.
Print Assumptions C19_hint_roundtrip.

Theorem C19_hint_too_long_rejected : forall p,
  (65535 < N.of_nat (length p))%N -> encode_hint p = None.
Proof. exact hint_too_long_rejected. Qed.
Print Assumptions C19_hint_too_long_rejected.

(* A Write call that ends inside a hint is rejected (the implementation panics). *)
Theorem C19_split_hint_rejected : forall st pre p k,
  code_ok pre = true -> item_ok (Hint p) = true ->
  (0 < k < length p + 3)%nat ->
  filter_write st (pre ++ firstn k (render [Hint p])) = None.
Proof. exact split_hint_rejected. Qed.
Print Assumptions C19_split_hint_rejected.

(* Non-vacuity: a concrete stream with a payload containing 0x08, a newline
   between hints, cut into three Write calls in the middle of code. *)
Example C19_nonvacuous :
  let items := [Code [97;10;98]; Hint [1;8;2]; Code [99;100;10]; Hint []; Code [101]]%N in
  let iss := [[Code [97;10]]; [Code [98]; Hint [1;8;2]; Code [99]]; [Code [100;10]; Hint []; Code [101]]]%N in
  chunking_of items iss /\
  run_chunks (map render iss) = Some ([97;10;98;99;100;10;101], [(2,1,[1;8;2]); (3,0,[])])%N.
Proof. vm_compute. split; [split|]; reflexivity. Qed.

(* ---- the encoded map ("mappings" string, Sources, Names): model of writeVLQ/readVLQ, Map.EncodeMappings
   (after its sort) and Map.decodeMappings of github.com/neelance/sourcemap, through which filter.go
   writes every mapping and reads esbuild's maps.  Tie: props/c19.py compares the model's encoding with
   the real string and the model's decoding with the real DecodedMappings on every map of the run. *)

(* one number: whatever was read before and whatever follows, readVLQ returns exactly the written value and
   stops right behind it (all of Z: negative differences, zero, arbitrarily many base-32 digits) *)
Theorem C19_vlq_roundtrip : forall v bef rest,
  read_vlq (bef, write_vlq v ++ rest) = (Some v, (rev (write_vlq v) ++ bef, rest)).
Proof. exact vlq_roundtrip. Qed.
Print Assumptions C19_vlq_roundtrip.

(* the whole codec, for EVERY list of mappings whose generated lines start at >= 1 and never decrease
   (what the sort establishes) and which is empty or ends in a mapping with a file: decoding the written
   string with the written tables yields the list again - generated line and column, file, original line
   and column, name - where a mapping without a file keeps only its generated position ([canon]; that is
   how EncodeMappings writes it).  The proof follows the real reader, including the four-field segment at
   the very end of the string, after which the decoder's UnreadByte at EOF makes the loop go round once
   more over the last digit. *)
Definition C19_codec_roundtrip_full_statement : Prop := forall ms s srcs names,
  lines_sorted 1%Z ms = true ->
  encode_mappings ms = (s, srcs, names) ->
  decode_mappings srcs names s = Some (map canon ms).

Theorem C19_mappings_codec_roundtrip : forall ms s srcs names,
  lines_sorted 1%Z ms = true -> last_has_file ms = true ->
  encode_mappings ms = (s, srcs, names) ->
  decode_mappings srcs names s = Some (map canon ms).
Proof. exact mappings_roundtrip. Qed.
Print Assumptions C19_mappings_codec_roundtrip.

(* Without [last_has_file] the statement is FALSE of the decoder as written: a final mapping without a file
   (a one-field segment at the end of the string, e.g. "AAqBkC,A") is lost - strings.Reader.UnreadByte after
   the ReadByte that failed at EOF steps back over the last digit, the digit is counted twice more and the
   segment ends with count = 3.  GopherJS applies this decoder only to esbuild's maps of the prelude (whose
   segments have four fields), never to the maps it writes, so no emitted map is affected: an observation
   about the dependency, replayed against the real decoder on every run, not a violation of C19. *)
Theorem C19_codec_roundtrip_trailing_sourceless_refuted :
  lines_sorted 1%Z trailing_witness = true /\
  trailing_result = Some (removelast (map canon trailing_witness)).
Proof. exact roundtrip_unrestricted_refuted. Qed.
Print Assumptions C19_codec_roundtrip_trailing_sourceless_refuted.

Theorem C19_mappings_codec_injective : forall ms1 ms2,
  lines_sorted 1%Z ms1 = true -> lines_sorted 1%Z ms2 = true ->
  last_has_file ms1 = true -> last_has_file ms2 = true ->
  encode_mappings ms1 = encode_mappings ms2 -> map canon ms1 = map canon ms2.
Proof. exact mappings_injective. Qed.
Print Assumptions C19_mappings_codec_injective.

(* the "mappings" string consists of base64 digits, ',' and ';' only (so it never needs JSON escaping
   and never contains a hint byte) *)
Theorem C19_mappings_alphabet : forall ms s srcs names,
  encode_mappings ms = (s, srcs, names) -> forallb out_char s = true.
Proof. intros ms s srcs names H. exact (mappings_chars ms _ _ _ _ _ _ _ H). Qed.
Print Assumptions C19_mappings_alphabet.

(* Non-vacuity: a file-less mapping, a line jump, a repeated and a new file, a name, a big negative delta. *)
Example C19_codec_nonvacuous :
  let ms := [ {| m_gl := 1; m_gc := 0; m_file := [97%N]; m_ol := 3; m_oc := 1; m_name := [] |};
              {| m_gl := 1; m_gc := 40; m_file := []; m_ol := 0; m_oc := 0; m_name := [] |};
              {| m_gl := 4; m_gc := 1000; m_file := [98%N]; m_ol := 1000000; m_oc := 100; m_name := [120%N] |};
              {| m_gl := 4; m_gc := 1000; m_file := [97%N]; m_ol := 1; m_oc := 0; m_name := [120%N] |} ]%Z in
  lines_sorted 1%Z ms = true /\ last_has_file ms = true /\
  (let '(s, a, b) := encode_mappings ms in decode_mappings a b s) = Some ms.
Proof. vm_compute. repeat split; reflexivity. Qed.
