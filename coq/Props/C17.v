(* C17 — Builds are reproducible.
   This file holds ONLY the property theorems (each closed by [exact lemma]) and their Print Assumptions.
   Model: Model/C17_Order.v (every place where the compiler fixes an order by sorting or by ordered insertion,
   and Collector.Finish, which visits the keys of a Go map in sorted order).  Tie: harness/py/props/c17.py runs the real sort sites, the real
   typeparams.Collector and real builds.

   NOT A THEOREM: "out.js and out.js.map are a function of the set of inputs".  The translator is not modelled as a whole;
   that statement is decided on every run by hashing real builds (fresh processes x file orders x minify x warm session).
   What is proved is that each ordering decision the compiler makes is canonical. *)
From Coq Require Import List NArith Bool Arith Permutation Sorted.
From Verif Require Import Model.C17_Order Proofs.C17_Order Proofs.C17_Finish.
Import ListNotations.

(* ---- sort sites keyed by a name (sort.Slice): canonical when the keys are pairwise distinct.
   Sources.Sort (file names, descending), SortedSourcesSlice (ImportPath), importDecls (Path()). *)
Theorem C17_sort_canonical_files : forall l l' : list keyed,
  Permutation l l' -> NoDup (map fst l) -> sort_files l = sort_files l'.
Proof. exact sort_files_canonical. Qed.
Print Assumptions C17_sort_canonical_files.

Theorem C17_sort_canonical_sources : forall l l' : list keyed,
  Permutation l l' -> NoDup (map fst l) -> sort_sources l = sort_sources l'.
Proof. exact sort_sources_canonical. Qed.
Print Assumptions C17_sort_canonical_sources.

Theorem C17_sort_canonical_imports : forall l l' : list keyed,
  Permutation l l' -> NoDup (map fst l) -> sort_imports l = sort_imports l'.
Proof. exact sort_sources_canonical. Qed.
Print Assumptions C17_sort_canonical_imports.

(* ---- sort.Strings sites (escaping-variable names in FuncLit and handleEscapingVars, localVars, dependency names,
   unresolved imports): canonical unconditionally — equal strings are indistinguishable, so duplicates do no harm. *)
Theorem C17_sort_canonical_strings : forall l l' : list str,
  Permutation l l' -> sort_strings l = sort_strings l'.
Proof. exact sort_strings_canonical. Qed.
Print Assumptions C17_sort_canonical_strings.

(* the results are sorted permutations (files: no later name is greater than an earlier one) *)
Theorem C17_sort_files_sorted : forall l,
  StronglySorted (fun a b => str_ltb (fst a) (fst b) = false) (sort_files l) /\ Permutation (sort_files l) l.
Proof. exact sort_files_sorted_perm. Qed.
Print Assumptions C17_sort_files_sorted.

Theorem C17_sort_sources_sorted : forall l,
  StronglySorted (fun a b => str_ltb (fst b) (fst a) = false) (sort_sources l) /\ Permutation (sort_sources l) l.
Proof. exact sort_sources_sorted_perm. Qed.
Print Assumptions C17_sort_sources_sorted.

(* the model is the insertion sort Go uses up to 12 elements; ANY algorithm returning a sorted permutation
   (pdqsort above 12) gives the same list when the keys are distinct *)
Theorem C17_sort_algorithm_irrelevant : forall l r : list keyed,
  Permutation r l -> StronglySorted (fun a b => str_ltb (fst b) (fst a) = false) r -> NoDup (map fst l) ->
  r = sort_sources l.
Proof. exact sort_sources_any_algorithm. Qed.
Print Assumptions C17_sort_algorithm_irrelevant.

(* the corner of the keyed sort sites: the full statement WITHOUT the distinct-keys hypothesis is false *)
Definition C17_sort_canonical_without_distinct_keys : Prop :=
  forall l l' : list keyed, Permutation l l' -> sort_files l = sort_files l' /\ sort_sources l = sort_sources l'.
Theorem C17_sort_canonical_without_distinct_keys_refuted : ~ C17_sort_canonical_without_distinct_keys.
Proof. exact sort_canonical_without_distinct_keys_refuted. Qed.
Print Assumptions C17_sort_canonical_without_distinct_keys_refuted.

(* ---- Sources.UnresolvedImports: independent of the order of the files, of the imports inside them and of the skip list *)
Theorem C17_unresolved_imports_order_independent : forall skip skip' files files',
  Permutation (concat files) (concat files') -> (forall x, In x skip <-> In x skip') ->
  unresolved_imports skip files = unresolved_imports skip' files'.
Proof. exact unresolved_imports_order_independent. Qed.
Print Assumptions C17_unresolved_imports_order_independent.

Theorem C17_unresolved_imports_file_order_independent : forall skip files files',
  Permutation files files' -> unresolved_imports skip files = unresolved_imports skip files'.
Proof. exact unresolved_imports_file_order_independent. Qed.
Print Assumptions C17_unresolved_imports_file_order_independent.

(* ---- dce.Info.getDeps: independent of the order in which the Go map of dependencies is ranged over *)
Theorem C17_get_deps_iteration_order_independent : forall iter iter',
  Permutation iter iter' -> get_deps iter = get_deps iter'.
Proof. exact get_deps_iteration_order_independent. Qed.
Print Assumptions C17_get_deps_iteration_order_independent.

(* ---- ordered sets (InstanceSet, TypeNames): iteration order = first-insertion order, a function of the traversal only *)
Theorem C17_ordered_set_add_idempotent : forall s x, oset_add (oset_add s x) x = oset_add s x.
Proof. exact oset_add_idempotent. Qed.
Print Assumptions C17_ordered_set_add_idempotent.

Theorem C17_ordered_set_first_insertion_order : forall xs s, oset_add_all s xs = s ++ first_occ s xs.
Proof. exact oset_add_all_first_occ. Qed.
Print Assumptions C17_ordered_set_first_insertion_order.

Theorem C17_ordered_set_ids_stable : forall xs s y k,
  oset_id s y = Some k -> oset_id (oset_add_all s xs) y = Some k.
Proof. exact oset_add_all_preserves_ids. Qed.
Print Assumptions C17_ordered_set_ids_stable.

Theorem C17_ordered_set_ids_unique : forall s x y k, oset_id s x = Some k -> oset_id s y = Some k -> x = y.
Proof. exact oset_id_injective. Qed.
Print Assumptions C17_ordered_set_ids_unique.

(* ---- Collector.Finish (collect.go, as repaired by ee2dd6c): every round of `for !allExhausted()` collects the keys of
   the map of per-package instance sets, sorts them by import path and calls propagate in that order — model
   finish_sorted.  The numbering of the instances is a function of the CONTENTS of that map: any two layouts (orders of
   the association list that stands for the Go map, i.e. any iteration order the runtime may pick) give the same ids,
   provided import paths identify packages.  The check compares the real Finish with finish_sorted exactly, on every
   generated program, and runs the real Finish repeatedly from identical seeds. *)
Theorem C17_finish_instance_ids_independent_of_map_order : forall rounds fuel path_of t m m' pkgs,
  (forall a b : N, path_of a = path_of b -> a = b) ->
  NoDup (pis_keys m) -> Permutation m m' ->
  observe pkgs (finish_sorted rounds fuel path_of t m) = observe pkgs (finish_sorted rounds fuel path_of t m').
Proof. exact finish_sorted_layout_independent. Qed.
Print Assumptions C17_finish_instance_ids_independent_of_map_order.

(* its core: the visiting order of a round is a function of the SET of keys *)
Theorem C17_sorted_round_order_canonical : forall path_of ks ks',
  Permutation ks ks' -> NoDup (map path_of ks) -> sort_keys path_of ks = sort_keys path_of ks'.
Proof. exact sort_keys_canonical. Qed.
Print Assumptions C17_sorted_round_order_canonical.

(* propagate itself: a fixed sequence of propagate calls gives the same ids for every layout of the map (the order of
   the calls is the only thing that matters, which is why Finish fixes it) *)
Theorem C17_fixed_schedule_layout_independent : forall sched fuel t m m' pkgs,
  NoDup (pis_keys m) -> Permutation m m' ->
  observe pkgs (run_schedule fuel t sched m) = observe pkgs (run_schedule fuel t sched m').
Proof. exact run_schedule_layout_independent. Qed.
Print Assumptions C17_fixed_schedule_layout_independent.

(* PARTIAL (hence the suffix): the property text is "same sources and options => byte-identical out.js and map".
   Proved: every ordering decision the compiler takes by sorting or by ordered insertion is a function of the SET of its
   inputs (files, import paths, names, dependencies, instances offered in a given traversal), and so is the
   Finish loop.  Missing, and not provable in this development: that these are ALL the places where order can enter the
   translator (go/types, the AST walks, the printer are not modelled) — that half is the hashing of real builds. *)
Theorem C17_reproducible_builds_partial :
  (forall l l' : list keyed, Permutation l l' -> NoDup (map fst l) ->
     sort_files l = sort_files l' /\ sort_sources l = sort_sources l' /\ sort_imports l = sort_imports l') /\
  (forall l l' : list str, Permutation l l' -> sort_strings l = sort_strings l' /\ get_deps l = get_deps l') /\
  (forall skip files files', Permutation files files' -> unresolved_imports skip files = unresolved_imports skip files') /\
  (forall xs s, oset_add_all s xs = s ++ first_occ s xs) /\
  (forall rounds fuel path_of t m m' pkgs,
     (forall a b : N, path_of a = path_of b -> a = b) -> NoDup (pis_keys m) -> Permutation m m' ->
     observe pkgs (finish_sorted rounds fuel path_of t m) = observe pkgs (finish_sorted rounds fuel path_of t m')).
Proof. exact ordering_decisions_canonical. Qed.
Print Assumptions C17_reproducible_builds_partial.

(* Non-vacuity: distinct keys presented in two orders; the a/b/c program (two packages instantiating c.G inside generic code) numbered by Finish. *)
Example C17_nonvacuous :
  let l := [([98; 46; 103; 111], 0); ([97; 46; 103; 111], 1); ([99; 46; 103; 111], 2)]%N in
  let l' := [([99; 46; 103; 111], 2); ([98; 46; 103; 111], 0); ([97; 46; 103; 111], 1)]%N in
  Permutation l l' /\ NoDup (map fst l) /\
  sort_files l = [([99; 46; 103; 111], 2); ([98; 46; 103; 111], 0); ([97; 46; 103; 111], 1)]%N /\
  sort_files l' = sort_files l /\
  observe [2%N] (finish_sorted 5 10 (fun k => [k]) w_scan (seed w_seeds)) = [(2, [20; 21])]%N.
Proof. exact c17_nonvacuous. Qed.
