(* C06 — Fixed-width integer arithmetic is exact.
   This file holds ONLY the property theorems (each closed by [exact lemma]) and their
   Print Assumptions.

   Layers:  Base/C06_JsNum.v (JS numbers: exact integers, -0, NaN/Inf, [Unk] for anything inexact)
            Model/C06_Prelude64.v ($Int64/$Uint64 constructors, $mul64, $div64, shifts)
            Model/C06_Templates.v (expressions.go by hand, parametrised by the repair [variant])
            Gen/C06_Tables.v      (REGENERATED each run: the 627 templates as the real compiler emits them,
                                   the fixNumber table, is64Bit, the probed variant [current])
            Model/C06_Spec.v      (the Go specification, written independently).
   Tie:     C06_emitted_* below (conversion with the real compiler's output, re-proved every run) and
            harness/py/props/c06.py (helpers vs BigInt, compiled programs vs native Go, both vs the model).

   Values: a Go value v of a kind k of at most 32 bits is the JS number [Fin v].  [Ret (Fin w)] as a
   result states in addition that no intermediate was inexact (|z| <= 2^53) and that the result
   is not the negative zero. *)
From Coq Require Import ZArith Bool List.
From Verif Require Import Base.C06_JsNum Model.C06_Prelude64 Model.C06_Spec Gen.C06_Tables Model.C06_Templates
  Proofs.C06_Arith Proofs.C06_Fix Proofs.C06_Tie Proofs.C06_AddMul32 Proofs.C06_Div32 Proofs.C06_Bits32 Proofs.C06_Shift32 Proofs.C06_Ops64 Proofs.C06_Mul64 Proofs.C06_Bits64 Proofs.C06_Status
  Model.C06_P4_Conv Proofs.C06_P4_Shift64 Proofs.C06_P4_Div64a Proofs.C06_P4_Div64b Proofs.C06_P4_Int64 Proofs.C06_P4_Conv.
Import ListNotations.
Local Open Scope Z_scope.

(* ---- the model IS what the compiler emits today (all kinds, operators, shapes) ------------- *)
Theorem C06_emitted_bin32 : forall k o, is64 k = false -> g_bin32 k o = Some (bin32 current k o).
Proof. exact tie_bin32. Qed.
Print Assumptions C06_emitted_bin32.
Theorem C06_emitted_bin64 : forall k o, is64 k = true -> g_bin64 k o = Some (bin64 current k o).
Proof. exact tie_bin64. Qed.
Print Assumptions C06_emitted_bin64.
Theorem C06_emitted_cmp32 : forall k c, is64 k = false -> g_cmp32 k c = Some (cmp32 c).
Proof. exact tie_cmp32. Qed.
Print Assumptions C06_emitted_cmp32.
Theorem C06_emitted_cmp64 : forall k c, is64 k = true -> g_cmp64 k c = Some (cmp64 c).
Proof. exact tie_cmp64. Qed.
Print Assumptions C06_emitted_cmp64.
Theorem C06_emitted_un32 : forall k u, is64 k = false -> g_un32 k u = Some (un32 current k u).
Proof. exact tie_un32. Qed.
Print Assumptions C06_emitted_un32.
Theorem C06_emitted_un64 : forall k u, is64 k = true -> g_un64 k u = Some (un64 current k u).
Proof. exact tie_un64. Qed.
Print Assumptions C06_emitted_un64.
Theorem C06_emitted_shv32 : forall k s, is64 k = false -> g_shv32 k s = Some (shv32 k s).
Proof. exact tie_shv32. Qed.
Print Assumptions C06_emitted_shv32.
Theorem C06_emitted_shv64 : forall k s, is64 k = true -> g_shv64 k s = Some (sh64 current k s).
Proof. exact tie_shv64. Qed.
Print Assumptions C06_emitted_shv64.
Theorem C06_emitted_shc32 : forall k s, is64 k = false ->
  g_shc32 k s = map (fun c => (c, shc32 current k s c)) sample_counts.
Proof. exact tie_shc32. Qed.
Print Assumptions C06_emitted_shc32.
Theorem C06_emitted_shc64 : forall k s, is64 k = true ->
  g_shc64 k s = map (fun c => (c, fun x => sh64 current k s x (Fin c))) sample_counts.
Proof. exact tie_shc64. Qed.
Print Assumptions C06_emitted_shc64.
Theorem C06_emitted_conv_nn : forall k1 k2, is64 k1 = false -> is64 k2 = false -> k1 <> k2 ->
  g_conv_nn k1 k2 = Some (conv_nn k2).
Proof. exact tie_conv_nn. Qed.
Print Assumptions C06_emitted_conv_nn.
Theorem C06_emitted_conv_no : forall k1 k2, is64 k1 = false -> is64 k2 = true ->
  g_conv_no k1 k2 = Some (conv_no current k2).
Proof. exact tie_conv_no. Qed.
Print Assumptions C06_emitted_conv_no.
Theorem C06_emitted_conv_on : forall k1 k2, is64 k1 = true -> is64 k2 = false ->
  g_conv_on k1 k2 = Some (conv_on k1 k2).
Proof. exact tie_conv_on. Qed.
Print Assumptions C06_emitted_conv_on.
Theorem C06_emitted_conv_oo : forall k1 k2, is64 k1 = true -> is64 k2 = true -> k1 <> k2 ->
  g_conv_oo k1 k2 = Some (conv_oo current k2).
Proof. exact tie_conv_oo. Qed.
Print Assumptions C06_emitted_conv_oo.
Theorem C06_is64bit_table : forall k, is64b k = is64 k.
Proof. exact is64b_is64. Qed.
Print Assumptions C06_is64bit_table.

(* ---- fixNumber (regenerated table): wraps ANY integer into the kind ------------------------ *)
Theorem C06_fixnumber_wraps : forall k z, is64 k = false -> fixnum k (Fin z) = Fin (wrap k z).
Proof. exact fixnum_fin. Qed.
Print Assumptions C06_fixnumber_wraps.

(* ---- operators of the 9 kinds of at most 32 bits, for every repair variant V,
        all in-range operands (unbounded) ----------------------------------------------------- *)
Theorem C06_add_correct : forall V k x y, is64 k = false -> in_range k x -> in_range k y ->
  bin32 V k Add (Fin x) (Fin y) = embed (go_bin k Add x y).
Proof. exact add32_correct. Qed.
Print Assumptions C06_add_correct.
Theorem C06_sub_correct : forall V k x y, is64 k = false -> in_range k x -> in_range k y ->
  bin32 V k Sub (Fin x) (Fin y) = embed (go_bin k Sub x y).
Proof. exact sub32_correct. Qed.
Print Assumptions C06_sub_correct.
Theorem C06_mul_correct : forall V k x y, is64 k = false -> in_range k x -> in_range k y ->
  bin32 V k Mul (Fin x) (Fin y) = embed (go_bin k Mul x y).
Proof. exact mul32_correct. Qed.
Print Assumptions C06_mul_correct.
Theorem C06_and_correct : forall V k x y, is64 k = false -> in_range k x -> in_range k y ->
  bin32 V k And (Fin x) (Fin y) = embed (go_bin k And x y).
Proof. exact and32_correct. Qed.
Print Assumptions C06_and_correct.
Theorem C06_or_correct : forall V k x y, is64 k = false -> in_range k x -> in_range k y ->
  bin32 V k Or (Fin x) (Fin y) = embed (go_bin k Or x y).
Proof. exact or32_correct. Qed.
Print Assumptions C06_or_correct.
Theorem C06_xor_correct : forall V k x y, is64 k = false ->
  bin32 V k Xor (Fin x) (Fin y) = embed (go_bin k Xor x y).
Proof. exact xor32_correct. Qed.
Print Assumptions C06_xor_correct.
Theorem C06_andnot_correct : forall V k x y, is64 k = false ->
  bin32 V k AndNot (Fin x) (Fin y) = embed (go_bin k AndNot x y).
Proof. exact andnot32_correct. Qed.
Print Assumptions C06_andnot_correct.
Theorem C06_bitwise_results_in_range : forall k x y, in_range k x -> in_range k y ->
  in_range k (Z.land x y) /\ in_range k (Z.lor x y) /\ in_range k (Z.lxor x y).
Proof. exact bitwise_results_in_range. Qed.
Print Assumptions C06_bitwise_results_in_range.
Theorem C06_cmp_correct : forall c x y, cmp32 c (Fin x) (Fin y) = Ret (Some (go_cmp c x y)).
Proof. exact cmp32_correct. Qed.
Print Assumptions C06_cmp_correct.
Theorem C06_not_correct : forall V k x, is64 k = false -> un32 V k Not (Fin x) = Ret (Fin (go_un k Not x)).
Proof. exact not32_correct. Qed.
Print Assumptions C06_not_correct.
Theorem C06_conv_correct : forall k2 x, is64 k2 = false -> conv_nn k2 (Fin x) = Ret (Fin (go_conv k2 x)).
Proof. exact conv_nn_correct. Qed.
Print Assumptions C06_conv_correct.

(* ---- EVERY binary and unary operator of the 9 kinds of at most 32 bits, for the code under test
        ([current] = the variant probed in this run; all repairs present), all in-range operands, no exclusions:
        wrap-around, truncated division and remainder, panic exactly on a zero divisor, no -0, no inexact
        intermediate.  (History: with v_quo/v_rem/v_neg = false these failed at int8/int16 MinInt / -1,
        at zero remainders of negative dividends and at -MinInt / -0; Proofs/C06_Div32.v and C06_Bits32.v keep
        the refutations for those variants.) *)
Theorem C06_binop_correct : forall k o x y, is64 k = false -> in_range k x -> in_range k y ->
  bin32 current k o (Fin x) (Fin y) = embed (go_bin k o x y).
Proof. exact bin32_current_correct. Qed.
Print Assumptions C06_binop_correct.
Theorem C06_unop_correct : forall k u x, is64 k = false -> in_range k x ->
  un32 current k u (Fin x) = Ret (Fin (go_un k u x)).
Proof. exact un32_current_correct. Qed.
Print Assumptions C06_unop_correct.
Theorem C06_binop_result_in_range : forall k o x y v, in_range k x -> in_range k y -> go_bin k o x y = GVal v -> in_range k v.
Proof. exact go_bin_in_range. Qed.
Print Assumptions C06_binop_result_in_range.
Theorem C06_unop_result_in_range : forall k u x, in_range k (go_un k u x).
Proof. exact go_un_in_range. Qed.
Print Assumptions C06_unop_result_in_range.
(* the same for ANY variant that has the respective repair (so the statements do not silently depend on [current]) *)
Theorem C06_quo_repaired_full : forall V, v_quo V = true -> quo_full_statement V.
Proof. exact quo_repaired_full. Qed.
Print Assumptions C06_quo_repaired_full.
Theorem C06_rem_repaired_full : forall V, v_rem V = true -> rem_full_statement V.
Proof. exact rem_repaired_full. Qed.
Print Assumptions C06_rem_repaired_full.
Theorem C06_neg_repaired_full : forall V, v_neg V = true -> neg_full_statement V.
Proof. exact neg_repaired_full. Qed.
Print Assumptions C06_neg_repaired_full.

(* ---- shifts by ANY non-negative count (variable count; constant count c, also beyond the sampled ones) ---- *)
Theorem C06_shl_var_correct : forall k x n, is64 k = false -> 0 <= n ->
  shv32 k Shl (Fin x) (Fin n) = Ret (Fin (go_shift k Shl x n)).
Proof. exact shl32_var_correct. Qed.
Print Assumptions C06_shl_var_correct.
Theorem C06_shr_var_correct : forall k x n, is64 k = false -> in_range k x -> 0 <= n ->
  shv32 k Shr (Fin x) (Fin n) = Ret (Fin (go_shift k Shr x n)).
Proof. exact shr32_var_correct. Qed.
Print Assumptions C06_shr_var_correct.
Theorem C06_shift_const_correct : forall k s c x, is64 k = false -> in_range k x -> 0 <= c ->
  shc32 current k s c (Fin x) = Ret (Fin (go_shift k s x c)).
Proof. exact shc_current_full. Qed.
Print Assumptions C06_shift_const_correct.
Theorem C06_shift_const_repaired_full : forall V, v_shrc V = true -> shc_full_statement V.
Proof. exact shc_repaired_full. Qed.
Print Assumptions C06_shift_const_repaired_full.
Theorem C06_shift_result_in_range : forall k s x n, in_range k x -> 0 <= n -> in_range k (go_shift k s x n).
Proof. exact go_shift_in_range. Qed.
Print Assumptions C06_shift_result_in_range.
Theorem C06_shift_results_in_range : forall k x n, in_range k x -> 0 <= n -> in_range k (Z.shiftr x n).
Proof. exact shiftr_in_range. Qed.
Print Assumptions C06_shift_results_in_range.

(* ---- 64-bit kinds: a value v is the object enc64 k v = ($high = v / 2^32, $low = v mod 2^32) ------------
   Proved: constructor normalisation, + - * & | ^ &^, unary - ^, all comparisons, every conversion from/to/between 64-bit kinds.
   NOT proved (modelled, tied differentially on grids against BigInt and the model; hence _partial):
   $div64 (/ and %: the two loops' invariant) and $shiftLeft64/$shiftRightInt64/$shiftRightUint64. *)
Definition C06_int64_full_statement (V : variant) : Prop :=
  forall k o x y, is64 k = true -> in_range k x -> in_range k y ->
  bin64 V k o (enc64 k x) (enc64 k y) =
  match go_bin k o x y with GVal v => Ret (enc64 k v) | GPanicDivide => Throw DivideByZero end.
Theorem C06_int64_binop_correct_partial : forall V k o x y, is64 k = true -> in_range k x -> in_range k y ->
  o <> Quo -> o <> Rem ->
  bin64 V k o (enc64 k x) (enc64 k y) =
  match go_bin k o x y with GVal v => Ret (enc64 k v) | GPanicDivide => Throw DivideByZero end.
Proof. exact bin64_correct_partial. Qed.
Print Assumptions C06_int64_binop_correct_partial.
Theorem C06_ctor64_normalises : forall tr sg h l, - two53 <= h + l / two32 <= two53 ->
  new64v tr sg (Fin h) (Fin l) = enc64 (k64 sg) (wrap (k64 sg) (h * two32 + l)).
Proof. exact new64_norm. Qed.
Print Assumptions C06_ctor64_normalises.
Theorem C06_add64_correct : forall V k x y, is64 k = true -> in_range k x -> in_range k y ->
  bin64 V k Add (enc64 k x) (enc64 k y) = Ret (enc64 k (wrap k (x + y))).
Proof. exact add64_correct. Qed.
Print Assumptions C06_add64_correct.
Theorem C06_sub64_correct : forall V k x y, is64 k = true -> in_range k x -> in_range k y ->
  bin64 V k Sub (enc64 k x) (enc64 k y) = Ret (enc64 k (wrap k (x - y))).
Proof. exact sub64_correct. Qed.
Print Assumptions C06_sub64_correct.
(* $mul64: schoolbook multiplication on 16-bit digits is the product modulo 2^64, for ALL operands
   (every intermediate is below 2^32 + 2^34, far below 2^53). *)
Theorem C06_mul64_correct : forall V k x y, is64 k = true ->
  bin64 V k Mul (enc64 k x) (enc64 k y) = Ret (enc64 k (wrap k (x * y))).
Proof. exact mul64_bin_correct. Qed.
Print Assumptions C06_mul64_correct.
Theorem C06_mul64_helper_correct : forall tr sg sg' xh xl yh yl, 0 <= xl < two32 -> 0 <= yl < two32 ->
  mul64 tr (O64 sg xh xl) (O64 sg' yh yl) =
  enc64 (k64 sg) (wrap (k64 sg) (((xh mod two32) * two32 + xl) * ((yh mod two32) * two32 + yl))).
Proof. exact mul64_value. Qed.
Print Assumptions C06_mul64_helper_correct.
Theorem C06_and64_correct : forall V k x y, is64 k = true -> in_range k x -> in_range k y ->
  bin64 V k And (enc64 k x) (enc64 k y) = Ret (enc64 k (Z.land x y)).
Proof. exact and64_correct. Qed.
Print Assumptions C06_and64_correct.
Theorem C06_or64_correct : forall V k x y, is64 k = true -> in_range k x -> in_range k y ->
  bin64 V k Or (enc64 k x) (enc64 k y) = Ret (enc64 k (Z.lor x y)).
Proof. exact or64_correct. Qed.
Print Assumptions C06_or64_correct.
Theorem C06_xor64_correct : forall V k x y, is64 k = true -> in_range k x -> in_range k y ->
  bin64 V k Xor (enc64 k x) (enc64 k y) = Ret (enc64 k (wrap k (Z.lxor x y))).
Proof. exact xor64_correct. Qed.
Print Assumptions C06_xor64_correct.
Theorem C06_andnot64_correct : forall V k x y, is64 k = true ->
  bin64 V k AndNot (enc64 k x) (enc64 k y) = Ret (enc64 k (wrap k (Z.land x (Z.lnot y)))).
Proof. exact andnot64_correct. Qed.
Print Assumptions C06_andnot64_correct.
Theorem C06_not64_correct : forall V k x, is64 k = true -> in_range k x ->
  un64 V k Not (enc64 k x) = Ret (enc64 k (go_un k Not x)).
Proof. exact not64_correct. Qed.
Print Assumptions C06_not64_correct.
Theorem C06_conv_64to32_correct : forall k1 k2 x, is64 k1 = true -> is64 k2 = false -> in_range k1 x ->
  conv_on k1 k2 (enc64 k1 x) = Ret (Fin (go_conv k2 x)).
Proof. exact conv_on_correct. Qed.
Print Assumptions C06_conv_64to32_correct.
Theorem C06_neg64_correct : forall V k x, is64 k = true -> in_range k x ->
  un64 V k Neg (enc64 k x) = Ret (enc64 k (go_un k Neg x)).
Proof. exact neg64_correct. Qed.
Print Assumptions C06_neg64_correct.
Theorem C06_cmp64_correct : forall c k x y, cmp64 c (enc64 k x) (enc64 k y) = Ret (Some (go_cmp c x y)).
Proof. exact cmp64_correct. Qed.
Print Assumptions C06_cmp64_correct.
Theorem C06_conv_to64_correct : forall V k2 x, is64 k2 = true -> - two31 <= x < two32 ->
  conv_no V k2 (Fin x) = Ret (enc64 k2 (go_conv k2 x)).
Proof. exact conv_no_correct. Qed.
Print Assumptions C06_conv_to64_correct.
Theorem C06_conv_64to64_correct : forall V k1 k2 x, is64 k1 = true -> is64 k2 = true -> in_range k1 x ->
  conv_oo V k2 (enc64 k1 x) = Ret (enc64 k2 (go_conv k2 x)).
Proof. exact conv_oo_correct. Qed.
Print Assumptions C06_conv_64to64_correct.

(* ---- Phase 4: $div64 (both loops, by invariant), the 64-bit shifts for every count, and with them EVERY
        binary operator of int64/uint64: C06_int64_full_statement is closed for every variant V. ------------------
   A pair of 32-bit words (h, l) denotes val2 h l = h * 2^32 + l; qrep h l Q: the quotient register (a signed high
   word and an unsigned low word) represents Q modulo 2^64. *)
(* one `y <<= 1` of the first loop and one `y >>>= 1` of the second are exact on pairs *)
Theorem C06_div64_shl1_exact : forall yh yl, 0 <= yh < two31 -> 0 <= yl < two32 ->
  let yh' := to_uint32 (or32 (shl32 yh 1) (ushr32 yl 31)) in
  let yl' := to_uint32 (shl32 yl 1) in
  val2 yh' yl' = 2 * val2 yh yl /\ 0 <= yh' < two32 /\ 0 <= yl' < two32.
Proof. exact shl1_pair. Qed.
Print Assumptions C06_div64_shl1_exact.
Theorem C06_div64_shr1_exact : forall yh yl, 0 <= yh < two32 -> 0 <= yl < two32 ->
  let yh' := ushr32 yh 1 in
  let yl' := to_uint32 (or32 (ushr32 yl 1) (shl32 yh 31)) in
  val2 yh' yl' = val2 yh yl / 2 /\ 0 <= yh' < two32 /\ 0 <= yl' < two32.
Proof. exact shr1_pair. Qed.
Print Assumptions C06_div64_shr1_exact.
(* invariant of the normalisation loop `while (yHigh < 2^31 && x > y) { y <<= 1; n++ }`: y = y0 * 2^(n - n0); with fuel f
   such that y0 * 2^f >= 2^63 (64 suffices for any y0 >= 1) the loop left through its condition and x < 2 * y *)
Theorem C06_div64_norm_loop_invariant : forall f xh xl yh yl n,
  0 <= xl < two32 -> 0 <= yh < two32 -> 0 <= yl < two32 ->
  0 < val2 yh yl -> val2 xh xl < two64 -> two64 <= 2 * (val2 yh yl * 2 ^ Z.of_nat f) ->
  exists j : nat,
    snd (div_norm f xh xl yh yl n) = n + Z.of_nat j /\
    let yh' := fst (fst (div_norm f xh xl yh yl n)) in
    let yl' := snd (fst (div_norm f xh xl yh yl n)) in
    val2 yh' yl' = val2 yh yl * 2 ^ Z.of_nat j /\ 0 <= yh' < two32 /\ 0 <= yl' < two32 /\
    val2 xh xl < 2 * val2 yh' yl'.
Proof. exact div_norm_spec. Qed.
Print Assumptions C06_div64_norm_loop_invariant.
(* one iteration of the quotient loop: x' = x - b*y, q' = 2q + b (b = [y <= x]), y' = y / 2; the `low === 4294967296` carry is dead *)
Theorem C06_div64_step_invariant : forall s Q,
  0 <= d_xl s < two32 -> 0 <= d_yh s < two32 -> 0 <= d_yl s < two32 -> qrep (d_high s) (d_low s) Q ->
  let X := val2 (d_xh s) (d_xl s) in
  let Y := val2 (d_yh s) (d_yl s) in
  let b := if Y <=? X then 1 else 0 in
  let s' := div_step s in
  val2 (d_xh s') (d_xl s') = X - b * Y /\ 0 <= d_xl s' < two32 /\
  val2 (d_yh s') (d_yl s') = Y / 2 /\ 0 <= d_yh s' < two32 /\ 0 <= d_yl s' < two32 /\
  qrep (d_high s') (d_low s') (2 * Q + b).
Proof. exact div_step_spec. Qed.
Print Assumptions C06_div64_step_invariant.
(* the quotient loop: j+1 iterations from y = D * 2^j, x < 2y end with x = x0 mod D and q = q0 * 2^(j+1) + x0 / D *)
Theorem C06_div64_quot_loop_invariant : forall (j : nat) s D Q,
  0 < D ->
  0 <= d_xl s < two32 -> 0 <= d_yh s < two32 -> 0 <= d_yl s < two32 -> qrep (d_high s) (d_low s) Q ->
  val2 (d_yh s) (d_yl s) = D * 2 ^ Z.of_nat j ->
  0 <= val2 (d_xh s) (d_xl s) < 2 * (D * 2 ^ Z.of_nat j) ->
  let s' := div_iter (S j) s in
  val2 (d_xh s') (d_xl s') = val2 (d_xh s) (d_xl s) mod D /\ 0 <= d_xl s' < two32 /\
  qrep (d_high s') (d_low s') (Q * 2 ^ (Z.of_nat j + 1) + val2 (d_xh s) (d_xl s) / D).
Proof. exact div_iter_spec. Qed.
Print Assumptions C06_div64_quot_loop_invariant.
(* the helper: truncated quotient / remainder with the sign of the dividend, wrapped (MinInt64 / -1 = MinInt64), all operands *)
Theorem C06_div64_helper_correct : forall tr k x y rem, is64 k = true -> in_range k x -> in_range k y -> y <> 0 ->
  div64 tr (enc64 k x) (enc64 k y) rem = Ret (enc64 k (wrap k (if rem then Z.rem x y else Z.quot x y))).
Proof. exact div64_value. Qed.
Print Assumptions C06_div64_helper_correct.
Theorem C06_div64_zero_throws : forall tr k x rem, div64 tr (enc64 k x) (enc64 k 0) rem = Throw DivideByZero.
Proof. exact div64_throw. Qed.
Print Assumptions C06_div64_zero_throws.
Theorem C06_quo64_correct : forall V k x y, is64 k = true -> in_range k x -> in_range k y ->
  bin64 V k Quo (enc64 k x) (enc64 k y) =
  match go_bin k Quo x y with GVal v => Ret (enc64 k v) | GPanicDivide => Throw DivideByZero end.
Proof. exact quo64_correct. Qed.
Print Assumptions C06_quo64_correct.
Theorem C06_rem64_correct : forall V k x y, is64 k = true -> in_range k x -> in_range k y ->
  bin64 V k Rem (enc64 k x) (enc64 k y) =
  match go_bin k Rem x y with GVal v => Ret (enc64 k v) | GPanicDivide => Throw DivideByZero end.
Proof. exact rem64_correct. Qed.
Print Assumptions C06_rem64_correct.
Theorem C06_div64_minint : forall V,
  bin64 V Int64 Quo (enc64 Int64 (-9223372036854775808)) (enc64 Int64 (-1)) = Ret (enc64 Int64 (-9223372036854775808)) /\
  bin64 V Int64 Rem (enc64 Int64 (-9223372036854775808)) (enc64 Int64 (-1)) = Ret (enc64 Int64 0).
Proof. exact quo64_minint. Qed.
Print Assumptions C06_div64_minint.
(* EVERY binary operator of int64/uint64, every variant, all in-range operands: the full statement, no exclusions *)
Theorem C06_int64_binop_correct : forall V, C06_int64_full_statement V.
Proof. exact bin64_full. Qed.
Print Assumptions C06_int64_binop_correct.
(* $shiftLeft64 / $shiftRightInt64 / $shiftRightUint64 for EVERY count n >= 0 (0, < 32, 32, 32..63, >= 64; unbounded) *)
Theorem C06_shl64_var_correct : forall V k x n, is64 k = true -> in_range k x -> 0 <= n ->
  sh64 V k Shl (enc64 k x) (Fin n) = Ret (enc64 k (go_shift k Shl x n)).
Proof. exact shl64_correct. Qed.
Print Assumptions C06_shl64_var_correct.
Theorem C06_shr64_var_correct : forall V k x n, is64 k = true -> in_range k x -> 0 <= n ->
  sh64 V k Shr (enc64 k x) (Fin n) = Ret (enc64 k (go_shift k Shr x n)).
Proof. exact shr64_correct. Qed.
Print Assumptions C06_shr64_var_correct.
(* constant counts are emitted as the same helper call with the literal count (C06_emitted_shc64), so: *)
Theorem C06_shift64_const_correct : forall V k s c x, is64 k = true -> in_range k x -> 0 <= c ->
  sh64 V k s (enc64 k x) (Fin c) = Ret (enc64 k (go_shift k s x c)).
Proof. exact sh64_const_correct. Qed.
Print Assumptions C06_shift64_const_correct.
Theorem C06_shift64_result_in_range : forall k s x n, is64 k = true -> in_range k x -> 0 <= n -> in_range k (go_shift k s x n).
Proof. exact go_shift64_in_range. Qed.
Print Assumptions C06_shift64_result_in_range.

(* ---- Phase 4: float64 <-> 64-bit kinds.  The emitted templates (regenerated each run) are the models: ---- *)
Theorem C06_emitted_conv_float_to64 : forall k2, is64 k2 = true -> g_conv_fo k2 = Some (conv_fo current k2).
Proof. exact tie_conv_fo. Qed.
Print Assumptions C06_emitted_conv_float_to64.
Theorem C06_emitted_conv_64_to_float : forall k1, is64 k1 = true -> g_conv_of k1 = Some conv_of.
Proof. exact tie_conv_of. Qed.
Print Assumptions C06_emitted_conv_64_to_float.
(* float64 n/d -> int64/uint64 truncates toward zero for every value whose truncation is in range, when the constructor uses
   Math.trunc (v_ctor, probed per run); with Math.ceil (the tree before the repair) the statement is false: int64(4294967295.5) *)
Theorem C06_conv_float_to64_correct : forall V, v_ctor V = true -> conv_fo_full_statement V.
Proof. exact conv_fo_correct. Qed.
Print Assumptions C06_conv_float_to64_correct.
Theorem C06_conv_float_to64_ceil_refuted : forall V, v_ctor V = false -> ~ conv_fo_full_statement V.
Proof. exact conv_fo_ceil_refuted. Qed.
Print Assumptions C06_conv_float_to64_ceil_refuted.
(* int64/uint64 -> float64 ($flatten64) is exact for |x| <= 2^53 (above, the result is a rounded double: outside the model, compared only) *)
Theorem C06_conv_64_to_float_exact : forall k x, is64 k = true -> in_range k x -> - two53 <= x <= two53 ->
  conv_of (enc64 k x) = Ret (Fin x).
Proof. exact conv_of_exact. Qed.
Print Assumptions C06_conv_64_to_float_exact.

(* Non-vacuity: concrete in-range operands through the emitted (regenerated) templates. *)
Example C06_nonvacuous :
  in_range Int8 (-128) /\ in_range Int8 127 /\
  (match g_bin32 Int8 Add with Some f => f (Fin 127) (Fin 127) | None => RUnk end) = Ret (Fin (-2)) /\
  (match g_bin32 Uint32 Mul with Some f => f (Fin 4294967295) (Fin 4294967295) | None => RUnk end) = Ret (Fin 1) /\
  (match g_bin32 Int16 Quo with Some f => f (Fin (-7)) (Fin 2) | None => RUnk end) = Ret (Fin (-3)) /\
  (match g_bin32 Int Rem with Some f => f (Fin (-7)) (Fin 0) | None => RUnk end) = Throw DivideByZero.
Proof. vm_compute. repeat split; intro; discriminate. Qed.
Example C06_nonvacuous_p4 :
  in_range Int64 (-9223372036854775808) /\ in_range Uint64 18446744073709551615 /\
  (match g_bin64 Int64 Quo with Some f => f (enc64 Int64 (-7)) (enc64 Int64 2) | None => RUnk end) = Ret (enc64 Int64 (-3)) /\
  (match g_bin64 Uint64 Rem with Some f => f (enc64 Uint64 18446744073709551615) (enc64 Uint64 10) | None => RUnk end) = Ret (enc64 Uint64 5) /\
  (match g_bin64 Int64 Rem with Some f => f (enc64 Int64 5) (enc64 Int64 0) | None => RUnk end) = Throw DivideByZero /\
  (match g_shv64 Int64 Shr with Some f => f (enc64 Int64 (-9223372036854775808)) (Fin 63) | None => RUnk end) = Ret (enc64 Int64 (-1)) /\
  (match g_shv64 Uint64 Shl with Some f => f (enc64 Uint64 3) (Fin 63) | None => RUnk end) = Ret (enc64 Uint64 9223372036854775808) /\
  (match g_conv_fo Int64 with Some f => f (jreal (-8589934591) 2) | None => RUnk end) = Ret (enc64 Int64 (-4294967295)) /\
  (match g_conv_of Uint64 with Some f => f (enc64 Uint64 9007199254740992) | None => RUnk end) = Ret (Fin 9007199254740992) /\
  v_ctor current = true.
Proof. vm_compute. repeat split; intro; discriminate. Qed.
