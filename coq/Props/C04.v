(* C04 — Every used generic instantiation exists, is distinct and behaves correctly.
   This file holds ONLY the property theorems (each closed by [exact lemma]) and their Print Assumptions.
   Model: Model/C04_Inst.v (typeparams.Collector.Scan/Finish/propagate, InstanceSet.Add/ID, InstanceMap equality,
   Resolver substitution, isGeneric).  Tie: harness/py/props/c04.py runs the real Collector and the model on the
   same generated multi-package programs (exact discovery lists) and runs the compiled programs against native Go.

   What is proved is the collection half of the property (every instance reachable at run time exists, exactly
   once, with an id of its own, whatever order the packages are visited in).  "Behaves correctly" - the per-instance
   translation of bodies - is not modelled here; it is covered differentially by the compiled-program comparison. *)
From Coq Require Import List NArith Bool Arith.
From Verif Require Import Model.C04_Inst Proofs.C04_Inst.
Import ListNotations.

(* Whenever Finish returns (all sets exhausted), for EVERY sequence of package visits and every fuel, the collected
   set is exactly Reach: the least set that contains the instances used by non-generic code and is closed under
   substituting an instance's type arguments into the template of its object (methods come with their type). *)
Theorem C04_collect_lfp : forall p, wf_prog p -> forall fuel sched,
  all_exhausted (collect p fuel sched) = true ->
  forall i, In i (all_vals (collect p fuel sched)) <-> Reach p i.
Proof. exact collect_lfp_lem. Qed.
Print Assumptions C04_collect_lfp.

(* Reach really is the least closed set. *)
Theorem C04_reach_least : forall p S, closed_set p S -> forall i, Reach p i -> S i.
Proof. exact Reach_least. Qed.
Print Assumptions C04_reach_least.

Theorem C04_reach_closed : forall p, closed_set p (Reach p).
Proof. exact Reach_closed. Qed.
Print Assumptions C04_reach_closed.

(* When no type declared inside a generic function is used as a type argument (no_lazy), the skip rule of
   isGeneric coincides with "a type parameter is left", and the collected set is the set of instances reachable
   in the intended semantics. *)
Theorem C04_collect_lfp_ideal : forall p, wf_prog p -> no_lazy p -> forall fuel sched,
  all_exhausted (collect p fuel sched) = true ->
  forall i, In i (all_vals (collect p fuel sched)) <-> ReachIdeal p i.
Proof. exact collect_lfp_ideal_lem. Qed.
Print Assumptions C04_collect_lfp_ideal.

(* Full statement for all programs (without no_lazy): refuted by the faithful model, and by the real compiler
   (known finding compiler-panic-local-type-of-generic-func-as-type-arg, still present after the phase-2 fixes):
     func G[T any](); func A[X any]() { type L struct{ x X }; G[L]() }; main: A[int]()
   G[L] is reachable but is never collected, because L's lazily substituted underlying type still mentions X. *)
Definition C04_full_statement : Prop := forall p, wf_prog p -> forall fuel sched,
  all_exhausted (collect p fuel sched) = true ->
  forall i, In i (all_vals (collect p fuel sched)) <-> ReachIdeal p i.

Theorem C04_local_type_arg_dropped_refuted : exists p fuel sched i,
  wf_prog p /\ all_exhausted (collect p fuel sched) = true /\ ReachIdeal p i /\
  ~ In i (all_vals (collect p fuel sched)).
Proof.
  exists prog_local, 10, [0], inst_local.
  exact (conj prog_local_wf local_type_arg_dropped_lem).
Qed.
Print Assumptions C04_local_type_arg_dropped_refuted.

(* The set does not depend on the order in which Finish ranges over its Go map. *)
Theorem C04_collect_set_order_independent : forall p, wf_prog p -> forall f1 s1 f2 s2,
  all_exhausted (collect p f1 s1) = true -> all_exhausted (collect p f2 s2) = true ->
  forall i, In i (all_vals (collect p f1 s1)) <-> In i (all_vals (collect p f2 s2)).
Proof. exact collect_set_order_independent_lem. Qed.
Print Assumptions C04_collect_set_order_independent.

(* Ids: two instances of the same package (in particular of the same object) with the same id are the same
   object with identical type arguments and nesting arguments; every collected instance has an id, and the id of
   the n-th discovered instance is n. *)
Theorem C04_id_injective : forall p st i j n,
  pkg_of p i = pkg_of p j -> inst_id p st i = Some n -> inst_id p st j = Some n -> i = j.
Proof. exact id_injective_lem. Qed.
Print Assumptions C04_id_injective.

Theorem C04_id_total : forall p fuel sched i,
  In i (all_vals (collect p fuel sched)) -> exists n, inst_id p (collect p fuel sched) i = Some n.
Proof.
  intros p fuel sched i H. apply id_total_lem; [apply collect_placed | apply In_st_all_vals; exact H].
Qed.
Print Assumptions C04_id_total.

Theorem C04_id_position : forall p fuel sched k n i,
  k < length (collect p fuel sched) ->
  nth_error (vals_k (collect p fuel sched) k) n = Some i -> inst_id p (collect p fuel sched) i = Some n.
Proof. intros. eapply id_position_lem; eauto. apply collect_placed. Qed.
Print Assumptions C04_id_position.

(* Which id an instance gets depends on the visiting order (Proofs.C04_Inst.ids_order_dependent_lem shows two orders
   giving different ids). Since fix ee2dd6c the real Finish visits the packages in ascending import path order, so the
   order is a function of the program; the check passes exactly that order to the model and compares the real Finish
   lists (= the ids) with `collect`. Ids are then a function of the program alone: *)
Theorem C04_ids_determined : forall p fuel order n1 n2 i,
  n1 = n2 -> inst_id p (collect p fuel (rounds order n1)) i = inst_id p (collect p fuel (rounds order n2)) i.
Proof. intros; subst; reflexivity. Qed.
Print Assumptions C04_ids_determined.

(* ... and extra rounds after Finish has returned change nothing (so the number of rounds the check passes is immaterial). *)
Theorem C04_exhausted_stable : forall p fuel k st,
  all_exhausted st = true -> propagate p fuel k st = st.
Proof. exact propagate_exhausted_id. Qed.
Print Assumptions C04_exhausted_stable.

(* Resolver: replacing the nesting function's parameters and then the object's own parameters is the same as
   the simultaneous replacement NewResolver builds (type arguments are closed), in either order. *)
Theorem C04_subst_compose : forall own nest t,
  forallb closed nest = true -> subst_own own (subst_nest nest t) = subst own nest t.
Proof. exact subst_compose_lem. Qed.
Print Assumptions C04_subst_compose.

Theorem C04_subst_compose' : forall own nest t,
  forallb closed own = true -> subst_nest nest (subst_own own t) = subst own nest t.
Proof. exact subst_compose_lem'. Qed.
Print Assumptions C04_subst_compose'.

(* Non-vacuity: a 3-package program in which Finish terminates, with an instance that exists only through
   propagation (c.G[[]int] via a.A[int]) and is found under both visiting orders. *)
Example C04_nonvacuous :
  wf_prog prog_ids /\
  all_exhausted (collect prog_ids 10 [0; 1; 2]) = true /\
  In inst_ids (all_vals (collect prog_ids 10 [0; 1; 2])) /\
  In inst_ids (all_vals (collect prog_ids 10 [1; 0; 2])) /\
  length (all_vals (collect prog_ids 10 [0; 1; 2])) = 4.
Proof.
  split; [exact prog_ids_wf|]. vm_compute. repeat split; auto.
Qed.
