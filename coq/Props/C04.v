(* C04 — Every used generic instantiation exists, is distinct and behaves correctly.
   This file holds ONLY the property theorems (each closed by [exact lemma]) and their Print Assumptions.
   Model: Model/C04_Inst.v (typeparams.Collector.Scan/Finish/propagate, InstanceSet.Add/ID, InstanceMap equality,
   Resolver substitution, isGeneric).  Tie: harness/py/props/c04.py runs the real Collector and the model on the
   same generated multi-package programs (exact discovery lists) and runs the compiled programs against native Go.

   What is proved is the collection half of the property (every instance reachable at run time exists, exactly
   once, with an id of its own, whatever order the packages are visited in).  "Behaves correctly" - the per-instance
   translation of bodies - is not modelled here; it is covered differentially by the compiled-program comparison. *)
From Coq Require Import List NArith Bool Arith String.
From Verif Require Import Model.C04_Inst Proofs.C04_Inst.
From Verif Require Import Model.C04_P4_Map Model.C04_P4_Name Proofs.C04_P4_Map Proofs.C04_P4_Name Proofs.C04_P4_Subst.
Import ListNotations.

(* Whenever Finish returns (all sets exhausted), for EVERY sequence of package visits and every fuel, the collected
   set is exactly Reach: the least set that contains the instances used by non-generic code and is closed under
   substituting an instance's type arguments into the template of its object (methods come with their type). *)
Theorem C04_collect_lfp : forall p, wf_prog p -> forall fuel sched,
  all_exhausted (collect p fuel sched) = true ->
  forall i, In i (all_vals (collect p fuel sched)) <-> Reach p i.
Proof. exact collect_lfp_lem. Qed.
Print Assumptions C04_collect_lfp.

(* Reach really is the least closed set. *)
Theorem C04_reach_least : forall p S, closed_set p S -> forall i, Reach p i -> S i.
Proof. exact Reach_least. Qed.
Print Assumptions C04_reach_least.

Theorem C04_reach_closed : forall p, closed_set p (Reach p).
Proof. exact Reach_closed. Qed.
Print Assumptions C04_reach_closed.

(* When no type declared inside a generic function is used as a type argument (no_lazy), the skip rule of
   isGeneric coincides with "a type parameter is left", and the collected set is the set of instances reachable
   in the intended semantics. *)
Theorem C04_collect_lfp_ideal : forall p, wf_prog p -> no_lazy p -> forall fuel sched,
  all_exhausted (collect p fuel sched) = true ->
  forall i, In i (all_vals (collect p fuel sched)) <-> ReachIdeal p i.
Proof. exact collect_lfp_ideal_lem. Qed.
Print Assumptions C04_collect_lfp_ideal.

(* Full statement for all programs (without no_lazy): refuted by the faithful model, and by the real compiler
   (known finding compiler-panic-local-type-of-generic-func-as-type-arg, still present after the phase-2 fixes):
     func G[T any](); func A[X any]() { type L struct{ x X }; G[L]() }; main: A[int]()
   G[L] is reachable but is never collected, because L's lazily substituted underlying type still mentions X. *)
Definition C04_full_statement : Prop := forall p, wf_prog p -> forall fuel sched,
  all_exhausted (collect p fuel sched) = true ->
  forall i, In i (all_vals (collect p fuel sched)) <-> ReachIdeal p i.

Theorem C04_local_type_arg_dropped_refuted : exists p fuel sched i,
  wf_prog p /\ all_exhausted (collect p fuel sched) = true /\ ReachIdeal p i /\
  ~ In i (all_vals (collect p fuel sched)).
Proof.
  exists prog_local, 10, [0], inst_local.
  exact (conj prog_local_wf local_type_arg_dropped_lem).
Qed.
Print Assumptions C04_local_type_arg_dropped_refuted.

(* The set does not depend on the order in which Finish ranges over its Go map. *)
Theorem C04_collect_set_order_independent : forall p, wf_prog p -> forall f1 s1 f2 s2,
  all_exhausted (collect p f1 s1) = true -> all_exhausted (collect p f2 s2) = true ->
  forall i, In i (all_vals (collect p f1 s1)) <-> In i (all_vals (collect p f2 s2)).
Proof. exact collect_set_order_independent_lem. Qed.
Print Assumptions C04_collect_set_order_independent.

(* Ids: two instances of the same package (in particular of the same object) with the same id are the same
   object with identical type arguments and nesting arguments; every collected instance has an id, and the id of
   the n-th discovered instance is n. *)
Theorem C04_id_injective : forall p st i j n,
  pkg_of p i = pkg_of p j -> inst_id p st i = Some n -> inst_id p st j = Some n -> i = j.
Proof. exact id_injective_lem. Qed.
Print Assumptions C04_id_injective.

Theorem C04_id_total : forall p fuel sched i,
  In i (all_vals (collect p fuel sched)) -> exists n, inst_id p (collect p fuel sched) i = Some n.
Proof.
  intros p fuel sched i H. apply id_total_lem; [apply collect_placed | apply In_st_all_vals; exact H].
Qed.
Print Assumptions C04_id_total.

Theorem C04_id_position : forall p fuel sched k n i,
  k < List.length (collect p fuel sched) ->
  nth_error (vals_k (collect p fuel sched) k) n = Some i -> inst_id p (collect p fuel sched) i = Some n.
Proof. intros. eapply id_position_lem; eauto. apply collect_placed. Qed.
Print Assumptions C04_id_position.

(* Which id an instance gets depends on the visiting order (Proofs.C04_Inst.ids_order_dependent_lem shows two orders
   giving different ids). Since fix ee2dd6c the real Finish visits the packages in ascending import path order, so the
   order is a function of the program; the check passes exactly that order to the model and compares the real Finish
   lists (= the ids) with `collect`. Ids are then a function of the program alone: *)
Theorem C04_ids_determined : forall p fuel order n1 n2 i,
  n1 = n2 -> inst_id p (collect p fuel (rounds order n1)) i = inst_id p (collect p fuel (rounds order n2)) i.
Proof. intros; subst; reflexivity. Qed.
Print Assumptions C04_ids_determined.

(* ... and extra rounds after Finish has returned change nothing (so the number of rounds the check passes is immaterial). *)
Theorem C04_exhausted_stable : forall p fuel k st,
  all_exhausted st = true -> propagate p fuel k st = st.
Proof. exact propagate_exhausted_id. Qed.
Print Assumptions C04_exhausted_stable.

(* Resolver: replacing the nesting function's parameters and then the object's own parameters is the same as
   the simultaneous replacement NewResolver builds (type arguments are closed), in either order. *)
Theorem C04_subst_compose : forall own nest t,
  forallb closed nest = true -> subst_own own (subst_nest nest t) = subst own nest t.
Proof. exact subst_compose_lem. Qed.
Print Assumptions C04_subst_compose.

Theorem C04_subst_compose' : forall own nest t,
  forallb closed own = true -> subst_nest nest (subst_own own t) = subst own nest t.
Proof. exact subst_compose_lem'. Qed.
Print Assumptions C04_subst_compose'.

(* Non-vacuity: a 3-package program in which Finish terminates, with an instance that exists only through
   propagation (c.G[[]int] via a.A[int]) and is found under both visiting orders. *)
Example C04_nonvacuous :
  wf_prog prog_ids /\
  all_exhausted (collect prog_ids 10 [0; 1; 2]) = true /\
  In inst_ids (all_vals (collect prog_ids 10 [0; 1; 2])) /\
  In inst_ids (all_vals (collect prog_ids 10 [1; 0; 2])) /\
  List.length (all_vals (collect prog_ids 10 [0; 1; 2])) = 4.
Proof.
  split; [exact prog_ids_wf|]. vm_compute. repeat split; auto.
Qed.

(* ====================================================================== phase 4 ==================================== *)

(* ---- (1) names.  The JS reference the compiler prints for an instance is objectName(o)[id]  (compiler/utils.go
   instName; Model/C04_P4_Name.js_ref = (package, variable, id); trivial instances have no id).  Two instances with the
   same reference are the same object with identical type arguments and identical nesting arguments - whatever the
   type arguments are (nested instances, local types' nesting arguments) and in whatever package: the package is part
   of the reference.  vars_distinct = newVariable gives distinct objects of a package distinct variables (checked on
   every compiled program by the correspondence). *)
Theorem C04_js_ref_generic_injective : forall p st nm i j pk v n,
  js_ref p st nm i = Some (pk, v, Some n) -> js_ref p st nm j = Some (pk, v, Some n) -> i = j.
Proof. exact js_ref_generic_injective_lem. Qed.
Print Assumptions C04_js_ref_generic_injective.

(* ... and with the trivial instances of non-generic objects (reference = the variable alone, no id): *)
Theorem C04_js_ref_injective : forall p st nm i j r,
  vars_distinct p nm -> is_obj p (i_obj i) -> is_obj p (i_obj j) ->
  js_ref p st nm i = Some r -> js_ref p st nm j = Some r -> i = j.
Proof. exact js_ref_injective_lem. Qed.
Print Assumptions C04_js_ref_injective.

(* identical instances always get the same reference, the same printed name and the same strings *)
Theorem C04_js_ref_same : forall p st nm i j,
  inst_eqb i j = true ->
  js_ref p st nm i = js_ref p st nm j /\ js_name p st nm i = js_name p st nm j /\
  type_string nm i = type_string nm j /\ inst_string nm i = inst_string nm j.
Proof. exact js_ref_same_lem. Qed.
Print Assumptions C04_js_ref_same.

(* every collected instance has a reference (instName cannot panic on it), and its id is its discovery position *)
Theorem C04_js_ref_total : forall p fuel sched nm i,
  In i (all_vals (collect p fuel sched)) -> exists r, js_ref p (collect p fuel sched) nm i = Some r.
Proof. exact js_ref_total_lem. Qed.
Print Assumptions C04_js_ref_total.

Theorem C04_js_ref_position : forall p fuel sched nm k n i,
  k < List.length (collect p fuel sched) -> is_trivial i = false ->
  nth_error (vals_k (collect p fuel sched) k) n = Some i ->
  js_ref p (collect p fuel sched) nm i = Some (o_pkg (get_obj p (i_obj i)), assoc (n_var nm) (i_obj i), Some n).
Proof. exact js_ref_position_lem. Qed.
Print Assumptions C04_js_ref_position.

(* Full statement for the STRINGS (Instance.TypeString = the string given to $newType, Instance.String = Decl.FullName):
   refuted.  go/types prints two types declared in different scopes of one function with the same text, so G[T] and
   G[T'] (func f() { type T int; { type T string } }) are different instances with the same type string; their JS
   references differ (G[0], G[1]).  Replayed on the real compiler on every run (coverage key p4_shadow_witness). *)
Definition C04_type_string_injective_full_statement : Prop :=
  forall nm i j, type_string nm i = type_string nm j -> i = j.

Theorem C04_type_string_injective_refuted : exists nm i j,
  i <> j /\ type_string nm i = type_string nm j /\ inst_string nm i = inst_string nm j.
Proof.
  exists nm_shadow, inst_shadow_a, inst_shadow_b.
  destruct type_string_not_injective_lem as [A [B [C _]]]. exact (conj A (conj B C)).
Qed.
Print Assumptions C04_type_string_injective_refuted.

(* what holds for the strings: with a table that spells closed types and objects injectively (no shadowing), the
   components the strings are built from determine the instance *)
Theorem C04_name_parts_injective_partial : forall nm i j,
  (forall a b, ty_str nm a = ty_str nm b -> a = b) ->
  (forall o1 o2, assoc (n_sym nm) o1 = assoc (n_sym nm) o2 -> o1 = o2) ->
  assoc (n_sym nm) (i_obj i) = assoc (n_sym nm) (i_obj j) ->
  map (ty_str nm) (i_targs i) = map (ty_str nm) (i_targs j) ->
  map (ty_str nm) (i_tnest i) = map (ty_str nm) (i_tnest j) -> i = j.
Proof. exact name_parts_injective_lem. Qed.
Print Assumptions C04_name_parts_injective_partial.

(* ---- (2) substitution through the Resolver *)
Theorem C04_subst_commutes : forall own nest,
  (forall c l, subst own nest (TCon c l) = TCon c (map (subst own nest) l)) /\
  (forall o l, subst own nest (TNamed o l) = TNamed o (map (subst own nest) l)) /\
  (forall b, subst own nest (TBase b) = TBase b).
Proof. exact subst_commutes_lem. Qed.
Print Assumptions C04_subst_commutes.

(* ground arguments, a type over the instance's own and nesting parameters: no type parameter is left *)
Theorem C04_subst_ground : forall own nest t,
  forallb closed own = true -> forallb closed nest = true ->
  scoped (List.length own) (List.length nest) t = true -> closed (subst own nest t) = true.
Proof. exact subst_ground_lem. Qed.
Print Assumptions C04_subst_ground.

(* the nested-instance case: resolving the parameters of an inner instance G[es] seen from an outer ground instance *)
Theorem C04_subst_nested_instance : forall own nest es t,
  forallb closed own = true -> forallb closed nest = true -> scoped (List.length es) 0 t = true ->
  subst own nest (subst es [] t) = subst (map (subst own nest) es) [] t.
Proof. exact subst_nested_instance_lem. Qed.
Print Assumptions C04_subst_nested_instance.

(* every instance produced from a ground context is ground in its type arguments AND its nesting arguments (TNest) *)
Theorem C04_produced_ground : forall p c it i, ground_ctx c -> produced p c it = Some i -> ground_inst i.
Proof. exact produced_ground_lem. Qed.
Print Assumptions C04_produced_ground.

(* so every instance Finish hands to the translation is ground and its substituted signature / underlying type
   (any type over its parameters) mentions no type parameter *)
Theorem C04_collected_signature_ground : forall p, wf_prog p -> forall fuel sched,
  all_exhausted (collect p fuel sched) = true ->
  forall i, In i (all_vals (collect p fuel sched)) ->
  ground_inst i /\
  forall t, scoped (List.length (i_targs i)) (List.length (i_tnest i)) t = true ->
            closed (subst (i_targs i) (i_tnest i) t) = true.
Proof.
  intros p W fuel sched E i H. split;
    [exact (collected_ground_lem p W fuel sched E i H) | exact (collected_signature_ground_lem p W fuel sched E i H)].
Qed.
Print Assumptions C04_collected_signature_ground.

(* ---- (3) InstanceMap (map.go): for EVERY hash function - including one under which all keys collide - and every
   history of Set/Get/Has/Delete/Len, the bucket structure with nil holes answers exactly like a finite map keyed by
   instance identity (object, identical TNest, identical TArgs); Keys() is the key set of that finite map. *)
Theorem C04_instance_map_refines : forall (V : Type) (h : ty -> N) (ops : list (op V)),
  snd (map_run V h empty_map ops) = snd (spec_run V [] ops).
Proof. exact map_refines_lem. Qed.
Print Assumptions C04_instance_map_refines.

Theorem C04_instance_map_keys : forall (V : Type) (h : ty -> N) (ops : list (op V)) (k : inst),
  In k (map_keys V (fst (map_run V h empty_map ops))) <-> spec_get V (fst (spec_run V [] ops)) k <> None.
Proof. exact map_keys_lem. Qed.
Print Assumptions C04_instance_map_keys.

(* Non-vacuity of phase 4: a history in which all keys collide (hash_const), a deleted entry leaves a hole that the
   next new key reuses, and an overwritten key keeps its length; groundness hypotheses are satisfiable. *)
Example C04_p4_nonvacuous :
  let a := mkInst 0 [TBase 0; TBase 1] [] in
  let b := mkInst 0 [TBase 1; TBase 0] [] in
  let c := mkInst 0 [TBase 1] [TBase 0] in
  List.map (fun o => match o with RVal v => v | RBool true => Some 1%N | RBool false => Some 0%N | RLen n => Some (N.of_nat n) end)
    (snd (map_run N hash_const empty_map
            [OSet a 5%N; OSet b 6%N; OSet c 7%N; ODelete b; OLen; OSet b 8%N; OSet a 9%N; OGet a; OGet b; OGet c; OLen]))
  = [None; None; None; Some 1; Some 2; None; Some 5; Some 9; Some 8; Some 7; Some 3]%N
  /\ closed (subst [TCon 0 [TBase 0]] [TBase 1] (TCon 7 [TNestV 0; TNamed 3 [TOwn 0]])) = true
  /\ vars_distinct prog_shadow nm_shadow.
Proof.
  split; [vm_compute; reflexivity|]. split; [vm_compute; reflexivity|].
  exact shadow_vars_distinct.
Qed.
