(* C06 phase 4 — conversions between float64 and the 64-bit integer kinds (model only, no proofs).

   compiler/expressions.go translateConversion:
     float -> int64/uint64   `new $Int64(0, x)` / `new $Uint64(0, x)`   (the constructor truncates and splits)
     int64/uint64 -> float64 `$flatten64(x)` = x.$high * 4294967296 + x.$low
   A finite float64 is the rational n/d (d a power of two); [jreal n d] is that JS number in the model:
   an exact integer when d divides n, otherwise the non-integer n/d. *)
From Coq Require Import ZArith Bool List.
From Verif Require Import Base.C06_JsNum Model.C06_Prelude64 Model.C06_Spec Gen.C06_Tables Model.C06_Templates.
Local Open Scope Z_scope.

Definition jreal (n d : Z) : jsnum := if Z.rem n d =? 0 then Fin (Z.quot n d) else NonInt n d.

Definition conv_fo (V : variant) (k2 : kind) (x : jsnum) : res jso := Ret (new64v (v_ctor V) (signed k2) (Fin 0) x).
Definition conv_of (x : jso) : res jsnum := Ret (flatten64 x).
