(* C08, part A — the run-time checks GopherJS emits / calls, each as a function of
   its integer operands, next to the Go specification's requirement.
   Model only (no proofs).  JS numbers that hold integers are modelled as Z; all
   operands are produced by the compiler's %f formatting (int, or a flattened
   64-bit integer) so they are integers of magnitude < 2^64; comparisons of such
   doubles against each other and against 2147483647 are exact for |z| <= 2^53 and
   order-preserving beyond (side condition recorded in the check's ASSUMPTIONS).

   Anchors: compiler/utils.go rangeCheck; compiler/prelude/prelude.js $subslice,
   $substring, $sliceToGoArray; compiler/prelude/types.js $makeSlice, $Chan;
   compiler/expressions.go QUO/REM guards and makemap. *)
From Coq Require Import List ZArith Bool.
Import ListNotations.
Local Open Scope Z_scope.

Definition MAXINT : Z := 2147483647.

(* result of a guarded expression: the run-time panic, or the integers that
   describe the value ([offset; length; capacity] for slices, ...) *)
Inductive gres := GThrow | GOk (v : list Z).

(* ---- rangeCheck (utils.go) --------------------------------------------- *)
(* non-constant index:  (i < 0 || i >= len) ? throw : elem[i] *)
Definition impl_index (i len : Z) : gres :=
  if (i <? 0) || (i >=? len) then GThrow else GOk [i].
(* constant index on a slice/string:  i >= len ? throw : elem[i]   (i is a constant >= 0) *)
Definition impl_index_const (i len : Z) : gres :=
  if i >=? len then GThrow else GOk [i].
Definition spec_index (i len : Z) : gres :=
  if (0 <=? i) && (i <? len) then GOk [i] else GThrow.

(* string index s[i]: emitted as s.charCodeAt(i) with NO range check (expressions.go, types.Basic case);
   out of range it evaluates to NaN, which is not an integer value: GOk [] *)
Definition impl_strindex (i len : Z) : gres :=
  if (0 <=? i) && (i <? len) then GOk [i] else GOk [].

(* ---- $subslice(slice, low, high, max) ---------------------------------- *)
(* high/max = None stand for `undefined` *)
Definition impl_subslice (offset len cap low : Z) (high max : option Z) : gres :=
  let high := match high with Some h => h | None => len end in
  let max := match max with Some m => m | None => cap end in
  if (low <? 0) || (high <? low) || (max <? high) || (high >? cap) || (max >? cap) then GThrow
  else GOk [offset + low; high - low; max - low].
Definition spec_subslice (offset len cap low : Z) (high max : option Z) : gres :=
  let high := match high with Some h => h | None => len end in
  let max := match max with Some m => m | None => cap end in
  if (0 <=? low) && (low <=? high) && (high <=? max) && (max <=? cap)
  then GOk [offset + low; high - low; max - low] else GThrow.

(* ---- $substring(str, low, high) ---------------------------------------- *)
(* with high = undefined the comparisons `high < low` and `high > str.length`
   are false (NaN) and str.substring(low, undefined) clamps low to the length *)
(* the value of a substring is its content: [start; length], start normalised to 0 when empty *)
Definition substr_val (low h : Z) : list Z := if h =? low then [0; 0] else [low; h - low].
Definition impl_substring (len low : Z) (high : option Z) : gres :=
  match high with
  | Some h => if (low <? 0) || (h <? low) || (h >? len) then GThrow else GOk (substr_val low h)
  | None => if low <? 0 then GThrow else GOk (substr_val (Z.min low len) len)
  end.
(* repaired shape: `if (high === undefined) high = str.length` before the check *)
Definition impl_substring_fixed (len low : Z) (high : option Z) : gres :=
  let h := match high with Some h => h | None => len end in
  if (low <? 0) || (h <? low) || (h >? len) then GThrow else GOk (substr_val low h).
Definition spec_substring (len low : Z) (high : option Z) : gres :=
  let h := match high with Some h => h | None => len end in
  if (0 <=? low) && (low <=? h) && (h <=? len) then GOk (substr_val low h) else GThrow.

(* ---- $makeSlice(typ, length, capacity = length) ------------------------ *)
Definition impl_makeslice (len : Z) (cap : option Z) : gres :=
  let c := match cap with Some c => c | None => len end in
  if (len <? 0) || (len >? MAXINT) then GThrow
  else if (c <? 0) || (c <? len) || (c >? MAXINT) then GThrow
  else GOk [0; len; c].
Definition spec_makeslice (len : Z) (cap : option Z) : gres :=
  let c := match cap with Some c => c | None => len end in
  if (0 <=? len) && (len <=? c) && (c <=? MAXINT) then GOk [0; len; c] else GThrow.

(* ---- make(map, n) with non-constant n;  new $Chan(elem, n) ------------- *)
Definition impl_makesize (n : Z) : gres :=
  if (n <? 0) || (n >? MAXINT) then GThrow else GOk [n].
Definition spec_makesize (n : Z) : gres :=
  if (0 <=? n) && (n <=? MAXINT) then GOk [n] else GThrow.

(* ---- integer division (expressions.go QUO / REM) ----------------------- *)
(* class of the double x / y for integer x, y *)
Inductive fclass := FNaN | FPosInf | FNegInf | FFinite.
Definition div_class (x y : Z) : fclass :=
  if y =? 0 then (if x =? 0 then FNaN else if x >? 0 then FPosInf else FNegInf) else FFinite.
(* (_q = x / y, (_q === _q && _q !== 1/0 && _q !== -1/0) ? _q >> 0 : throw).
   The value of the finite quotient truncated by >> 0 / >>> 0 is taken to be
   Z.quot x y wrapped to the 32-bit type (exactness of the double division of
   two integers below 2^32 is part of C06, listed as trusted here).  Whether the
   result is additionally passed through fixNumber (<< 24 >> 24 for int8, ...) does
   not matter here: for operands of the type whose quotient is representable the
   wrapping is the identity, and MinInt / -1 for int8/int16 is C06's subject. *)
Definition wrap32 (signed : bool) (z : Z) : Z :=
  let m := z mod 4294967296 in
  if signed && (m >=? 2147483648) then m - 4294967296 else m.
Definition impl_quo (signed : bool) (x y : Z) : gres :=
  match div_class x y with
  | FNaN => GThrow
  | FPosInf => GThrow
  | FNegInf => GThrow
  | FFinite => GOk [wrap32 signed (Z.quot x y)]
  end.
(* (_r = x % y, _r === _r ? _r : throw):  x % y is NaN exactly when y is 0 *)
Definition impl_rem (x y : Z) : gres :=
  if y =? 0 then GThrow else GOk [Z.rem x y].
Definition spec_quo (signed : bool) (x y : Z) : gres :=
  if y =? 0 then GThrow else GOk [wrap32 signed (Z.quot x y)].
Definition spec_rem (x y : Z) : gres :=
  if y =? 0 then GThrow else GOk [Z.rem x y].

(* ---- $sliceToGoArray: slice to array-pointer conversion ---------------- *)
(* numeric element types, or a non-numeric slice converted as a whole; the
   explicit "not supported for subslices" error is outside this function's domain *)
Definition impl_slice2arr (slen alen : Z) : gres :=
  if slen <? alen then GThrow else GOk [alen].
Definition spec_slice2arr (slen alen : Z) : gres :=
  if alen <=? slen then GOk [alen] else GThrow.

(* ---- evaluation entry used by the correspondence ----------------------- *)
(* op codes: 0 index, 1 index_const, 2 subslice, 3 substring, 4 makeslice,
   5 makesize, 6 quo signed, 7 quo unsigned, 8 rem, 9 slice2arr, 10 string index.
   optional operands are passed as a pair (present, value). *)
Definition opt (present v : Z) : option Z := if present =? 0 then None else Some v.

(* [fix_substring], [fix_strindex]: which shape the current tree has (probed by the check) *)
Definition impl_op_v (fix_substring fix_strindex : bool) (op : Z) (a : list Z) : option gres :=
  match op, a with
  | 3, [len; low; hp; h] =>
      Some (if fix_substring then impl_substring_fixed len low (opt hp h) else impl_substring len low (opt hp h))
  | 10, [i; len] => Some (if fix_strindex then impl_index i len else impl_strindex i len)
  | _, _ => None
  end.

Definition impl_op (op : Z) (a : list Z) : option gres :=
  match op, a with
  | 0, [i; len] => Some (impl_index i len)
  | 1, [i; len] => Some (impl_index_const i len)
  | 2, [offset; len; cap; low; hp; h; mp; m] => Some (impl_subslice offset len cap low (opt hp h) (opt mp m))
  | 3, [len; low; hp; h] => Some (impl_substring len low (opt hp h))
  | 4, [len; cp; c] => Some (impl_makeslice len (opt cp c))
  | 5, [n] => Some (impl_makesize n)
  | 6, [x; y] => Some (impl_quo true x y)
  | 7, [x; y] => Some (impl_quo false x y)
  | 8, [x; y] => Some (impl_rem x y)
  | 9, [slen; alen] => Some (impl_slice2arr slen alen)
  | 10, [i; len] => Some (impl_strindex i len)
  | _, _ => None
  end.

Definition spec_op (op : Z) (a : list Z) : option gres :=
  match op, a with
  | 0, [i; len] => Some (spec_index i len)
  | 1, [i; len] => Some (spec_index i len)
  | 2, [offset; len; cap; low; hp; h; mp; m] => Some (spec_subslice offset len cap low (opt hp h) (opt mp m))
  | 3, [len; low; hp; h] => Some (spec_substring len low (opt hp h))
  | 4, [len; cp; c] => Some (spec_makeslice len (opt cp c))
  | 5, [n] => Some (spec_makesize n)
  | 6, [x; y] => Some (spec_quo true x y)
  | 7, [x; y] => Some (spec_quo false x y)
  | 8, [x; y] => Some (spec_rem x y)
  | 9, [slen; alen] => Some (spec_slice2arr slen alen)
  | 10, [i; len] => Some (spec_index i len)
  | _, _ => None
  end.
