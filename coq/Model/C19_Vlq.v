(* C19 — executable model of the source-map "mappings" codec that GopherJS links in
   (github.com/neelance/sourcemap: writeVLQ / readVLQ, Map.EncodeMappings after its sort,
   Map.decodeMappings).  internal/sourcemapx/filter.go feeds every Go and prelude mapping through
   AddMapping + WriteTo (= EncodeMappings) and reads esbuild's maps back through DecodedMappings.
   Model only (no proofs).  Strings are lists of byte values, integers are Z (Go's int never
   overflows here: a value is a line/column/index difference). The bit operations of the Go code
   are kept as bit operations (Z.shiftl, Z.land, Z.lor, Z.ldiff, Z.shiftr). *)
From Coq Require Import List ZArith NArith Bool.
Import ListNotations.
Local Open Scope Z_scope.

Definition str := list N.

(* base64encode = "ABCDEFGHIJKLMNOPQRSTUVWXYZabcdefghijklmnopqrstuvwxyz0123456789+/" *)
Definition b64enc (d : Z) : N :=
  Z.to_N (if d <? 26 then 65 + d
          else if d <? 52 then 97 + (d - 26)
          else if d <? 62 then 48 + (d - 52)
          else if d =? 62 then 43 else 47).

(* base64decode[c]: the index of c in the alphabet, None for the 0xff entries *)
Definition b64dec (c : N) : option Z :=
  let z := Z.of_N c in
  if (65 <=? z) && (z <=? 90) then Some (z - 65)
  else if (97 <=? z) && (z <=? 122) then Some (z - 97 + 26)
  else if (48 <=? z) && (z <=? 57) then Some (z - 48 + 52)
  else if z =? 43 then Some 62
  else if z =? 47 then Some 63
  else None.

Definition COMMA : N := 44%N.
Definition SEMI : N := 59%N.

(* ---- writeVLQ ----------------------------------------------------------------------------- *)
(*  v <<= 1; if v < 0 { v = -v; v |= 1 }  *)
Definition zigzag (v : Z) : Z :=
  let v1 := Z.shiftl v 1 in
  if v1 <? 0 then Z.lor (- v1) 1 else v1.

(*  for v >= 32 { WriteByte(base64encode[32|(v&31)]); v >>= 5 }; WriteByte(base64encode[v])
    The loop runs at most log2 v + 1 times: that is the fuel. *)
Fixpoint write_digits (fuel : nat) (u : Z) : str :=
  match fuel with
  | O => [b64enc u]
  | S f => if 32 <=? u then b64enc (Z.lor 32 (Z.land u 31)) :: write_digits f (Z.shiftr u 5)
           else [b64enc u]
  end.

Definition write_vlq (v : Z) : str :=
  let u := zigzag v in write_digits (S (Z.to_nat (Z.log2 u))) u.

(* ---- readVLQ ------------------------------------------------------------------------------ *)
(*  if v&1 != 0 { return -(v >> 1) }; return v >> 1  *)
Definition unzig (v : Z) : Z :=
  if negb (Z.land v 1 =? 0) then - (Z.shiftr v 1) else Z.shiftr v 1.

(* The strings.Reader the decoder reads from: the bytes already read (most recent first) and the bytes
   not yet read.  ReadByte moves one byte over; UnreadByte moves one back WHETHER OR NOT the previous
   ReadByte succeeded (strings.Reader.UnreadByte only checks i > 0) - so after a ReadByte that failed
   at the end of the string it steps back over the last real byte. *)
Definition rdr := (str * str)%type.
Definition unread (r : rdr) : rdr :=
  match fst r with [] => r | p :: b => (b, p :: snd r) end.

(* One call of the closure readVLQ, with accumulator v and shift s.  Result: (Some value, reader) when
   a number was read (count++), (None, reader) when the 0xff table entry was hit: the closure then
   un-reads and returns 0 WITHOUT counting - digits consumed before stay consumed.  At the end of the
   string ReadByte yields 0, whose table entry is 0xff as well, and the un-read steps back over the last
   byte of the string. *)
Fixpoint read_digits (bef : str) (v s : Z) (l : str) : option Z * rdr :=
  match l with
  | [] => (None, unread (bef, []))
  | c :: r =>
      match b64dec c with
      | None => (None, (bef, l))
      | Some o =>
          let v' := v + Z.shiftl (Z.ldiff o 32) s in
          if Z.land o 32 =? 0 then (Some (unzig v'), (c :: bef, r)) else read_digits (c :: bef) v' (s + 5) r
      end
  end.

Definition read_vlq (r : rdr) : option Z * rdr := read_digits (fst r) 0 0 (snd r).

(* ---- mappings ----------------------------------------------------------------------------- *)
Record mapping := { m_gl : Z; m_gc : Z; m_file : str; m_ol : Z; m_oc : Z; m_name : str }.

Fixpoint str_eqb (a b : str) : bool :=
  match a, b with
  | [], [] => true
  | x :: a', y :: b' => N.eqb x y && str_eqb a' b'
  | _, _ => false
  end.

Definition is_empty (s : str) : bool := match s with [] => true | _ => false end.

(* fileIndexMap / nameIndexMap: the index of the first occurrence *)
Fixpoint index_of (x : str) (l : list str) : option nat :=
  match l with
  | [] => None
  | y :: r => if str_eqb x y then Some O else match index_of x r with Some i => Some (S i) | None => None end
  end.

(* the six running variables of both loops *)
Record cur := { c_gl : Z; c_gc : Z; c_of : Z; c_ol : Z; c_oc : Z; c_on : Z }.
Definition cur0 : cur := {| c_gl := 1; c_gc := 0; c_of := 0; c_ol := 1; c_oc := 0; c_on := 0 |}.

(* lookup-or-append in Sources / Names *)
Definition intern (x : str) (tbl : list str) : Z * list str :=
  match index_of x tbl with
  | Some i => (Z.of_nat i, tbl)
  | None => (Z.of_nat (length tbl), tbl ++ [x])
  end.

(* one iteration of the `for _, mapping := range m.decodedMappings` loop of EncodeMappings:
   returns the bytes appended to buf and the new state (running variables, comma flag, tables) *)
Definition enc_one (c : cur) (comma : bool) (srcs names : list str) (m : mapping)
  : str * cur * list str * list str :=
  let k := Z.to_nat (m_gl m - c_gl c) in                       (* for mapping.GeneratedLine > generatedLine *)
  let semis := repeat SEMI k in
  let gl' := if c_gl c <? m_gl m then m_gl m else c_gl c in
  let gc0 := if c_gl c <? m_gl m then 0 else c_gc c in
  let comma' := if c_gl c <? m_gl m then false else comma in
  let sep := if comma' then [COMMA] else [] in
  let f1 := write_vlq (m_gc m - gc0) in
  if is_empty (m_file m) then
    (semis ++ sep ++ f1,
     {| c_gl := gl'; c_gc := m_gc m; c_of := c_of c; c_ol := c_ol c; c_oc := c_oc c; c_on := c_on c |},
     srcs, names)
  else
    let '(fi, srcs') := intern (m_file m) srcs in
    let f2 := write_vlq (fi - c_of c) in
    let f3 := write_vlq (m_ol m - c_ol c) in
    let f4 := write_vlq (m_oc m - c_oc c) in
    if is_empty (m_name m) then
      (semis ++ sep ++ f1 ++ f2 ++ f3 ++ f4,
       {| c_gl := gl'; c_gc := m_gc m; c_of := fi; c_ol := m_ol m; c_oc := m_oc m; c_on := c_on c |},
       srcs', names)
    else
      let '(ni, names') := intern (m_name m) names in
      let f5 := write_vlq (ni - c_on c) in
      (semis ++ sep ++ f1 ++ f2 ++ f3 ++ f4 ++ f5,
       {| c_gl := gl'; c_gc := m_gc m; c_of := fi; c_ol := m_ol m; c_oc := m_oc m; c_on := ni |},
       srcs', names').

Fixpoint enc_from (c : cur) (comma : bool) (srcs names : list str) (ms : list mapping)
  : str * list str * list str :=
  match ms with
  | [] => ([], srcs, names)
  | m :: r =>
      let '(b, c', srcs', names') := enc_one c comma srcs names m in
      let '(b2, srcs2, names2) := enc_from c' true srcs' names' r in
      (b ++ b2, srcs2, names2)
  end.

(* EncodeMappings after `sort.Sort(m)` (the caller passes the sorted slice): Mappings, Sources, Names *)
Definition encode_mappings (ms : list mapping) : str * list str * list str :=
  enc_from cur0 false [] [] ms.

(* ---- decodeMappings ----------------------------------------------------------------------- *)
Definition add_opt (a : Z) (o : option Z) : Z := match o with Some v => a + v | None => a end.
Definition cnt (o : option Z) : nat := match o with Some _ => 1%nat | None => 0%nat end.

(* table lookup m.Sources[i]: an index out of range panics (None) *)
Definition tbl_get (tbl : list str) (i : Z) : option str :=
  if i <? 0 then None else nth_error tbl (Z.to_nat i).

(* The outer loop `for r.Len() != 0`.  An iteration that leaves the reader where it was would repeat
   for ever in the Go code (an invalid character at the start of a segment): the model answers None
   for that, for an index panic, and when the fuel (= length of the string) runs out. *)
Fixpoint dec_loop (fuel : nat) (srcs names : list str) (c : cur) (rd : rdr) (acc : list mapping)
  : option (list mapping) :=
  match snd rd with
  | [] => Some (rev acc)
  | b :: r =>
    match fuel with
    | O => None
    | S f =>
      if N.eqb b COMMA then dec_loop f srcs names c (b :: fst rd, r) acc
      else if N.eqb b SEMI then
        dec_loop f srcs names
          {| c_gl := c_gl c + 1; c_gc := 0; c_of := c_of c; c_ol := c_ol c; c_oc := c_oc c; c_on := c_on c |} (b :: fst rd, r) acc
      else
        let '(v1, r1) := read_vlq rd in
        let '(v2, r2) := read_vlq r1 in
        let '(v3, r3) := read_vlq r2 in
        let '(v4, r4) := read_vlq r3 in
        let '(v5, r5) := read_vlq r4 in
        let c' := {| c_gl := c_gl c; c_gc := add_opt (c_gc c) v1; c_of := add_opt (c_of c) v2;
                     c_ol := add_opt (c_ol c) v3; c_oc := add_opt (c_oc c) v4; c_on := add_opt (c_on c) v5 |} in
        if Nat.leb (length (snd rd)) (length (snd r5)) then None          (* no progress: the Go loop never ends *)
        else
          match (cnt v1 + cnt v2 + cnt v3 + cnt v4 + cnt v5)%nat with
          | 1%nat => dec_loop f srcs names c' r5
                       ({| m_gl := c_gl c'; m_gc := c_gc c'; m_file := []; m_ol := 0; m_oc := 0; m_name := [] |} :: acc)
          | 4%nat =>
              match tbl_get srcs (c_of c') with
              | None => None
              | Some fl => dec_loop f srcs names c' r5
                       ({| m_gl := c_gl c'; m_gc := c_gc c'; m_file := fl; m_ol := c_ol c'; m_oc := c_oc c'; m_name := [] |} :: acc)
              end
          | 5%nat =>
              match tbl_get srcs (c_of c'), tbl_get names (c_on c') with
              | Some fl, Some nm => dec_loop f srcs names c' r5
                       ({| m_gl := c_gl c'; m_gc := c_gc c'; m_file := fl; m_ol := c_ol c'; m_oc := c_oc c'; m_name := nm |} :: acc)
              | _, _ => None
              end
          | _ => dec_loop f srcs names c' r5 acc
          end
    end
  end.

Definition decode_mappings (srcs names : list str) (s : str) : option (list mapping) :=
  dec_loop (length s) srcs names cur0 ([], s) [].

(* what a mapping looks like after one trip through the codec: a mapping without a file keeps
   only its generated position (EncodeMappings writes one field for it) *)
Definition canon (m : mapping) : mapping :=
  if is_empty (m_file m)
  then {| m_gl := m_gl m; m_gc := m_gc m; m_file := []; m_ol := 0; m_oc := 0; m_name := [] |}
  else m.

(* the precondition EncodeMappings establishes by sorting: generated lines start at 1 and never
   decrease *)
Fixpoint lines_sorted (g : Z) (ms : list mapping) : bool :=
  match ms with
  | [] => true
  | m :: r => (g <=? m_gl m) && lines_sorted (m_gl m) r
  end.

(* the decoder loses a FINAL segment that has one field (see [unread]); the round trip therefore holds
   for lists that are empty or end in a mapping with a file *)
Fixpoint last_has_file (ms : list mapping) : bool :=
  match ms with
  | [] => true
  | [m] => negb (is_empty (m_file m))
  | _ :: r => last_has_file r
  end.
