(* C06 — hand-written model of the integer part of compiler/expressions.go, branch by branch:
   translateExpr *ast.UnaryExpr (288-312), *ast.BinaryExpr for numeric basics (330-438),
   fixNumber (1363-1384) through the REGENERATED suffix table, translateConversion to an
   integer kind (1128-1151).  It is parametrised by a [variant]: which of the defects found by
   this property are repaired in the tree under test; [current] is probed on every run
   (Gen/C06_Tables.v).  Proofs/C06_Tie.v shows that for every kind, operator and operand shape
   this model is *convertible* with what the real compiler emitted in this run.
   Model only, no proofs. *)
From Coq Require Import ZArith Bool List.
From Verif Require Import Base.C06_JsNum Model.C06_Prelude64 Model.C06_Spec Gen.C06_Tables.
Import ListNotations.
Local Open Scope Z_scope.

Record variant := {
  v_quo : bool;      (* int8/int16 quotient passed through fixNumber            (expressions.go:401) *)
  v_shrc : bool;     (* signed >> by a constant >= 32 emitted as x >> 31        (expressions.go:416) *)
  v_neg : bool;      (* unary minus of signed kinds passed through fixNumber    (expressions.go:301) *)
  v_rem : bool;      (* remainder passed through fixNumber                      (expressions.go:408) *)
  v_ctor : bool      (* $Int64/$Uint64 constructors use Math.trunc(low)         (types.js:104,112)   *)
}.

Definition current : variant :=
  {| v_quo := quo_small_fixed; v_shrc := shr_const_fixed; v_neg := neg_fixed; v_rem := rem_fixed; v_ctor := ctor_trunc |}.
Definition original : variant := {| v_quo := false; v_shrc := false; v_neg := false; v_rem := false; v_ctor := false |}.
Definition repaired : variant := {| v_quo := true; v_shrc := true; v_neg := true; v_rem := true; v_ctor := true |}.

(* fixNumber: the suffix comes from the table regenerated from expressions.go *)
Definition fixnum (k : kind) (v : jsnum) : jsnum := apply_suffix (lookup_suffix k fix_suffix_table) v.
(* is64Bit as regenerated from utils.go *)
Definition is64b (k : kind) : bool := existsb (kind_eqb k) is64bit_kinds.

Definition small_signed (k : kind) : bool := match k with Int8 | Int16 => true | _ => false end.

Section Templates.
Variable V : variant.

Definition inf : jsnum := js_div (Fin 1) (Fin 0).               (* 1/0  *)
Definition ninf : jsnum := js_div (js_neg (Fin 1)) (Fin 0).     (* -1/0 *)

(* (_q = x / y, (_q === _q && _q !== 1/0 && _q !== -1/0) ? _q >> 0 : $throwRuntimeError("integer divide by zero")) *)
Definition quo_core (k : kind) (x y : jsnum) : res jsnum :=
  let q := js_div x y in
  js_ite (jb_and (jb_and (js_seq q q) (js_sne q inf)) (js_sne q ninf))
         (Ret ((if signed k then js_shr else js_ushr) q (Fin 0)))
         (Throw DivideByZero).

(* (_r = x % y, _r === _r ? _r : $throwRuntimeError("integer divide by zero")) *)
Definition rem_core (x y : jsnum) : res jsnum :=
  let r := js_rem x y in js_ite (js_seq r r) (Ret r) (Throw DivideByZero).

Definition bin32 (k : kind) (o : binop) (x y : jsnum) : res jsnum :=
  match o with
  | Add => Ret (fixnum k (js_add x y))
  | Sub => Ret (fixnum k (js_sub x y))
  | Mul =>
      match k with
      | Int32 | Int => Ret (js_imul x y)
      | Uint32 | Uint | Uintptr => Ret (js_ushr (js_imul x y) (Fin 0))
      | _ => Ret (fixnum k (js_mul x y))
      end
  | Quo =>
      if v_quo V && small_signed k                      (* <- the repair: one extra fixNumber *)
      then bind (quo_core k x y) (fun v => Ret (fixnum k v))
      else quo_core k x y
  | Rem =>
      if v_rem V then bind (rem_core x y) (fun v => Ret (fixnum k v)) else rem_core x y
  | And => if signed k then Ret (js_and x y) else Ret (js_ushr (js_and x y) (Fin 0))
  | Or => if signed k then Ret (js_or x y) else Ret (js_ushr (js_or x y) (Fin 0))
  | AndNot => Ret (fixnum k (js_and x (js_not y)))
  | Xor => Ret (fixnum k (js_xor x y))
  end.

(* variable shift count n (already a JS number: %f) *)
Definition shv32 (k : kind) (s : shop) (x n : jsnum) : res jsnum :=
  match s with
  | Shr =>
      if signed k then Ret (fixnum k (js_shr x (js_min n (Fin 31))))
      else Ret (fixnum k (js_ite_num (js_lt n (Fin 32)) (js_ushr x n) (Fin 0)))
  | Shl => Ret (fixnum k (js_ite_num (js_lt n (Fin 32)) (js_shl x n) (Fin 0)))
  end.

(* constant shift count c *)
Definition shc32 (k : kind) (s : shop) (c : Z) (x : jsnum) : res jsnum :=
  if 32 <=? c then
    match s with
    | Shr => if v_shrc V && signed k then Ret (fixnum k (js_shr x (Fin 31))) else Ret (Fin 0)
    | Shl => Ret (Fin 0)
    end
  else
    match s with
    | Shl => Ret (fixnum k (js_shl x (Fin c)))
    | Shr => Ret (fixnum k ((if signed k then js_shr else js_ushr) x (Fin c)))
    end.

Definition un32 (k : kind) (u : unop) (x : jsnum) : res jsnum :=
  match u with
  | Neg => if signed k && negb (v_neg V) then Ret (js_neg x) else Ret (fixnum k (js_neg x))
  | Not => Ret (fixnum k (js_not x))
  end.

Definition cmp32 (c : cmpop) (x y : jsnum) : res jb :=
  match c with
  | Eql => Ret (js_seq x y)
  | Neq => Ret (jb_not (js_seq x y))
  | Lss => Ret (js_lt x y)
  | Leq => Ret (js_le x y)
  | Gtr => Ret (js_gt x y)
  | Geq => Ret (js_ge x y)
  end.

(* ---- 64-bit kinds ---------------------------------------------------------- *)
Definition N64 (k : kind) := new64v (v_ctor V) (signed k).

Definition bin64 (k : kind) (o : binop) (x y : jso) : res jso :=
  match o with
  | Mul => Ret (mul64 (v_ctor V) x y)
  | Quo => div64 (v_ctor V) x y false
  | Rem => div64 (v_ctor V) x y true
  | Add => Ret (N64 k (js_add (o_hi x) (o_hi y)) (js_add (o_lo x) (o_lo y)))
  | Sub => Ret (N64 k (js_sub (o_hi x) (o_hi y)) (js_sub (o_lo x) (o_lo y)))
  | And => Ret (N64 k (js_and (o_hi x) (o_hi y)) (js_ushr (js_and (o_lo x) (o_lo y)) (Fin 0)))
  | Or => Ret (N64 k (js_or (o_hi x) (o_hi y)) (js_ushr (js_or (o_lo x) (o_lo y)) (Fin 0)))
  | Xor => Ret (N64 k (js_xor (o_hi x) (o_hi y)) (js_ushr (js_xor (o_lo x) (o_lo y)) (Fin 0)))
  | AndNot => Ret (N64 k (js_and (o_hi x) (js_not (o_hi y))) (js_ushr (js_and (o_lo x) (js_not (o_lo y))) (Fin 0)))
  end.

Definition sh64 (k : kind) (s : shop) (x : jso) (n : jsnum) : res jso :=
  match s with
  | Shl => Ret (shl64 (v_ctor V) x n)
  | Shr => if signed k then Ret (shr64 (v_ctor V) x n) else Ret (ushr64 (v_ctor V) x n)
  end.

Definition un64 (k : kind) (u : unop) (x : jso) : res jso :=
  match u with
  | Neg => Ret (N64 k (js_neg (o_hi x)) (js_neg (o_lo x)))
  | Not => Ret (N64 k (js_not (o_hi x)) (js_ushr (js_not (o_lo x)) (Fin 0)))
  end.

Definition eq64 (x y : jso) : jb := jb_and (js_seq (o_hi x) (o_hi y)) (js_seq (o_lo x) (o_lo y)).
Definition cmp64 (c : cmpop) (x y : jso) : res jb :=
  match c with
  | Eql => Ret (eq64 x y)
  | Neq => Ret (jb_not (eq64 x y))
  | Lss => Ret (jb_or (js_lt (o_hi x) (o_hi y)) (jb_and (js_seq (o_hi x) (o_hi y)) (js_lt (o_lo x) (o_lo y))))
  | Leq => Ret (jb_or (js_lt (o_hi x) (o_hi y)) (jb_and (js_seq (o_hi x) (o_hi y)) (js_le (o_lo x) (o_lo y))))
  | Gtr => Ret (jb_or (js_gt (o_hi x) (o_hi y)) (jb_and (js_seq (o_hi x) (o_hi y)) (js_gt (o_lo x) (o_lo y))))
  | Geq => Ret (jb_or (js_gt (o_hi x) (o_hi y)) (jb_and (js_seq (o_hi x) (o_hi y)) (js_ge (o_lo x) (o_lo y))))
  end.

(* ---- conversions to an integer kind k2 -------------------------------------- *)
Definition conv_nn (k2 : kind) (x : jsnum) : res jsnum := Ret (fixnum k2 x).
Definition conv_no (k2 : kind) (x : jsnum) : res jso := Ret (N64 k2 (Fin 0) x).       (* also float -> 64-bit *)
Definition conv_oo (k2 : kind) (x : jso) : res jso := Ret (N64 k2 (o_hi x) (o_lo x)).
Definition conv_on (k1 k2 : kind) (x : jso) : res jsnum :=
  if signed k2 && signed k1
  then Ret (fixnum k2 (js_add (o_lo x) (js_mul (js_shr (o_hi x) (Fin 31)) (Fin 4294967296))))
  else Ret (fixnum k2 (o_lo x)).

End Templates.

(* ---- Go values <-> JS values ------------------------------------------------- *)
Definition enc64 (k : kind) (v : Z) : jso := O64 (signed k) (v / two32) (v mod two32).
Definition dec64 (x : jso) : option Z := match x with O64 _ h l => Some (h * two32 + l) | OUnk => None end.
