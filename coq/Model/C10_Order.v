(* C10 — executable model of link / initialisation order.  Model only, no proofs.

   Mirrors, branch by branch:
     compiler/compiler.go    ImportDependencies                      -> [collect], [import_deps]
     compiler/decls.go       importDecls (sort by path)              -> [sort_paths]
     compiler/sources/sources.go  Sources.Sort (descending name)     -> [sort_files]
     compiler/compiler.go    WritePkgCode ($init replaces itself, then the
                             InitCode of import / var / func decls),
                             WriteProgramCode tail (runtime $init, then
                             $go($mainPkg.$init))                    -> [run_init], [run_program]
     compiler/decls.go       varDecls (zero-valued first, then types.Info.InitOrder),
                             funcDecls (init functions file by file, callMainFunc last)
                                                                     -> [own_events]
   plus the flattened, resumable form of $init (frames with a saved $s) -> [machine].

   Strings are byte lists ([N] < 256); Go's [<] on strings is bytewise
   lexicographic order = [str_ltb]. *)
From Coq Require Import List NArith Arith Bool.
Import ListNotations.

Definition str := list N.

Fixpoint str_eqb (a b : str) : bool :=
  match a, b with
  | [], [] => true
  | x :: a', y :: b' => N.eqb x y && str_eqb a' b'
  | _, _ => false
  end.

Fixpoint str_cmp (a b : str) : comparison :=
  match a, b with
  | [], [] => Eq
  | [], _ :: _ => Lt
  | _ :: _, [] => Gt
  | x :: a', y :: b' => match N.compare x y with Eq => str_cmp a' b' | c => c end
  end.

Definition str_ltb (a b : str) : bool := match str_cmp a b with Lt => true | _ => false end.

(* ---- sorting ---------------------------------------------------------- *)

(* sort.Slice(less) on elements with pairwise distinct keys: the result is the unique
   arrangement in which [less] holds between neighbours (Proofs: sort_by_unique), so an
   insertion sort is an exact model although the real sort is not stable. *)
Fixpoint insert_by {A} (less : A -> A -> bool) (x : A) (l : list A) : list A :=
  match l with
  | [] => [x]
  | y :: r => if less y x then y :: insert_by less x r else x :: y :: r
  end.

Definition sort_by {A} (less : A -> A -> bool) (l : list A) : list A :=
  fold_right (insert_by less) [] l.

(* decls.go importDecls: sort.Slice(imports, Path(i) < Path(j)) *)
Definition sort_paths (l : list str) : list str := sort_by str_ltb l.

(* sources.go Sort: sort.Slice(Files, name(i) > name(j)) — descending file name *)
Definition file_less {B} (f g : str * B) : bool := str_ltb (fst g) (fst f).
Definition sort_files {B} (fs : list (str * B)) : list (str * B) := sort_by file_less fs.

(* ---- ImportDependencies ------------------------------------------------ *)

Definition graph := list (str * list str).

Fixpoint lookup {B} (g : list (str * B)) (p : str) : option B :=
  match g with
  | [] => None
  | (k, v) :: r => if str_eqb p k then Some v else lookup r p
  end.

Definition mem (p : str) (l : list str) : bool := existsb (str_eqb p) l.

Fixpoint fold_opt {A S} (f : A -> S -> option S) (l : list A) (s : S) : option S :=
  match l with
  | [] => Some s
  | x :: r => match f x s with None => None | Some s' => fold_opt f r s' end
  end.

(* collectDependencies(path): [deps] is the slice built so far; the [paths] set of the code
   is exactly the set of elements of [deps] (both are extended together).  [None] = the
   importPkg callback failed (unknown path) or the recursion did not end (import cycle:
   the real code would recurse forever; go/types rejects cycles before). *)
Fixpoint collect (fuel : nat) (g : graph) (path : str) (deps : list str) : option (list str) :=
  if mem path deps then Some deps
  else match fuel with
       | O => None
       | S f =>
         match lookup g path with
         | None => None
         | Some imps =>
           match fold_opt (collect f g) imps deps with
           | None => None
           | Some d => Some (d ++ [path])
           end
         end
       end.

Definition RUNTIME : str := [114; 117; 110; 116; 105; 109; 101]%N.   (* "runtime" *)

(* ImportDependencies(archive, importPkg): [g] is what importPkg answers. *)
Definition import_deps (g : graph) (root : str) (root_imports : list str) : option (list str) :=
  match fold_opt (collect (length g) g) (RUNTIME :: root_imports) [] with
  | None => None
  | Some d => Some (d ++ [root])
  end.

(* ---- run-time initialisation ------------------------------------------- *)

Inductive item :=
| IVar (x : str)                (* package variable with an initialiser *)
| IFn (file : str) (k : nat).   (* k-th init function of a file *)

Record pkg := {
  pk_path : str;
  pk_is_main : bool;                       (* package clause says "main" (pkgContext.isMain) *)
  pk_imports : list str;                   (* types.Package.Imports() without unsafe, any order *)
  pk_zero : list str;                      (* variables without initialiser, declaration order *)
  pk_initorder : list (str * bool);        (* types.Info.InitOrder (given); bool = initialiser blocks *)
  pk_files : list (str * list (nat * bool))  (* file name, its init functions in source order; bool = blocks *)
}.

Inductive event :=
| EZero (p x : str)        (* zero-value initialisation (not observable) *)
| EStart (p : str) (i : item)   (* the initialiser / init function starts *)
| EWake (p : str) (i : item)    (* it resumes after having suspended *)
| EMain (p : str).

Definition item_events (p : str) (ib : item * bool) : list event :=
  let '(i, b) := ib in EStart p i :: (if b then [EWake p i] else []).

(* the items of a package in the order of the InitCode of its Decls: varDecls (InitOrder)
   then funcDecls (files in the order of Sources.Sort, functions in source order) *)
Definition own_items (pk : pkg) : list (item * bool) :=
  map (fun xb => (IVar (fst xb), snd xb)) (pk_initorder pk) ++
  flat_map (fun f => map (fun kb => (IFn (fst f) (fst kb), snd kb)) (snd f)) (sort_files (pk_files pk)).

(* `if ($pkg === $mainPkg) { main(); }` is emitted for every package named main *)
Definition main_events (main : str) (pk : pkg) : list event :=
  if pk_is_main pk && str_eqb (pk_path pk) main then [EMain (pk_path pk)] else [].

Definition own_events (main : str) (pk : pkg) : list event :=
  map (EZero (pk_path pk)) (pk_zero pk) ++ flat_map (item_events (pk_path pk)) (own_items pk) ++ main_events main pk.

Definition program := list pkg.

Definition pkg_graph (prog : program) : graph :=
  map (fun pk => (pk_path pk, sort_paths (pk_imports pk))) prog.

Definition pkg_table (prog : program) : list (str * pkg) := map (fun pk => (pk_path pk, pk)) prog.

(* $pkg.$init(): [done] = packages whose $pkg.$init has been replaced by the empty function
   (first statement of $init); then the import initialisers in path order, then the
   package's own code.  [None] = $packages[q] undefined. *)
Fixpoint run_init (fuel : nat) (prog : program) (main : str) (p : str) (st : list str * list event)
  : option (list str * list event) :=
  if mem p (fst st) then Some st
  else match fuel with
       | O => None
       | S f =>
         match lookup (pkg_table prog) p with
         | None => None
         | Some pk =>
           match fold_opt (run_init f prog main) (sort_paths (pk_imports pk)) (p :: fst st, snd st) with
           | None => None
           | Some st' => Some (fst st', snd st' ++ own_events main pk)
           end
         end
       end.

(* $packages["runtime"].$init(); $go($mainPkg.$init, []); *)
Definition run_program (prog : program) (main : str) : option (list event) :=
  match fold_opt (run_init (S (length prog)) prog main) [RUNTIME; main] ([], []) with
  | None => None
  | Some st => Some (snd st)
  end.

Definition observable (e : event) : bool := match e with EZero _ _ => false | _ => true end.

(* ---- the flattened $init as a resumable machine ------------------------ *)
(* One frame per active $init: the package and the saved case label $s, here the index of
   the next step.  A blocking item suspends the goroutine: all frames are saved
   ($f.$s = $s; return $f) and the scheduler later re-enters the outermost frame, which
   re-enters the callee through `$r = $r.$blk()`; execution continues *after* the
   suspended item.  While suspended, [m_done] keeps the no-op marks, so nothing is re-run. *)

Inductive step :=
| SImport (q : str)
| SZero (x : str)
| SItem (i : item) (blocking : bool)
| SMain.

Definition steps_of (pk : pkg) : list step :=
  map SImport (sort_paths (pk_imports pk)) ++ map SZero (pk_zero pk) ++
  map (fun ib => SItem (fst ib) (snd ib)) (own_items pk) ++ (if pk_is_main pk then [SMain] else []).

Record mstate := {
  m_stack : list (str * nat);    (* innermost frame first: package, index of the next step *)
  m_done : list str;
  m_trace : list event;
  m_suspended : option (str * item)  (* the goroutine sleeps inside this item *)
}.

Inductive outcome := Running (m : mstate) | Finished (m : mstate) | Stuck.

(* one transition of the goroutine that runs $mainPkg.$init (or of the synchronous
   runtime init) *)
Definition mstep (prog : program) (main : str) (m : mstate) : outcome :=
  match m_suspended m with
  | Some (p, i) =>       (* woken up: the blocked call returns, continue after it *)
      Running {| m_stack := m_stack m; m_done := m_done m; m_trace := m_trace m ++ [EWake p i]; m_suspended := None |}
  | None =>
    match m_stack m with
    | [] => Finished m
    | (p, pc) :: rest =>
      match lookup (pkg_table prog) p with
      | None => Stuck
      | Some pk =>
        match nth_error (steps_of pk) pc with
        | None => Running {| m_stack := rest; m_done := m_done m; m_trace := m_trace m; m_suspended := None |}  (* return *)
        | Some (SImport q) =>
            if mem q (m_done m)
            then Running {| m_stack := (p, S pc) :: rest; m_done := m_done m; m_trace := m_trace m; m_suspended := None |}
            else match lookup (pkg_table prog) q with
                 | None => Stuck
                 | Some _ => Running {| m_stack := (q, O) :: (p, S pc) :: rest; m_done := q :: m_done m; m_trace := m_trace m; m_suspended := None |}
                 end
        | Some (SZero x) =>
            Running {| m_stack := (p, S pc) :: rest; m_done := m_done m; m_trace := m_trace m ++ [EZero p x]; m_suspended := None |}
        | Some (SItem i b) =>
            Running {| m_stack := (p, S pc) :: rest; m_done := m_done m; m_trace := m_trace m ++ [EStart p i];
                       m_suspended := if b then Some (p, i) else None |}
        | Some SMain =>
            Running {| m_stack := (p, S pc) :: rest; m_done := m_done m;
                       m_trace := m_trace m ++ (if str_eqb p main then [EMain p] else []); m_suspended := None |}
        end
      end
    end
  end.

Fixpoint mrun (fuel : nat) (prog : program) (main : str) (m : mstate) : option mstate :=
  match fuel with
  | O => None
  | S f => match mstep prog main m with
           | Stuck => None
           | Finished m' => Some m'
           | Running m' => mrun f prog main m'
           end
  end.

(* calling $packages[p].$init() from outside *)
Definition mcall (fuel : nat) (prog : program) (main : str) (p : str) (m : mstate) : option mstate :=
  if mem p (m_done m) then Some m
  else match lookup (pkg_table prog) p with
       | None => None
       | Some _ => mrun fuel prog main {| m_stack := [(p, O)]; m_done := p :: m_done m; m_trace := m_trace m; m_suspended := None |}
       end.

Definition machine_fuel (prog : program) : nat :=
  S (fold_right (fun pk n => n + 2 * S (S (length (steps_of pk)))) O prog).

Definition run_machine (prog : program) (main : str) : option (list event) :=
  match mcall (machine_fuel prog) prog main RUNTIME {| m_stack := []; m_done := []; m_trace := []; m_suspended := None |} with
  | None => None
  | Some m1 => match mcall (machine_fuel prog) prog main main m1 with
               | None => None
               | Some m2 => Some (m_trace m2)
               end
  end.
