(* C02 phase 4 (b) — `for k = range s` over a slice whose length is an integer expression, as the translator
   handles it: statements.go, `case *ast.RangeStmt` for slices/arrays calls the SAME translateLoopingStmt as a
   for statement, with
       fc.Printf("%s = %s;", refVar, X)   fc.Printf("%s = 0;", iVar)                 (before the loop)
       cond       = iVar < refVar.$length
       bodyPrefix = key = iVar                                                        (first statement of the body)
       post       = iVar++                                                            (printed at the loop tail AND at
                                                                                       every `continue` site)
   [desugar] is that reduction; the resumable form of a range loop is then [flatten] of the resulting SFor
   (Model/C02_Flat.v), which the correspondence compares with the emitted JavaScript token by token.
   [rexec] is the direct semantics of the extended source language: the range statement owns two frame slots
   (`_ref`: the length captured ONCE before the first iteration, `_i`: the hidden counter; the translator saves both
   in `$f` like any local), the key is assigned at the top of each iteration, `continue` advances the counter.
   Model only: no proofs in this file.  Fuel is a termination bound only; its bookkeeping follows [exec]. *)
From Coq Require Import List ZArith Bool Arith.
From Verif Require Import Model.C02_Blocking Model.C02_Flat Model.C02_Wf.
Import ListNotations.
Local Open Scope Z_scope.

Inductive rstmt :=
| RSkip
| RAssign (x : var) (e : expr)
| RGAssign (g : nat) (e : expr)
| RPrint (e : expr)
| RYield
| RCall (dst : option var) (f : fname) (args : list expr)
| RSeq (a b : rstmt)
| RIf (c : expr) (a : rstmt)
| RIfElse (c : expr) (a b : rstmt)
| RFor (lbl : option label) (init : rstmt) (c : expr) (post body : rstmt)
(* started = false: the statement as written.  started = true: the loop after its first iteration (the length is
   not evaluated again) — only produced by [rexec] itself. *)
| RRange (started : bool) (lbl : option label) (key : option var) (ref iv : var) (len : expr) (body : rstmt)
| RBreak (l : option label)
| RContinue (l : option label)
| RReturn (e : expr).

Definition range_cond (ref iv : var) : expr := EBin OLt (EVar iv) (EVar ref).
Definition range_post (iv : var) : stmt := SAssign iv (EBin OAdd (EVar iv) (EConst 1)).
Definition range_key (key : option var) (iv : var) : stmt :=
  match key with Some k => SAssign k (EVar iv) | None => SSkip end.

(* the translator's reduction of range to translateLoopingStmt *)
Fixpoint desugar (s : rstmt) : stmt :=
  match s with
  | RSkip => SSkip
  | RAssign x e => SAssign x e
  | RGAssign g e => SGAssign g e
  | RPrint e => SPrint e
  | RYield => SYield
  | RCall dst f args => SCall false dst f args
  | RSeq a b => SSeq (desugar a) (desugar b)
  | RIf c a => SIf false c (desugar a)
  | RIfElse c a b => SIfElse false c (desugar a) (desugar b)
  | RFor lbl i c po bo => SFor false lbl (desugar i) c (desugar po) (desugar bo)
  | RRange started lbl key ref iv len body =>
      SFor false lbl
        (if started then SSkip else SSeq (SAssign ref len) (SAssign iv (EConst 0)))
        (range_cond ref iv) (range_post iv)
        (SSeq (range_key key iv) (desugar body))
  | RBreak l => SBreak l
  | RContinue l => SContinue l
  | RReturn e => SReturn e
  end.

Section RExec.
  Variable callf : fname -> list Z -> world -> option (Z * world).

  Fixpoint rexec (n : nat) (s : rstmt) (loc : list Z) (w : world) : option (outcome * list Z * world) :=
    match n with
    | O => None
    | S n' =>
      match s with
      | RSkip => Some (ONormal, loc, w)
      | RAssign x e => Some (ONormal, upd x (eval e loc w) loc, w)
      | RGAssign g e => Some (ONormal, loc, w_setg g (eval e loc w) w)
      | RPrint e => Some (ONormal, loc, w_print (eval e loc w) w)
      | RYield => Some (ONormal, loc, w_ticked w)
      | RCall dst f args =>
          match callf f (map (fun a => eval a loc w) args) w with
          | Some (v, w') => Some (ONormal, set_dst dst v loc, w')
          | None => None
          end
      | RSeq a b =>
          match rexec n' a loc w with
          | Some (ONormal, loc', w') => rexec n' b loc' w'
          | r => r
          end
      | RIf c a => if truthy (eval c loc w) then rexec n' a loc w else Some (ONormal, loc, w)
      | RIfElse c a b => if truthy (eval c loc w) then rexec n' a loc w else rexec n' b loc w
      | RFor lbl init c post body =>
          match rexec n' init loc w with
          | Some (ONormal, l1, w1) =>
              if truthy (eval c l1 w1) then
                match rexec n' body l1 w1 with
                | Some (o, l2, w2) =>
                    let again :=
                      match rexec n' post l2 w2 with
                      | Some (ONormal, l3, w3) => rexec n' (RFor lbl RSkip c post body) l3 w3
                      | Some _ => None
                      | None => None
                      end in
                    match o with
                    | ONormal => again
                    | OContinue l => if targets l lbl then again else Some (o, l2, w2)
                    | OBreak l => if targets l lbl then Some (ONormal, l2, w2) else Some (o, l2, w2)
                    | OReturn _ => Some (o, l2, w2)
                    end
                | None => None
                end
              else Some (ONormal, l1, w1)
          | Some _ => None
          | None => None
          end
      | RRange started lbl key ref iv len body =>
          match n' with
          | O => None
          | S n'' =>
            (* entering the statement: capture the length, reset the hidden counter *)
            let entered :=
              if started then Some loc
              else match n'' with
                   | O => None
                   | S _ => Some (upd iv 0 (upd ref (eval len loc w) loc))
                   end in
            match entered with
            | None => None
            | Some l1 =>
              if lookup iv l1 <? lookup ref l1 then
                match n'' with
                | O => None
                | S _ =>
                  (* key = counter; body *)
                  match rexec n'' body (set_dst key (lookup iv l1) l1) w with
                  | Some (o, l2, w2) =>
                      (* counter++ ; next iteration *)
                      let again := rexec n' (RRange true lbl key ref iv len body) (upd iv (lookup iv l2 + 1) l2) w2 in
                      match o with
                      | ONormal => again
                      | OContinue l => if targets l lbl then again else Some (o, l2, w2)
                      | OBreak l => if targets l lbl then Some (ONormal, l2, w2) else Some (o, l2, w2)
                      | OReturn _ => Some (o, l2, w2)
                      end
                  | None => None
                  end
                end
              else Some (ONormal, l1, w)
            end
          end
      | RBreak l => Some (OBreak l, loc, w)
      | RContinue l => Some (OContinue l, loc, w)
      | RReturn e => Some (OReturn (eval e loc w), loc, w)
      end
    end.
End RExec.

Record rfn := { rf_nparams : nat; rf_body : rstmt }.
Definition rprog := list rfn.

Fixpoint rcall_direct (p : rprog) (n : nat) (f : fname) (args : list Z) (w : world) : option (Z * world) :=
  match n with
  | O => None
  | S n' =>
    match nth_error p f with
    | Some fn => body_result (rexec (rcall_direct p n') n' (rf_body fn) args w)
    | None => None
    end
  end.

Definition run_rdirect (p : rprog) (nglob : nat) (fuel : nat) (main : fname) (args : list Z) :=
  observe (rcall_direct p fuel main args (w0 nglob)).

Definition desugar_fn (fn : rfn) : sfn := {| sf_nparams := rf_nparams fn; sf_body := desugar (rf_body fn) |}.
Definition rdesugar (p : rprog) : sprog := map desugar_fn p.

(* the whole pipeline for the extended language *)
Definition rcompile (p : rprog) : fprog := compile (rdesugar p).

(* side conditions of the theorem, decidable: calls go to existing functions, loop post statements are simple *)
Definition rsrc_ok (p : rprog) : bool := src_ok (rdesugar p).
