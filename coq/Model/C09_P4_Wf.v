(* C09 phase 4 - well-formedness of type terms (no proofs).  [wfb nd t]: t is a type term the compiler can emit over
   [nd] declarations: arities match the constructors ($ptrType(elem), $mapType(key, elem), ...), one component per
   field / method, predeclared / declaration indices in range, a channel is not both send-only and receive-only,
   the parameter count of a func does not exceed its components, identifiers and package paths contain none of
   , $ \ (Go identifiers / go-command import paths), `exported` is determined by the (ASCII) name, and the package
   of a struct type is "" exactly as compiler/utils.go computes it (no unexported field -> "").
   Tags are ARBITRARY strings.  harness/py/props/c09.py evaluates [wf_univ] on every generated deep family. *)
From Coq Require Import List NArith Bool String Ascii.
From Verif Require Import Gen.C09_Kinds Model.C09_Types Corr.C09_Eval.
Import ListNotations.
Local Open Scope N_scope.

Definition npre : N := N.of_nat (List.length predeclared).

Definition has_char (c : ascii) (s : string) : bool := existsb (Ascii.eqb c) (L s).
Definition clean (s : string) : bool :=
  negb (has_char c_comma s) && negb (has_char c_dollar s) && negb (has_char c_bslash s).

Definition name_exported (s : string) : bool :=
  match s with
  | String c _ => (65 <=? N_of_ascii c) && (N_of_ascii c <=? 90)
  | EmptyString => false
  end.

Definition fh_wf (f : fhdr) : bool := clean (fh_name f) && Bool.eqb (fh_exp f) (name_exported (fh_name f)).
Definition mh_wf (m : mhdr) : bool := clean (mh_name m) && clean (mh_pkg m).

Definition composite (l : lab) : bool := match l with LBasic _ | LNamed _ => false | _ => true end.

(* [n] = number of components *)
Definition lab_wf (nd : N) (l : lab) (n : nat) : bool :=
  match l with
  | LBasic i => (i <? npre) && Nat.eqb n 0
  | LNamed d => (d <? nd) && Nat.eqb n 0
  | LPtr | LSlice | LArray _ => Nat.eqb n 1
  | LMap => Nat.eqb n 2
  | LChan s r => Nat.eqb n 1 && negb (s && r)
  | LFunc np _ => Nat.leb (N.to_nat np) n
  | LStruct pkg fs => Nat.eqb (List.length fs) n && clean pkg && forallb fh_wf fs &&
                      (negb (forallb fh_exp fs) || String.eqb pkg "")
  | LIface ms => Nat.eqb (List.length ms) n && forallb mh_wf ms
  end.

Fixpoint wfb (nd : N) (t : ty) : bool :=
  match t with T l cs => lab_wf nd l (List.length cs) && forallb (wfb nd) cs end.

(* evaluation entry point: well-formedness of every universe type of a family *)
Definition wf_univ (f : family) : list bool := map (wfb (N.of_nat (List.length (f_decls f)))) (f_univ f).
