(* C13 — executable model of compiler/natives/src/unicode/unicode.go `to` (binary search over a
   CaseRange table), of the upstream Go 1.23 `to` it replaces, and of the first-match linear scan
   that defines what a case mapping is.  Model only, no proofs.  Runes are Z (int32 range). *)
From Coq Require Import ZArith List Bool.
Import ListNotations.
Local Open Scope Z_scope.

Definition MaxRune : Z := 1114111.
Definition UpperLower : Z := MaxRune + 1.
Definition ReplacementChar : Z := 65533.
Definition MaxCase : Z := 3.

Record case_range := { cr_lo : Z; cr_hi : Z; cr_d0 : Z; cr_d1 : Z; cr_d2 : Z }.

Definition delta_of (cr : case_range) (c : Z) : Z :=
  if c =? 0 then cr_d0 cr else if c =? 1 then cr_d1 cr else cr_d2 cr.

(* int32 wrap of rune arithmetic *)
Definition wrap_i32 (x : Z) : Z := (x + 2147483648) mod 4294967296 - 2147483648.

(* what the matching range maps r to *)
Definition apply_range (cr : case_range) (c r : Z) : Z :=
  let delta := delta_of cr c in
  if MaxRune <? delta
  then wrap_i32 (cr_lo cr + Z.lor (Z.ldiff (wrap_i32 (r - cr_lo cr)) 1) (Z.land c 1))
  else wrap_i32 (r + delta).

Definition in_range (cr : case_range) (r : Z) : bool := (cr_lo cr <=? r) && (r <=? cr_hi cr).

(* the loop `for lo < hi` with the midpoint computed by [mid]; fuel = len+1 is enough since hi-lo halves *)
Fixpoint search (mid : Z -> Z -> Z) (fuel : nat) (tab : list case_range) (c r lo hi : Z) : Z * bool :=
  match fuel with
  | O => (r, false)
  | S f =>
      if lo <? hi then
        let m := mid lo hi in
        let cr := nth (Z.to_nat m) tab {| cr_lo := 0; cr_hi := -1; cr_d0 := 0; cr_d1 := 0; cr_d2 := 0 |} in
        if in_range cr r then (apply_range cr c r, true)
        else if r <? cr_lo cr then search mid f tab c r lo m
        else search mid f tab c r (m + 1) hi
      else (r, false)
  end.

Definition mid_js (lo hi : Z) : Z := lo + (hi - lo) / 2.        (* override: lo + (hi-lo)/2 *)
Definition mid_go (lo hi : Z) : Z := Z.shiftr (lo + hi) 1.      (* upstream: int(uint(lo+hi) >> 1) *)

Definition to_with (mid : Z -> Z -> Z) (tab : list case_range) (c r : Z) : Z * bool :=
  if (c <? 0) || (MaxCase <=? c) then (ReplacementChar, false)
  else search mid (S (length tab)) tab c r 0 (Z.of_nat (length tab)).

Definition to_js := to_with mid_js.
Definition to_go := to_with mid_go.

(* the meaning of a case table: the first range containing r decides *)
Fixpoint to_linear_from (tab : list case_range) (c r : Z) : Z * bool :=
  match tab with
  | [] => (r, false)
  | cr :: rest => if in_range cr r then (apply_range cr c r, true) else to_linear_from rest c r
  end.

Definition to_linear (tab : list case_range) (c r : Z) : Z * bool :=
  if (c <? 0) || (MaxCase <=? c) then (ReplacementChar, false) else to_linear_from tab c r.

(* table well-formedness: every range non-empty, ranges strictly increasing and disjoint *)
Fixpoint sorted_from (prev_hi : Z) (tab : list case_range) : bool :=
  match tab with
  | [] => true
  | cr :: rest => (prev_hi <? cr_lo cr) && (cr_lo cr <=? cr_hi cr) && sorted_from (cr_hi cr) rest
  end.
Definition table_sorted (tab : list case_range) : bool :=
  match tab with
  | [] => true
  | cr :: rest => (cr_lo cr <=? cr_hi cr) && sorted_from (cr_hi cr) rest
  end.
