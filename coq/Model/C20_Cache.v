(* C20 — executable model of build/cache/cache.go: key derivation (commonKey,
   packageKey, path.Join/path.Clean, strconv.Quote on ASCII), the file-system steps of
   Store (CreateTemp, write, Rename / Remove on error) with crash points, and Load
   (Open, decode time, staleness, decode body, Close).
   Model only: no proofs in this file.

   Outside the repository, hence Section parameters:
     H         SHA-256 -> file name   (cachedPath: sum[0:2]/sum; the directory is a function of the name)
     enc       gzip(gob(buildTime) ++ gob(fields...))   (serialize)
     unzip     gzip.NewReader + io.ReadAll: the WHOLE stream is decompressed first, which verifies the
               CRC-32 and the size in the gzip trailer; any error is a miss (repaired code, c802f28)
     dec_time  gob Decode(&buildTime) on the decompressed data
     dec_body  c.Read(gd.Decode) followed by zr.Close()

   Bytes are [N].  Strings of the key are ASCII (< 128); the Quote model is exact there. *)
From Coq Require Import String Ascii.
From Coq Require Import List NArith ZArith Bool.
Import ListNotations.
Local Open Scope N_scope.

Definition byte := N.
Definition bytes := list N.

Definition s2b (s : string) : bytes := map N_of_ascii (list_ascii_of_string s).

Fixpoint bytes_eqb (a b : bytes) : bool :=
  match a, b with
  | [], [] => true
  | x :: a', y :: b' => (x =? y) && bytes_eqb a' b'
  | _, _ => false
  end.

(* ---- strconv.Quote restricted to ASCII --------------------------------- *)

Definition hexdig (n : N) : N := if n <? 10 then 48 + n else 87 + n.   (* lower-case hex digit *)

Definition quote_byte (b : N) : bytes :=
  if b =? 34 then [92; 34]            (* backslash, double quote *)
  else if b =? 92 then [92; 92]       (* \\ *)
  else if b =? 7 then [92; 97]        (* \a *)
  else if b =? 8 then [92; 98]        (* \b *)
  else if b =? 12 then [92; 102]      (* \f *)
  else if b =? 10 then [92; 110]      (* \n *)
  else if b =? 13 then [92; 114]      (* \r *)
  else if b =? 9 then [92; 116]       (* \t *)
  else if b =? 11 then [92; 118]      (* \v *)
  else if (b <? 32) || (b =? 127) then [92; 120; hexdig (b / 16); hexdig (b mod 16)]
  else [b].

Definition esc (s : bytes) : bytes := flat_map quote_byte s.
Definition quote (s : bytes) : bytes := 34 :: esc s ++ [34].

(* ---- fmt.Sprintf(%#v, commonKey{...}) ---------------------------------- *)

Record cfg := {
  goos : bytes; goarch : bytes; goroot : bytes; gopath : bytes;
  tags : option (list bytes);      (* None = nil slice, prints []string(nil) *)
  version : bytes;
  tested : bytes                   (* TestedPackage: NOT part of the key *)
}.

Fixpoint tag_items (l : list bytes) : bytes :=
  match l with
  | [] => []
  | [a] => quote a
  | a :: r => quote a ++ s2b ", " ++ tag_items r
  end.

Definition tags_str (o : option (list bytes)) : bytes :=
  match o with
  | None => s2b "[]string(nil)"
  | Some l => s2b "[]string{" ++ tag_items l ++ [125]
  end.

Definition common_key (c : cfg) : bytes :=
  s2b "cache.commonKey{GOOS:" ++ quote (goos c) ++
  s2b ", GOARCH:" ++ quote (goarch c) ++
  s2b ", GOROOT:" ++ quote (goroot c) ++
  s2b ", GOPATH:" ++ quote (gopath c) ++
  s2b ", BuildTags:" ++ tags_str (tags c) ++
  s2b ", Version:" ++ quote (version c) ++ [125].

(* ---- path.Clean / path.Join -------------------------------------------- *)

Definition SLASH : N := 47.
Definition DOT : N := 46.

(* strings.Split(p, slash) *)
Fixpoint split_slash (cur : bytes) (p : bytes) : list bytes :=
  match p with
  | [] => [rev cur]
  | x :: r => if x =? SLASH then rev cur :: split_slash [] r else split_slash (x :: cur) r
  end.

Definition is_dot (s : bytes) : bool := bytes_eqb s [DOT].
Definition is_dotdot (s : bytes) : bool := bytes_eqb s [DOT; DOT].

(* the element loop of path.Clean; [stack] holds the output elements, newest first *)
Fixpoint clean_segs (rooted : bool) (stack : list bytes) (segs : list bytes) : list bytes :=
  match segs with
  | [] => rev stack
  | s :: r =>
      if match s with [] => true | _ => false end then clean_segs rooted stack r
      else if is_dot s then clean_segs rooted stack r
      else if is_dotdot s then
        match stack with
        | top :: rest =>
            if is_dotdot top then clean_segs rooted (s :: stack) r      (* cannot backtrack, not rooted *)
            else clean_segs rooted rest r                                 (* backtrack *)
        | [] => if rooted then clean_segs rooted stack r else clean_segs rooted [s] r
        end
      else clean_segs rooted (s :: stack) r
  end.

Fixpoint join_slash (l : list bytes) : bytes :=
  match l with
  | [] => []
  | [a] => a
  | a :: r => a ++ SLASH :: join_slash r
  end.

Definition clean (p : bytes) : bytes :=
  match p with
  | [] => [DOT]
  | x :: _ =>
      let rooted := x =? SLASH in
      let out := join_slash (clean_segs rooted [] (split_slash [] p)) in
      if rooted then SLASH :: out
      else match out with [] => [DOT] | _ => out end
  end.

(* path.Join(package, commonKey, importPath): the first element is never empty, so every later
   element (even an empty one) is appended after a '/'; then Clean. *)
Definition joined (c : cfg) (ip : bytes) : bytes :=
  s2b "package" ++ SLASH :: common_key c ++ SLASH :: ip.

Definition key (c : cfg) (ip : bytes) : bytes := clean (joined c ip).

(* what the key looks like when Clean has nothing to do *)
Definition raw (c : cfg) (ip : bytes) : bytes :=
  s2b "package" ++ SLASH :: common_key c ++ match ip with [] => [] | _ => SLASH :: ip end.

(* well-formedness used by key_injective: Clean leaves the joined string alone (no empty,
   dot or dot-dot path element inside the configuration strings or the import path) *)
Definition wfb (c : cfg) (ip : bytes) : bool := bytes_eqb (key c ip) (raw c ip).

(* the part of a configuration that the key is derived from *)
Definition common (c : cfg) : bytes * bytes * bytes * bytes * option (list bytes) * bytes :=
  (goos c, goarch c, goroot c, gopath c, tags c, version c).

(* isTestPackage; a nil *BuildCache is [None] *)
Definition is_test (c : cfg) (ip : bytes) : bool :=
  match ip with
  | [] => false
  | _ => bytes_eqb ip (tested c) || bytes_eqb ip (tested c ++ s2b "_test")
  end.

(* ---- file system: association list name -> contents -------------------- *)

Definition fs := list (bytes * bytes).

Fixpoint fs_get (f : fs) (p : bytes) : option bytes :=
  match f with
  | [] => None
  | (q, c) :: r => if bytes_eqb q p then Some c else fs_get r p
  end.

Fixpoint fs_del (f : fs) (p : bytes) : fs :=
  match f with
  | [] => []
  | (q, c) :: r => if bytes_eqb q p then fs_del r p else (q, c) :: fs_del r p
  end.

Definition fs_set (f : fs) (p : bytes) (c : bytes) : fs := (p, c) :: fs_del f p.

Inductive fsop :=
| OpCreate (p : bytes)                (* os.CreateTemp: new empty file *)
| OpAppend (p : bytes) (b : N)        (* one more byte reaches the file *)
| OpRename (src dst : bytes)          (* os.Rename: atomic replace *)
| OpRemove (p : bytes)                (* os.Remove *)
| OpTruncate (p : bytes) (k : nat).   (* damage from outside: keep the first k bytes *)

Definition apply_op (f : fs) (o : fsop) : fs :=
  match o with
  | OpCreate p => fs_set f p []
  | OpAppend p b => match fs_get f p with Some c => fs_set f p (c ++ [b]) | None => f end
  | OpRename s d => match fs_get f s with Some c => fs_set (fs_del f s) d c | None => f end
  | OpRemove p => fs_del f p
  | OpTruncate p k => match fs_get f p with Some c => fs_set f p (firstn k c) | None => f end
  end.

Definition apply_ops (f : fs) (l : list fsop) : fs := fold_left apply_op l f.

(* how a Store call ends *)
Inductive outcome :=
| Done                    (* ran to completion *)
| CrashAfter (n : nat)    (* the process died after the first n file-system steps *)
| Fail (n : nat).         (* n bytes reached the temp file, then serialize returned an error:
                             os.Remove(temp), return false *)

Section Cache.
  Variable E : Type.                       (* what a Cacheable carries *)
  Variable H : bytes -> bytes.             (* hex SHA-256 of the key = file name *)
  Variable enc : Z -> E -> bytes.
  Variable unzip : bytes -> option bytes.
  Variable dec_time : bytes -> option Z.
  Variable dec_body : bytes -> option E.

  Definition final_name (c : cfg) (ip : bytes) : bytes := H (key c ip).
  (* os.CreateTemp(dir, base): base ++ random decimal digits *)
  Definition temp_name (c : cfg) (ip : bytes) (rnd : bytes) : bytes := final_name c ip ++ rnd.

  (* the file-system steps of a successful Store; a crash executes a prefix of them *)
  Definition store_ops (c : cfg) (ip : bytes) (t : Z) (e : E) (rnd : bytes) : list fsop :=
    let tmp := temp_name c ip rnd in
    OpCreate tmp :: map (OpAppend tmp) (enc t e) ++ [OpRename tmp (final_name c ip)].

  Definition fail_ops (c : cfg) (ip : bytes) (t : Z) (e : E) (rnd : bytes) (n : nat) : list fsop :=
    let tmp := temp_name c ip rnd in
    OpCreate tmp :: map (OpAppend tmp) (firstn n (enc t e)) ++ [OpRemove tmp].

  (* BuildCache.Store; [None] is the nil cache *)
  Definition store (f : fs) (oc : option cfg) (ip : bytes) (t : Z) (e : E) (rnd : bytes) (o : outcome)
    : fs * bool :=
    match oc with
    | None => (f, false)
    | Some c =>
        if is_test c ip then (f, false)
        else match o with
             | Done => (apply_ops f (store_ops c ip t e rnd), true)
             | CrashAfter n => (apply_ops f (firstn n (store_ops c ip t e rnd)), false)
             | Fail n => (apply_ops f (fail_ops c ip t e rnd n), false)
             end
    end.

  (* deserialize: decompress everything (checksum), time, staleness (srcModTime.After(buildTime)),
     body + Close *)
  Definition deserialize (b : bytes) (tsrc : Z) : option (Z * E) :=
    match unzip b with
    | None => None                                       (* header, deflate, CRC-32 or size error *)
    | Some d =>
        match dec_time d with
        | None => None
        | Some t =>
            if (t <? tsrc)%Z then None                   (* out of date *)
            else match dec_body d with
                 | None => None
                 | Some e => Some (t, e)
                 end
        end
    end.

  (* BuildCache.Load as used by build.go (the Sources are used only when Load returned true) *)
  Definition load (f : fs) (oc : option cfg) (ip : bytes) (tsrc : Z) : option (Z * E) :=
    match oc with
    | None => None
    | Some c =>
        if is_test c ip then None
        else match fs_get f (final_name c ip) with
             | None => None                            (* os.Open failed: miss *)
             | Some b => deserialize b tsrc
             end
    end.

  (* decompression, time and body together, ignoring staleness *)
  Definition dec_full (b : bytes) : option (Z * E) :=
    match unzip b with
    | None => None
    | Some d =>
        match dec_time d with
        | None => None
        | Some t => match dec_body d with None => None | Some e => Some (t, e) end
        end
    end.

  (* ---- histories: newest event first --------------------------------- *)
  Inductive event :=
  | EStore (oc : option cfg) (ip : bytes) (t : Z) (e : E) (rnd : bytes) (o : outcome)
  | ETrunc (name : bytes) (k : nat)        (* any file cut to its first k bytes *)
  | EDelete (name : bytes).                (* any file deleted (cache.Clear, the user) *)

  Definition step (f : fs) (ev : event) : fs :=
    match ev with
    | EStore oc ip t e rnd o => fst (store f oc ip t e rnd o)
    | ETrunc name k => apply_op f (OpTruncate name k)
    | EDelete name => apply_op f (OpRemove name)
    end.

  Fixpoint run (h : list event) : fs :=
    match h with
    | [] => []
    | ev :: older => step (run older) ev
    end.

  (* a store that publishes: completed, or died after the rename *)
  Definition publishes (c : cfg) (ip : bytes) (t : Z) (e : E) (rnd : bytes) (o : outcome) : bool :=
    match o with
    | Done => true
    | CrashAfter n => Nat.leb (length (store_ops c ip t e rnd)) n
    | Fail _ => false
    end.

  (* specification side: what the last published store for key string [k] stored, if the
     file was not deleted since *)
  Fixpoint last_done (h : list event) (k : bytes) : option (Z * E) :=
    match h with
    | [] => None
    | EStore (Some c) ip t e rnd o :: older =>
        if negb (is_test c ip) && publishes c ip t e rnd o && bytes_eqb (key c ip) k then Some (t, e)
        else last_done older k
    | EStore None _ _ _ _ _ :: older => last_done older k
    | ETrunc _ _ :: older => last_done older k
    | EDelete name :: older => if bytes_eqb name (H k) then None else last_done older k
    end.

  Fixpoint keys_of (h : list event) : list bytes :=
    match h with
    | [] => []
    | EStore (Some c) ip _ _ _ _ :: older => key c ip :: keys_of older
    | _ :: older => keys_of older
    end.

  Fixpoint rnds_ok (h : list event) : bool :=
    match h with
    | [] => true
    | EStore _ _ _ _ rnd _ :: older => match rnd with [] => false | _ => rnds_ok older end
    | _ :: older => rnds_ok older
    end.
End Cache.

Arguments EStore {E}. Arguments ETrunc {E}. Arguments EDelete {E}.

(* ---- a concrete toy codec with the same shape as the real one ------------
   magic (2), length of the data, data, trailer (8: checksum, then padding).  The reader checks
   the total length and the checksum before it decodes anything, like gzip + io.ReadAll.
   Data: time (sign, magnitude), number of chunks, length-prefixed chunks. *)

Definition toyE := list bytes.

Definition toy_time (t : Z) : bytes :=
  if (t <? 0)%Z then [1; Z.to_N (- t)] else [0; Z.to_N t].

Definition toy_chunks (e : toyE) : bytes := flat_map (fun c => N.of_nat (length c) :: c) e.

Definition toy_body (t : Z) (e : toyE) : bytes :=
  toy_time t ++ N.of_nat (length e) :: toy_chunks e.

Definition toy_sum (b : bytes) : N := fold_right N.add 0 b.

Definition toy_trailer (b : bytes) : bytes := [toy_sum b; 0; 0; 0; 0; 0; 0; 0].

Definition toy_enc (t : Z) (e : toyE) : bytes :=
  31 :: 139 :: N.of_nat (length (toy_body t e)) :: toy_body t e ++ toy_trailer (toy_body t e).

Definition toy_unzip (b : bytes) : option bytes :=
  match b with
  | m1 :: m2 :: n :: rest =>
      if negb ((m1 =? 31) && (m2 =? 139)) then None
      else if negb (N.of_nat (length rest) =? n + 8) then None
      else let d := firstn (N.to_nat n) rest in
           match skipn (N.to_nat n) rest with
           | s :: _ => if s =? toy_sum d then Some d else None
           | [] => None
           end
  | _ => None
  end.

Definition toy_dec_time (d : bytes) : option Z :=
  match d with
  | s :: a :: _ =>
      if s =? 0 then Some (Z.of_N a)
      else if (s =? 1) && negb (a =? 0) then Some (- Z.of_N a)%Z
      else None
  | _ => None
  end.

Fixpoint parse_chunks (n : nat) (b : bytes) : option toyE :=
  match n with
  | O => Some []
  | S n' =>
      match b with
      | [] => None
      | l :: r =>
          let k := N.to_nat l in
          if Nat.ltb (length r) k then None
          else match parse_chunks n' (skipn k r) with
               | None => None
               | Some cs => Some (firstn k r :: cs)
               end
      end
  end.

Definition toy_dec_body (d : bytes) : option toyE :=
  match d with
  | _ :: _ :: n :: rest => parse_chunks (N.to_nat n) rest
  | _ => None
  end.

(* file names for evaluation: a table key -> name observed from the real cachedPath *)
Fixpoint table_H (tbl : list (bytes * bytes)) (k : bytes) : bytes :=
  match tbl with
  | [] => repeat 48 64
  | (k', n) :: r => if bytes_eqb k' k then n else table_H r k
  end.
