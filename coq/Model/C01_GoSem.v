(* C01 — MiniGo: syntax and a fuel-indexed definitional interpreter (no proofs here).
   Fragment (stage 1): one function main; local variables of the kinds int8 int16 int32 int
   uint8 uint16 uint32 uint (int/uint are 32 bit under GopherJS) and bool; see Props/C01.v.
   Variables are RESOLVED: every declaration has its own identity (base name, k) and every
   use names the declaration it refers to (what go/types computes; the Python printer emits
   Go source whose lexical scoping resolves to exactly these identities). *)
From Coq Require Import ZArith List String Bool.
Import ListNotations.
Local Open Scope Z_scope.

(* ---------------------------------------------------------------- names, stores *)
Definition name := (string * N)%type.
Definition name_eqb (a b : name) : bool := String.eqb (fst a) (fst b) && N.eqb (snd a) (snd b).

Definition store (V : Type) := list (name * V).
Fixpoint get {V} (s : store V) (n : name) : option V :=
  match s with
  | [] => None
  | (m, v) :: r => if name_eqb m n then Some v else get r n
  end.
Definition set {V} (s : store V) (n : name) (v : V) : store V := (n, v) :: s.

(* ---------------------------------------------------------------- integer kinds *)
Inductive kind := I8 | I16 | I32 | I | U8 | U16 | U32 | U.
Definition bits (k : kind) : Z := match k with I8 | U8 => 8 | I16 | U16 => 16 | _ => 32 end.
Definition signed (k : kind) : bool := match k with I8 | I16 | I32 | I => true | _ => false end.
Definition kind_eqb (a b : kind) : bool :=
  match a, b with
  | I8, I8 | I16, I16 | I32, I32 | I, I | U8, U8 | U16, U16 | U32, U32 | U, U => true
  | _, _ => false
  end.

Definition umod (n x : Z) : Z := x mod 2 ^ n.
Definition smod (n x : Z) : Z := (x + 2 ^ (n - 1)) mod 2 ^ n - 2 ^ (n - 1).
(* the value of kind k congruent to x modulo 2^bits (Go's wrap-around) *)
Definition norm (k : kind) (x : Z) : Z := if signed k then smod (bits k) x else umod (bits k) x.
Definition min_int (k : kind) : Z := - 2 ^ (bits k - 1).
Definition in_range (k : kind) (x : Z) : bool :=
  if signed k then (- 2 ^ (bits k - 1) <=? x) && (x <? 2 ^ (bits k - 1))
  else (0 <=? x) && (x <? 2 ^ bits k).

Inductive ty := TI (k : kind) | TB.
Definition ty_eqb (a b : ty) : bool :=
  match a, b with TI x, TI y => kind_eqb x y | TB, TB => true | _, _ => false end.

(* ---------------------------------------------------------------- syntax *)
Inductive binop := Add | Sub | Mul | Quo | Rem | And | Or | Xor | AndNot | Shl | Shr.
Inductive cmpop := Eq | Ne | Lt | Le | Gt | Ge.
Definition is_shift (op : binop) : bool := match op with Shl | Shr => true | _ => false end.

Inductive expr :=
| EVar (v : name)
| ELit (k : kind) (z : Z)                         (* integer constant converted to kind k *)
| EBool (b : bool)
| EBin (p : bool) (k : kind) (op : binop) (a b : expr)
    (* k = kind of a (and of the result). p = true only for the desugaring of `v op= e` / v++ :
       filter.Assign wraps e in a ParenExpr that carries no constant value *)
| ECmp (t : ty) (op : cmpop) (a b : expr)         (* t = type of the operands *)
| EAnd (a b : expr) | EOr (a b : expr) | ENot (a : expr)
| ENeg (k : kind) (a : expr) | ECpl (k : kind) (a : expr)
| EConv (from to : kind) (a : expr).

Inductive stmt :=
| SSkip
| SSeq (a b : stmt)
| SDefine (v : name) (t : ty) (e : expr)          (* v := e   /  var v T = e *)
| SAssign (v : name) (e : expr)
| SOpAssign (v : name) (k : kind) (op : binop) (e : expr)
| SIncDec (v : name) (k : kind) (inc : bool)
| SIf (c : expr) (t : stmt) (e : stmt)            (* e = SNoElse | SIf .. (else if) | block *)
| SNoElse
| SFor (l : option string) (init : stmt) (c : option expr) (post : stmt) (body : stmt)
| SBreak (l : option string)
| SContinue (l : option string)
| SPrint (es : list expr).

(* the rewriting done by compiler/filter/incdecstmt.go and assign.go *)
Definition desugar_opassign (v : name) (k : kind) (op : binop) (e : expr) : stmt :=
  SAssign v (EBin true k op (EVar v) e).
Definition desugar_incdec (v : name) (k : kind) (inc : bool) : stmt :=
  desugar_opassign v k (if inc then Add else Sub) (ELit k 1).

(* ---------------------------------------------------------------- values, results *)
Inductive val := VI (z : Z) | VB (b : bool).

Inductive eres := EV (v : val) | EPanic | EStuck.

Definition opt_label_eqb (a b : option string) : bool :=
  match a, b with
  | None, None => true
  | Some x, Some y => String.eqb x y
  | _, _ => false
  end.

(* ---------------------------------------------------------------- expressions *)
Definition go_bin (k : kind) (op : binop) (a b : Z) : eres :=
  match op with
  | Add => EV (VI (norm k (a + b)))
  | Sub => EV (VI (norm k (a - b)))
  | Mul => EV (VI (norm k (a * b)))
  | Quo => if b =? 0 then EPanic else EV (VI (norm k (Z.quot a b)))
  | Rem => if b =? 0 then EPanic else EV (VI (Z.rem a b))
  | And => EV (VI (Z.land a b))
  | Or => EV (VI (Z.lor a b))
  | Xor => EV (VI (norm k (Z.lxor a b)))
  | AndNot => EV (VI (norm k (Z.land a (Z.lnot b))))
  | Shl => if b <? 0 then EStuck
           else if 32 <=? b then EV (VI 0) else EV (VI (norm k (a * 2 ^ b)))
  | Shr => if b <? 0 then EStuck
           else if signed k then EV (VI (a / 2 ^ Z.min b 31))
           else if 32 <=? b then EV (VI 0) else EV (VI (a / 2 ^ b))
  end.

Definition go_cmp (op : cmpop) (a b : Z) : bool :=
  match op with
  | Eq => a =? b | Ne => negb (a =? b) | Lt => a <? b | Le => a <=? b | Gt => a >? b | Ge => a >=? b
  end.


Fixpoint eval (s : store val) (e : expr) : eres :=
  match e with
  | EVar v => match get s v with Some a => EV a | None => EStuck end
  | ELit k z => EV (VI z)
  | EBool b => EV (VB b)
  | EBin p k op a b =>
      match eval s a with
      | EV (VI za) => match eval s b with
                      | EV (VI zb) => go_bin k op za zb
                      | EV _ => EStuck
                      | r => r
                      end
      | EV _ => EStuck
      | r => r
      end
  | ECmp t op a b =>
      match eval s a with
      | EV va =>
          match eval s b with
          | EV vb =>
              match va, vb with
              | VI za, VI zb => EV (VB (go_cmp op za zb))
              | VB ba, VB bb => match op with
                                | Eq => EV (VB (Bool.eqb ba bb))
                                | Ne => EV (VB (negb (Bool.eqb ba bb)))
                                | _ => EStuck
                                end
              | _, _ => EStuck
              end
          | r => r
          end
      | r => r
      end
  | EAnd a b =>
      match eval s a with
      | EV (VB true) => match eval s b with EV (VB c) => EV (VB c) | EV _ => EStuck | r => r end
      | EV (VB false) => EV (VB false)
      | EV _ => EStuck
      | r => r
      end
  | EOr a b =>
      match eval s a with
      | EV (VB false) => match eval s b with EV (VB c) => EV (VB c) | EV _ => EStuck | r => r end
      | EV (VB true) => EV (VB true)
      | EV _ => EStuck
      | r => r
      end
  | ENot a =>
      match eval s a with EV (VB b) => EV (VB (negb b)) | EV _ => EStuck | r => r end
  | ENeg k a =>
      match eval s a with EV (VI z) => EV (VI (norm k (- z))) | EV _ => EStuck | r => r end
  | ECpl k a =>
      match eval s a with EV (VI z) => EV (VI (norm k (Z.lnot z))) | EV _ => EStuck | r => r end
  | EConv _ to a =>
      match eval s a with EV (VI z) => EV (VI (norm to z)) | EV _ => EStuck | r => r end
  end.

(* ---------------------------------------------------------------- statements *)
Inductive sig := SNormal | SBrk (l : option string) | SCont (l : option string).
Definition line := list val.

Inductive sres (S : Type) :=
| ROk (g : sig) (s : S) (out : list line)
| RPanic (out : list line)
| ROOF
| RStuck.
Arguments ROk {S}. Arguments RPanic {S}. Arguments ROOF {S}. Arguments RStuck {S}.

Definition prepend {S} (o : list line) (r : sres S) : sres S :=
  match r with
  | ROk g s out => ROk g s (o ++ out)
  | RPanic out => RPanic (o ++ out)
  | r => r
  end.

(* does a loop labelled [l] catch a break/continue carrying [t] ? *)
Definition catches (l t : option string) : bool :=
  match t with None => true | Some _ => opt_label_eqb l t end.

Fixpoint eval_list (s : store val) (es : list expr) : option (list val) + eres :=
  match es with
  | [] => inl (Some [])
  | e :: r => match eval s e with
              | EV v => match eval_list s r with
                        | inl (Some vs) => inl (Some (v :: vs))
                        | o => o
                        end
              | o => inr o
              end
  end.

Definition assign (s : store val) (v : name) (e : expr) : sres (store val) :=
  match eval s e with
  | EV a => ROk SNormal (set s v a) []
  | EPanic => RPanic []
  | EStuck => RStuck
  end.

(* simple statements: no control flow, no fuel *)
Definition exec_simple (st : stmt) (s : store val) : sres (store val) :=
  match st with
  | SDefine v _ e => assign s v e
  | SAssign v e => assign s v e
  | SOpAssign v k op e => assign s v (EBin true k op (EVar v) e)
  | SIncDec v k inc => assign s v (EBin true k (if inc then Add else Sub) (EVar v) (ELit k 1))
  | _ => ROk SNormal s []
  end.

Fixpoint exec (fuel : nat) : stmt -> store val -> sres (store val) :=
  fix ex (st : stmt) (s : store val) {struct st} : sres (store val) :=
    match st with
    | SSkip | SNoElse => ROk SNormal s []
    | SSeq a b =>
        match ex a s with
        | ROk SNormal s1 o1 => prepend o1 (ex b s1)
        | r => r
        end
    | SDefine _ _ _ | SAssign _ _ | SOpAssign _ _ _ _ | SIncDec _ _ _ => exec_simple st s
    | SIf c t e =>
        match eval s c with
        | EV (VB true) => ex t s
        | EV (VB false) => ex e s
        | EV _ => RStuck
        | EPanic => RPanic []
          | EStuck => RStuck
        end
    | SFor l init c post body =>
        match ex init s with
        | ROk SNormal s1 o1 =>
            prepend o1
              (match (match c with None => EV (VB true) | Some ce => eval s1 ce end) with
               | EV (VB true) =>
                   match ex body s1 with
                   | ROk g s2 o2 =>
                       match g with
                       | SBrk t => if catches l t then ROk SNormal s2 o2 else ROk g s2 o2
                       | _ =>
                           if match g with SCont t => catches l t | _ => true end then
                             match ex post s2 with
                             | ROk SNormal s3 o3 =>
                                 match fuel with
                                 | O => ROOF
                                 | S f => prepend (o2 ++ o3) (exec f (SFor l SSkip c post body) s3)
                                 end
                             | ROk _ _ _ => RStuck
                             | r => prepend o2 r
                             end
                           else ROk g s2 o2
                       end
                   | r => r
                   end
               | EV (VB false) => ROk SNormal s1 []
               | EV _ => RStuck
               | EPanic => RPanic []
                        | EStuck => RStuck
               end)
        | ROk _ _ _ => RStuck
        | r => r
        end
    | SBreak l => ROk (SBrk l) s []
    | SContinue l => ROk (SCont l) s []
    | SPrint es =>
        match eval_list s es with
        | inl (Some vs) => ROk SNormal s [vs]
        | inl None => RStuck
        | inr EPanic => RPanic []
        | inr _ => RStuck
        end
    end.

(* ---------------------------------------------------------------- programs *)
Inductive ending := Exit | PanicExit.
Inductive outcome := Done (out : list line) (e : ending) | OutOfFuel | Stuck.

Definition outcome_of {S} (r : sres S) : outcome :=
  match r with
  | ROk SNormal _ out => Done out Exit
  | ROk _ _ _ => Stuck
  | RPanic out => Done out PanicExit
  | ROOF => OutOfFuel
  | RStuck => Stuck
  end.

Definition run_go (fuel : nat) (p : stmt) : outcome := outcome_of (exec fuel p []).
