(* C16 - executable model of funcContext.newVariable (compiler/utils.go), of the allVars copy in
   nestedFunctionContext (compiler/functions.go) and of the keyword seeding in newRootCtx
   (compiler/package.go).  Model only, no proofs.

   Names are byte lists.  The name handed to newVariable is assumed to be already in
   encodeIdent form (identifier characters only; encodeIdent itself is not modelled).
   A context stack is a list of frames, innermost first; the compiler only ever allocates in
   the innermost context (a nested context is finished before its parent continues).
   [fseen] is a ghost field: every name that is visible in the frame (allocated in it, inherited
   from the parent when the frame was created, or package-level names allocated by a
   descendant).  It does not influence any result. *)
From Coq Require Import List NArith Arith Bool.
Import ListNotations.
Local Open Scope N_scope.

Definition name := list N.

Fixpoint name_eqb (a b : name) : bool :=
  match a, b with
  | [], [] => true
  | x :: a', y :: b' => (x =? y) && name_eqb a' b'
  | _, _ => false
  end.

(* allVars: map[string]int, absent = 0 *)
Definition vars := list (name * N).

Fixpoint get (m : vars) (k : name) : N :=
  match m with
  | [] => 0
  | (k', v) :: r => if name_eqb k k' then v else get r k
  end.

Fixpoint set (m : vars) (k : name) (v : N) : vars :=
  match m with
  | [] => [(k, v)]
  | (k', v') :: r => if name_eqb k k' then (k', v) :: r else (k', v') :: set r k v
  end.

(* fmt.Sprintf("%d", n) *)
Fixpoint uint_bytes (u : Decimal.uint) : list N :=
  match u with
  | Decimal.Nil => []
  | Decimal.D0 u => 48 :: uint_bytes u
  | Decimal.D1 u => 49 :: uint_bytes u
  | Decimal.D2 u => 50 :: uint_bytes u
  | Decimal.D3 u => 51 :: uint_bytes u
  | Decimal.D4 u => 52 :: uint_bytes u
  | Decimal.D5 u => 53 :: uint_bytes u
  | Decimal.D6 u => 54 :: uint_bytes u
  | Decimal.D7 u => 55 :: uint_bytes u
  | Decimal.D8 u => 56 :: uint_bytes u
  | Decimal.D9 u => 57 :: uint_bytes u
  end.

Definition dec (n : N) : list N := uint_bytes (N.to_uint n).

(* varName: name, or name$n when n > 0 *)
Definition fmt_name (nm : name) (n : N) : name :=
  if n =? 0 then nm else nm ++ 36 :: dec n.

(* the inner loop of the minify branch: name = chr(offset + j%26) + name; j = j/26 - 1; stop at -1.
   j/26 - 1 = -1 iff j < 26.  Go's int is 64 bits wide: 64 rounds always suffice. *)
Fixpoint short_name_loop (fuel : nat) (offset j : N) (acc : name) : name :=
  let acc' := (offset + j mod 26) :: acc in
  if j <? 26 then acc'
  else match fuel with
       | O => acc'
       | S f => short_name_loop f offset (j / 26 - 1) acc'
       end.

Definition short_name (offset i : N) : name := short_name_loop 64 offset i [].

(* the outer loop: the first i whose name has count 0.  None = fuel exhausted. *)
Fixpoint find_free (fuel : nat) (m : vars) (offset i : N) : option name :=
  let nm := short_name offset i in
  if get m nm =? 0 then Some nm
  else match fuel with
       | O => None
       | S f => find_free f m offset (i + 1)
       end.

Definition is_nil_name (b : name) : bool := match b with [] => true | _ => false end.

Record frame := { fvars : vars; flocals : list name; fseen : list name }.

Definition bump (nm : name) (v : N) (seen : name) (f : frame) : frame :=
  {| fvars := set (fvars f) nm v; flocals := flocals f; fseen := seen :: fseen f |}.

(* newVariable(name, pkgLevel) on the innermost frame.  None = panic (empty name) or no free
   short name found within the fuel. *)
Definition alloc (minify : bool) (base : name) (pkg : bool) (st : list frame) : option (name * list frame) :=
  match st with
  | [] => None
  | c :: parents =>
      if is_nil_name base then None else
      let chosen :=
        if minify then find_free (S (length (fvars c))) (fvars c) (if pkg then 65 else 97) 0
        else Some base in
      match chosen with
      | None => None
      | Some nm =>
          let n := get (fvars c) nm in
          let v := fmt_name nm n in
          if pkg then Some (v, bump nm (n + 1) v c :: map (bump nm (n + 1) v) parents)
          else Some (v, {| fvars := set (fvars c) nm (n + 1);
                           flocals := flocals c ++ [v];
                           fseen := v :: fseen c |} :: parents)
      end
  end.

(* newRootCtx: allVars[keyword] = 1 for every reserved keyword *)
Definition root_frame (keywords : list name) : frame :=
  {| fvars := fold_left (fun m k => set m k 1) keywords []; flocals := []; fseen := [] |}.

(* nestedFunctionContext: the child starts with a copy of the parent's allVars and at once
   allocates the function's own reference name at package level (from the child). *)
Definition enter (minify : bool) (fname : name) (st : list frame) : option (name * list frame) :=
  match st with
  | [] => None
  | c :: _ => alloc minify fname true ({| fvars := fvars c; flocals := []; fseen := fseen c |} :: st)
  end.

Inductive op :=
| OEnter (fname : name)
| OLeave
| OAlloc (base : name) (pkg : bool)
| OReuse (v : name).
(* OReuse: varPtrName (compiler/utils.go) for a variable whose pointer name [v] was already chosen
   while another instantiation of the same generic function was translated: the cached name is
   appended to localVars of the current (generic-instance) context when it is not there yet -
   and allVars is NOT updated.  See C16_alloc_distinct_refuted. *)

(* one observable per operation: the returned name / the localVars of the frame that is left *)
Inductive out :=
| ON (v : name)
| OL (locals : list name).

Fixpoint run (minify : bool) (ops : list op) (st : list frame) : option (list out * list frame) :=
  match ops with
  | [] => Some ([], st)
  | o :: r =>
      let continue_with ov st' :=
        match run minify r st' with Some (os, fin) => Some (ov :: os, fin) | None => None end in
      match o with
      | OEnter f => match enter minify f st with
                    | Some (v, st') => continue_with (ON v) st'
                    | None => None
                    end
      | OLeave => match st with
                  | c :: (p :: _) as rest => continue_with (OL (flocals c)) rest
                  | _ => None                       (* the package-level context is never left *)
                  end
      | OAlloc b pkg => match alloc minify b pkg st with
                        | Some (v, st') => continue_with (ON v) st'
                        | None => None
                        end
      | OReuse v => match st with
                    | c :: rest =>
                        if existsb (name_eqb v) (flocals c) then continue_with (ON v) st
                        else continue_with (ON v)
                               ({| fvars := fvars c; flocals := flocals c ++ [v]; fseen := v :: fseen c |} :: rest)
                    | [] => None
                    end
      end
  end.

Definition run_root (minify : bool) (keywords : list name) (ops : list op) : option (list out * list frame) :=
  run minify ops [root_frame keywords].

(* the ECMAScript reserved words (2023, 12.7.2) incl. the strict-mode ones, the literals
   null/true/false and the two names that strict code may not bind.  Written by hand from the
   standard, NOT derived from the compiler: the theorem alloc_not_reserved is about this list. *)
Definition ascii_name (l : list N) : name := l.
Definition js_reserved : list name :=
  [ [97;119;97;105;116]; [98;114;101;97;107]; [99;97;115;101]; [99;97;116;99;104]; [99;108;97;115;115];
    [99;111;110;115;116]; [99;111;110;116;105;110;117;101]; [100;101;98;117;103;103;101;114];
    [100;101;102;97;117;108;116]; [100;101;108;101;116;101]; [100;111]; [101;108;115;101]; [101;110;117;109];
    [101;120;112;111;114;116]; [101;120;116;101;110;100;115]; [102;97;108;115;101]; [102;105;110;97;108;108;121];
    [102;111;114]; [102;117;110;99;116;105;111;110]; [105;102]; [105;109;112;111;114;116]; [105;110];
    [105;110;115;116;97;110;99;101;111;102]; [110;101;119]; [110;117;108;108]; [114;101;116;117;114;110];
    [115;117;112;101;114]; [115;119;105;116;99;104]; [116;104;105;115]; [116;104;114;111;119]; [116;114;117;101];
    [116;114;121]; [116;121;112;101;111;102]; [118;97;114]; [118;111;105;100]; [119;104;105;108;101];
    [119;105;116;104]; [121;105;101;108;100];
    [105;109;112;108;101;109;101;110;116;115]; [105;110;116;101;114;102;97;99;101]; [108;101;116];
    [112;97;99;107;97;103;101]; [112;114;105;118;97;116;101]; [112;114;111;116;101;99;116;101;100];
    [112;117;98;108;105;99]; [115;116;97;116;105;99];
    [97;114;103;117;109;101;110;116;115]; [101;118;97;108] ].

(* JavaScript globals that the emitted code or the prelude reads by their bare name (println is
   console.log, float and integer helpers use Math, slices use Array and the typed arrays, ...).
   newVariable does NOT keep Go identifiers away from them in the non-minified mode: see
   C16_alloc_avoids_js_globals_refuted. *)
Definition js_globals_used : list name :=
  [ [99;111;110;115;111;108;101];
    [77;97;116;104];
    [65;114;114;97;121];
    [79;98;106;101;99;116];
    [69;114;114;111;114];
    [78;117;109;98;101;114];
    [83;116;114;105;110;103];
    [70;117;110;99;116;105;111;110];
    [70;108;111;97;116;54;52;65;114;114;97;121];
    [85;105;110;116;56;65;114;114;97;121];
    [73;110;116;51;50;65;114;114;97;121];
    [68;97;116;101];
    [77;97;112];
    [83;121;109;98;111;108];
    [78;97;78];
    [73;110;102;105;110;105;116;121];
    [112;97;114;115;101;73;110;116];
    [105;115;78;97;78];
    [115;101;116;84;105;109;101;111;117;116];
    [99;108;101;97;114;84;105;109;101;111;117;116] ].
