(* C03 — abstraction from the implementation state (Model/C03_Chan.v) to the reference LTS (Model/C03_Spec.v),
   and the witness function [actions_of]: which spec steps one [impl_step] stands for.  NO proofs here.

   Abstraction: a channel keeps (nil, capacity, buffer, closed); the wait queues, the ghost fields and the whole
   scheduler ($scheduled, timers, $awakeGoroutines, mode, oracles) are forgotten.  A goroutine is
     SDone      if its function has returned / it called Goexit           (g_exit)
     SPend e    if a partner (or the timer) completed its operation and left the result for its $blk  (g_wake)
     SParked    if it sleeps on a channel operation                        (g_blocked, not the Gosched timer)
     SRun       otherwise (also while it waits for the Gosched timer: Gosched has not "happened" yet).

   Refinement statement (Proofs/C03_P4_Refine.v, checked on every explored history by Corr/C03_SpecEval.v):
     ssteps prog (abs st) (actions_of fx prog st) = Some (abs (impl_step fx prog st), new events of the step). *)
From Coq Require Import List NArith ZArith Bool Arith.
From Verif Require Import Model.C03_Chan Model.C03_Spec.
Import ListNotations.

(* the event a goroutine logs when it is resumed at operation o with wake-up value w ([step_goroutine], $blk) *)
Definition wake_event (o : op) (w : wake) : event :=
  match o, w with
  | Send _ _, WSend closed => if closed then EvPanic PSendClosed else EvSend
  | Recv _, WRecv v ok | Range _, WRecv v ok => EvRecv v ok
  | Select _, WSelRecv i v ok => EvSel i (Some (v, ok))
  | Select _, WSelSend i closed => if closed then EvPanic PSendClosed else EvSel i None
  | Gosched, WTimer => EvSched
  | _, _ => EvOdd
  end.

Definition abs_g (x : gor) : sgor :=
  if g_exit x then mkSGor [] SDone else
  match g_wake x, g_code x with
  | Some w, o :: _ => mkSGor (g_code x) (SPend (wake_event o w))
  | _, _ => mkSGor (g_code x) (match g_blocked x with
                               | Some BTimer | None => SRun
                               | Some _ => SParked
                               end)
  end.
Definition abs_c (ch : chanst) : schan := mkSChan (c_nil ch) (c_cap ch) (c_buf ch) (c_closed ch).
Definition abs (st : state) : sstate := mkSState (map abs_c (chans st)) (map abs_g (gors st)).

(* ---------------------------------------------------------------- which spec steps an impl step stands for *)
Definition s_own (e : sentry) : gid := match e with SPlain g _ | SSel g _ _ => g end.
Definition s_idx (e : sentry) : nat := match e with SPlain _ _ => 0 | SSel _ i _ => i end.
Definition r_own (e : rentry) : gid := match e with RPlain g | RSel g _ => g end.
Definition r_idx (e : rentry) : nat := match e with RPlain _ => 0 | RSel _ i => i end.

(* g completes communication cm as case i: alone, or with the goroutine at the head of the opposite queue
   (unbuffered: one rendezvous; buffered: g's own step, then the parked goroutine's step which g performs for it) *)
Definition act_comm (st : state) (g : gid) (i : nat) (cm : comm) : list action :=
  match cm with
  | CDefault => [AOp g i]
  | CSend c v =>
      let ch := get_chan st c in
      if c_closed ch then [AOp g i] else
      match c_recvq ch with
      | e :: _ => if Nat.eqb (c_cap ch) 0 then [ARv g i (r_own e) (r_idx e)] else [AOp g i; AOp (r_own e) (r_idx e)]
      | [] => [AOp g i]
      end
  | CRecv c =>
      let ch := get_chan st c in
      match c_sendq ch with
      | e :: _ => if Nat.eqb (c_cap ch) 0 then [ARv g i (s_own e) (s_idx e)] else [AOp g i; AOp (s_own e) (s_idx e)]
      | [] => [AOp g i]
      end
  end.

(* $close's two loops: each queued goroutine completes its (now possible) operation; waking a goroutine removes
   its other entries (a select with several cases on this channel) *)
Fixpoint close_acts_r (fuel : nat) (rq : list rentry) : list action :=
  match fuel, rq with
  | S f, e :: q => AOp (r_own e) (r_idx e) :: close_acts_r f (filter (fun x => negb (Nat.eqb (r_own x) (r_own e))) q)
  | _, _ => []
  end.
Fixpoint close_acts_s (fuel : nat) (sq : list sentry) (rq : list rentry) : list action :=
  match fuel, sq with
  | S f, e :: q => AOp (s_own e) (s_idx e)
                   :: close_acts_s f (filter (fun x => negb (Nat.eqb (s_own x) (s_own e))) q)
                                     (filter (fun x => negb (Nat.eqb (r_own x) (s_own e))) rq)
  | _, _ => close_acts_r (length rq) rq
  end.

(* index of the first send case on a closed channel (the first loop of $select throws there) *)
Fixpoint first_closed_send (st : state) (cs : list comm) (i : nat) : nat :=
  match cs with
  | [] => i
  | CSend c _ :: r => if c_closed (get_chan st c) then i else first_closed_send st r (S i)
  | _ :: r => first_closed_send st r (S i)
  end.

Definition actions_of (fx : variant) (prog : program) (st : state) : list action :=
  match halted st with
  | Some _ => []
  | None =>
      match md st with
      | MIdle => match timers st with TWake g :: _ => [AOp g 0] | _ => [] end     (* the Gosched timer fires *)
      | MPass => []
      | MRun g =>
          let x := get_g st g in
          match g_code x with
          | [] => [AFin g]
          | o :: _ =>
              match g_wake x with
              | Some _ => [AObs g]
              | None =>
                  match o with
                  | Send c v => match do_send st g c v with
                                | Blocked _ => [APark g]
                                | _ => act_comm st g 0 (CSend c v) ++ [AObs g]
                                end
                  | Recv c | Range c => match do_recv fx st g c with
                                        | RBlocked _ => [APark g]
                                        | RDone _ _ _ => act_comm st g 0 (CRecv c) ++ [AObs g]
                                        | RPanicked _ _ => []
                                        end
                  | Close c => match do_close fx st c with
                               | Panicked _ _ => [AOp g 0; AObs g]
                               | _ => let ch := get_chan st c in
                                      AOp g 0 :: close_acts_s (length (c_sendq ch)) (c_sendq ch) (c_recvq ch) ++ [AObs g]
                               end
                  | Select cs => match do_select fx st g cs with
                                 | SelDone _ i _ => act_comm st g i (nth i cs CDefault) ++ [AObs g]
                                 | SelBlocked _ => [APark g]
                                 | SelPanicked _ _ => [AOp g (first_closed_send st cs 0); AObs g]
                                 | SelOdd _ => []
                                 end
                  | Gosched => []                 (* waits for its timer: nothing has happened yet *)
                  | Go _ | Goexit | Print _ => [AOp g 0; AObs g]
                  end
              end
          end
      end
  end.

(* the events logged by one step (trace is newest first) *)
Definition new_events (st st' : state) : list (gid * event) :=
  rev (firstn (length (trace st') - length (trace st)) (trace st')).
