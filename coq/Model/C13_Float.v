(* C13 — executable model of the pure float-logic overrides in compiler/natives/src/math/math.go
   (Signbit, Copysign, IsNaN, IsInf, Inf, Trunc, Modf) on binary64 bit patterns, and of what
   upstream Go returns.  Model only, no proofs.
   A finite double is sign * m * 2^e with m, e integers (exact dyadic rationals: every operation
   the modelled functions perform on finite values is exact, except the one division 1/x whose
   only observed property is "rounds to -Inf", characterised below). *)
From Coq Require Import ZArith List Bool.
Import ListNotations.
Local Open Scope Z_scope.

Inductive fl :=
| FNaN (neg : bool)                 (* payload ignored, sign kept: Go's Signbit/Copysign can see it *)
| FInf (neg : bool)
| FFin (neg : bool) (m e : Z).      (* m >= 0; value (-1)^neg * m * 2^e; m = 0 is a signed zero *)

Definition two52 : Z := 4503599627370496.

Definition decode (b : Z) : fl :=
  let neg := Z.testbit b 63 in
  let ex := Z.land (Z.shiftr b 52) 2047 in
  let frac := Z.land b (two52 - 1) in
  if ex =? 2047 then (if frac =? 0 then FInf neg else FNaN neg)
  else if ex =? 0 then FFin neg frac (-1074)
  else FFin neg (frac + two52) (ex - 1075).

Definition sign_word (neg : bool) : Z := if neg then Z.shiftl 1 63 else 0.
Definition nan_canon : Z := 9221120237041090561.   (* 0x7FF8000000000001, what the harness prints for any NaN *)

(* encode an exactly representable value (the functions below only produce such values) *)
Definition encode (x : fl) : Z :=
  match x with
  | FNaN _ => nan_canon
  | FInf neg => sign_word neg + Z.shiftl 2047 52
  | FFin neg m e =>
      if m =? 0 then sign_word neg
      else
        let p := Z.log2 m + e in                    (* value in [2^p, 2^(p+1)) *)
        if p <? -1022 then sign_word neg + Z.shiftl m (e + 1074)             (* denormal: m * 2^e / 2^-1074 *)
        else let mant := if 52 - p + e >=? 0 then Z.shiftl m (52 - p + e) else Z.shiftr m (-(52 - p + e)) in
             sign_word neg + Z.shiftl (p + 1023) 52 + (mant - two52)
  end.

(* x < 0 as JavaScript/Go compare it: false for NaN and for both zeros *)
Definition lt0 (x : fl) : bool :=
  match x with
  | FNaN _ => false
  | FInf neg => neg
  | FFin neg m _ => neg && (0 <? m)
  end.

(* 1/x == -Inf in IEEE round-to-nearest: x = -0, or x < 0 and 1/|x| >= 2^1024 - 2^970
   (the point from which rounding gives Inf), i.e. m * 2^e * (2^54 - 1) * 2^970 <= 1 *)
Definition recip_is_neginf (x : fl) : bool :=
  match x with
  | FFin true m e =>
      if m =? 0 then true
      else if 0 <=? e + 970 then false
      else m * 18014398509481983 <=? Z.shiftl 1 (-(e + 970))
  | _ => false
  end.

(* the override's sign test `x < 0 || 1/x == negInf` *)
Definition js_signbit (x : fl) : bool := lt0 x || recip_is_neginf x.

Definition neg_fl (x : fl) : fl :=
  match x with
  | FNaN n => FNaN (negb n)
  | FInf n => FInf (negb n)
  | FFin n m e => FFin (negb n) m e
  end.

(* ---- override: Copysign *)
Definition js_copysign (x y : fl) : fl := if xorb (js_signbit x) (js_signbit y) then neg_fl x else x.

(* ---- override: IsNaN, IsInf, Inf *)
Definition js_isnan (x : fl) : bool := match x with FNaN _ => true | _ => false end.
Definition js_isinf (x : fl) (sign : Z) : bool :=
  match x with
  | FInf false => 0 <=? sign
  | FInf true => sign <=? 0
  | _ => false
  end.
Definition js_inf (sign : Z) : fl := FInf (negb (0 <=? sign)).

(* integer part of |x| (toward zero) *)
Definition int_part (m e : Z) : Z := if 0 <=? e then Z.shiftl m e else Z.shiftr m (- e).
Definition wrap32s (x : Z) : Z := (x + 2147483648) mod 4294967296 - 2147483648.

(* ---- override: Trunc.  Two shapes of the source are recognised (Gen/C13_Variants.v says which one
   /repo currently has): the original `Copysign(float64(int(x)), x)` where int(x) is `x >> 0`, and a
   delegation to Math.trunc, with or without the original guard in front of it. *)
Inductive trunc_kind := TruncViaInt32 | TruncViaMathTruncGuarded | TruncViaMathTrunc.

Definition js_trunc_int32 (x : fl) : fl :=
  match x with
  | FNaN _ | FInf _ => x
  | FFin neg m e =>
      if recip_is_neginf x then x
      else
        let n := int_part m e in
        let i := wrap32s (if neg then - n else n) in          (* x >> 0 : ToInt32 *)
        js_copysign (FFin (i <? 0) (Z.abs i) 0) x             (* float64(i) is exact *)
  end.

(* ECMAScript Math.trunc == IEEE roundToIntegralTowardZero *)
Definition ieee_trunc (x : fl) : fl :=
  match x with
  | FNaN _ | FInf _ => x
  | FFin neg m e => FFin neg (int_part m e) 0
  end.

(* the special-case guard of the original kept, `Copysign(Math.trunc(x), x)` after it *)
Definition js_trunc_guarded (x : fl) : fl :=
  match x with
  | FNaN _ | FInf _ => x
  | FFin _ _ _ => if recip_is_neginf x then x else js_copysign (ieee_trunc x) x
  end.

Definition js_trunc (k : trunc_kind) (x : fl) : fl :=
  match k with
  | TruncViaInt32 => js_trunc_int32 x
  | TruncViaMathTruncGuarded => js_trunc_guarded x
  | TruncViaMathTrunc => ieee_trunc x
  end.

(* ---- override: Modf = (f - f % 1, f % 1) with the special cases written in the source.
   JavaScript's % is the exact fmod with the sign of the dividend. *)
Definition frac_part (m e : Z) : Z * Z :=           (* fractional part of m*2^e as (m', e) *)
  if 0 <=? e then (0, 0) else (Z.land m (Z.shiftl 1 (- e) - 1), e).

Definition js_modf (f : fl) : fl * fl :=
  match f with
  | FInf _ => (f, FNaN false)
  | FNaN n => (FNaN n, FNaN n)                        (* NaN % 1 = NaN, NaN - NaN = NaN *)
  | FFin neg m e =>
      if recip_is_neginf f then (f, f)
      else
        let '(fm, fe) := frac_part m e in
        let frac := FFin neg fm fe in                 (* sign of the dividend, also for a zero result *)
        let ip := int_part m e in
        (* f - frac: exact; when it is zero: x - x = +0 for a non-zero frac, f - (+-0) = f otherwise *)
        let intpart := if ip =? 0 then (if fm =? 0 then f else FFin false 0 0) else FFin neg ip 0 in
        (intpart, frac)
  end.

(* A second shape of Modf (Gen/C13_Variants.v says which one /repo has):
     if f == posInf || f == negInf { return f, nan };  i := Trunc(f);  return i, Copysign(f-i, f)
   f - i is computed exactly here (it is exact whenever i is the IEEE truncation of f; for other i the
   subtraction could round and this model would not apply). *)
Inductive modf_kind := ModfViaMod | ModfViaTrunc.

Definition fsub_exact (x y : fl) : fl :=
  match x, y with
  | FFin nx mx ex, FFin ny my ey =>
      let e0 := Z.min ex ey in
      let d := (if nx then - mx else mx) * 2 ^ (ex - e0) - (if ny then - my else my) * 2 ^ (ey - e0) in
      if d =? 0 then FFin (nx && negb ny && (mx =? 0) && (my =? 0)) 0 0     (* x - x = +0; only (-0) - (+0) = -0 *)
      else FFin (d <? 0) (Z.abs d) e0
  | FNaN n, _ => FNaN n
  | _, FNaN n => FNaN n
  | FInf a, FInf b => if Bool.eqb a b then FNaN false else FInf a
  | FInf a, _ => FInf a
  | _, FInf b => FInf (negb b)
  end.

Definition js_modf_via_trunc (k : trunc_kind) (f : fl) : fl * fl :=
  match f with
  | FInf _ => (f, FNaN false)
  | _ => let i := js_trunc k f in (i, js_copysign (fsub_exact f i) f)
  end.

Definition js_modf_impl (mk : modf_kind) (tk : trunc_kind) (f : fl) : fl * fl :=
  match mk with ModfViaMod => js_modf f | ModfViaTrunc => js_modf_via_trunc tk f end.

(* ---- what upstream Go returns (bit-level definitions in math/bits.go, signbit.go, copysign.go, floor.go, modf.go) *)
Definition go_signbit (x : fl) : bool := match x with FNaN n | FInf n => n | FFin n _ _ => n end.
Definition set_sign (x : fl) (s : bool) : fl :=
  match x with FNaN _ => FNaN s | FInf _ => FInf s | FFin _ m e => FFin s m e end.
Definition go_copysign (x y : fl) : fl := set_sign x (go_signbit y).
Definition go_trunc (x : fl) : fl := ieee_trunc x.
Definition go_modf (f : fl) : fl * fl :=
  match f with
  | FInf _ => (f, FNaN false)
  | FNaN n => (f, f)
  | FFin neg m e => let '(fm, fe) := frac_part m e in (FFin neg (int_part m e) 0, FFin neg fm fe)
  end.

(* observation: NaNs are compared canonicalised, everything else bit for bit *)
Definition obs (x : fl) : Z := encode x.
