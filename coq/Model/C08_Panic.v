(* C08, part B — executable models of the panic / defer / recover machinery.
   Model only (no proofs).

   Source language: "defer programs".  A program is a list of top-level
   function bodies [func fK(a int) (r int) { x := a; ... }]; closures
   ([SDeferClo], [SCallClo]) share the variables x and r of the enclosing
   top-level activation.  harness/py/props/c08.py prints the same AST as Go.

   SpecPanic  ([spec_*])  : the Go-specification machine, written structurally
                            (each activation runs its own deferred calls).
   ImplPanic  ([impl_*])  : transliteration of compiler/prelude/goroutines.js
                            $callDeferred / $panic / $recover and of the
                            try/catch/finally skeleton emitted by
                            compiler/functions.go for functions with `defer`,
                            over an explicit JS-call-depth parameter that stands
                            for $getStackDepth().  Non-blocking path only
                            ($curGoroutine.asleep is false throughout).
   Both are fuel-driven big-step interpreters; [None] = out of fuel. *)
From Coq Require Import List ZArith Bool Arith.
Import ListNotations.
Local Open Scope Z_scope.

(* ------------------------------------------------------------------ syntax *)

Inductive pval :=
| PInt (n : Z)         (* panic(n) *)
| PRt (k : N)          (* run-time error of palette kind k (index, nil map, ...) *)
| PJsErr.              (* a foreign JavaScript error wrapped by $callDeferred *)

Inductive stmt :=
| STrace (t : Z)                 (* println("t", t) *)
| STraceX                        (* println("x", x, r) *)
| SSetX (n : Z)                  (* x = n *)
| SSetR (n : Z)                  (* r = n   (named result) *)
| SRecover                       (* rec(recover()) : recover called directly here *)
| SCall (f : nat)                (* x = fF(x) *)
| SCallClo (body : list stmt)    (* func() { body }() *)
| SDefer (f : nat)               (* defer fF(x)   (argument evaluated now) *)
| SDeferClo (body : list stmt)   (* defer func() { body }() *)
| SPanic (v : pval)              (* panic(v) / a failing operation *)
| SReturn                        (* return *)
| SGoexit                        (* runtime.Goexit() *)
| SRetR                          (* return r  in a function with an UNNAMED result: the value is fixed here *)
| SBlock.                        (* req <- true; <-ack : the goroutine really blocks and is resumed; no effect *)

Definition program := list (list stmt).

Definition body_of (p : program) (f : nat) : list stmt := nth f p [].

(* observable events + ghost events (EPush/ERun) used by defer_lifo theorems *)
Inductive event :=
| ETrace (t : Z)
| ETraceX (x r : Z)
| ERec (v : option pval)
| EPush (act k : nat)        (* k-th deferred call pushed by activation act *)
| ERun (act k : nat).        (* that deferred call starts running *)

Definition observable (e : event) : bool :=
  match e with EPush _ _ | ERun _ _ => false | _ => true end.

Inductive final :=
| FNormal                  (* goroutine ended, main printed "main done" *)
| FFatal (v : pval)        (* uncaught panic: process dies with this value *)
| FCrash.                  (* uncaught JavaScript `null` (never expected) *)

(* a deferred call: closure body over the variable cell it captured, or a
   top-level function with its already evaluated argument *)
Inductive dcall :=
| DClo (body : list stmt) (cell : nat)
| DFun (f : nat) (arg : Z).

(* does a function body contain a defer statement (fc.HasDefer)? *)
Definition is_defer (s : stmt) : bool :=
  match s with SDefer _ | SDeferClo _ => true | _ => false end.
Definition has_defer (b : list stmt) : bool := existsb is_defer b.

(* a top-level function has an unnamed result iff its body returns with [SRetR] (the generator ends every
   such body with one).  Every top-level activation owns two cells: c for (x, r) and c+1 whose second
   component is the value fixed by `return r` (0 until then: what a recovered panic leaves). *)
Definition is_retr (s : stmt) : bool := match s with SRetR => true | _ => false end.
Definition unnamed (b : list stmt) : bool := existsb is_retr b.

(* variable cells: activation id -> (x, r) *)
Definition cells := list (nat * (Z * Z)).
Fixpoint cell_get (c : cells) (i : nat) : Z * Z :=
  match c with
  | [] => (0, 0)
  | (j, v) :: r => if Nat.eqb i j then v else cell_get r i
  end.
Definition cell_set (c : cells) (i : nat) (v : Z * Z) : cells := (i, v) :: c.

(* ============================================================ SpecPanic == *)

(* ghost state of SpecPanic, used only to delimit the findings
   blocked-deferred-panic-recovered-by-caller-continues (flag A) and
   replaced-panic-resurrected-when-deferred-call-blocks (flag B) *)
Record ghost := {
  gh_infl : list nat;      (* activations currently running a deferred call in panicking mode, innermost first *)
  gh_blk  : option nat;    (* a block statement ran inside such a deferred call: the activation that was running it *)
  gh_repl : bool;          (* a panic has been replaced by a panic raised in a deferred call *)
  gh_a    : bool;          (* ... blocked, and the panic was then recovered on behalf of a different activation *)
  gh_b    : bool;          (* a block statement ran inside a panicking-mode deferred call after a replacement *)
  gh_run  : list nat;      (* activations currently running one of their deferred calls (any mode), innermost first *)
  gh_c    : bool           (* a block statement ran inside a panicking-mode deferred call of an activation that is itself
                              running inside a deferred call of another activation *)
}.
Definition gh_init : ghost := {| gh_infl := []; gh_blk := None; gh_repl := false; gh_a := false; gh_b := false; gh_run := []; gh_c := false |}.

Record sglobal := {
  s_trace : list event;       (* newest first *)
  s_cells : cells;
  s_next  : nat;              (* next activation / cell id *)
  s_gh    : ghost             (* no influence on the run: delimits two recorded findings about suspension *)
}.

Inductive soutcome :=
| ONext                  (* fell through / returned normally *)
| OReturn
| OPanic (v : pval)
| OGoexit.

(* activation-local state: the panic this activation may recover (it is a
   deferred call started by the panic sequence and recover() has not been called
   yet), and its list of deferred calls (newest first) *)
Record slocal := { l_rk : option pval; l_act : nat; l_dl : list dcall }.

Inductive smode := MNormal | MPanic (v : pval) | MGoexit.

Definition s_emit (e : event) (g : sglobal) : sglobal :=
  {| s_trace := e :: s_trace g; s_cells := s_cells g; s_next := s_next g; s_gh := s_gh g |}.
Definition s_setcell (i : nat) (v : Z * Z) (g : sglobal) : sglobal :=
  {| s_trace := s_trace g; s_cells := cell_set (s_cells g) i v; s_next := s_next g; s_gh := s_gh g |}.
Definition s_fresh (g : sglobal) : nat * sglobal :=
  (s_next g, {| s_trace := s_trace g; s_cells := s_cells g; s_next := S (s_next g); s_gh := s_gh g |}).
Definition s_fresh2 (g : sglobal) : nat * sglobal :=
  let '(c, g1) := s_fresh g in let '(_, g2) := s_fresh g1 in (c, g2).
Definition s_setgh (h : ghost) (g : sglobal) : sglobal :=
  {| s_trace := s_trace g; s_cells := s_cells g; s_next := s_next g; s_gh := h |}.
Definition gh_set_infl (l : list nat) (h : ghost) := {| gh_infl := l; gh_blk := gh_blk h; gh_repl := gh_repl h; gh_a := gh_a h; gh_b := gh_b h; gh_run := gh_run h; gh_c := gh_c h |}.
Definition gh_set_blk (b : option nat) (h : ghost) := {| gh_infl := gh_infl h; gh_blk := b; gh_repl := gh_repl h; gh_a := gh_a h; gh_b := gh_b h; gh_run := gh_run h; gh_c := gh_c h |}.
Definition gh_set_run (l : list nat) (h : ghost) := {| gh_infl := gh_infl h; gh_blk := gh_blk h; gh_repl := gh_repl h; gh_a := gh_a h; gh_b := gh_b h; gh_run := l; gh_c := gh_c h |}.
Definition gh_on_block (h : ghost) : ghost :=
  match gh_infl h with
  | a :: _ => {| gh_infl := gh_infl h; gh_blk := Some a; gh_repl := gh_repl h; gh_a := gh_a h; gh_b := gh_b h || gh_repl h; gh_run := gh_run h;
              gh_c := gh_c h || Nat.leb 2 (length (gh_run h)) |}
  | [] => h
  end.
Definition gh_on_recover (act : nat) (h : ghost) : ghost :=
  let fl := match gh_blk h with Some a => negb (Nat.eqb a act) | None => false end in
  {| gh_infl := gh_infl h; gh_blk := None; gh_repl := gh_repl h; gh_a := gh_a h || fl; gh_b := gh_b h; gh_run := gh_run h; gh_c := gh_c h |}.
Definition gh_on_replace (h : ghost) : ghost :=
  {| gh_infl := gh_infl h; gh_blk := None; gh_repl := true; gh_a := gh_a h; gh_b := gh_b h; gh_run := gh_run h; gh_c := gh_c h |}.

Fixpoint spec_exec (fuel : nat) (p : program) (cell : nat) (ss : list stmt) (l : slocal) (g : sglobal)
  {struct fuel} : option (soutcome * slocal * sglobal) :=
  match fuel with O => None | S fuel' =>
  match ss with
  | [] => Some (ONext, l, g)
  | s :: rest =>
    let continue l g := spec_exec fuel' p cell rest l g in
    match s with
    | STrace t => continue l (s_emit (ETrace t) g)
    | STraceX => let '(x, r) := cell_get (s_cells g) cell in continue l (s_emit (ETraceX x r) g)
    | SSetX n => let '(x, r) := cell_get (s_cells g) cell in continue l (s_setcell cell (n, r) g)
    | SSetR n => let '(x, r) := cell_get (s_cells g) cell in continue l (s_setcell cell (x, n) g)
    | SRecover =>
        continue {| l_rk := None; l_act := l_act l; l_dl := l_dl l |} (s_emit (ERec (l_rk l)) g)
    | SCall f =>
        let '(x, r) := cell_get (s_cells g) cell in
        let '(c, g1) := s_fresh2 g in
        match spec_fun fuel' p c (body_of p f) None (s_setcell c (x, 0) g1) with
        | None => None
        | Some (MNormal, _, g2) =>
            let '(x', r') := cell_get (s_cells g2) cell in
            continue l (s_setcell cell (snd (cell_get (s_cells g2) (if unnamed (body_of p f) then S c else c)), r') g2)
        | Some (MPanic v, _, g2) => Some (OPanic v, l, g2)
        | Some (MGoexit, _, g2) => Some (OGoexit, l, g2)
        end
    | SCallClo b =>
        match spec_fun fuel' p cell b None g with
        | None => None
        | Some (MNormal, _, g2) => continue l g2
        | Some (MPanic v, _, g2) => Some (OPanic v, l, g2)
        | Some (MGoexit, _, g2) => Some (OGoexit, l, g2)
        end
    | SDefer f =>
        let '(x, r) := cell_get (s_cells g) cell in
        continue {| l_rk := l_rk l; l_act := l_act l; l_dl := DFun f x :: l_dl l |}
                 (s_emit (EPush (l_act l) (length (l_dl l))) g)
    | SDeferClo b =>
        continue {| l_rk := l_rk l; l_act := l_act l; l_dl := DClo b cell :: l_dl l |}
                 (s_emit (EPush (l_act l) (length (l_dl l))) g)
    | SPanic v => Some (OPanic v, l, g)
    | SReturn => Some (OReturn, l, g)
    | SRetR => let '(x, r) := cell_get (s_cells g) cell in Some (OReturn, l, s_setcell (S cell) (0, r) g)
    | SGoexit => Some (OGoexit, l, g)
    | SBlock =>
        continue l (s_setgh (gh_on_block (s_gh g)) g)
    end
  end end

(* one function activation: run the body, then the deferred calls.  Returns the
   mode in which the activation ends and whether its own recoverable panic is
   still unrecovered ([l_rk] at the end). *)
with spec_fun (fuel : nat) (p : program) (cell : nat) (body : list stmt) (rk : option pval) (g : sglobal)
  {struct fuel} : option (smode * option pval * sglobal) :=
  match fuel with O => None | S fuel' =>
  let '(act, g0) := s_fresh g in
  match spec_exec fuel' p cell body {| l_rk := rk; l_act := act; l_dl := [] |} g0 with
  | None => None
  | Some (out, l, g1) =>
      let mode := match out with OPanic v => MPanic v | OGoexit => MGoexit | _ => MNormal end in
      match spec_defers fuel' p (l_act l) mode false (l_dl l) g1 with
      | None => None
      | Some (mode', g2) => Some (mode', l_rk l, g2)
      end
  end end

(* run the deferred calls of one activation, newest first.  [gx]: a Goexit is
   pending underneath a panic raised by a deferred call (it resumes when that
   panic is recovered). *)
with spec_defers (fuel : nat) (p : program) (act : nat) (mode : smode) (gx : bool) (dl : list dcall) (g : sglobal)
  {struct fuel} : option (smode * sglobal) :=
  match fuel with O => None | S fuel' =>
  match dl with
  | [] => Some (mode, g)
  | d :: dl' =>
      let rk := match mode with MPanic v => Some v | _ => None end in
      let g := s_emit (ERun act (length dl')) g in
      let infl0 := gh_infl (s_gh g) in
      let run0 := gh_run (s_gh g) in
      let g := s_setgh (gh_set_run (act :: run0) (s_gh g)) g in
      let g := match mode with MPanic _ => s_setgh (gh_set_infl (act :: infl0) (s_gh g)) g | _ => g end in
      let res :=
        match d with
        | DClo b cell => spec_fun fuel' p cell b rk g
        | DFun f arg =>
            let '(c, g1) := s_fresh2 g in
            spec_fun fuel' p c (body_of p f) rk (s_setcell c (arg, 0) g1)
        end in
      match res with
      | None => None
      | Some (MNormal, rk', g2) =>
          let g2 := s_setgh (gh_set_run run0 (gh_set_infl infl0 (s_gh g2))) g2 in
          match mode, rk' with
          | MPanic _, None => (* recovered *)
              let g2 := s_setgh (gh_on_recover act (s_gh g2)) g2 in
              spec_defers fuel' p act (if gx then MGoexit else MNormal) false dl' g2
          | _, _ => spec_defers fuel' p act mode gx dl' g2
          end
      | Some (MPanic v2, _, g2) =>
          let g2 := s_setgh (gh_set_run run0 (gh_set_infl infl0 (match mode with MPanic _ => gh_on_replace (s_gh g2) | _ => gh_set_blk None (s_gh g2) end))) g2 in
          spec_defers fuel' p act (MPanic v2)
                      (match mode with MGoexit => true | _ => gx end) dl' g2
      | Some (MGoexit, _, g2) => spec_defers fuel' p act MGoexit false dl' (s_setgh (gh_set_run run0 (gh_set_infl infl0 (gh_set_blk None (s_gh g2)))) g2)
      end
  end end.

(* the goroutine wrapper:  go func() { defer func() { done <- true }(); x := f0(0); println("x", x, 0) }() *)
Definition wrapper : list stmt := [SDeferClo []; SCall 0; STraceX].

Definition s_init : sglobal := {| s_trace := []; s_cells := []; s_next := 1; s_gh := gh_init |}.

Definition spec_run (fuel : nat) (p : program) : option (list event * final) :=
  match spec_fun fuel p 0 wrapper None s_init with
  | None => None
  | Some (mode, _, g) =>
      Some (rev (s_trace g),
            match mode with MPanic v => FFatal v | _ => FNormal end)
  end.

(* did the run contain the situations that delimit the two findings about suspension? *)
Definition spec_blockflags (fuel : nat) (p : program) : bool * bool * bool :=
  match spec_fun fuel p 0 wrapper None s_init with
  | Some (_, _, g) => (gh_a (s_gh g), gh_b (s_gh g), gh_c (s_gh g))
  | None => (false, false, false)
  end.

(* ============================================================ ImplPanic == *)

Inductive jex := XNull | XFatal (v : pval).     (* thrown JavaScript values *)
Inductive jout := JNext | JReturn | JThrow (e : jex).

Record jstate := {
  j_trace : list event;
  j_cells : cells;
  j_next : nat;
  j_panicStack : list pval;              (* $curGoroutine.panicStack, top first *)
  j_deferStack : list nat;               (* $curGoroutine.deferStack (list ids), top first *)
  j_lists : list (nat * list dcall);     (* the $deferred arrays, last pushed first *)
  j_psd : option Z;                      (* $panicStackDepth (None = null) *)
  j_pv : pval;                           (* $panicValue *)
  j_offset : Z;                          (* $stackDepthOffset *)
  j_exit : option nat                    (* $curGoroutine.exit (None = false) with $curGoroutine.exitFrames *)
}.

Definition j_init : jstate :=
  {| j_trace := []; j_cells := []; j_next := 1; j_panicStack := []; j_deferStack := [];
     j_lists := []; j_psd := None; j_pv := PJsErr; j_offset := 0; j_exit := None |}.

Definition j_emit e (s : jstate) := {| j_trace := e :: j_trace s; j_cells := j_cells s; j_next := j_next s;
  j_panicStack := j_panicStack s; j_deferStack := j_deferStack s; j_lists := j_lists s; j_psd := j_psd s;
  j_pv := j_pv s; j_offset := j_offset s; j_exit := j_exit s |}.
Definition j_setcell i v (s : jstate) := {| j_trace := j_trace s; j_cells := cell_set (j_cells s) i v; j_next := j_next s;
  j_panicStack := j_panicStack s; j_deferStack := j_deferStack s; j_lists := j_lists s; j_psd := j_psd s;
  j_pv := j_pv s; j_offset := j_offset s; j_exit := j_exit s |}.
Definition j_fresh (s : jstate) : nat * jstate := (j_next s, {| j_trace := j_trace s; j_cells := j_cells s; j_next := S (j_next s);
  j_panicStack := j_panicStack s; j_deferStack := j_deferStack s; j_lists := j_lists s; j_psd := j_psd s;
  j_pv := j_pv s; j_offset := j_offset s; j_exit := j_exit s |}).
Definition j_set_ps ps (s : jstate) := {| j_trace := j_trace s; j_cells := j_cells s; j_next := j_next s;
  j_panicStack := ps; j_deferStack := j_deferStack s; j_lists := j_lists s; j_psd := j_psd s;
  j_pv := j_pv s; j_offset := j_offset s; j_exit := j_exit s |}.
Definition j_set_ds ds (s : jstate) := {| j_trace := j_trace s; j_cells := j_cells s; j_next := j_next s;
  j_panicStack := j_panicStack s; j_deferStack := ds; j_lists := j_lists s; j_psd := j_psd s;
  j_pv := j_pv s; j_offset := j_offset s; j_exit := j_exit s |}.
Definition j_set_lists ls (s : jstate) := {| j_trace := j_trace s; j_cells := j_cells s; j_next := j_next s;
  j_panicStack := j_panicStack s; j_deferStack := j_deferStack s; j_lists := ls; j_psd := j_psd s;
  j_pv := j_pv s; j_offset := j_offset s; j_exit := j_exit s |}.
Definition j_set_psd d v (s : jstate) := {| j_trace := j_trace s; j_cells := j_cells s; j_next := j_next s;
  j_panicStack := j_panicStack s; j_deferStack := j_deferStack s; j_lists := j_lists s; j_psd := d;
  j_pv := v; j_offset := j_offset s; j_exit := j_exit s |}.
Definition j_set_offset o (s : jstate) := {| j_trace := j_trace s; j_cells := j_cells s; j_next := j_next s;
  j_panicStack := j_panicStack s; j_deferStack := j_deferStack s; j_lists := j_lists s; j_psd := j_psd s;
  j_pv := j_pv s; j_offset := o; j_exit := j_exit s |}.
Definition j_set_exit b (s : jstate) := {| j_trace := j_trace s; j_cells := j_cells s; j_next := j_next s;
  j_panicStack := j_panicStack s; j_deferStack := j_deferStack s; j_lists := j_lists s; j_psd := j_psd s;
  j_pv := j_pv s; j_offset := j_offset s; j_exit := b |}.

Definition j_fresh2 (s : jstate) : nat * jstate :=
  let '(c, s1) := j_fresh s in let '(_, s2) := j_fresh s1 in (c, s2).

Fixpoint list_get (ls : list (nat * list dcall)) (i : nat) : list dcall :=
  match ls with
  | [] => []
  | (j, v) :: r => if Nat.eqb i j then v else list_get r i
  end.
Definition list_set (ls : list (nat * list dcall)) (i : nat) (v : list dcall) := (i, v) :: ls.

Definition mem_nat (i : nat) (l : list nat) : bool := existsb (Nat.eqb i) l.

(* the only two operations on the $deferred arrays; they emit the ghost events *)
Definition j_push_deferred (id : nat) (c : dcall) (s : jstate) : jstate :=
  let l := list_get (j_lists s) id in
  j_set_lists (list_set (j_lists s) id (c :: l)) (j_emit (EPush id (length l)) s).
Definition j_pop_deferred (id : nat) (s : jstate) : option (dcall * jstate) :=
  match list_get (j_lists s) id with
  | [] => None
  | c :: l => Some (c, j_set_lists (list_set (j_lists s) id l) (j_emit (ERun id (length l)) s))
  end.

(* $getStackDepth() evaluated in a frame at JS depth d *)
Definition get_stack_depth (s : jstate) (d : Z) : Z := j_offset s + d.

(* $recover() called from a function whose frame is at depth d:
   $recover is at d+1 and $getStackDepth at d+2 *)
Definition js_recover (d : Z) (s : jstate) : option pval * jstate :=
  match j_psd s with
  | None => (None, s)
  | Some k =>
      if negb (k =? get_stack_depth s (d + 2) - 2) then (None, s)
      else (Some (j_pv s), j_set_psd None (j_pv s) s)
  end.

Definition jsErr_of (e : jex) : option pval := match e with XNull => None | XFatal v => Some v end.
Definition jex_of (e : option pval) : jex := match e with None => XNull | Some v => XFatal v end.

(* result of the try-part of $callDeferred: returned, or threw e while the local
   variable `deferred` had the value cur *)
Inductive lres := LRet | LThrow (e : jex) (cur : option nat) | LThrowTop (e : jex).   (* LThrowTop: `deferred` is undefined *)

(* variants of the implementation (the check probes the source and selects one; Gen/C08_Consts):
   v_goexit_rethrow — repair of goexit-swallowed-by-deferring-frame: runtime.Goexit records
     exitFrames = deferStack.length, and $callDeferred, when a $deferred list is exhausted, does
       if ($curGoroutine.exit && deferStack.length < exitFrames) { exitFrames = deferStack.length; throw null; }
     false = exit flag only.
   v_pushback_asleep_only — repair of replaced-panic-resurrected-after-recover: the finally block of
     $callDeferred re-queues an unrecovered panic only when the goroutine is going to sleep
       if ($panicStackDepth !== null && $curGoroutine.asleep) { panicStack.push(localPanicValue); }
     (asleep is false on every path of this model, so the repaired variant never re-queues);
     false = re-queue whenever $panicStackDepth !== null.
   v_exit_swallows_null_only — repair of panic-during-goexit-swallowed: the catch clause of $goroutine
     re-throws everything but the null of Goexit:  if (!$goroutine.exit || err !== null) throw err;
     false = every exception is swallowed once the exit flag is set. *)
Record variant := { v_goexit_rethrow : bool; v_pushback_asleep_only : bool; v_exit_swallows_null_only : bool }.

Fixpoint impl_exec (vr : variant) (fuel : nat) (p : program) (d : Z) (cell : nat) (dl : option nat) (ss : list stmt) (s : jstate)
  {struct fuel} : option (jout * jstate) :=
  match fuel with O => None | S fuel' =>
  match ss with
  | [] => Some (JNext, s)
  | st :: rest =>
    let continue s := impl_exec vr fuel' p d cell dl rest s in
    match st with
    | STrace t => continue (j_emit (ETrace t) s)
    | STraceX => let '(x, r) := cell_get (j_cells s) cell in continue (j_emit (ETraceX x r) s)
    | SSetX n => let '(x, r) := cell_get (j_cells s) cell in continue (j_setcell cell (n, r) s)
    | SSetR n => let '(x, r) := cell_get (j_cells s) cell in continue (j_setcell cell (x, n) s)
    | SRecover => let '(v, s1) := js_recover d s in continue (j_emit (ERec v) s1)
    | SCall f =>
        let '(x, r) := cell_get (j_cells s) cell in
        let '(c, s1) := j_fresh2 s in
        match impl_fun vr fuel' p (d + 1) c (body_of p f) (j_setcell c (x, 0) s1) with
        | None => None
        | Some (JThrow e, s2) => Some (JThrow e, s2)
        | Some (_, s2) =>
            let '(x', r') := cell_get (j_cells s2) cell in
            continue (j_setcell cell (snd (cell_get (j_cells s2) (if unnamed (body_of p f) then S c else c)), r') s2)
        end
    | SCallClo b =>
        match impl_fun vr fuel' p (d + 1) cell b s with
        | None => None
        | Some (JThrow e, s2) => Some (JThrow e, s2)
        | Some (_, s2) => continue s2
        end
    | SDefer f =>
        let '(x, r) := cell_get (j_cells s) cell in
        match dl with
        | Some id => continue (j_push_deferred id (DFun f x) s)
        | None => continue s   (* unreachable: has_defer holds *)
        end
    | SDeferClo b =>
        match dl with
        | Some id => continue (j_push_deferred id (DClo b cell) s)
        | None => continue s
        end
    | SPanic v =>
        (* $panic(value): frame d+1;  $callDeferred(null, null, true): frame d+2 *)
        match impl_cd vr fuel' p (d + 2) None None true (j_set_ps (v :: j_panicStack s) s) with
        | None => None
        | Some (JThrow e, s2) => Some (JThrow e, s2)
        | Some (_, s2) => continue s2
        end
    | SReturn => Some (JReturn, s)
    | SRetR =>
        (* $24r = r; return $24r;  (the catch clause of such a function returns the zero value) *)
        let '(x, r) := cell_get (j_cells s) cell in Some (JReturn, j_setcell (S cell) (0, r) s)
    | SGoexit =>
        Some (JThrow XNull, j_set_exit (Some (if v_goexit_rethrow vr then length (j_deferStack s) else O)) s)
    | SBlock => continue s
    end
  end end

(* a compiled Go function called at JS depth d *)
with impl_fun (vr : variant) (fuel : nat) (p : program) (d : Z) (cell : nat) (body : list stmt) (s : jstate)
  {struct fuel} : option (jout * jstate) :=
  match fuel with O => None | S fuel' =>
  if negb (has_defer body) then
    match impl_exec vr fuel' p d cell None body s with
    | None => None
    | Some (JThrow e, s1) => Some (JThrow e, s1)
    | Some (_, s1) => Some (JNext, s1)
    end
  else
    (* $deferred = []; $curGoroutine.deferStack.push($deferred); try { body }
       catch(err) { $err = err; } finally { $callDeferred($deferred, $err); return results } *)
    let '(id, s0) := j_fresh s in
    (* the new array is the (empty) list of the fresh id *)
    let s0 := j_set_ds (id :: j_deferStack s0) s0 in
    match impl_exec vr fuel' p d cell (Some id) body s0 with
    | None => None
    | Some (out, s1) =>
        let err := match out with JThrow e => jsErr_of e | _ => None end in
        match impl_cd vr fuel' p (d + 1) (Some id) err false s1 with
        | None => None
        | Some (JThrow e, s2) => Some (JThrow e, s2)
        | Some (_, s2) => Some (JNext, s2)
        end
    end
  end

(* $callDeferred(deferred, jsErr, fromPanic), its frame at JS depth d *)
with impl_cd (vr : variant) (fuel : nat) (p : program) (d : Z) (deferred : option nat) (jsErr : option pval) (fromPanic : bool) (s : jstate)
  {struct fuel} : option (jout * jstate) :=
  match fuel with O => None | S fuel' =>
  if negb fromPanic && match deferred with Some id => negb (mem_nat id (j_deferStack s)) | None => false end
  then Some (JThrow (jex_of jsErr), s)
  else match jsErr with
  | Some _ =>
      (* try { $panic(new $jsErrorPtr(jsErr)) } catch (err) { newErr = err }  $callDeferred(deferred, newErr) *)
      match impl_cd vr fuel' p (d + 2) None None true (j_set_ps (PJsErr :: j_panicStack s) s) with
      | None => None
      | Some (out, s1) =>
          let newErr := match out with JThrow e => jsErr_of e | _ => None end in
          impl_cd vr fuel' p (d + 1) deferred newErr false s1
      end
  | None =>
      let s1 := j_set_offset (j_offset s - 1) s in
      let outerPSD := j_psd s1 in
      let outerPV := j_pv s1 in
      let '(local, s2) :=
        match j_panicStack s1 with
        | [] => (None, s1)
        | v :: ps => (Some v, j_set_psd (Some (get_stack_depth s1 (d + 1))) v (j_set_ps ps s1))
        end in
      match impl_loop vr fuel' p d deferred fromPanic local s2 with
      | None => None
      | Some (res, s3) =>
          let after :=
            match res with
            | LRet => Some (JNext, s3)
            | LThrow e cur =>
                if fromPanic then Some (JThrow e, s3)
                else impl_cd vr fuel' p (d + 1) cur (jsErr_of e) false s3
            | LThrowTop e =>
                (* fromPanic: rethrown; otherwise $callDeferred(undefined, e) rethrows at once
                   because indexOf(undefined) is -1 *)
                Some (JThrow e, s3)
            end in
          match after with
          | None => None
          | Some (out, s4) =>
              (* finally *)
              let s5 :=
                match local with
                | None => s4
                | Some v =>
                    let s4' := match j_psd s4 with
                               | Some _ => if v_pushback_asleep_only vr then s4
                                           else j_set_ps (v :: j_panicStack s4) s4
                               | None => s4 end in
                    j_set_psd outerPSD outerPV s4'
                end in
              Some (out, j_set_offset (j_offset s5 + 1) s5)
          end
      end
  end end

(* the while(true) loop inside the try block of $callDeferred *)
with impl_loop (vr : variant) (fuel : nat) (p : program) (d : Z) (cur : option nat) (fromPanic : bool) (local : option pval) (s : jstate)
  {struct fuel} : option (lres * jstate) :=
  match fuel with O => None | S fuel' =>
  let top :=
    match cur with
    | Some id => Some id
    | None => match j_deferStack s with id :: _ => Some id | [] => None end
    end in
  match top with
  | None =>
      (* the panic reached the top of the stack *)
      Some (LThrowTop (XFatal (match local with Some v => v | None => PJsErr end)), j_set_psd None (j_pv s) s)
  | Some id =>
      match j_pop_deferred id s with
      | None =>
          let s1 := j_set_ds (tl (j_deferStack s)) s in
          match local with
          | Some _ => impl_loop vr fuel' p d None fromPanic local s1
          | None =>
              match j_exit s1 with
              | Some n =>
                  if Nat.ltb (length (j_deferStack s1)) n
                  then Some (LThrow XNull (Some id), j_set_exit (Some (length (j_deferStack s1))) s1)
                  else Some (LRet, s1)
              | None => Some (LRet, s1)
              end
          end
      | Some (c, s1) =>
          let res :=
            match c with
            | DClo b cell => impl_fun vr fuel' p (d + 1) cell b s1
            | DFun f arg =>
                let '(c', s1') := j_fresh2 s1 in
                impl_fun vr fuel' p (d + 1) c' (body_of p f) (j_setcell c' (arg, 0) s1')
            end in
          match res with
          | None => None
          | Some (JThrow e, s2) => Some (LThrow e (Some id), s2)
          | Some (_, s2) =>
              match local, j_psd s2 with
              | Some _, None =>
                  (* error was recovered *)
                  if fromPanic then Some (LThrow XNull (Some id), s2) else Some (LRet, s2)
              | _, _ => impl_loop vr fuel' p d (Some id) fromPanic local s2
              end
          end
      end
  end end.

(* $goroutine: try { fun() } catch (err) { if (!$goroutine.exit) throw err } *)
Definition impl_final (vr : variant) (out : jout) (s : jstate) : final :=
  match out with
  | JThrow e =>
      match j_exit s, e with
      | Some _, XNull => FNormal
      | Some _, XFatal v => if v_exit_swallows_null_only vr then FFatal v else FNormal
      | None, XNull => FCrash
      | None, XFatal v => FFatal v
      end
  | _ => FNormal
  end.

Definition impl_run (vr : variant) (fuel : nat) (p : program) : option (list event * final) :=
  match impl_fun vr fuel p 0 0 wrapper j_init with
  | None => None
  | Some (out, s) => Some (rev (j_trace s), impl_final vr out s)
  end.


(* the three shapes of the tree seen so far *)
Definition V_OLD : variant := {| v_goexit_rethrow := false; v_pushback_asleep_only := false; v_exit_swallows_null_only := false |}.
Definition V_GOEXIT : variant := {| v_goexit_rethrow := true; v_pushback_asleep_only := false; v_exit_swallows_null_only := false |}.
Definition V_REPAIRED : variant := {| v_goexit_rethrow := true; v_pushback_asleep_only := true; v_exit_swallows_null_only := false |}.
Definition V_FULL : variant := {| v_goexit_rethrow := true; v_pushback_asleep_only := true; v_exit_swallows_null_only := true |}.

Definition obs (r : option (list event * final)) : option (list event * final) :=
  match r with
  | None => None
  | Some (t, f) => Some (filter observable t, f)
  end.
