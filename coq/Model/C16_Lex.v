(* C16 - lexical structure of the generated JavaScript (model only, no proofs).

   [scan] cuts a blob into elements: ordinary characters, whitespace, double-quoted strings
   (with backslash escapes), slash-star comments and source-map hints.  [toks] groups the
   ordinary characters into tokens: two adjacent characters belong to the same token iff
   [glue] says so.  [glue] contains every pair of characters that are adjacent inside SOME
   JavaScript token (identifier / number characters, the two-character windows of every
   punctuator, digit-dot pairs, comment openers); a JavaScript token therefore never spans two
   [toks] tokens, and two blobs with the same [toks] stream have the same JavaScript token stream.
   Hints are zero-width: they are invisible to [toks] (the Filter erases them before the code is
   written); [hint_view] records each hint with the significant element that follows it.

   Lexicon restriction (the generated code stays inside it, checked on every real Decl blob by
   harness/py/props/c16.py): no single-quoted or template strings, no regular-expression
   literals, no line comments, no control characters other than tab and newline. *)
From Coq Require Import List NArith Arith Bool.
From Verif Require Import Model.C16_RemoveWs.
Import ListNotations.
Local Open Scope N_scope.

Inductive elem :=
| Ch (c : N)               (* one ordinary character *)
| Ws (c : N)               (* space, tab or newline *)
| Str (body : list N)      (* the bytes between the quotes, escapes included *)
| Com (body : list N)      (* the bytes between slash-star and star-slash *)
| Hint (payload : list N). (* 0x08, 2 length bytes, payload *)

Definition hint_bytes (p : list N) : list N :=
  let n := N.of_nat (length p) in 8 :: (n / 256) :: (n mod 256) :: p.

Definition render_elem (e : elem) : list N :=
  match e with
  | Ch c => [c]
  | Ws c => [c]
  | Str s => 34 :: s ++ [34]
  | Com s => 47 :: 42 :: s ++ [42; 47]
  | Hint p => hint_bytes p
  end.

Definition render (es : list elem) : list N := flat_map render_elem es.

(* characters that may stand alone: printable, not a quote of any kind, below 256 *)
Definition ch_ok (c : N) : bool :=
  (33 <=? c) && (c <? 256) && negb (c =? 34) && negb (c =? 39) && negb (c =? 96).

Fixpoint scan_loop (fuel : nat) (b : list N) : option (list elem) :=
  match b with
  | [] => Some []
  | c :: r =>
      match fuel with
      | O => None
      | S fuel' =>
          let cons_rest e rest := match scan_loop fuel' rest with Some es => Some (e :: es) | None => None end in
          if c =? 8 then
            match r with
            | hi :: lo :: rest =>
                let size := N.to_nat (hi * 256 + lo) in
                if Nat.ltb (length rest) size then None
                else if negb ((hi <? 256) && (lo <? 256)) then None
                else cons_rest (Hint (firstn size rest)) (skipn size rest)
            | _ => None
            end
          else if rw_is_ws c then cons_rest (Ws c) r
          else if c =? 34 then
            match rw_string r with
            | Some (s, _ :: t) => cons_rest (Str s) t
            | _ => None
            end
          else if (c =? 47) && (match r with d :: _ => d =? 42 | [] => false end) then
            match rw_index_close (tl r) with
            | Some i => cons_rest (Com (firstn i (tl r))) (skipn (i + 2) (tl r))
            | None => None
            end
          else if ch_ok c then cons_rest (Ch c) r
          else None
      end
  end.

Definition scan (b : list N) : option (list elem) := scan_loop (S (length b)) b.

(* ---- what removeWhitespace does, at the level of elements ------------------------------- *)

Definition first_byte (es : list elem) : option N :=
  match es with
  | [] => None
  | Ch c :: _ => Some c
  | Ws c :: _ => Some c
  | Str _ :: _ => Some 34
  | Com _ :: _ => Some 47
  | Hint _ :: _ => Some 8
  end.

Definition is_nil {A} (l : list A) : bool := match l with [] => true | _ => false end.

Fixpoint strip (previous : N) (es : list elem) : option (list elem) :=
  match es with
  | [] => Some []
  | Ch c :: r =>
      if (c =? 47) && is_nil r then None
      else match strip c r with Some o => Some (Ch c :: o) | None => None end
  | Ws w :: r =>
      match rw_ws_removed previous (first_byte r) with
      | None => None
      | Some true => strip previous r
      | Some false => match strip w r with Some o => Some (Ws w :: o) | None => None end
      end
  | Str s :: r => match strip 34 r with Some o => Some (Str s :: o) | None => None end
  | Com _ :: r => strip previous r
  | Hint p :: r => match strip previous r with Some o => Some (Hint p :: o) | None => None end
  end.

(* ---- tokens ---------------------------------------------------------------------------- *)

Definition is_digit (c : N) : bool := (48 <=? c) && (c <=? 57).

(* identifier / number characters: ASCII letters, digits, _ $, and every non-ASCII byte
   (UTF-8 encoded identifier characters such as the middle dot) *)
Definition is_word (c : N) : bool :=
  ((97 <=? c) && (c <=? 122)) || ((65 <=? c) && (c <=? 90)) || is_digit c
  || (c =? 95) || (c =? 36) || (128 <=? c).

(* two-character windows of the ECMAScript punctuators
   ++ += -- -= ** *= **= /= %= == === != !== << <<= <= >> >>> >>= >>>= >= && &&= &= || ||= |= ^= => ?? ??= ?. ...
   plus the comment openers / closer and the HTML-like comment opener of Annex B *)
Definition op_pairs : list (N * N) :=
  [ (43,43); (43,61); (45,45); (45,61); (42,42); (42,61); (47,61); (37,61); (61,61); (33,61);
    (60,60); (60,61); (62,62); (62,61); (38,38); (38,61); (124,124); (124,61); (94,61);
    (61,62); (63,63); (63,61); (63,46); (46,46);
    (47,42); (47,47); (42,47); (60,33); (33,45) ].

Definition pair_eqb (a b : N * N) : bool := (fst a =? fst b) && (snd a =? snd b).

Definition glue (x y : N) : bool :=
  (is_word x && is_word y)
  || (is_digit x && (y =? 46)) || ((x =? 46) && is_digit y)
  || existsb (pair_eqb (x, y)) op_pairs.

Inductive token :=
| TRun (bytes : list N)    (* a maximal run of glued ordinary characters *)
| TStr (body : list N).

Definition flush (cur : list N) : list token :=
  match cur with [] => [] | _ => [TRun (rev cur)] end.

(* [cur] = the run being built, last character first *)
Fixpoint toks (cur : list N) (es : list elem) : list token :=
  match es with
  | [] => flush cur
  | Ch c :: r =>
      match cur with
      | [] => toks [c] r
      | x :: _ => if glue x c then toks (c :: cur) r else TRun (rev cur) :: toks [c] r
      end
  | Ws _ :: r => flush cur ++ toks [] r
  | Com _ :: r => flush cur ++ toks [] r
  | Str s :: r => flush cur ++ TStr s :: toks [] r
  | Hint _ :: r => toks cur r
  end.

Definition tokenize (b : list N) : option (list token) :=
  match scan b with Some es => Some (toks [] es) | None => None end.

(* ---- the syntactic side condition --------------------------------------------------------
   Walk over the elements remembering the last ordinary character [x] and whether something
   that separates tokens has been seen since.  The blob is rejected when two characters that
   would glue are separated ONLY by material that removeWhitespace deletes (a whitespace byte
   survives only between two needsSpace characters - a hint counts as one - or between two
   minus signs), and when the Go code would index past the end (blob ending in a slash, or in
   whitespace after a needsSpace character or a minus sign). *)
Inductive lstate :=
| Clean           (* nothing pending: start, after a string, after a surviving whitespace byte *)
| Adj (x : N)     (* x was the previous element *)
| Gap (x : N).    (* x, then only deleted whitespace / comments (and hints) *)

Fixpoint okf (st : lstate) (es : list elem) : bool :=
  match es with
  | [] => true
  | Ch c :: r =>
      negb ((c =? 47) && is_nil r)
      && (match st with Gap x => negb (glue x c) | _ => true end)
      && okf (Adj c) r
  | Ws _ :: r =>
      match st with
      | Clean => okf Clean r
      | Adj x | Gap x =>
          match rw_ws_removed x (first_byte r) with
          | None => false
          | Some true => okf (Gap x) r
          | Some false => okf Clean r
          end
      end
  | Str _ :: r => okf Clean r
  | Com _ :: r => okf (match st with Adj x => Gap x | s => s end) r
  | Hint _ :: r => okf st r
  end.

Definition well_lexed (b : list N) : bool :=
  match scan b with Some es => okf Clean es | None => false end.

(* ---- observations about strings and hints ---------------------------------------------- *)

Fixpoint strings_of (es : list elem) : list (list N) :=
  match es with
  | [] => []
  | Str s :: r => s :: strings_of r
  | _ :: r => strings_of r
  end.

Inductive sig_elem := SCh (c : N) | SStr (s : list N).

(* the first character or string after position 0, skipping whitespace, comments and hints *)
Fixpoint next_sig (es : list elem) : option sig_elem :=
  match es with
  | [] => None
  | Ch c :: _ => Some (SCh c)
  | Str s :: _ => Some (SStr s)
  | _ :: r => next_sig r
  end.

(* every hint with what it precedes *)
Fixpoint hint_view (es : list elem) : list (list N * option sig_elem) :=
  match es with
  | [] => []
  | Hint p :: r => (p, next_sig r) :: hint_view r
  | _ :: r => hint_view r
  end.

Definition strings_in (b : list N) : option (list (list N)) :=
  match scan b with Some es => Some (strings_of es) | None => None end.
Definition hints_in (b : list N) : option (list (list N * option sig_elem)) :=
  match scan b with Some es => Some (hint_view es) | None => None end.
