(* C18 phase 4 — the build-constraint LANGUAGE as executable Gallina (model only,
   no proofs).  Mirrors, function by function,

     go/build/constraint (GOROOT/src/go/build/constraint/expr.go)
        exprParser.lex / or / and / not / atom, parseExpr       -> lex, p_or .. p_atom, parse_expr
        splitGoBuild, splitPlusBuild, IsGoBuild, IsPlusBuild     -> split_go_build, split_plus_build
        parsePlusBuildExpr, isValidTag                           -> parse_plus_expr, valid_tag
        Parse                                                     -> parse_line
        Expr.String (andArg / orArg)                              -> print
        pushNot, appendSplitAnd/Or, PlusBuildLines                -> push_not, plus_build_lines
     go/build (GOROOT/src/go/build/build.go)
        parseFileHeader, isGoBuildComment, shouldBuild           -> parse_file_header, should_build_text

   Domain restrictions (stated in TRUSTED of harness/py/props/c18.py): ASCII input
   (go/build accepts any Unicode letter/digit in a tag; here bytes >= 128 are not tag
   characters), and the size limits of go1.23 (maxSize = 1000 operands in a //go:build
   expression, maxOldSize = 100 operators in a +build line) are not modelled.
   Errors are projected to None (the error TEXT is not part of the model). *)
From Coq Require Import List String Ascii Bool Arith.
From Verif Require Import Model.C18_Build.
Import ListNotations.
Local Open Scope string_scope.

(* ---- characters ------------------------------------------------------- *)

Definition ch_in (lo hi : nat) (c : ascii) : bool :=
  let n := nat_of_ascii c in Nat.leb lo n && Nat.leb n hi.

(* unicode.IsLetter(c) || unicode.IsDigit(c) || c == '_' || c == '.', ASCII part *)
Definition is_tag_char (c : ascii) : bool :=
  ch_in 97 122 c || ch_in 65 90 c || ch_in 48 57 c || Ascii.eqb c "_" || Ascii.eqb c ".".

(* unicode.IsSpace, ASCII part: \t \n \v \f \r and space *)
Definition is_space (c : ascii) : bool := ch_in 9 13 c || Ascii.eqb c " ".

(* the blanks skipped by exprParser.lex: space and tab only *)
Definition is_blank (c : ascii) : bool := Ascii.eqb c " " || Ascii.eqb c "009".

Fixpoint trim_left (s : string) : string :=
  match s with
  | String c r => if is_space c then trim_left r else s
  | EmptyString => EmptyString
  end.

(* s without trailing white space *)
Fixpoint trim_right (s : string) : string :=
  match s with
  | EmptyString => EmptyString
  | String c r =>
      match trim_right r with
      | EmptyString => if is_space c then EmptyString else String c EmptyString
      | r' => String c r'
      end
  end.

(* strings.TrimSpace / bytes.TrimSpace *)
Definition trim_space (s : string) : string := trim_right (trim_left s).

(* s[len(p):] when p is a prefix of s *)
Fixpoint strip_prefix (p s : string) : option string :=
  match p, s with
  | EmptyString, _ => Some s
  | String a p', String b s' => if Ascii.eqb a b then strip_prefix p' s' else None
  | _, EmptyString => None
  end.

(* ---- lexer (exprParser.lex, eager) ------------------------------------- *)

Inductive tok := TLp | TRp | TNot | TAnd | TOr | TTag (s : string).

(* the longest prefix of tag characters, and the rest *)
Fixpoint span_tag (s : string) : string * string :=
  match s with
  | String c r => if is_tag_char c then let (a, b) := span_tag r in (String c a, b) else (EmptyString, s)
  | EmptyString => (EmptyString, EmptyString)
  end.

(* fuel = length of the text (every step consumes at least one character) *)
Fixpoint lex_fuel (n : nat) (s : string) : option (list tok) :=
  match n with
  | 0 => match s with EmptyString => Some [] | _ => None end
  | S n =>
      match s with
      | EmptyString => Some []
      | String c r =>
          if is_blank c then lex_fuel n r
          else if Ascii.eqb c "(" then option_map (cons TLp) (lex_fuel n r)
          else if Ascii.eqb c ")" then option_map (cons TRp) (lex_fuel n r)
          else if Ascii.eqb c "!" then option_map (cons TNot) (lex_fuel n r)
          else if Ascii.eqb c "&" then
            match r with
            | String d r' => if Ascii.eqb d "&" then option_map (cons TAnd) (lex_fuel n r') else None
            | EmptyString => None
            end
          else if Ascii.eqb c "|" then
            match r with
            | String d r' => if Ascii.eqb d "|" then option_map (cons TOr) (lex_fuel n r') else None
            | EmptyString => None
            end
          else
            match span_tag s with
            | (EmptyString, _) => None                     (* invalid syntax at c *)
            | (t, rest) => option_map (cons (TTag t)) (lex_fuel n rest)
            end
      end
  end.

Definition lex (s : string) : option (list tok) := lex_fuel (String.length s) s.

(* ---- parser (or / and / not / atom); fuel bounds the depth of the call chain *)

Fixpoint p_or (n : nat) (ts : list tok) : option (cexpr * list tok) :=
  match n with
  | 0 => None
  | S n => match p_and n ts with
           | Some (x, r) => p_or_loop n x r
           | None => None
           end
  end
with p_or_loop (n : nat) (x : cexpr) (ts : list tok) : option (cexpr * list tok) :=
  match n with
  | 0 => None
  | S n => match ts with
           | TOr :: r => match p_and n r with
                         | Some (y, r') => p_or_loop n (Or x y) r'
                         | None => None
                         end
           | _ => Some (x, ts)
           end
  end
with p_and (n : nat) (ts : list tok) : option (cexpr * list tok) :=
  match n with
  | 0 => None
  | S n => match p_not n ts with
           | Some (x, r) => p_and_loop n x r
           | None => None
           end
  end
with p_and_loop (n : nat) (x : cexpr) (ts : list tok) : option (cexpr * list tok) :=
  match n with
  | 0 => None
  | S n => match ts with
           | TAnd :: r => match p_not n r with
                          | Some (y, r') => p_and_loop n (And x y) r'
                          | None => None
                          end
           | _ => Some (x, ts)
           end
  end
with p_not (n : nat) (ts : list tok) : option (cexpr * list tok) :=
  match n with
  | 0 => None
  | S n => match ts with
           | TNot :: TNot :: _ => None                       (* double negation not allowed *)
           | TNot :: r => match p_atom n r with
                          | Some (x, r') => Some (Not x, r')
                          | None => None
                          end
           | _ => p_atom n ts
           end
  end
with p_atom (n : nat) (ts : list tok) : option (cexpr * list tok) :=
  match n with
  | 0 => None
  | S n => match ts with
           | TLp :: r => match p_or n r with
                         | Some (x, TRp :: r') => Some (x, r')
                         | _ => None                         (* missing close paren *)
                         end
           | TTag s :: r => Some (Tag s, r)
           | _ => None                                       (* unexpected token / end of expression *)
           end
  end.

Definition parse_fuel (ts : list tok) : nat := 6 * List.length ts + 6.

Definition parse_toks (ts : list tok) : option cexpr :=
  match p_or (parse_fuel ts) ts with
  | Some (x, []) => Some x
  | _ => None                                                (* unexpected token after the expression *)
  end.

(* constraint.parseExpr *)
Definition parse_expr (text : string) : option cexpr :=
  match lex text with
  | Some ts => parse_toks ts
  | None => None
  end.

(* ---- printer (Expr.String) ------------------------------------------- *)

Definition is_and (e : cexpr) : bool := match e with And _ _ => true | _ => false end.
Definition is_or (e : cexpr) : bool := match e with Or _ _ => true | _ => false end.
Definition paren (b : bool) (s : string) : string := if b then "(" ++ s ++ ")" else s.

Fixpoint print (e : cexpr) : string :=
  match e with
  | Tag t => t
  | Not x => "!" ++ paren (is_and x || is_or x) (print x)
  | And x y => paren (is_or x) (print x) ++ " && " ++ paren (is_or y) (print y)
  | Or x y => paren (is_and x) (print x) ++ " || " ++ paren (is_and y) (print y)
  end.

(* the same on tokens (used by the proofs; lex (print e) = Some (toks e)) *)
Definition tparen (b : bool) (l : list tok) : list tok := if b then TLp :: l ++ [TRp] else l.

Fixpoint toks (e : cexpr) : list tok :=
  match e with
  | Tag t => [TTag t]
  | Not x => TNot :: tparen (is_and x || is_or x) (toks x)
  | And x y => tparen (is_or x) (toks x) ++ TAnd :: tparen (is_or y) (toks y)
  | Or x y => tparen (is_and x) (toks x) ++ TOr :: tparen (is_and y) (toks y)
  end.

(* ---- //go:build and // +build lines ------------------------------------ *)

Definition nl : ascii := "010".

(* "A single trailing newline is OK; otherwise multiple lines are not" *)
Definition one_line (line : string) : option string :=
  let l := if has_suffix (String nl EmptyString) line then substring 0 (String.length line - 1) line else line in
  if contains_char nl l then None else Some l.

(* the text after a keyword must be empty or start with white space *)
Definition after_keyword (rest : string) : option string :=
  match rest with
  | EmptyString => Some EmptyString
  | String c _ => if is_space c then Some (trim_space rest) else None
  end.

(* constraint.splitGoBuild *)
Definition split_go_build (line : string) : option string :=
  match one_line line with
  | None => None
  | Some l =>
      match strip_prefix "//go:build" l with
      | None => None
      | Some _ => match strip_prefix "//go:build" (trim_space l) with
                  | Some rest => after_keyword rest
                  | None => None
                  end
      end
  end.

(* constraint.splitPlusBuild *)
Definition split_plus_build (line : string) : option string :=
  match one_line line with
  | None => None
  | Some l =>
      match strip_prefix "//" l with
      | None => None
      | Some r => match strip_prefix "+build" (trim_space r) with
                  | Some rest => after_keyword rest
                  | None => None
                  end
      end
  end.

Definition is_go_build (line : string) : bool := match split_go_build line with Some _ => true | None => false end.
Definition is_plus_build (line : string) : bool := match split_plus_build line with Some _ => true | None => false end.

(* strings.Fields *)
Fixpoint fields_aux (cur : string) (s : string) : list string :=
  match s with
  | EmptyString => match cur with EmptyString => [] | _ => [cur] end
  | String c r =>
      if is_space c then (match cur with EmptyString => fields_aux EmptyString r | _ => cur :: fields_aux EmptyString r end)
      else fields_aux (cur ++ String c EmptyString) r
  end.
Definition fields (s : string) : list string := fields_aux EmptyString s.

(* constraint.isValidTag *)
Fixpoint all_tag_chars (s : string) : bool :=
  match s with EmptyString => true | String c r => is_tag_char c && all_tag_chars r end.
Definition valid_tag (s : string) : bool := negb (s =? "") && all_tag_chars s.

(* one literal of a +build clause *)
Definition plus_lit (lit : string) : cexpr :=
  if has_prefix "!!" lit || (lit =? "!") then Tag "ignore"
  else match strip_prefix "!" lit with
       | Some w => Not (if valid_tag w then Tag w else Tag "ignore")
       | None => if valid_tag lit then Tag lit else Tag "ignore"
       end.

(* left-nested fold, as the loops of parsePlusBuildExpr build it *)
Definition fold_op (op : cexpr -> cexpr -> cexpr) (l : list cexpr) : option cexpr :=
  match l with
  | [] => None
  | x :: r => Some (fold_left op r x)
  end.

Definition plus_clause (clause : string) : cexpr :=
  match fold_op And (map plus_lit (split_on "," clause)) with
  | Some y => y
  | None => Tag "ignore"          (* unreachable: split_on never returns [] *)
  end.

(* constraint.parsePlusBuildExpr: never fails *)
Definition parse_plus_expr (text : string) : cexpr :=
  match fold_op Or (map plus_clause (fields text)) with
  | Some x => x
  | None => Tag "ignore"
  end.

(* constraint.Parse; None = error (not a constraint line, or a syntax error) *)
Definition parse_line (line : string) : option cexpr :=
  match split_go_build line with
  | Some text => parse_expr text
  | None => match split_plus_build line with
            | Some text => Some (parse_plus_expr text)
            | None => None
            end
  end.

(* the structured reading of a +build line used by Model/C18_Build.v (pline):
   space = OR, comma = AND, "!" = negation, malformed literal = the tag ignore *)
Definition plus_term (lit : string) : pterm :=
  if has_prefix "!!" lit || (lit =? "!") then (false, "ignore")
  else match strip_prefix "!" lit with
       | Some w => (true, if valid_tag w then w else "ignore")
       | None => (false, if valid_tag lit then lit else "ignore")
       end.

Definition plus_pline (text : string) : pline :=
  map (fun clause => map plus_term (split_on "," clause)) (fields text).

(* ---- the conversion //go:build -> // +build (constraint.PlusBuildLines) -- *)

Fixpoint push_not (x : cexpr) (neg : bool) : cexpr :=
  match x with
  | Tag t => if neg then Not (Tag t) else Tag t
  | Not y => match y, neg with
             | Tag _, false => x
             | _, _ => push_not y (negb neg)
             end
  | And a b => if neg then Or (push_not a neg) (push_not b neg) else And (push_not a neg) (push_not b neg)
  | Or a b => if neg then And (push_not a neg) (push_not b neg) else Or (push_not a neg) (push_not b neg)
  end.

Fixpoint split_and (x : cexpr) : list cexpr :=
  match x with And a b => split_and a ++ split_and b | _ => [x] end.
Fixpoint split_or (x : cexpr) : list cexpr :=
  match x with Or a b => split_or a ++ split_or b | _ => [x] end.

Definition lit_term (x : cexpr) : option pterm :=
  match x with
  | Tag t => Some (false, t)
  | Not (Tag t) => Some (true, t)
  | _ => None                      (* errComplex *)
  end.

Fixpoint all_some {A} (l : list (option A)) : option (list A) :=
  match l with
  | [] => Some []
  | Some x :: r => option_map (cons x) (all_some r)
  | None :: _ => None
  end.

(* AND of ORs of ANDs of literals; None = "expression too complex for // +build lines" *)
Definition plus_split (x : cexpr) : option (list pline) :=
  all_some (map (fun o => all_some (map (fun a => all_some (map lit_term (split_and a))) (split_or o)))
                (split_and (push_not x false))).

Definition plus_build_plines (x : cexpr) : option (list pline) :=
  match plus_split x with
  | None => None
  | Some split =>
      if Nat.leb (fold_right Nat.max 0 (map (@List.length _) split)) 1
      then Some [[List.concat (map (fun o => match o with a :: _ => a | [] => [] end) split)]]
      else Some split
  end.

Definition term_text (t : pterm) : string := (if fst t then "!" else "") ++ snd t.
Fixpoint join_with (sep : string) (l : list string) : string :=
  match l with
  | [] => EmptyString
  | [x] => x
  | x :: r => x ++ sep ++ join_with sep r
  end.
Definition concat_strings (l : list string) : string := fold_right String.append EmptyString l.
Definition pline_text (l : pline) : string :=
  "// +build" ++ concat_strings (map (fun clause => " " ++ join_with "," (map term_text clause)) l).

(* constraint.PlusBuildLines *)
Definition plus_build_lines (x : cexpr) : option (list string) :=
  option_map (map pline_text) (plus_build_plines x).

(* ---- go/build: the header of a file ------------------------------------- *)

(* the lines the loops `for len(p) > 0 { line, p = cut at "\n" }` visit *)
Definition go_lines (s : string) : list string :=
  let l := split_on nl s in
  match rev l with
  | EmptyString :: r => rev r
  | _ => l
  end.

(* index of the first occurrence of "*/": the text after it *)
Fixpoint after_star_slash (s : string) : option string :=
  match s with
  | String "*"%char (String "/"%char r) => Some r
  | String _ r => after_star_slash r
  | EmptyString => None
  end.

(* the Comments loop on one (trimmed) line: Some star' = go on with the next line,
   None = non-comment text found (break Lines) *)
Fixpoint comment_scan (fuel : nat) (star : bool) (line : string) : option bool :=
  match fuel with
  | 0 => Some star
  | S fuel =>
      match line with
      | EmptyString => Some star
      | _ =>
          if star then
            match after_star_slash line with
            | Some r => comment_scan fuel false (trim_space r)
            | None => Some true
            end
          else if has_prefix "//" line then Some false
          else match strip_prefix "/*" line with
               | Some r => comment_scan fuel true (trim_space r)
               | None => None
               end
      end
  end.

(* go/build isGoBuildComment on a trimmed line *)
Definition is_go_build_comment (line : string) : bool :=
  match strip_prefix "//go:build" line with
  | Some EmptyString => true
  | Some (String c _) => is_space c
  | None => false
  end.

Record hstate := {
  h_seen : list string;            (* the trimmed lines so far, most recent first *)
  h_allowed : list string;         (* content[:end], most recent first *)
  h_ended : bool;
  h_star : bool;
  h_gobuild : option string
}.

Inductive hres := HErr | HStop (s : hstate) | HGo (s : hstate).

Definition header_step (s : hstate) (raw : string) : hres :=
  let line := trim_space raw in
  if (line =? "") && negb (h_ended s) then
    HGo {| h_seen := line :: h_seen s; h_allowed := line :: h_seen s; h_ended := false; h_star := h_star s; h_gobuild := h_gobuild s |}
  else
    let ended := h_ended s || negb (has_prefix "//" line) in
    let isgb := negb (h_star s) && is_go_build_comment line in
    match (if isgb then h_gobuild s else None) with
    | Some _ => HErr                                           (* errMultipleGoBuild *)
    | None =>
        let gb := if isgb then Some line else h_gobuild s in
        match comment_scan (S (String.length line)) (h_star s) line with
        | Some star => HGo {| h_seen := line :: h_seen s; h_allowed := h_allowed s; h_ended := ended; h_star := star; h_gobuild := gb |}
        | None => HStop {| h_seen := h_seen s; h_allowed := h_allowed s; h_ended := ended; h_star := h_star s; h_gobuild := gb |}
        end
    end.

Fixpoint header_loop (s : hstate) (ls : list string) : option hstate :=
  match ls with
  | [] => Some s
  | l :: r => match header_step s l with
              | HErr => None
              | HStop s' => Some s'
              | HGo s' => header_loop s' r
              end
  end.

(* go/build parseFileHeader: (the trimmed lines of content[:end] in order, the //go:build line) *)
Definition parse_file_header (content : string) : option (list string * option string) :=
  match header_loop {| h_seen := []; h_allowed := []; h_ended := false; h_star := false; h_gobuild := None |} (go_lines content) with
  | None => None
  | Some s => Some (rev (h_allowed s), h_gobuild s)
  end.

(* go/build shouldBuild on the TEXT of a file; None = error (the file is reported as invalid) *)
Definition should_build_text (sat : string -> bool) (content : string) : option bool :=
  match parse_file_header content with
  | None => None
  | Some (_, Some gb) =>
      match parse_line gb with
      | Some x => Some (eval sat x)
      | None => None                                           (* parsing //go:build line: ... *)
      end
  | Some (allowed, None) =>
      Some (forallb (fun line => if is_plus_build line
                                 then match parse_line line with Some x => eval sat x | None => true end
                                 else true) allowed)
  end.

(* ---- rendering a parsed header (the generator side of the round trip) ---- *)

Definition render_header (gobuild : option cexpr) (plus : list pline) (detached : bool) : string :=
  let gb := match gobuild with Some x => [String.append "//go:build " (print x)] | None => [] end in
  let ls := List.app gb (map pline_text plus) in
  let ls := match ls with [] => [] | _ => if detached then (ls ++ [""])%list else ls end in
  fold_right (fun l acc => l ++ String nl acc) EmptyString (ls ++ ["package p"])%list.
