(* C01 stage 2 — MiniGo with several top-level functions (no proofs here).
   A program is a list of functions; a function has integer/bool parameters, zero or one result
   and a body.  The body is built from call-free stage-1 statements ([TBase], any statement of
   Model/C01_GoSem.v, loops included) and the new forms: calls as statements and as the right
   hand side of `v = f(..)` / `v := f(..)`, if/else and for loops whose branches/bodies contain
   calls or returns, and `return` (also from inside those loops and ifs).  Arguments, conditions
   and returned expressions are stage-1 expressions.  Recursion is bounded by the fuel: one unit
   per call and one per iteration of a [TFor] loop (stage-1 loops inside [TBase] use the same fuel). *)
From Coq Require Import ZArith List String Bool.
From Verif Require Import Model.C01_GoSem.
Import ListNotations.
Local Open Scope Z_scope.

Definition fname := string.

Inductive stmt2 :=
| TSkip
| TBase (s : stmt)
| TSeq (a b : stmt2)
| TCall (dst : option (name * option ty)) (f : fname) (args : list expr)
    (* None: f(args)   Some (v, None): v = f(args)   Some (v, Some t): v := f(args), t = result type *)
| TIf (c : expr) (t e : stmt2)                       (* e = TSkip: no else part *)
| TFor (init : stmt) (c : expr) (post : stmt) (body : stmt2)   (* init/post: simple statements or SSkip *)
| TReturn (e : option expr).

Record fdef := { f_params : list (name * ty); f_ret : option ty; f_body : stmt2 }.
Definition fenv := list (fname * fdef).

Fixpoint find_fn {A} (fe : list (fname * A)) (f : fname) : option A :=
  match fe with
  | [] => None
  | (g, d) :: r => if String.eqb g f then Some d else find_fn r f
  end.

Record prog2 := { p_funcs : fenv; p_main : fname }.

(* ---------------------------------------------------------------- results (shared with MiniJS) *)
Inductive sig2 (V : Type) := GNorm | GBrk | GRet (v : option V).
Arguments GNorm {V}. Arguments GBrk {V}. Arguments GRet {V}.

Inductive res2 (S V : Type) :=
| Q2Ok (g : sig2 V) (s : S) (out : list line)
| Q2Panic (out : list line)
| Q2OOF
| Q2Stuck.
Arguments Q2Ok {S V}. Arguments Q2Panic {S V}. Arguments Q2OOF {S V}. Arguments Q2Stuck {S V}.

Definition prepend2 {S V} (o : list line) (r : res2 S V) : res2 S V :=
  match r with
  | Q2Ok g s out => Q2Ok g s (o ++ out)
  | Q2Panic out => Q2Panic (o ++ out)
  | r => r
  end.

(* a stage-1 result seen from stage 2: an unlabelled break reaches the enclosing stage-2 loop
   (only the loop-head test of the emitted JavaScript produces one) *)
Definition of_sres {S V} (r : sres S) : res2 S V :=
  match r with
  | ROk SNormal s o => Q2Ok GNorm s o
  | ROk (SBrk None) s o => Q2Ok GBrk s o
  | ROk _ _ _ => Q2Stuck
  | RPanic o => Q2Panic o
  | ROOF => Q2OOF
  | RStuck => Q2Stuck
  end.

Inductive cres (V : Type) := CRet (v : option V) (out : list line) | CPanic (out : list line) | COOF | CStuck.
Arguments CRet {V}. Arguments CPanic {V}. Arguments COOF {V}. Arguments CStuck {V}.

(* the result of running a function body, seen by the caller *)
Definition finish_call {S V} (r : res2 S V) : cres V :=
  match r with
  | Q2Ok GNorm _ o => CRet None o
  | Q2Ok (GRet v) _ o => CRet v o
  | Q2Ok GBrk _ _ => CStuck
  | Q2Panic o => CPanic o
  | Q2OOF => COOF
  | Q2Stuck => CStuck
  end.

Definition after_call {S V} (upd : S -> V -> S) (dst : bool) (s : S) (c : cres V) : res2 S V :=
  match c with
  | CRet rv o => if dst then match rv with Some a => Q2Ok GNorm (upd s a) o | None => Q2Stuck end
                 else Q2Ok GNorm s o
  | CPanic o => Q2Panic o
  | COOF => Q2OOF
  | CStuck => Q2Stuck
  end.

Fixpoint bind_params {V} (ps : list name) (vs : list V) (s : store V) : option (store V) :=
  match ps, vs with
  | [], [] => Some s
  | p :: ps', v :: vs' => bind_params ps' vs' (set s p v)
  | _, _ => None
  end.

Definition dst_name (dst : option (name * option ty)) : name :=
  match dst with Some (v, _) => v | None => (""%string, 0%N) end.
Definition has_dst {A} (dst : option A) : bool := match dst with Some _ => true | None => false end.

(* ---------------------------------------------------------------- the interpreter *)
Section Exec2.
  Variable fe : fenv.

  Fixpoint exec2 (fuel : nat) : stmt2 -> store val -> res2 (store val) val :=
    fix ex (st : stmt2) (s : store val) {struct st} : res2 (store val) val :=
      match st with
      | TSkip => Q2Ok GNorm s []
      | TBase b => of_sres (exec fuel b s)
      | TSeq a b =>
          match ex a s with
          | Q2Ok GNorm s1 o1 => prepend2 o1 (ex b s1)
          | r => r
          end
      | TCall dst f args =>
          match eval_list s args with
          | inl (Some vs) =>
              match fuel with
              | O => Q2OOF
              | S fl =>
                  match find_fn fe f with
                  | None => Q2Stuck
                  | Some fd =>
                      match bind_params (map fst (f_params fd)) vs [] with
                      | None => Q2Stuck
                      | Some s0 =>
                          after_call (fun s a => set s (dst_name dst) a) (has_dst dst) s
                            (finish_call (exec2 fl (f_body fd) s0))
                      end
                  end
              end
          | inl None => Q2Stuck
          | inr EPanic => Q2Panic []
          | inr _ => Q2Stuck
          end
      | TIf c t e =>
          match eval s c with
          | EV (VB true) => ex t s
          | EV (VB false) => ex e s
          | EV _ => Q2Stuck
          | EPanic => Q2Panic []
          | EStuck => Q2Stuck
          end
      | TFor init c post body =>
          match exec_simple init s with
          | ROk SNormal s1 o1 =>
              prepend2 o1
                (match eval s1 c with
                 | EV (VB true) =>
                     match ex body s1 with
                     | Q2Ok GNorm s2 o2 =>
                         match exec_simple post s2 with
                         | ROk SNormal s3 o3 =>
                             match fuel with
                             | O => Q2OOF
                             | S fl => prepend2 (o2 ++ o3) (exec2 fl (TFor SSkip c post body) s3)
                             end
                         | ROk _ _ _ => Q2Stuck
                         | RPanic o => Q2Panic (o2 ++ o)
                         | ROOF => Q2OOF
                         | RStuck => Q2Stuck
                         end
                     | Q2Ok GBrk _ _ => Q2Stuck
                     | r => r
                     end
                 | EV (VB false) => Q2Ok GNorm s1 []
                 | EV _ => Q2Stuck
                 | EPanic => Q2Panic []
                 | EStuck => Q2Stuck
                 end)
          | ROk _ _ _ => Q2Stuck
          | RPanic o => Q2Panic o
          | ROOF => Q2OOF
          | RStuck => Q2Stuck
          end
      | TReturn None => Q2Ok (GRet None) s []
      | TReturn (Some e) =>
          match eval s e with
          | EV a => Q2Ok (GRet (Some a)) s []
          | EPanic => Q2Panic []
          | EStuck => Q2Stuck
          end
      end.
End Exec2.

Definition outcome_of_cres {V} (c : cres V) : outcome :=
  match c with
  | CRet _ o => Done o Exit
  | CPanic o => Done o PanicExit
  | COOF => OutOfFuel
  | CStuck => Stuck
  end.

(* the program runs its main function (no parameters, no result) on the empty store *)
Definition run_go2 (fuel : nat) (p : prog2) : outcome :=
  match find_fn (p_funcs p) (p_main p) with
  | Some fd => outcome_of_cres (finish_call (exec2 (p_funcs p) fuel (f_body fd) []))
  | None => Stuck
  end.
