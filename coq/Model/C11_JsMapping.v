(* C11 — executable model of the Go <-> JavaScript conversion layer of GopherJS.
   Mirrors, branch by branch:
     compiler/prelude/jsmapping.js   $externalize / $internalize / $externalizeFunction / $isASCII
     compiler/prelude/prelude.js     $decodeRune / $encodeRune
     compiler/prelude/numeric.js     $flatten64 / $parseFloat
     compiler/prelude/types.js       the normalising $Int64/$Uint64 constructors, the slice constructor
                                     (backing store converted to the element kind's native array)
     compiler/expressions.go         fc.internalize / fixNumber (the accessor methods Int/Float/Bool/... and
                                     js-tagged struct fields are compiled to these)
     compiler/prelude/goroutines.js  $block (callback guard)
   No proofs in this file.  All numbers are exact: a JS number is an integer (Z), -0, NaN, +-Infinity,
   or a non-integer dyadic rational m / 2^e with m odd (every finite double is one of these). *)
From Coq Require Import List ZArith Bool.
Import ListNotations.
Local Open Scope Z_scope.

(* ------------------------------------------------------------------ numbers *)

Inductive num :=
| NumZ (z : Z)                 (* integer-valued double (includes +0) *)
| NegZero
| NaN
| PInf
| MInf
| Dyadic (m : Z) (e : positive). (* m / 2^e, m odd: a non-integer finite double *)

Definition two32 : Z := 4294967296.
Definition two31 : Z := 2147483648.
Definition two53 : Z := 9007199254740992.

Definition to_uint32 (z : Z) : Z := z mod two32.
Definition to_int32 (z : Z) : Z := let w := z mod two32 in if w <? two31 then w else w - two32.

(* ECMAScript ToIntegerOrInfinity restricted to what ToInt32/ToUint32 need: truncation toward zero *)
Definition num_trunc (n : num) : Z :=
  match n with
  | NumZ z => z
  | Dyadic m e => Z.quot m (Z.pow_pos 2 e)
  | _ => 0
  end.

Definition num_int32 (n : num) : Z := to_int32 (num_trunc n).
Definition num_uint32 (n : num) : Z := to_uint32 (num_trunc n).

(* x << k, x >> k, x >>> k on JS numbers (k < 32) *)
Definition js_shl (n : num) (k : Z) : num := NumZ (to_int32 (num_int32 n * 2 ^ k)).
Definition js_sar (n : num) (k : Z) : num := NumZ (num_int32 n / 2 ^ k).
Definition js_shr (n : num) (k : Z) : num := NumZ (num_uint32 n / 2 ^ k).

(* round an integer to the nearest double (ties to even); identity below 2^53 *)
Definition bitlen (z : Z) : Z := Z.log2 (Z.abs z) + 1.
Definition round53 (z : Z) : Z :=
  if Z.abs z <? two53 then z
  else
    let k := bitlen z - 53 in
    let a := Z.abs z in
    let q := a / 2 ^ k in
    let r := a mod 2 ^ k in
    let half := 2 ^ (k - 1) in
    let q' := if r <? half then q else if half <? r then q + 1 else if Z.even q then q else q + 1 in
    Z.sgn z * (q' * 2 ^ k).

(* $flatten64: x.$high * 4294967296 + x.$low  (the product is exact, the sum rounds once) *)
Definition flatten64 (hi lo : Z) : Z := round53 (hi * two32 + lo).

(* float32 representability (only used to decide whether a Float32Array store is the identity) *)
Fixpoint odd_part_pos (p : positive) : positive :=
  match p with xO q => odd_part_pos q | _ => p end.
Definition odd_part (z : Z) : Z :=
  match z with Z0 => 0 | Zpos p => Zpos (odd_part_pos p) | Zneg p => Zneg (odd_part_pos p) end.
Definition is_f32 (n : num) : bool :=
  match n with
  | NumZ z => (bitlen (odd_part z) <=? 24) && (Z.abs z <? 2 ^ 128)
  | Dyadic m e => (bitlen m <=? 24) && (Zpos e <=? 149)
  | _ => true
  end.

(* ------------------------------------------------------------------ values *)

Inductive tkind := I8 | I16 | I32 | U8 | U16 | U32 | F32 | F64.

Inductive kind :=
| KBool | KInt | KInt8 | KInt16 | KInt32 | KInt64 | KUint | KUint8 | KUint16 | KUint32 | KUint64 | KUintptr
| KFloat32 | KFloat64 | KString.

Definition ustr := list Z.   (* JS string: UTF-16 code units; Go string: bytes (< 256) *)

Inductive jsval :=
| JUndef
| JNull
| JBool (b : bool)
| JNum (n : num)
| JStr (s : ustr)
| JArr (l : list jsval)
| JTyped (k : tkind) (l : list num)
| JObj (kvs : list (ustr * jsval))       (* own enumerable string-keyed properties *)
| JFun (id : Z).

Inductive gtype :=
| TB (k : kind)
| TSlice (e : gtype)
| TArray (n : nat) (e : gtype)
| TMap (e : gtype)                                  (* map[string]e *)
| TStruct (fs : list (ustr * bool * gtype))         (* (name, exported, type) *)
| TPtr (e : gtype)
| TIface                                            (* interface{} *)
| TIfaceM                                           (* an interface with methods *)
| TJsObj                                            (* *js.Object *)
| TFuncAny.                                         (* func(...interface{}) *js.Object *)

Inductive backing := BTyped (k : tkind) | BPlain.

Inductive gval :=
| GBool (b : bool)
| GNum (n : num)                       (* every non-64-bit numeric kind: the JS number that represents it *)
| G64 (hi lo : Z)                      (* $high, $low *)
| GStr (s : ustr)
| GSlice (l : option (list gval))      (* None = nil; backing store is always the element kind's native array *)
| GArr (b : backing) (l : list gval)
| GMap (m : option (list (ustr * gval)))
| GStruct (vs : list gval)
| GPtr (p : option gval)
| GIface (i : option (gtype * gval))
| GJs (j : jsval)
| GFunJs (id : Z).                     (* Go closure wrapping JavaScript function id *)

Inductive err :=
| ECannotExternalize | ECannotInternalize | EArraySize | ENullAsArray | EJsTypeError.

Inductive res (A : Type) :=
| Ok (a : A)
| Throw (e : err)
| Unm.                                  (* outside the modelled domain (not compared) *)
Arguments Ok {A} a.
Arguments Throw {A} e.
Arguments Unm {A}.

Definition bind {A B} (r : res A) (f : A -> res B) : res B :=
  match r with Ok a => f a | Throw e => Throw e | Unm => Unm end.

Definition mapM {A B} (f : A -> res B) : list A -> res (list B) :=
  fix go (l : list A) : res (list B) :=
  match l with
  | [] => Ok []
  | x :: t => bind (f x) (fun y => bind (go t) (fun ys => Ok (y :: ys)))
  end.

(* ------------------------------------------------------------------ UTF-8 / UTF-16 *)

Definition RuneError : Z := 0xFFFD.

(* $decodeRune(str, pos): [rune, width]; the list is the string from pos on *)
Definition cont_bad (c : Z) : bool := (c <? 0x80) || (0xC0 <=? c).

Definition decode_rune (l : ustr) : Z * nat :=
  match l with
  | [] => (RuneError, 1%nat)                                  (* c0 !== c0 *)
  | c0 :: t0 =>
    if c0 <? 0x80 then (c0, 1%nat)
    else if c0 <? 0xC0 then (RuneError, 1%nat)
    else match t0 with
    | [] => (RuneError, 1%nat)
    | c1 :: t1 =>
      if cont_bad c1 then (RuneError, 1%nat)
      else if c0 <? 0xE0 then
        let r := Z.lor (Z.shiftl (Z.land c0 0x1F) 6) (Z.land c1 0x3F) in
        if r <=? 0x7F then (RuneError, 1%nat) else (r, 2%nat)
      else match t1 with
      | [] => (RuneError, 1%nat)
      | c2 :: t2 =>
        if cont_bad c2 then (RuneError, 1%nat)
        else if c0 <? 0xF0 then
          let r := Z.lor (Z.lor (Z.shiftl (Z.land c0 0x0F) 12) (Z.shiftl (Z.land c1 0x3F) 6)) (Z.land c2 0x3F) in
          if r <=? 0x7FF then (RuneError, 1%nat)
          else if (0xD800 <=? r) && (r <=? 0xDFFF) then (RuneError, 1%nat)
          else (r, 3%nat)
        else match t2 with
        | [] => (RuneError, 1%nat)
        | c3 :: _ =>
          if cont_bad c3 then (RuneError, 1%nat)
          else if c0 <? 0xF8 then
            let r := Z.lor (Z.lor (Z.lor (Z.shiftl (Z.land c0 0x07) 18) (Z.shiftl (Z.land c1 0x3F) 12))
                                  (Z.shiftl (Z.land c2 0x3F) 6)) (Z.land c3 0x3F) in
            if (r <=? 0xFFFF) || (0x10FFFF <? r) then (RuneError, 1%nat) else (r, 4%nat)
          else (RuneError, 1%nat)
        end
      end
    end
  end.

(* $encodeRune(r) for a number r *)
Definition encode_rune (r0 : Z) : ustr :=
  let r := if (r0 <? 0) || (0x10FFFF <? r0) || ((0xD800 <=? r0) && (r0 <=? 0xDFFF)) then RuneError else r0 in
  if r <=? 0x7F then [r]
  else if r <=? 0x7FF then [Z.lor 0xC0 (Z.shiftr r 6); Z.lor 0x80 (Z.land r 0x3F)]
  else if r <=? 0xFFFF then [Z.lor 0xE0 (Z.shiftr r 12); Z.lor 0x80 (Z.land (Z.shiftr r 6) 0x3F); Z.lor 0x80 (Z.land r 0x3F)]
  else [Z.lor 0xF0 (Z.shiftr r 18); Z.lor 0x80 (Z.land (Z.shiftr r 12) 0x3F);
        Z.lor 0x80 (Z.land (Z.shiftr r 6) 0x3F); Z.lor 0x80 (Z.land r 0x3F)].

Definition is_ascii (s : ustr) : bool := forallb (fun c => c <? 128) s.

(* the UTF-16 code units appended for rune c in $externalize's string loop *)
Definition utf16_units (c : Z) : ustr :=
  if 0xFFFF <? c then [(c - 0x10000) / 0x400 + 0xD800; (c - 0x10000) mod 0x400 + 0xDC00] else [c].

(* for (i = 0; i < v.length; i += r[1]) { r = $decodeRune(v, i); ... }   (skip = positions still covered by the last rune) *)
Fixpoint ext_loop (skip : nat) (l : ustr) : ustr :=
  match l with
  | [] => []
  | _ :: t =>
    match skip with
    | S k => ext_loop k t
    | O => let '(c, w) := decode_rune l in utf16_units c ++ ext_loop (Nat.pred w) t
    end
  end.

Definition ext_string (s : ustr) : ustr := if is_ascii s then s else ext_loop 0 s.

Definition is_high (h : Z) : bool := (0xD800 <=? h) && (h <=? 0xDBFF).
Definition is_low (l : Z) : bool := (0xDC00 <=? l) && (l <=? 0xDFFF).

Fixpoint int_loop (l : ustr) : ustr :=
  match l with
  | [] => []
  | h :: t =>
    if is_high h then
      match t with
      | [] => encode_rune h                                 (* charCodeAt(i+1) is NaN: not a low surrogate *)
      | lo :: t' => if is_low lo
                    then encode_rune ((h - 0xD800) * 0x400 + lo - 0xDC00 + 0x10000) ++ int_loop t'
                    else encode_rune h ++ int_loop t        (* unpaired: U+FFFD, i++ *)
      end
    else encode_rune h ++ int_loop t
  end.

Definition int_string (u : ustr) : ustr := if is_ascii u then u else int_loop u.

(* ------------------------------------------------------------------ JS coercions used by the conversions *)

Definition str_of_ascii (l : list Z) : ustr := l.
Definition s_true : ustr := [116;114;117;101].
Definition s_false : ustr := [102;97;108;115;101].
Definition s_null : ustr := [110;117;108;108].
Definition s_undefined : ustr := [117;110;100;101;102;105;110;101;100].
Definition s_NaN : ustr := [78;97;78].
Definition s_Infinity : ustr := [73;110;102;105;110;105;116;121].

Fixpoint digits_fuel (fuel : nat) (z : Z) (acc : ustr) : ustr :=
  match fuel with
  | O => acc
  | S f => if z <? 10 then (48 + z) :: acc else digits_fuel f (z / 10) ((48 + z mod 10) :: acc)
  end.
Definition decimal (z : Z) : ustr :=
  if z <? 0 then 45 :: digits_fuel 25 (- z) [] else digits_fuel 25 z [].

Definition ten21 : Z := 1000000000000000000000.

(* String(v) *)
Definition js_to_string (j : jsval) : res ustr :=
  match j with
  | JStr s => Ok s
  | JBool true => Ok s_true
  | JBool false => Ok s_false
  | JNull => Ok s_null
  | JUndef => Ok s_undefined
  | JNum (NumZ z) => if Z.abs z <? two53 then Ok (decimal z) else Unm   (* larger: shortest round-trip digits, not modelled *)
  | JNum NegZero => Ok [48]
  | JNum NaN => Ok s_NaN
  | JNum PInf => Ok s_Infinity
  | JNum MInf => Ok (45 :: s_Infinity)
  | _ => Unm
  end.

(* parseInt(v) *)
Definition parse_int (j : jsval) : res num :=
  match j with
  | JNum (NumZ z) => if Z.abs z <? ten21 then Ok (NumZ z) else Unm
  | JNum NegZero => Ok (NumZ 0)
  | JNum (Dyadic m e) =>
      (* String(v) has no exponent for 1e-6 <= |v| < 1e21: the digits before the point are parsed *)
      if (Z.abs m * 1000000 <? Z.pow_pos 2 e) || (ten21 * Z.pow_pos 2 e <=? Z.abs m) then Unm
      else let q := Z.quot m (Z.pow_pos 2 e) in
           if (q =? 0) && (m <? 0) then Ok NegZero else Ok (NumZ q)
  | JNum _ => Ok NaN
  | JUndef | JNull | JBool _ => Ok NaN
  | JObj _ | JFun _ => Ok NaN
  | _ => Unm
  end.

(* typeof v === "number" ? v : parseFloat(v)   ($internalize, float kinds and the Number row) *)
Definition parse_float (j : jsval) : res num :=
  match j with
  | JNum n => Ok n
  | JUndef | JNull | JBool _ => Ok NaN
  | JObj _ | JFun _ => Ok NaN
  | _ => Unm
  end.

(* $parseFloat(f): numbers are returned unchanged *)
Definition dollar_parse_float (j : jsval) : res num :=
  match j with
  | JNum n => Ok n
  | _ => parse_float j
  end.

(* !!v *)
Definition truthy (j : jsval) : bool :=
  match j with
  | JUndef | JNull => false
  | JBool b => b
  | JNum (NumZ 0) | JNum NegZero | JNum NaN => false
  | JNum _ => true
  | JStr [] => false
  | _ => true
  end.

(* ToNumber for the 64-bit constructors *)
Definition to_number (j : jsval) : res num :=
  match j with
  | JNum n => Ok n
  | JBool true => Ok (NumZ 1)
  | JBool false => Ok (NumZ 0)
  | JNull => Ok (NumZ 0)
  | JUndef => Ok NaN
  | JStr [] => Ok (NumZ 0)
  | JObj _ | JFun _ => Ok NaN
  | _ => Unm
  end.

(* new $Int64(0, low) / new $Uint64(0, low):
     $high = (high + Math.floor(Math.trunc(low) / 4294967296)) >> 0   (>>> 0 for Uint64)
     $low  = low >>> 0 *)
Definition new64 (signed : bool) (low : num) : Z * Z :=
  let hi := match low with
            | NumZ _ | Dyadic _ _ => num_trunc low / two32
            | _ => 0          (* NaN, +-Infinity, -0: the shift gives 0 *)
            end in
  ((if signed then to_int32 hi else to_uint32 hi), num_uint32 low).

(* ------------------------------------------------------------------ typed arrays *)

Definition native_array (k : kind) : option tkind :=
  match k with
  | KInt | KInt32 => Some I32
  | KInt8 => Some I8
  | KInt16 => Some I16
  | KUint | KUint32 | KUintptr => Some U32
  | KUint8 => Some U8
  | KUint16 => Some U16
  | KFloat32 => Some F32
  | KFloat64 => Some F64
  | _ => None
  end.

(* storing a number into a typed array element *)
Definition typed_store (k : tkind) (n : num) : res num :=
  match k with
  | I8 => Ok (NumZ (let w := num_trunc n mod 256 in if w <? 128 then w else w - 256))
  | I16 => Ok (NumZ (let w := num_trunc n mod 65536 in if w <? 32768 then w else w - 65536))
  | I32 => Ok (NumZ (num_int32 n))
  | U8 => Ok (NumZ (num_trunc n mod 256))
  | U16 => Ok (NumZ (num_trunc n mod 65536))
  | U32 => Ok (NumZ (num_uint32 n))
  | F32 => if is_f32 n then Ok n else Unm
  | F64 => Ok n
  end.

Definition is_num32 (k : kind) : bool :=
  match k with KBool | KInt64 | KUint64 | KString => false | _ => true end.

(* $needsExternalization *)
Definition needs_ext (t : gtype) : bool :=
  match t with
  | TB KBool => false
  | TB k => negb (is_num32 k)
  | TJsObj => false
  | _ => true
  end.

(* ------------------------------------------------------------------ objects as canonical association lists *)

Fixpoint ustr_ltb (a b : ustr) : bool :=
  match a, b with
  | [], [] => false
  | [], _ :: _ => true
  | _ :: _, [] => false
  | x :: a', y :: b' => if x <? y then true else if y <? x then false else ustr_ltb a' b'
  end.
Fixpoint ustr_eqb (a b : ustr) : bool :=
  match a, b with
  | [], [] => true
  | x :: a', y :: b' => (x =? y) && ustr_eqb a' b'
  | _, _ => false
  end.

(* m[k] = v on an object / Go map kept sorted by key (property order is not an observable we compare) *)
Fixpoint assoc_set {A} (k : ustr) (v : A) (l : list (ustr * A)) : list (ustr * A) :=
  match l with
  | [] => [(k, v)]
  | (k', v') :: t =>
    if ustr_eqb k k' then (k, v) :: t
    else if ustr_ltb k k' then (k, v) :: l
    else (k', v') :: assoc_set k v t
  end.

Fixpoint assoc_get {A} (k : ustr) (l : list (ustr * A)) : option A :=
  match l with
  | [] => None
  | (k', v) :: t => if ustr_eqb k k' then Some v else assoc_get k t
  end.

Definition assoc_of_list {A} (l : list (ustr * A)) : list (ustr * A) :=
  fold_left (fun acc kv => assoc_set (fst kv) (snd kv) acc) l [].

(* ------------------------------------------------------------------ $externalize *)

Definition gnum_of (v : gval) : res num := match v with GNum n => Ok n | _ => Unm end.
Definition prim_js (v : gval) : res jsval :=
  match v with GNum n => Ok (JNum n) | GBool b => Ok (JBool b) | GJs j => Ok j | _ => Unm end.

(* first-field search for an embedded *js.Object (searchJsObject in the struct case); None = noJsObject *)
Fixpoint search_js_object (fuel : nat) (t : gtype) (v : gval) : option jsval :=
  match fuel with
  | O => None
  | S f =>
    match t, v with
    | TJsObj, GJs j => Some j
    | TPtr e, GPtr (Some v') => search_js_object f e v'
    | TStruct ((_, _, ft) :: _), GStruct (fv :: _) => search_js_object f ft fv
    | TIface, GIface (Some (t', v')) => search_js_object f t' v'
    | _, _ => None
    end
  end.

Fixpoint externalize (t : gtype) (v : gval) {struct v} : res jsval :=
  match t, v with
  | TJsObj, GJs j => Ok j
  | TB KBool, GBool b => Ok (JBool b)
  | TB KInt64, G64 hi lo => Ok (JNum (NumZ (flatten64 hi lo)))
  | TB KUint64, G64 hi lo => Ok (JNum (NumZ (flatten64 hi lo)))
  | TB KString, GStr s => Ok (JStr (ext_string s))
  | TB k, GNum n => if is_num32 k then Ok (JNum n) else Unm
  | TArray _ e, GArr b l =>
      if needs_ext e then bind (mapM (externalize e) l) (fun js => Ok (JArr js))
      else match b with
           | BTyped k => bind (mapM gnum_of l) (fun ns => Ok (JTyped k ns))
           | BPlain => bind (mapM prim_js l) (fun js => Ok (JArr js))
           end
  | TIface, GIface None => Ok JNull
  | TIfaceM, GIface None => Ok JNull
  | TIface, GIface (Some (TJsObj, GJs j)) => Ok j
  | TIfaceM, GIface (Some (TJsObj, GJs j)) => Ok j
  | TIface, GIface (Some (t', v')) => externalize t' v'
  | TIfaceM, GIface (Some (t', v')) => externalize t' v'
  | TMap e, GMap None => Ok JNull
  | TMap e, GMap (Some kvs) =>
      bind (mapM (fun kv => match kv with (k, x) => bind (externalize e x) (fun j => Ok (ext_string k, j)) end) kvs)
           (fun l => Ok (JObj (assoc_of_list l)))
  | TPtr e, GPtr None => Ok JNull
  | TPtr e, GPtr (Some v') => externalize e v'
  | TSlice e, GSlice None => Ok JNull
  | TSlice e, GSlice (Some l) =>
      if needs_ext e then bind (mapM (externalize e) l) (fun js => Ok (JArr js))
      else match e with
           | TB k => match native_array k with
                     | Some tk => bind (mapM gnum_of l) (fun ns => Ok (JTyped tk ns))
                     | None => bind (mapM prim_js l) (fun js => Ok (JArr js))
                     end
           | _ => bind (mapM prim_js l) (fun js => Ok (JArr js))
           end
  | TStruct fs, GStruct vs =>
      match search_js_object 8 t v with
      | Some o => Ok o
      | None =>
        bind ((fix go (fs : list (ustr * bool * gtype)) (vs : list gval) {struct vs} : res (list (ustr * jsval)) :=
                 match fs, vs with
                 | [], [] => Ok []
                 | (name, exported, ft) :: fs', fv :: vs' =>
                     if exported
                     then bind (externalize ft fv) (fun j => bind (go fs' vs') (fun r => Ok ((name, j) :: r)))
                     else go fs' vs'
                 | _, _ => Unm
                 end) fs vs)
             (fun l => Ok (JObj (assoc_of_list l)))
      end
  | TFuncAny, _ => Unm                     (* functions: see the wrapper-cache model below *)
  | _, _ => Unm
  end.

(* ------------------------------------------------------------------ $internalize *)

Definition tkind_slice_type (k : tkind) : gtype :=
  TSlice (TB (match k with
              | I8 => KInt8 | I16 => KInt16 | I32 => KInt | U8 => KUint8 | U16 => KUint16 | U32 => KUint
              | F32 => KFloat32 | F64 => KFloat64 end)).

Definition tmap_any : gtype := TMap TIface.
Definition tslice_any : gtype := TSlice TIface.

(* case $kindInterface, on the constructor of v (empty interface) *)
Fixpoint int_any (j : jsval) : res gval :=
  match j with
  | JNull => Ok (GIface None)
  | JUndef => Ok (GIface (Some (TJsObj, GJs JUndef)))
  | JTyped k l => Ok (GIface (Some (tkind_slice_type k, GSlice (Some (map GNum l)))))
  | JArr l => bind (mapM int_any l) (fun gs => Ok (GIface (Some (tslice_any, GSlice (Some gs)))))
  | JBool b => Ok (GIface (Some (TB KBool, GBool b)))
  | JFun id => Ok (GIface (Some (TFuncAny, GFunJs id)))
  | JNum n => bind (parse_float j) (fun f => Ok (GIface (Some (TB KFloat64, GNum f))))
  | JStr s => Ok (GIface (Some (TB KString, GStr (int_string s))))
  | JObj kvs =>
      bind (mapM (fun kv => match kv with (k, x) => bind (int_any x) (fun g => Ok (int_string k, g)) end) kvs)
           (fun l => Ok (GIface (Some (tmap_any, GMap (Some (assoc_of_list l))))))
  end.

Definition coerce_int (k : kind) (n : num) : num :=
  match k with
  | KInt | KUint => n
  | KInt8 => js_sar (js_shl n 24) 24
  | KInt16 => js_sar (js_shl n 16) 16
  | KInt32 => js_sar n 0
  | KUint8 => js_shr (js_shl n 24) 24
  | KUint16 => js_shr (js_shl n 16) 16
  | KUint32 | KUintptr => js_shr n 0
  | _ => n
  end.

Definition int_basic (k : kind) (j : jsval) : res gval :=
  match k with
  | KBool => Ok (GBool (truthy j))
  | KInt64 => bind (to_number j) (fun n => let '(hi, lo) := new64 true n in Ok (G64 hi lo))
  | KUint64 => bind (to_number j) (fun n => let '(hi, lo) := new64 false n in Ok (G64 hi lo))
  | KFloat32 | KFloat64 => bind (parse_float j) (fun n => Ok (GNum n))
  | KString => bind (js_to_string j) (fun s => Ok (GStr (int_string s)))
  | _ => bind (parse_int j) (fun n => Ok (GNum (coerce_int k n)))
  end.

Definition is_nullish (j : jsval) : bool := match j with JNull | JUndef => true | _ => false end.

(* does t lead, through first fields / pointers, to *js.Object (searchJsObject of the struct case)? *)
Fixpoint wraps_js_object (t : gtype) : bool :=
  match t with
  | TJsObj => true
  | TPtr e => wraps_js_object e
  | TStruct ((_, _, ft) :: _) => wraps_js_object ft
  | _ => false
  end.

Definition prop_get (name : ustr) (j : jsval) : res jsval :=
  match j with
  | JObj kvs => match assoc_get name kvs with Some v => Ok v | None => Ok JUndef end
  | JNull | JUndef => Throw EJsTypeError                 (* v[f.name] on null / undefined *)
  | JBool _ | JNum _ | JFun _ => Ok JUndef               (* no own property of that name on the wrappers we generate *)
  | _ => Unm
  end.

Fixpoint internalize (t : gtype) (j : jsval) {struct t} : res gval :=
  match t with
  | TJsObj => Ok (GJs j)
  | TB k => int_basic k j
  | TArray n e =>
      if is_nullish j then Throw ENullAsArray
      else match j with
           | JArr l => if Nat.eqb (length l) n
                       then bind (mapM (internalize e) l) (fun gs => Ok (GArr BPlain gs))
                       else Throw EArraySize
           | JTyped k l =>
               if Nat.eqb (length l) n
               then match e with
                    | TB ek => if is_num32 ek
                               then bind (mapM (fun x => bind (internalize e (JNum x)) (fun g => bind (gnum_of g) (typed_store k))) l)
                                         (fun ns => Ok (GArr (BTyped k) (map GNum ns)))
                               else Unm
                    | _ => Unm
                    end
               else Throw EArraySize
           | _ => Unm
           end
  | TFuncAny => match j with JFun id => Ok (GFunJs id) | _ => Unm end
  | TIfaceM => Throw ECannotInternalize
  | TIface => int_any j
  | TMap e =>
      match j with
      | JObj kvs =>
          bind (mapM (fun kv => match kv with (k, x) => bind (internalize e x) (fun g => Ok (int_string k, g)) end) kvs)
               (fun l => Ok (GMap (Some (assoc_of_list l))))
      | JNull | JUndef => Ok (GMap None)                     (* t.zero() *)
      | JBool _ | JNum _ => Ok (GMap (Some []))              (* $keys(v) = [] *)
      | _ => Unm
      end
  | TPtr e =>
      match e with
      | TStruct _ => if is_nullish j then Ok (GPtr None)     (* t.nil *)
                     else bind (internalize e j) (fun g => Ok (GPtr (Some g)))   (* the struct case returns the pointer itself *)
      | _ => if is_nullish j then Ok (GPtr None) else Unm
      end
  | TSlice e =>
      if is_nullish j then Ok (GSlice None)
      else match j with
           | JArr l =>
               bind (mapM (internalize e) l) (fun gs =>
                 match e with
                 | TB ek => match native_array ek with
                            | Some tk => bind (mapM (fun g => bind (gnum_of g) (typed_store tk)) gs)
                                              (fun ns => Ok (GSlice (Some (map GNum ns))))
                            | None => Ok (GSlice (Some gs))
                            end
                 | _ => Ok (GSlice (Some gs))
                 end)
           | JTyped k l =>
               match e with
               | TB ek => match native_array ek with
                          | Some tk =>
                              bind (mapM (fun x => bind (internalize e (JNum x)) (fun g =>
                                          bind (gnum_of g) (fun n => bind (typed_store k n) (typed_store tk)))) l)
                                   (fun ns => Ok (GSlice (Some (map GNum ns))))
                          | None => Unm
                          end
               | _ => Unm
               end
           | _ => Unm
           end
  | TStruct fs =>
      if wraps_js_object t then
        (* n = new t.ptr(); n[first field] = o  — the other fields keep their zero values: not modelled *)
        match fs with
        | [(_, _, TJsObj)] => Ok (GStruct [GJs j])
        | _ => Unm
        end
      else
        bind ((fix go (fs : list (ustr * bool * gtype)) : res (list gval) :=
                 match fs with
                 | [] => Ok []
                 | (name, exported, ft) :: fs' =>
                     if exported
                     then bind (prop_get name j) (fun p => bind (internalize ft p) (fun g => bind (go fs') (fun r => Ok (g :: r))))
                     else Unm           (* unexported fields keep their zero value: not modelled *)
                 end) fs)
             (fun vs => Ok (GStruct vs))
  end.

(* ------------------------------------------------------------------ compile-time translation (expressions.go) *)

(* fixNumber(value, basic) *)
Definition fix_number (k : kind) (n : num) : res num :=
  match k with
  | KInt8 => Ok (js_sar (js_shl n 24) 24)
  | KUint8 => Ok (js_shr (js_shl n 24) 24)
  | KInt16 => Ok (js_sar (js_shl n 16) 16)
  | KUint16 => Ok (js_shr (js_shl n 16) 16)
  | KInt32 | KInt => Ok (js_sar n 0)
  | KUint32 | KUint | KUintptr => Ok (js_shr n 0)
  | KFloat64 => Ok n
  | _ => Unm
  end.

(* fc.internalize(s, t): what o.Int(), o.Float(), o.Bool(), ... and reads of js-tagged fields compile to *)
Definition compiled_internalize (t : gtype) (j : jsval) : res gval :=
  match t with
  | TJsObj => Ok (GJs j)
  | TB KBool => Ok (GBool (truthy j))
  | TB KFloat32 | TB KFloat64 => bind (dollar_parse_float j) (fun n => Ok (GNum n))
  | TB KInt64 | TB KUint64 | TB KString => internalize t j
  | TB k => bind (parse_int j) (fun n => bind (fix_number k n) (fun m => Ok (GNum m)))
  | _ => internalize t j
  end.

(* fc.externalize(s, t): numeric non-64-bit values are passed unchanged, everything else goes through $externalize *)
Definition compiled_externalize (t : gtype) (v : gval) : res jsval :=
  match t, v with
  | TB k, GNum n => if is_num32 k then Ok (JNum n) else externalize t v
  | _, _ => externalize t v
  end.

(* ------------------------------------------------------------------ $externalizeFunction: the wrapper cache *)

Record fstate := { wrappers : list (Z * Z);     (* Go function id -> its $externalizeWrapper *)
                   next_js : Z }.

Fixpoint lookup_z (k : Z) (l : list (Z * Z)) : option Z :=
  match l with [] => None | (k', v) :: t => if k =? k' then Some v else lookup_z k t end.

(* v = None is $throwNilPointerError (a nil func) *)
Definition externalize_function (s : fstate) (v : option Z) : jsval * fstate :=
  match v with
  | None => (JNull, s)
  | Some f =>
    match lookup_z f (wrappers s) with
    | Some w => (JFun w, s)
    | None => (JFun (next_js s), {| wrappers := (f, next_js s) :: wrappers s; next_js := next_js s + 1 |})
    end
  end.

(* ------------------------------------------------------------------ $block: the callback guard *)

Record sched := { cur : option Z;            (* $curGoroutine; None = $noGoroutine *)
                  asleep : list Z;           (* goroutines with .asleep = true *)
                  queue : list Z }.          (* $scheduled *)

Inductive block_result := Blocked (s : sched) | GuardError (s : sched).

Definition block (s : sched) : block_result :=
  match cur s with
  | None => GuardError s                     (* $throwRuntimeError(...) before any assignment *)
  | Some g => Blocked {| cur := cur s; asleep := g :: asleep s; queue := queue s |}
  end.
