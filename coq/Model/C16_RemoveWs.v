(* C16 - executable model of compiler/utils.go needsSpace / removeWhitespace (minify = true).
   Model only, self-contained, no proofs (also imported by C19 for the hint half).

   Bytes are [N] (< 256).  [None] = the Go code panics (index / slice bounds out of range).
   The Go loop is transliterated case by case (DQ stands for the double quote character 34,
   BS for the backslash 92, \b is byte 8):

     for len(b) > 0 { switch b[0] {
       case \b:             _, length := ReadHint(b); out += b[:length]; b = b[length:]; continue
       case space,\t,\n:    if (!needsSpace(previous) || !needsSpace(b[1])) && !(previous == '-' && b[1] == '-') { b = b[1:]; continue }
       case DQ:              out += DQ; b = b[1:]; for { i := IndexAny(b, DQ BS); out += b[:i]; b = b[i:]; if b[0] == DQ { break }; out += b[:2]; b = b[2:] }
       case '/':             if b[1] == '*' { i := Index(b[2:], '*' '/'); b = b[i+4:]; continue }
       }
       out += b[0]; previous = b[0]; b = b[1:] }                                                   *)
From Coq Require Import List NArith Arith Bool.
Import ListNotations.
Local Open Scope N_scope.

(* needsSpace *)
Definition rw_needs_space (c : N) : bool :=
  ((97 <=? c) && (c <=? 122)) || ((65 <=? c) && (c <=? 90)) || ((48 <=? c) && (c <=? 57))
  || (c =? 95) || (c =? 36) || (c =? 8).

Definition rw_is_ws (c : N) : bool := (c =? 32) || (c =? 9) || (c =? 10).

(* sourcemapx.ReadHint(b) for b[0] = '\b': occupied length = size + 3; panics when b is shorter
   than 3 bytes or shorter than size + 3. *)
Definition rw_hint_len (b : list N) : option nat :=
  match b with
  | _ :: hi :: lo :: rest =>
      let size := N.to_nat (hi * 256 + lo) in
      if Nat.ltb (length rest) size then None else Some (size + 3)%nat
  | _ => None
  end.

(* the inner loop of the string case (entered after the opening quote): what is copied, and the rest
   starting AT the closing quote.  No closing quote: IndexAny = -1, b[:-1] panics; a backslash as
   the last byte: b[2:] panics. *)
Fixpoint rw_string (b : list N) : option (list N * list N) :=
  match b with
  | [] => None
  | c :: r =>
      if c =? 34 then Some ([], b)
      else if c =? 92 then
        match r with
        | [] => None
        | d :: r' => match rw_string r' with
                     | Some (s, t) => Some (c :: d :: s, t)
                     | None => None
                     end
        end
      else match rw_string r with
           | Some (s, t) => Some (c :: s, t)
           | None => None
           end
  end.

(* bytes.Index(b, star slash) *)
Fixpoint rw_index_close (b : list N) : option nat :=
  match b with
  | [] => None
  | c :: r =>
      match r with
      | [] => None
      | d :: _ => if (c =? 42) && (d =? 47) then Some O
                  else match rw_index_close r with Some i => Some (S i) | None => None end
      end
  end.

(* is the whitespace byte dropped?  [nb] = b[1] if it exists.  Evaluation order of the Go condition:
   needsSpace(previous) false -> b[1] is not read by the first conjunct; the second conjunct reads
   b[1] only when previous == '-'.  None = b[1] read past the end. *)
Definition rw_ws_removed (previous : N) (nb : option N) : option bool :=
  if rw_needs_space previous then
    match nb with None => None | Some n => Some (negb (rw_needs_space n)) end
  else if previous =? 45 then
    match nb with None => None | Some n => Some (negb (n =? 45)) end
  else Some true.

Fixpoint rw_loop (fuel : nat) (previous : N) (b : list N) : option (list N) :=
  match b with
  | [] => Some []
  | c :: r =>
      match fuel with
      | O => None
      | S fuel' =>
          let emit := match rw_loop fuel' c r with Some o => Some (c :: o) | None => None end in
          if c =? 8 then
            match rw_hint_len b with
            | None => None
            | Some len => match rw_loop fuel' previous (skipn len b) with
                          | Some o => Some (firstn len b ++ o)
                          | None => None
                          end
            end
          else if rw_is_ws c then
            match rw_ws_removed previous (hd_error r) with
            | None => None
            | Some true => rw_loop fuel' previous r
            | Some false => emit
            end
          else if c =? 34 then
            match rw_string r with
            | Some (s, q :: t) => match rw_loop fuel' q t with
                                  | Some o => Some (c :: s ++ q :: o)
                                  | None => None
                                  end
            | _ => None
            end
          else if c =? 47 then
            match r with
            | [] => None                                   (* b[1] out of range *)
            | d :: r2 =>
                if d =? 42 then
                  match rw_index_close r2 with
                  | Some i => rw_loop fuel' previous (skipn (i + 2) r2)      (* b[i+4:] *)
                  | None => match r2 with
                            | [] => None                                  (* b[3:] with len(b) = 2 *)
                            | _ :: r3 => rw_loop fuel' previous r3           (* i = -1: b[3:] *)
                            end
                  end
                else emit
            end
          else emit
      end
  end.

(* removeWhitespace(b, true); `var previous byte` starts as 0 *)
Definition remove_ws (b : list N) : option (list N) := rw_loop (S (length b)) 0 b.
