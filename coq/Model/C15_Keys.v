(* C15 — executable model of the keyFor family of compiler/prelude/types.js
   (+ $floatKey of numeric.js).  Model only, no proofs.

   JS strings are lists of code units ([str] = list N).  A map key handed to the JS Map
   is a [jskey]: a JS number (integer kinds: keyFor = $identity), a JS boolean, or a string.
   The run-time state threaded through every keyFor call is [st]: the global [$idCounter]
   and the [$id] slot of every identity object (pointer / channel).

   number -> string for non-zero, non-NaN floats is NOT modelled: it is the parameter [nts]
   (V8 Number::toString), see TRUSTED in harness/py/props/c15.py.  Integers print in decimal
   (modelled with the standard library's Decimal printer). *)
From Coq Require Import List ZArith NArith Bool Ascii String DecimalString.
Import ListNotations.

Definition str := list N.
Definition DOLLAR : N := 36.     (* "$" *)
Definition BSL : N := 92.        (* "\" *)

Definition of_string (s : string) : str := map N_of_ascii (list_ascii_of_string s).
(* String(i) for an integer-valued JS number *)
Definition dec (z : Z) : str := of_string (NilEmpty.string_of_int (Z.to_int z)).

(* ---- String(k).replace(/\\/g, "\\\\").replace(/\$/g, "\\$") : two passes, as written *)
Fixpoint repl_bsl (s : str) : str :=
  match s with
  | [] => []
  | c :: r => if N.eqb c BSL then BSL :: BSL :: repl_bsl r else c :: repl_bsl r
  end.
Fixpoint repl_dollar (s : str) : str :=
  match s with
  | [] => []
  | c :: r => if N.eqb c DOLLAR then BSL :: DOLLAR :: repl_dollar r else c :: repl_dollar r
  end.
Definition escape (s : str) : str := repl_dollar (repl_bsl s).

(* Array.prototype.join.call(xs, "$") *)
Fixpoint join (l : list str) : str :=
  match l with
  | [] => []
  | [x] => x
  | x :: r => x ++ DOLLAR :: join r
  end.

(* ---- key types: one constructor per keyFor branch of $newType *)
Inductive kty :=
| TBool                       (* $kindBool: $identity *)
| TInt                        (* $kindInt..$kindUintptr except the 64-bit ones: $identity *)
| TString                     (* "$" + x *)
| TFloat                      (* $floatKey *)
| T64                         (* x.$high + "$" + x.$low *)
| TComplex                    (* x.$real + "$" + x.$imag *)
| TRef                        (* pointer, channel: $idKey *)
| TIface                      (* $ifaceKeyFor *)
| TArray (n : nat) (e : kty)  (* escaped element keys joined with "$" *)
| TStruct (fs : list (bool * kty))   (* (field is blank "_", field type) — escaped field keys joined *)
| TNoKey.                     (* slice, map, func: the type object has no keyFor *)

(* a run-time type object as seen by $ifaceKeyFor: identity, .string, and which keyFor it carries *)
Record dyn := { d_id : N; d_str : str; d_shape : kty }.

(* floats: all NaNs are one value; everything else by its float64 bit pattern *)
Inductive fl := FNaN | FNum (bits : Z).

Inductive val :=
| VBool (b : bool)
| VInt (z : Z)
| VString (s : str)
| VFloat (f : fl)
| V64 (hi lo : Z)
| VComplex (re im : fl)
| VRef (r : N)                (* identity object number r (a pointer, nil pointer object, channel) *)
| VNil                        (* $ifaceNil *)
| VDyn (d : dyn) (v : val)    (* non-nil interface value: constructor d, x.$val = v *)
| VArr (l : list val)
| VStruct (l : list val)
| VOpaque.                    (* a slice / map / func value *)

Inductive jskey := KNum (z : Z) | KBool (b : bool) | KStr (s : str).

(* String(k): what string concatenation / String() make of a key *)
Definition key_str (k : jskey) : str :=
  match k with
  | KNum z => dec z
  | KBool true => of_string "true"
  | KBool false => of_string "false"
  | KStr s => s
  end.

Definition str_eqb (a b : str) : bool :=
  (fix go a b := match a, b with
                 | [], [] => true
                 | x :: a', y :: b' => N.eqb x y && go a' b'
                 | _, _ => false
                 end) a b.

(* SameValueZero on the keys that occur (numbers here are integers, never NaN) *)
Definition jskey_eqb (a b : jskey) : bool :=
  match a, b with
  | KNum x, KNum y => Z.eqb x y
  | KBool x, KBool y => Bool.eqb x y
  | KStr x, KStr y => str_eqb x y
  | _, _ => false
  end.

(* ---- run-time state *)
Record st := { ctr : N; ids : list (N * N) }.   (* $idCounter; object -> its $id *)

Fixpoint lookup_id (r : N) (l : list (N * N)) : option N :=
  match l with
  | [] => None
  | (r', i) :: t => if N.eqb r r' then Some i else lookup_id r t
  end.

Definition is_zero_bits (b : Z) : bool := Z.eqb b 0 || Z.eqb b 9223372036854775808.

(* NOTE (phase 2): this is the code AFTER the fix commits 861b016 / cb04f65 / 1eafc63 / 0da9cd0 ($ifaceKeyFor throws for
   an uncomparable dynamic type; the type objects' comparable flags are taken to be exact, see ASSUMPTIONS): complex keys use
   $floatKey on both parts, array keyFor throws for an uncomparable array type and maps to a plain
   array (no typed-array coercion), struct keyFor skips blank fields. *)

(* ---- sequencing helpers (element keys are computed left to right, threading the state).
   The function arguments are section variables so that the nested recursion of key_for through
   them is accepted (as with List.map). *)
Section KeysArr.
Variable f : val -> st -> option jskey * st.
Variable g : val -> jskey -> str.
Fixpoint keys_arr (l : list val) (s : st) : option (list str) * st :=
  match l with
  | [] => (Some [], s)
  | x :: r =>
      match f x s with
      | (Some k, s1) =>
          match keys_arr r s1 with
          | (Some ks, s2) => (Some (g x k :: ks), s2)
          | (None, s2) => (None, s2)
          end
      | (None, s1) => (None, s1)
      end
  end.
End KeysArr.

Section KeysStruct.
Variable f : kty -> val -> st -> option jskey * st.
Variable g : jskey -> str.
Fixpoint keys_struct (fs : list (bool * kty)) (l : list val) (s : st) {struct l} : option (list str) * st :=
  match fs, l with
  | [], [] => (Some [], s)
  | (true, _) :: fs', _ :: r => keys_struct fs' r s        (* fields.filter(f => f.name !== "_") *)
  | (false, ft) :: fs', x :: r =>
      match f ft x s with
      | (Some k, s1) =>
          match keys_struct fs' r s1 with
          | (Some ks, s2) => (Some (g k :: ks), s2)
          | (None, s2) => (None, s2)
          end
      | (None, s1) => (None, s1)
      end
  | _, _ => (None, s)
  end.
End KeysStruct.

Section All.
Variable f2 : val -> val -> bool.
Fixpoint all2 (l l' : list val) : bool :=
  match l, l' with
  | [], [] => true
  | x :: r, y :: r' => f2 x y && all2 r r'
  | _, _ => false
  end.
Variable f1 : val -> bool.
Fixpoint all1 (l : list val) : bool :=
  match l with [] => true | x :: r => f1 x && all1 r end.
End All.

Section Fields.
Variable p2 : bool -> kty -> val -> val -> bool.       (* (field is blank, field type, x, y) *)
Fixpoint fields2 (fs : list (bool * kty)) (l l' : list val) {struct l} : bool :=
  match fs, l, l' with
  | [], [], [] => true
  | (blank, ft) :: fs', x :: r, y :: r' => p2 blank ft x y && fields2 fs' r r'
  | _, _, _ => false
  end.
Variable p1 : kty -> val -> bool.
Fixpoint fields1 (fs : list (bool * kty)) (l : list val) {struct l} : bool :=
  match fs, l with
  | [], [] => true
  | (_, ft) :: fs', x :: r => p1 ft x && fields1 fs' r
  | _, _ => false
  end.
(* the same, blank fields skipped (Go's generated hash functions skip blank fields) *)
Fixpoint fieldsnb (fs : list (bool * kty)) (l : list val) {struct l} : bool :=
  match fs, l with
  | [], [] => true
  | (true, _) :: fs', _ :: r => fieldsnb fs' r
  | (false, ft) :: fs', x :: r => p1 ft x && fieldsnb fs' r
  | _, _ => false
  end.
End Fields.

(* is the TYPE comparable (Go: a run-time panic "hash of unhashable type" iff not) *)
Fixpoint comparable (t : kty) : bool :=
  match t with
  | TNoKey => false
  | TArray _ e => comparable e
  | TStruct fs => (fix go (fs : list (bool * kty)) : bool :=
                     match fs with [] => true | (_, ft) :: r => comparable ft && go r end) fs
  | _ => true
  end.

Section WithNts.
Variable nts : Z -> str.        (* String(x) for a non-zero, non-NaN float64 with bit pattern x *)
Variable by_id : bool.          (* which text $ifaceKeyFor puts before "$": false = c.string (the code as found),
                                   true = c.id (the repaired code).  The check sets it from a probe of the
                                   real runtime: coq/Gen/C15_Tables.v c15_iface_by_id *)

(* String(f) *)
Definition fl_str (f : fl) : str :=
  match f with
  | FNaN => of_string "NaN"
  | FNum b => if is_zero_bits b then of_string "0" else nts b
  end.

(* numeric.js $floatKey *)
Definition float_key (f : fl) (s : st) : str * st :=
  match f with
  | FNaN => let c := N.succ (ctr s) in
            (of_string "NaN$" ++ dec (Z.of_N c), {| ctr := c; ids := ids s |})
  | _ => (fl_str f, s)
  end.

(* types.js $idKey *)
Definition id_key (r : N) (s : st) : str * st :=
  match lookup_id r (ids s) with
  | Some i => (dec (Z.of_N i), s)
  | None => let c := N.succ (ctr s) in (dec (Z.of_N c), {| ctr := c; ids := (r, c) :: ids s |})
  end.

(* $ifaceKeyFor: the text in front of '$' *)
Definition iface_prefix (d : dyn) : str :=
  if by_id then dec (Z.of_N (d_id d)) else d_str d.

(* T.keyFor(v) in state s: (Some key | None = it throws: TypeError "keyFor is not a function" or the
   runtime error "hash of unhashable type", state after) *)
Fixpoint key_for (t : kty) (v : val) (s : st) {struct v} : option jskey * st :=
  match t, v with
  | TBool, VBool b => (Some (KBool b), s)
  | TInt, VInt z => (Some (KNum z), s)
  | TString, VString x => (Some (KStr (DOLLAR :: x)), s)
  | TFloat, VFloat f => let (k, s') := float_key f s in (Some (KStr k), s')
  | T64, V64 hi lo => (Some (KStr (dec hi ++ DOLLAR :: dec lo)), s)
  | TComplex, VComplex re im =>
      let (kr, s1) := float_key re s in let (ki, s2) := float_key im s1 in
      (Some (KStr (kr ++ DOLLAR :: ki)), s2)
  | TRef, VRef r => let (k, s') := id_key r s in (Some (KStr k), s')
  | TIface, VNil => (Some (KStr (of_string "nil")), s)
  | TIface, VDyn d x =>
      if comparable (d_shape d) then     (* else $throwRuntimeError("hash of unhashable type " + c.string)  (0da9cd0) *)
        match key_for (d_shape d) x s with
        | (Some k, s') => (Some (KStr (iface_prefix d ++ DOLLAR :: key_str k)), s')
        | (None, s') => (None, s')
        end
      else (None, s)
  | TArray _ e, VArr l =>
      if comparable e then      (* typ.comparable = elem.comparable; else $throwRuntimeError("hash of unhashable type ..") *)
        match keys_arr (fun x s => key_for e x s) (fun _ k => escape (key_str k)) l s with
        | (Some ks, s') => (Some (KStr (join ks)), s')
        | (None, s') => (None, s')
        end
      else (None, s)
  | TStruct fs, VStruct l =>
      match keys_struct (fun ft x s => key_for ft x s) (fun k => escape (key_str k)) fs l s with
      | (Some ks, s') => (Some (KStr (join ks)), s')
      | (None, s') => (None, s')
      end
  | _, _ => (None, s)
  end.

End WithNts.

(* ---- the specification side: Go's == on key values (spec "Comparison operators") *)
Definition fl_eq (a b : fl) : bool :=
  match a, b with
  | FNum x, FNum y => Z.eqb x y || (is_zero_bits x && is_zero_bits y)
  | _, _ => false                      (* NaN is never equal to anything *)
  end.

Fixpoint go_eq (t : kty) (a b : val) {struct a} : bool :=
  match t, a, b with
  | TBool, VBool x, VBool y => Bool.eqb x y
  | TInt, VInt x, VInt y => Z.eqb x y
  | TString, VString x, VString y => str_eqb x y
  | TFloat, VFloat x, VFloat y => fl_eq x y
  | T64, V64 h l, V64 h' l' => Z.eqb h h' && Z.eqb l l'
  | TComplex, VComplex r i, VComplex r' i' => fl_eq r r' && fl_eq i i'
  | TRef, VRef r, VRef r' => N.eqb r r'
  | TIface, VNil, VNil => true
  | TIface, VDyn d x, VDyn d' y => N.eqb (d_id d) (d_id d') && go_eq (d_shape d) x y
  | TArray _ e, VArr l, VArr l' => all2 (fun x y => go_eq e x y) l l'
  | TStruct fs, VStruct l, VStruct l' => fields2 (fun blank ft x y => blank || go_eq ft x y) fs l l'
  | _, _, _ => false
  end.

(* hashing v as a t does not panic in Go: every dynamic type met on the way is comparable *)
Fixpoint hashable (t : kty) (v : val) {struct v} : bool :=
  match t, v with
  | TIface, VNil => true
  | TIface, VDyn d x => comparable (d_shape d) && hashable (d_shape d) x
  | TArray _ e, VArr l => all1 (fun x => hashable e x) l
  | TStruct fs, VStruct l => fieldsnb (fun ft x => hashable ft x) fs l
  | TNoKey, _ => false
  | _, _ => true
  end.

(* v is a value of type t *)
Fixpoint wt (t : kty) (v : val) {struct v} : bool :=
  match t, v with
  | TBool, VBool _ | TInt, VInt _ | TString, VString _ | TFloat, VFloat _ | T64, V64 _ _
  | TComplex, VComplex _ _ | TRef, VRef _ | TIface, VNil | TNoKey, VOpaque => true
  | TIface, VDyn d x => wt (d_shape d) x
  | TArray n e, VArr l => Nat.eqb (List.length l) n && all1 (fun x => wt e x) l
  | TStruct fs, VStruct l => fields1 (fun ft x => wt ft x) fs l
  | _, _ => false
  end.
