(* C05 phase 4 — executable model of how the compiler RECORDS dead-code-elimination information:
   the DCE names of declarations (dce.Info.SetName -> getFilters -> filterGen, filters.go) and the
   dependencies recorded while a declaration's code is translated (Collector.DeclareDCEDep ->
   Info.addDep -> getFilters; call sites objectName / instName / typeName (utils.go), makeReceiver and
   method expressions (expressions.go), method lists and struct fields of a named type (decls.go)).
   Model only: no proofs in this file.

   Abstractions (stated in reports/C05.md):
   * types are the syntax [ty] below: basic types WITH their spelling (types.Typ[Byte] prints "byte",
     types.Typ[Uint8] prints "uint8"; they are identical types), named types with type arguments,
     pointers, slices, maps, func types, and the type parameters of a method's receiver;
     struct / interface / array / chan literals, types nested in functions and constraints other than
     [any] are not modelled;
   * an anonymous composite type gets its own Decl in the real compiler (named after a fresh JS
     variable, depending on its component types); here it is collapsed: mentioning [[]T] records what
     mentioning T records (the harness applies the same projection to the real dump). *)
From Coq Require Import List String Ascii Bool NArith Arith.
From Verif Require Import Model.C05_Select.
Import ListNotations.
Local Open Scope list_scope.
Local Open Scope string_scope.

(* ---- types ---------------------------------------------------------------- *)

Inductive basic := BInt | BString | BBool | BFloat64 | BUint8 | BByte | BInt32 | BRune.

(* types.Basic.String() *)
Definition basic_str (b : basic) : string :=
  match b with
  | BInt => "int" | BString => "string" | BBool => "bool" | BFloat64 => "float64"
  | BUint8 => "uint8" | BByte => "byte" | BInt32 => "int32" | BRune => "rune"
  end.

(* byte = uint8 and rune = int32 are aliases: identical types *)
Definition basic_canon (b : basic) : basic :=
  match b with BByte => BUint8 | BRune => BInt32 | x => x end.

Definition basic_eqb (a b : basic) : bool :=
  match a, b with
  | BInt, BInt | BString, BString | BBool, BBool | BFloat64, BFloat64
  | BUint8, BUint8 | BByte, BByte | BInt32, BInt32 | BRune, BRune => true
  | _, _ => false
  end.

Inductive ty :=
| TBasic (b : basic)
| TNamed (pkg name : string) (targs : tys)
| TPtr (t : ty)
| TSlice (t : ty)
| TMap (k v : ty)
| TFunc (params : tys) (variadic : bool) (results : tys)
| TParam (i : nat)             (* i-th type parameter of the receiver's generic type; constraint any *)
with tys := TNil | TCons (t : ty) (r : tys).

Fixpoint tys_list (l : tys) : list ty := match l with TNil => [] | TCons t r => t :: tys_list r end.
Fixpoint tys_len (l : tys) : nat := match l with TNil => O | TCons _ r => S (tys_len r) end.
Fixpoint tys_nth (l : tys) (i : nat) : option ty :=
  match l, i with
  | TNil, _ => None
  | TCons t _, O => Some t
  | TCons _ r, S j => tys_nth r j
  end.

(* types.Identical on the modelled syntax *)
Fixpoint ty_identical (a b : ty) : bool :=
  match a, b with
  | TBasic x, TBasic y => basic_eqb (basic_canon x) (basic_canon y)
  | TNamed p n ta, TNamed p' n' tb => String.eqb p p' && String.eqb n n' && tys_identical ta tb
  | TPtr x, TPtr y => ty_identical x y
  | TSlice x, TSlice y => ty_identical x y
  | TMap k v, TMap k' v' => ty_identical k k' && ty_identical v v'
  | TFunc ps va rs, TFunc ps' va' rs' => tys_identical ps ps' && Bool.eqb va va' && tys_identical rs rs'
  | TParam i, TParam j => Nat.eqb i j
  | _, _ => false
  end
with tys_identical (a b : tys) : bool :=
  match a, b with
  | TNil, TNil => true
  | TCons x r, TCons y r' => ty_identical x y && tys_identical r r'
  | _, _ => false
  end.

(* spelled without the alias names byte / rune *)
Fixpoint ty_canonical (a : ty) : bool :=
  match a with
  | TBasic x => basic_eqb (basic_canon x) x
  | TNamed _ _ ta => tys_canonical ta
  | TPtr x | TSlice x => ty_canonical x
  | TMap k v => ty_canonical k && ty_canonical v
  | TFunc ps _ rs => tys_canonical ps && tys_canonical rs
  | TParam _ => true
  end
with tys_canonical (a : tys) : bool :=
  match a with TNil => true | TCons x r => ty_canonical x && tys_canonical r end.

(* substitution of the receiver's type parameters (typeparams.Resolver.Substitute) *)
Fixpoint ty_subst (ta : tys) (a : ty) : ty :=
  match a with
  | TBasic x => TBasic x
  | TNamed p n l => TNamed p n (tys_subst ta l)
  | TPtr x => TPtr (ty_subst ta x)
  | TSlice x => TSlice (ty_subst ta x)
  | TMap k v => TMap (ty_subst ta k) (ty_subst ta v)
  | TFunc ps va rs => TFunc (tys_subst ta ps) va (tys_subst ta rs)
  | TParam i => match tys_nth ta i with Some t => t | None => TParam i end
  end
with tys_subst (ta : tys) (a : tys) : tys :=
  match a with TNil => TNil | TCons x r => TCons (ty_subst ta x) (tys_subst ta r) end.

(* ---- filterGen (filters.go) ------------------------------------------------ *)

(* strings.Join(parts, ", ") *)
Fixpoint join (sep : string) (l : list string) : string :=
  match l with
  | [] => ""
  | [x] => x
  | x :: r => x ++ sep ++ join sep r
  end.

(* filterGen.Object for a package-level object given the filter strings of its type arguments:
   objectName(o) + TypeArgs(nil, tArgs) *)
Definition obj_filter (pkg name : string) (targs : list string) : string :=
  pkg ++ "." ++ name ++ match targs with [] => "" | _ => "[" ++ join ", " targs ++ "]" end.

(* filterGen.Type / Tuple / Signature.  [rs] = gen.replacement restricted to the receiver's type
   parameters, as the filter strings of the (ground) type arguments; a type parameter without a
   replacement prints its constraint, which is [any] in the modelled fragment. *)
Fixpoint ty_filter (rs : list string) (a : ty) : string :=
  match a with
  | TBasic x => basic_str (basic_canon x)                     (* byte, rune print as uint8, int32; others t.String() *)
  | TNamed p n l => obj_filter p n (tys_filter rs l)
  | TPtr x => "*" ++ ty_filter rs x
  | TSlice x => "[]" ++ ty_filter rs x
  | TMap k v => "map[" ++ ty_filter rs k ++ "]" ++ ty_filter rs v
  | TFunc ps va res =>
      "func(" ++ join ", " (tuple_filter rs ps va) ++ ")" ++
      match res with
      | TNil => ""
      | TCons r TNil => " " ++ ty_filter rs r
      | _ => "(" ++ join ", " (tys_filter rs res) ++ ")"
      end
  | TParam i => nth i rs "any"
  end
with tys_filter (rs : list string) (a : tys) : list string :=
  match a with TNil => [] | TCons x r => ty_filter rs x :: tys_filter rs r end
(* Tuple(t, variadic): the last parameter of a variadic signature is printed "..." + element *)
with tuple_filter (rs : list string) (a : tys) (variadic : bool) : list string :=
  match a with
  | TNil => []
  | TCons x TNil =>
      if variadic then [ "..." ++ match x with TSlice e => ty_filter rs e | _ => ty_filter rs x end ]
      else [ ty_filter rs x ]
  | TCons x r => ty_filter rs x :: tuple_filter rs r variadic
  end.

Record msig := { ms_params : tys; ms_variadic : bool; ms_results : tys }.

Definition sig_ty (s : msig) : ty := TFunc (ms_params s) (ms_variadic s) (ms_results s).
Definition sig_subst (ta : tys) (s : msig) : msig :=
  {| ms_params := tys_subst ta (ms_params s); ms_variadic := ms_variadic s; ms_results := tys_subst ta (ms_results s) |}.
Definition sig_identical (a b : msig) : bool := ty_identical (sig_ty a) (sig_ty b).
Definition sig_canonical (a : msig) : bool := ty_canonical (sig_ty a).

(* filterGen.Signature *)
Definition sig_filter (rs : list string) (s : msig) : string :=
  "(" ++ join ", " (tuple_filter rs (ms_params s) (ms_variadic s)) ++ ")" ++
  match ms_results s with
  | TNil => ""
  | TCons r TNil => " " ++ ty_filter rs r
  | res => "(" ++ join ", " (tys_filter rs res) ++ ")"
  end.

(* token.IsExported on ASCII names *)
Definition is_exported (name : string) : bool :=
  match name with
  | String c _ => let n := nat_of_ascii c in Nat.leb 65 n && Nat.leb n 90
  | EmptyString => false
  end.

(* getMethodFilter: objectName(o) + Signature, only for unexported methods (getFilters) *)
Definition meth_filter (rs : list string) (mpkg mname : string) (s : msig) : string :=
  if is_exported mname then "" else mpkg ++ "." ++ mname ++ sig_filter rs s.

(* ---- what a declaration's code can mention ---------------------------------- *)

Inductive ref :=
| RFunc (pkg name : string) (targs : tys)    (* call / use of a package-level function or of the instance name[targs] (instName) *)
| RVar (pkg name : string)                   (* use of a package-level variable (objectName) *)
| RType (t : ty)                             (* typeName(t): composite literal, conversion (also to an interface), new, zero value ... *)
| RMeth (recv : ty) (valrecv : bool) (mpkg mname : string) (s : msig)
      (* x.m(..) / method value x.m with x of concrete type; [recv] = the named type that DECLARES m
         (the embedded type for a promoted method), [s] = the signature of the selected method object
         (already instantiated), [valrecv] = the method has a value receiver: the receiver struct is
         copied with $clone(x, typeName(recv)) — makeReceiver *)
| RIMeth (iface : option (string * string)) (mpkg mname : string) (s : msig)
      (* x.m(..) / method value with x of interface type (named pkg.I or an interface literal) — makeReceiver *)
| RMethExpr (recv : ty) (mpkg mname : string) (s : msig)        (* T.m / ( *T).m *)
| RIMethExpr (iface : option (string * string)) (mpkg mname : string) (s : msig).   (* I.m *)

Definition anys (n : nat) : list string := repeat "any" n.

(* objectName(o) [+ instName for a non-trivial instance]:
   DeclareDCEDep(o, nil, nil)  ->  pkg.name            (non-generic)
                                   pkg.name[any, ...]  (generic: type parameters print their constraint)
   DeclareDCEDep(o, nil, targs) -> pkg.name[targs]     (only for instances) *)
Definition mention_named (pkg name : string) (targs : tys) : list string :=
  match targs with
  | TNil => [obj_filter pkg name []]
  | _ => [obj_filter pkg name (anys (tys_len targs)); obj_filter pkg name (tys_filter [] targs)]
  end.

(* typeName(t), anonymous composite types collapsed *)
Fixpoint mentions (a : ty) : list string :=
  match a with
  | TBasic _ => []
  | TNamed p n l => mention_named p n l
  | TPtr x | TSlice x => mentions x
  | TMap k v => (mentions k ++ mentions v)%list
  | TFunc ps _ rs => (mentions_l ps ++ mentions_l rs)%list
  | TParam _ => []
  end
with mentions_l (a : tys) : list string :=
  match a with TNil => [] | TCons x r => (mentions x ++ mentions_l r)%list end.

(* getFilters(method object of a concrete receiver): object filter of the receiver's named type
   (pointer stripped) with its type arguments *)
Fixpoint recv_obj_filter (recv : ty) : list string :=
  match recv with
  | TNamed p n l => [obj_filter p n (tys_filter [] l)]
  | TPtr x => recv_obj_filter x
  | _ => []
  end.

Definition iface_obj_filter (i : option (string * string)) : list string :=
  match i with Some (p, n) => [obj_filter p n []] | None => [] end.

Definition nonempty (s : string) : list string := if is_empty s then [] else [s].

(* the names one mention adds to Info.deps *)
Definition record (r : ref) : list string :=
  match r with
  | RFunc p n l => mention_named p n l
  | RVar p n => [obj_filter p n []]
  | RType t => mentions t
  | RMeth recv vr mp mn s =>                 (* makeReceiver: DeclareDCEDep only `if !sel.Obj().Exported()` *)
      ((if vr then mentions recv else []) ++
       (if is_exported mn then [] else (recv_obj_filter recv ++ nonempty (meth_filter [] mp mn s))))%list
  | RIMeth i mp mn s =>
      if is_exported mn then [] else (iface_obj_filter i ++ nonempty (meth_filter [] mp mn s))%list
  | RMethExpr recv mp mn s =>                (* DeclareDCEDep(sel.Obj()) always, then typeName(sel.Recv()) *)
      (recv_obj_filter recv ++ nonempty (meth_filter [] mp mn s) ++ mentions recv)%list
  | RIMethExpr i mp mn s =>
      (iface_obj_filter i ++ nonempty (meth_filter [] mp mn s))%list
  end.

(* ---- declarations ------------------------------------------------------------ *)

Inductive gkind :=
| KFunc                                  (* function, or one instance of a generic function *)
| KVar                                   (* package variable with its initialiser *)
| KType (fields : tys)                   (* named type (instance): struct fields / underlying type, embedded types included *)
| KHolder (ntparams : nat)               (* `F = []` / `T = []`: the JS variable holding the instances of a generic object *)
| KMethod (mname : string) (s : msig).   (* method of g_name[g_targs]; [s] is the DECLARED signature (TParam i = receiver type parameter) *)

Record gdecl := {
  g_kind : gkind;
  g_pkg : string;
  g_name : string;        (* object name; for a method: the receiver's type name *)
  g_targs : tys;          (* instance type arguments (TNil = not generic) *)
  g_root : bool;          (* SetAsAlive: main, init, initialiser with side effects *)
  g_body : list ref       (* what the declaration's own code mentions *)
}.

Definition prog := list gdecl.

Definition targ_filters (g : gdecl) : list string := tys_filter [] (g_targs g).

(* SetName -> getFilters *)
Definition g_obj (g : gdecl) : string :=
  match g_kind g with
  | KHolder n => obj_filter (g_pkg g) (g_name g) (anys n)
  | _ => obj_filter (g_pkg g) (g_name g) (targ_filters g)
  end.
Definition g_meth (g : gdecl) : string :=
  match g_kind g with
  | KMethod mn s => meth_filter (targ_filters g) (g_pkg g) mn s
  | _ => ""
  end.

Definition same_object (a b : gdecl) : bool :=
  String.eqb (g_pkg a) (g_pkg b) && String.eqb (g_name a) (g_name b) && tys_identical (g_targs a) (g_targs b).

(* the method list of a named type is part of the type's declaration (decls.go methodListEntry:
   $funcType(initArgs(signature)) with the receiver's type arguments substituted) *)
Definition method_sig_refs (p : prog) (g : gdecl) : list ref :=
  flat_map (fun m => match g_kind m with
                     | KMethod _ s => if same_object g m then [RType (sig_ty (sig_subst (g_targs g) s))] else []
                     | _ => []
                     end) p.

(* translating a declaration mentions the declared object itself (objectName / instName / typeName of
   the function, the variable, the type, the method's receiver type) *)
Definition self_refs (g : gdecl) : list ref :=
  match g_kind g with
  | KFunc => [RFunc (g_pkg g) (g_name g) (g_targs g)]
  | KVar => [RVar (g_pkg g) (g_name g)]
  | KType _ | KMethod _ _ => [RType (TNamed (g_pkg g) (g_name g) (g_targs g))]
  | KHolder _ => []
  end.

(* everything whose recording goes to the declaration's Info *)
Definition body (p : prog) (g : gdecl) : list ref :=
  match g_kind g with
  | KType fields => (self_refs g ++ map RType (tys_list fields) ++ method_sig_refs p g ++ g_body g)%list
  | _ => (self_refs g ++ g_body g)%list
  end.

Definition mk_decl (p : prog) (i : nat) (g : gdecl) : decl :=
  {| d_id := N.of_nat i; d_alive := g_root g; d_obj := g_obj g; d_meth := g_meth g;
     d_deps := flat_map record (body p g); d_link := false |}.

Fixpoint compile_from (p : prog) (i : nat) (l : list gdecl) : list decl :=
  match l with [] => [] | g :: r => mk_decl p i g :: compile_from p (S i) r end.

(* the declaration list handed to the Selector *)
Definition compile (p : prog) : list decl := compile_from p 0 p.
