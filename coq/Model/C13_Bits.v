(* C13 — executable model of compiler/natives/src/math/bits/bits.go (Mul32, Add32, Div32, Rem32)
   and of the upstream Go 1.23 math/bits definitions they replace.  Model only, no proofs.
   uint32 values are Z in [0, 2^32); every Go uint32 operation is followed by its wrap
   [w32] exactly where the Go code would wrap. *)
From Coq Require Import ZArith List Bool.
Import ListNotations.
Local Open Scope Z_scope.

Definition two32 : Z := 4294967296.
Definition two16 : Z := 65536.
Definition mask16 : Z := 65535.
Definition w32 (x : Z) : Z := x mod two32.
Definition u32 (x : Z) : Prop := 0 <= x < two32.

(* Go shifts on uint32: a count >= 32 gives 0 *)
Definition shl32 (x s : Z) : Z := if 32 <=? s then 0 else w32 (Z.shiftl x s).
Definition shr32 (x s : Z) : Z := if 32 <=? s then 0 else Z.shiftr x s.

(* bits.LeadingZeros32 (upstream, not overridden): 32 - Len32 x *)
Definition len32 (x : Z) : Z := if x =? 0 then 0 else Z.log2 x + 1.
Definition leading_zeros32 (x : Z) : Z := 32 - len32 x.

(* ---- override: Mul32 *)
Definition mul32 (x y : Z) : Z * Z :=
  let x0 := Z.land x mask16 in
  let x1 := shr32 x 16 in
  let y0 := Z.land y mask16 in
  let y1 := shr32 y 16 in
  let w0 := w32 (x0 * y0) in
  let t := w32 (w32 (x1 * y0) + shr32 w0 16) in
  let w1 := Z.land t mask16 in
  let w2 := shr32 t 16 in
  let w1' := w32 (w1 + w32 (x0 * y1)) in
  let hi := w32 (w32 (w32 (x1 * y1) + w2) + shr32 w1' 16) in
  let lo := w32 (x * y) in
  (hi, lo).

(* ---- override: Add32.   &^ is and-not *)
Definition add32 (x y carry : Z) : Z * Z :=
  let sum := w32 (w32 (x + y) + carry) in
  let carry_out := shr32 (Z.lor (Z.land x y) (Z.ldiff (Z.lor x y) sum)) 31 in
  (sum, carry_out).

(* ---- override: Div32.  Result: inl (quo, rem) or inr panic *)
Inductive bits_panic := DivideError | OverflowError.

(* the two correction loops `for q >= two16 || q*yn0 > two16*rhat+u { q--; rhat += yn1; if rhat >= two16 {break} }`;
   fuel only makes the recursion structural: 3 iterations are never all used when yn1 >= 2^15 *)
Fixpoint div_correct (fuel : nat) (yn1 yn0 u q rhat : Z) : Z :=
  match fuel with
  | O => q
  | S f =>
      if (two16 <=? q) || (w32 (w32 (two16 * rhat) + u) <? w32 (q * yn0))
      then let q' := w32 (q - 1) in
           let rhat' := w32 (rhat + yn1) in
           if two16 <=? rhat' then q' else div_correct f yn1 yn0 u q' rhat'
      else q
  end.

Definition loop_fuel : nat := 3.

Definition div32 (hi lo y : Z) : (Z * Z) + bits_panic :=
  if y =? 0 then inr DivideError
  else if y <=? hi then inr OverflowError
  else
    let s := leading_zeros32 y in
    let y := shl32 y s in
    let yn1 := shr32 y 16 in
    let yn0 := Z.land y mask16 in
    let un16 := Z.lor (shl32 hi s) (shr32 lo (32 - s)) in
    let un10 := shl32 lo s in
    let un1 := shr32 un10 16 in
    let un0 := Z.land un10 mask16 in
    let q1 := un16 / yn1 in
    let rhat := w32 (un16 - w32 (q1 * yn1)) in
    let q1 := div_correct loop_fuel yn1 yn0 un1 q1 rhat in
    let un21 := w32 (w32 (w32 (un16 * two16) + un1) - w32 (q1 * y)) in
    let q0 := un21 / yn1 in
    let rhat := w32 (un21 - w32 (q0 * yn1)) in
    let q0 := div_correct loop_fuel yn1 yn0 un0 q0 rhat in
    inl (w32 (w32 (q1 * two16) + q0),
         shr32 (w32 (w32 (w32 (un21 * two16) + un0) - w32 (q0 * y))) s).

(* ---- override: Rem32.  hi%y panics with the divide error when y = 0 *)
Definition rem32 (hi lo y : Z) : Z + bits_panic :=
  if y =? 0 then inr DivideError
  else match div32 (hi mod y) lo y with
       | inl (_, r) => inl r
       | inr p => inr p
       end.

(* ---- upstream Go 1.23 (the specification side): 64-bit arithmetic *)
Definition go_mul32 (x y : Z) : Z * Z := ((x * y) / two32, (x * y) mod two32).
Definition go_add32 (x y carry : Z) : Z * Z := ((x + y + carry) mod two32, (x + y + carry) / two32).
Definition go_div32 (hi lo y : Z) : (Z * Z) + bits_panic :=
  if (negb (y =? 0)) && (y <=? hi) then inr OverflowError
  else if y =? 0 then inr DivideError
  else let z := hi * two32 + lo in inl ((z / y) mod two32, (z mod y) mod two32).
Definition go_rem32 (hi lo y : Z) : Z + bits_panic :=
  if y =? 0 then inr DivideError else inl (((hi * two32 + lo) mod y) mod two32).
