(* C17 — reproducible builds.  Executable model (NO proofs here) of the places where the
   compiler establishes a deterministic order, including Collector.Finish (sorted keys since fix ee2dd6c;
   run_schedule keeps the historic arbitrary-order loop for comparison with the real propagate).

   Modelled code (all in /repo):
     compiler/sources/sources.go      Sources.Sort (file names, DESCENDING: getFileName(i) > getFileName(j)),
                                      SortedSourcesSlice (ImportPath ascending), UnresolvedImports
     compiler/decls.go                importDecls: sort.Slice by Path() ascending
     compiler/expressions.go          FuncLit: names of escaping variables, map iteration then sort.Strings
     compiler/utils.go                handleEscapingVars: sort.Strings(names)
     compiler/functions.go            sort.Strings(fc.localVars)
     compiler/internal/dce/info.go    addDepName / getDeps: map iteration then sort.Strings
     compiler/internal/typeparams/instance.go   InstanceSet.Add / ID / next / exhausted, PackageInstanceSets
     compiler/internal/typeparams/collect.go    Collector.propagate, Collector.Finish (ranges over a Go map)
     compiler/typesutil/typenames.go  TypeNames.Add / Slice   (same ordered-set model as InstanceSet)

   Go strings are byte strings; `<` on strings is lexicographic on bytes.
   sort.Slice / sort.Strings are pdqsort in Go 1.2x; for n <= 12 they ARE the insertion sort below
   (insertionSort_func: scan from the right while Less(j, j-1)).  For larger n the model still is
   the insertion sort; any algorithm returning a sorted permutation agrees with it whenever the keys
   are pairwise distinct (Proofs/C17_Order.v sorted_perm_unique), which is how the correspondence
   compares them. *)
From Coq Require Import List NArith Bool Arith.
Import ListNotations.

Definition str := list N.

Fixpoint str_ltb (a b : str) : bool :=
  match a, b with
  | [], [] => false
  | [], _ :: _ => true
  | _ :: _, [] => false
  | x :: a', y :: b' => if N.ltb x y then true else if N.ltb y x then false else str_ltb a' b'
  end.

Fixpoint str_eqb (a b : str) : bool :=
  match a, b with
  | [], [] => true
  | x :: a', y :: b' => N.eqb x y && str_eqb a' b'
  | _, _ => false
  end.

Fixpoint str_mem (x : str) (l : list str) : bool :=
  match l with [] => false | y :: r => str_eqb x y || str_mem x r end.

(* ---------------------------------------------------------------- sorting *)

Section Sort.
  Context {A : Type}.
  Variable less : A -> A -> bool.

  (* one pass of Go's insertionSort inner loop; [rp] is the already sorted prefix REVERSED
     (nearest neighbour first):  for j := i; j > a && Less(j, j-1); j-- { Swap(j, j-1) } *)
  Fixpoint ins_rev (x : A) (rp : list A) : list A :=
    match rp with
    | [] => [x]
    | y :: r => if less x y then y :: ins_rev x r else x :: rp
    end.

  Definition isort_rev (l : list A) : list A := fold_left (fun rp x => ins_rev x rp) l [].
  Definition isort (l : list A) : list A := rev (isort_rev l).
End Sort.

(* the comparators of the sort sites; elements carry a payload so that ties are observable *)
Definition keyed := (str * N)%type.

(* Sources.Sort:  s.getFileName(s.Files[i]) > s.getFileName(s.Files[j]) *)
Definition less_file (a b : keyed) : bool := str_ltb (fst b) (fst a).
Definition sort_files (l : list keyed) : list keyed := isort less_file l.

(* SortedSourcesSlice: ImportPath <;  importDecls: imports[i].Path() < imports[j].Path() *)
Definition less_path (a b : keyed) : bool := str_ltb (fst a) (fst b).
Definition sort_sources (l : list keyed) : list keyed := isort less_path l.
Definition sort_imports (l : list keyed) : list keyed := isort less_path l.

(* sort.Strings: UnresolvedImports, FuncLit escaping names, handleEscapingVars, localVars, getDeps, dirList *)
Definition sort_strings (l : list str) : list str := isort str_ltb l.

(* ---------------------------------------------------------------- UnresolvedImports *)

Fixpoint drop_quotes (s : str) : str :=
  match s with
  | c :: r => if N.eqb c 34 then drop_quotes r else s
  | [] => []
  end.
(* strings.Trim(imp.Path.Value, DOUBLE-QUOTE): all leading and trailing bytes 34 are removed *)
Definition trim_quotes (s : str) : str := rev (drop_quotes (rev (drop_quotes s))).

(* strconv.Unquote(imp.Path.Value) with the fallback strings.Trim(Value, DOUBLE-QUOTE) when it fails.
   Exact on the values go/parser can produce for valid import paths and on the malformed ones the check generates:
     `...`  (no back quote inside)            -> the inside with carriage returns removed
     "..."  (inside: no backslash, valid UTF-8) -> the inside if it has no double quote and no newline, else Unquote
                                                   fails and the fallback trims the quotes
     anything shorter than 2 bytes or whose first and last byte differ or are no quote characters -> fallback.
   Escape sequences (backslash), invalid UTF-8 inside double quotes and single-quoted values are outside the modelled
   domain (the generator does not produce them). *)
Fixpoint n_mem_early (x : N) (l : list N) : bool :=
  match l with [] => false | y :: r => N.eqb x y || n_mem_early x r end.
Definition plain_char (c : N) : bool := negb (N.eqb c 92) && negb (N.eqb c 34) && negb (N.eqb c 10).
Definition strip_cr (s : str) : str := filter (fun c => negb (N.eqb c 13)) s.
Definition inner (s : str) : str := removelast (tl s).
Definition unquote_path (v : str) : str :=
  match v with
  | q :: _ :: _ =>
      if N.eqb (last v 0%N) q then
        if N.eqb q 96 then (if n_mem_early 96 (inner v) then trim_quotes v else strip_cr (inner v))
        else if N.eqb q 34 then (if forallb plain_char (inner v) then inner v else trim_quotes v)
        else trim_quotes v
      else trim_quotes v
  | _ => trim_quotes v
  end.

Fixpoint is_prefix (p s : str) : bool :=
  match p, s with
  | [], _ => true
  | x :: p', y :: s' => N.eqb x y && is_prefix p' s'
  | _ :: _, [] => false
  end.
(* strings.HasSuffix(path, _test) *)
Definition has_suffix_test (s : str) : bool := is_prefix (rev [95; 116; 101; 115; 116]%N) (rev s).

(* the double loop over files and their imports, flattened: [seen] starts as the skip list *)
Fixpoint unres_collect (seen : list str) (paths : list str) : list str :=
  match paths with
  | [] => []
  | p :: r =>
      if str_mem p seen then unres_collect seen r
      else (if has_suffix_test p then [] else [p]) ++ unres_collect (p :: seen) r
  end.

Definition unresolved_imports (skip : list str) (files : list (list str)) : list str :=
  sort_strings (unres_collect skip (map unquote_path (concat files))).

(* ---------------------------------------------------------------- dce.Info deps *)

(* addDepName keeps non-empty names in a Go map used as a set: the model keeps the first occurrence *)
Fixpoint dedup_names (seen : list str) (l : list str) : list str :=
  match l with
  | [] => []
  | x :: r => if str_mem x seen then dedup_names seen r else x :: dedup_names (x :: seen) r
  end.
Definition dep_set (names : list str) : list str :=
  dedup_names [] (filter (fun s => match s with [] => false | _ => true end) names).
(* getDeps: [iter] is the order in which the map happened to be ranged over *)
Definition get_deps (iter : list str) : list str := sort_strings iter.

(* ---------------------------------------------------------------- ordered sets *)

(* InstanceSet / TypeNames: elements are abstract identities (N); values = first-insertion order *)
Fixpoint n_mem (x : N) (l : list N) : bool :=
  match l with [] => false | y :: r => N.eqb x y || n_mem x r end.

Definition oset_add (s : list N) (x : N) : list N := if n_mem x s then s else s ++ [x].
Definition oset_add_all (s : list N) (xs : list N) : list N := fold_left oset_add xs s.

Fixpoint index_of (x : N) (l : list N) : option nat :=
  match l with
  | [] => None
  | y :: r => if N.eqb x y then Some O else option_map S (index_of x r)
  end.
(* InstanceSet.ID: seen.Set(inst, seen.Len()) at insertion = the index in values *)
Definition oset_id (s : list N) (x : N) : option nat := index_of x s.

(* ---------------------------------------------------------------- Collector.Finish *)

Record iset := { vals : list N; unproc : nat }.
Definition iset_empty : iset := {| vals := []; unproc := 0 |}.
Definition exhausted (s : iset) : bool := Nat.leb (length (vals s)) (unproc s).

(* PackageInstanceSets: a Go map keyed by import path; packages are numbered, the list is only a
   finite map (its order is NOT an iteration order: Go maps have none). *)
Definition pis := list (N * iset).

Fixpoint pis_get (p : N) (m : pis) : option iset :=
  match m with
  | [] => None
  | (q, s) :: r => if N.eqb p q then Some s else pis_get p r
  end.
Fixpoint pis_set (p : N) (s : iset) (m : pis) : pis :=
  match m with
  | [] => [(p, s)]
  | (q, t) :: r => if N.eqb p q then (q, s) :: r else (q, t) :: pis_set p s r
  end.
Definition pis_keys (m : pis) : list N := map fst m.

Definition inst := (N * N)%type.       (* (package of the instantiated object, instance identity) *)

(* PackageInstanceSets.Add -> Pkg(pkg) (creates the set) -> InstanceSet.Add *)
Definition pis_add (m : pis) (i : inst) : pis :=
  let s := match pis_get (fst i) m with Some s => s | None => iset_empty end in
  pis_set (fst i) {| vals := oset_add (vals s) (snd i); unproc := unproc s |} m.

Definition all_exhausted (m : pis) : bool := forallb (fun e => exhausted (snd e)) m.

(* what scanning the generic code of one instance discovers, in discovery order *)
Definition scan_table := list (N * list inst).
Fixpoint scan_of (t : scan_table) (i : N) : list inst :=
  match t with
  | [] => []
  | (j, l) :: r => if N.eqb i j then l else scan_of r i
  end.

(* Collector.propagate(pkgPath, instances): for iset := instances; !iset.exhausted(); { inst := iset.next(); scan } *)
Fixpoint propagate (fuel : nat) (t : scan_table) (p : N) (m : pis) : pis :=
  match fuel with
  | O => m
  | S f =>
      match pis_get p m with
      | None => m
      | Some s =>
          match nth_error (vals s) (unproc s) with
          | None => m
          | Some i =>
              let m1 := pis_set p {| vals := vals s; unproc := S (unproc s) |} m in
              propagate f t p (fold_left pis_add (scan_of t i) m1)
          end
      end
  end.

(* an arbitrary sequence of propagate calls (the loop before ee2dd6c ranged over the Go map directly; the harness
   still drives the real propagate in prescribed orders and compares with this) *)
Definition run_schedule (fuel : nat) (t : scan_table) (sched : list N) (m : pis) : pis :=
  fold_left (fun m p => propagate fuel t p m) sched m.

(* Collector.Finish as it is now: each round ranges over the keys sorted by import path *)
Definition sort_keys (path_of : N -> str) (ks : list N) : list N :=
  isort (fun a b => str_ltb (path_of a) (path_of b)) ks.

Fixpoint finish_sorted (rounds fuel : nat) (path_of : N -> str) (t : scan_table) (m : pis) : pis :=
  match rounds with
  | O => m
  | S r =>
      if all_exhausted m then m
      else finish_sorted r fuel path_of t (run_schedule fuel t (sort_keys path_of (pis_keys m)) m)
  end.

(* observation: the values (= ids by position) of every package, listed by package number *)
Definition observe (pkgs : list N) (m : pis) : list (N * list N) :=
  map (fun p => (p, match pis_get p m with Some s => vals s | None => [] end)) pkgs.

(* seeds: the instances found by Collector.Scan in non-generic code, in scan order *)
Definition seed (seeds : list inst) : pis := fold_left pis_add seeds [].
