(* C02 — executable model of how the translator hoists blocking calls out of expressions
   (compiler/expressions.go translateCall, compiler/utils.go translateArgs, compiler/statements.go
   translateAssign).  Model only, no proofs.  This model is FAITHFUL TO THE CODE INCLUDING TWO RECORDED
   DEFECTS (known_findings.d/C02.txt): it predicts the order in which the calls of an expression statement
   run in the emitted JavaScript, which is not always Go's order.

   An expression is reduced to its calls:  HLeaf (no call), a binary operation, or call #id with arguments.
   A call expression is Blocking (compiled as `r = f(args); $s = N; case N: ...` in a statement of its own,
   printed BEFORE the statement that contains the expression) iff its callee may block or one of its
   arguments contains a blocking call — markBlocking marks every ancestor.  Everything else stays inside
   the expression and runs when the final JavaScript expression is evaluated.

   [tr e] = (ids executed by the hoisted statements, in order;  ids executed inline afterwards, in order). *)
From Coq Require Import List Bool Arith.
Import ListNotations.

Inductive hexpr :=
| HLeaf
| HBin (a b : hexpr)
| HCall (blk : bool) (id : nat) (args : list hexpr).

(* FuncInfo.Blocking[e] *)
Fixpoint marked (e : hexpr) : bool :=
  match e with
  | HLeaf => false
  | HBin a b => marked a || marked b
  | HCall blk _ args => blk || existsb marked args
  end.

(* Go: operands left to right, arguments before the call *)
Fixpoint go_order (e : hexpr) : list nat :=
  match e with
  | HLeaf => []
  | HBin a b => go_order a ++ go_order b
  | HCall _ id args => concat (map go_order args) ++ [id]
  end.

(* translateArgs: `preserveOrder` = some argument other than the first is Blocking; then EVERY argument is
   evaluated into an `_arg` temporary by a statement of its own (its inline calls run there). *)
Definition tr_args (trs : list (list nat * list nat)) (preserve : bool) : list nat * list nat :=
  if preserve
  then (concat (map (fun pi => fst pi ++ snd pi) trs), [])
  else (concat (map fst trs), concat (map snd trs)).

Fixpoint tr (e : hexpr) : list nat * list nat :=
  match e with
  | HLeaf => ([], [])
  | HBin a b =>
      (* formatExpr("%e + %e"): both operands are translated in order; the statements they print
         accumulate in front, the residual expressions are combined *)
      let '(pa, ia) := tr a in
      let '(pb, ib) := tr b in
      (pa ++ pb, ia ++ ib)
  | HCall blk id args =>
      let '(p, i) := tr_args (map tr args) (existsb marked (tl args)) in
      if blk || existsb marked args
      then (p ++ i ++ [id], [])          (* `r = f(residual args);` is itself a preceding statement *)
      else (p, i ++ [id])
  end.

(* `x = e` *)
Definition trace_assign (e : hexpr) : list nat := let '(p, i) := tr e in p ++ i.

(* `a[idx] = rhs`: translateAssign translates the right side first (printing its hoisted calls), then the
   left operands; the final statement `a[idx'] = rhs'` evaluates idx' before rhs'. *)
Definition trace_index_assign (idx rhs : hexpr) : list nat :=
  let '(pr, ir) := tr rhs in
  let '(pi, ii) := tr idx in
  pr ++ pi ++ ii ++ ir.

(* `defer f(args)` / `go f(args)` (delegatedCall): the arguments go through translateArgs at the statement, the call
   itself happens elsewhere *)
Definition trace_delegated (args : list hexpr) : list nat :=
  let '(p, i) := tr_args (map tr args) (existsb marked (tl args)) in p ++ i.

Definition go_delegated (args : list hexpr) : list nat := concat (map go_order args).

Definition go_index_assign (idx rhs : hexpr) : list nat := go_order idx ++ go_order rhs.

(* the input class on which expression order is preserved: no binary operation whose left operand leaves a
   call inline while its right operand contains a blocking call *)
Fixpoint ordered (e : hexpr) : bool :=
  match e with
  | HLeaf => true
  | HBin a b => ordered a && ordered b && (match snd (tr a) with [] => true | _ => false end || negb (marked b))
  | HCall _ _ args => forallb ordered args
  end.
