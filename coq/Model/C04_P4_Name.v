(* C04 phase 4 — executable model of the NAMES the compiler gives to instances (no proofs in this file).
   Mirrors  compiler/internal/typeparams/instance.go  Instance.TypeParamsString / TypeString / String,
            compiler/typesutil/typelist.go            TypeList.String (types.TypeString(t, nil) joined by ", "),
            compiler/utils.go                         instName:  objectName(o) + "[" + ID + " /* " + params + " */" + "]",
            compiler/decls.go                         $newType(size, kind, inst.TypeString(), ...).
   The spelling of closed non-generic types (TBase) and of objects is a table supplied with the program:
   what go/types prints for them (import path qualified) and the JS variable the compiler allocated (newVariable). *)
From Coq Require Import List NArith Bool Arith String Ascii DecimalString Decimal.
From Verif Require Import Model.C04_Inst.
Import ListNotations.
Local Open Scope string_scope.

Record names := mkNames {
  n_base : list (N * string);       (* TBase b  -> types.TypeString, e.g. "int", "verifc04/p0.N10" *)
  n_qual : list (N * string);       (* object   -> path-qualified name as types.TypeString prints it, "verifc04/p0.B1" *)
  n_short : list (N * string);      (* object   -> pkgname.Name (Instance.qualifiedName), "p0.B1" *)
  n_sym : list (N * string);        (* object   -> symbol.New(o).String(), "verifc04/p0.B1" / "verifc04/p0.B1.M0" *)
  n_var : list (N * string);        (* object   -> JS variable from funcContext.objectName inside the object's package *)
  n_pown : string; n_pnest : string; n_pfree : string   (* spelling of type parameters that are left: prefix ++ index *)
}.

Fixpoint assoc (l : list (N * string)) (k : N) : string :=
  match l with
  | [] => "?"
  | (k', s) :: r => if N.eqb k k' then s else assoc r k
  end.

Fixpoint join (sep : string) (l : list string) : string :=
  match l with
  | [] => ""
  | [x] => x
  | x :: r => x ++ sep ++ join sep r
  end.

Definition dec (n : nat) : string := NilZero.string_of_uint (Nat.to_uint n).

(* types.TypeString(t, nil) for the constructors the generator uses (harness/py/c04_gen.py CON) *)
Fixpoint ty_str (nm : names) (t : ty) {struct t} : string :=
  match t with
  | TBase b => assoc (n_base nm) b
  | TCon c l =>
      let a := map (ty_str nm) l in
      let a0 := nth 0 a "?" in let a1 := nth 1 a "?" in
      match c with
      | 0%N => "[]" ++ a0
      | 1%N => "*" ++ a0
      | 2%N => "map[int]" ++ a0
      | 3%N => "chan " ++ a0
      | 4%N => "[2]" ++ a0
      | 5%N => "func(" ++ a0 ++ ") " ++ a1
      | 6%N => "struct{F " ++ a0 ++ "}"
      | 7%N => "map[" ++ a0 ++ "]" ++ a1
      | _ => "?"
      end
  | TNamed o l =>
      match l with
      | [] => assoc (n_qual nm) o
      | _ => assoc (n_qual nm) o ++ "[" ++ join ", " (map (ty_str nm) l) ++ "]"
      end
  | TOwn i => n_pown nm ++ dec i
  | TNestV i => n_pnest nm ++ dec i
  | TFree i => n_pfree nm ++ dec (N.to_nat i)
  end.

(* typesutil.TypeList.String *)
Definition tlist_str (nm : names) (l : list ty) : string := join ", " (map (ty_str nm) l).

(* Instance.TypeParamsString(open, close) *)
Definition params_string (nm : names) (op cl : string) (i : inst) : string :=
  match i_tnest i, i_targs i with
  | [], [] => ""
  | [], a => op ++ tlist_str nm a ++ cl
  | n, [] => op ++ tlist_str nm n ++ ";" ++ cl
  | n, a => op ++ tlist_str nm n ++ "; " ++ tlist_str nm a ++ cl
  end.

(* Instance.TypeString / Instance.String *)
Definition type_string (nm : names) (i : inst) : string := assoc (n_short nm) (i_obj i) ++ params_string nm "[" "]" i.
Definition inst_string (nm : names) (i : inst) : string := assoc (n_sym nm) (i_obj i) ++ params_string nm "<" ">" i.

(* Instance.IsTrivial *)
Definition is_trivial (i : inst) : bool :=
  match i_targs i, i_tnest i with [], [] => true | _, _ => false end.

(* funcContext.instName inside the instance's own package, given the state of the collector:
   the JS reference is (variable of the object, id); the comment label does not take part in the identity *)
Definition js_ref (p : prog) (st : state) (nm : names) (i : inst) : option (N * string * option nat) :=
  if is_trivial i then Some (o_pkg (get_obj p (i_obj i)), assoc (n_var nm) (i_obj i), None)
  else match inst_id p st i with
       | Some n => Some (o_pkg (get_obj p (i_obj i)), assoc (n_var nm) (i_obj i), Some n)
       | None => None                                   (* panic: requesting ID of instance ... *)
       end.

Definition js_name (p : prog) (st : state) (nm : names) (i : inst) : option string :=
  if is_trivial i then Some (assoc (n_var nm) (i_obj i))
  else match inst_id p st i with
       | Some n => Some (assoc (n_var nm) (i_obj i) ++ "[" ++ dec n ++ params_string nm " /* " " */" i ++ "]")
       | None => None
       end.
