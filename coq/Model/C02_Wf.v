(* C02 — decidable well-formedness of flat programs (no proofs).  These are the structural facts
   about the translator's output that the schedule-independence theorem needs:
   - a function emitted in direct form only calls functions emitted in direct form, and so does every
     statement left in direct form inside a resumable function, including the loop post statements it can
     `continue` to (this is what the blocking analysis has to guarantee: closed marks);
   - case labels (fc.caseCounter) are never reused inside one function.
   [wf_progb (compile p)] is evaluated for every generated program by the correspondence check. *)
From Coq Require Import List ZArith Bool Arith.
From Verif Require Import Model.C02_Blocking Model.C02_Flat.
Import ListNotations.

Definition is_directb (p : fprog) (f : fname) : bool :=
  match nth_error p f with Some (FDirect _ _) => true | _ => false end.

Fixpoint calls_in (P : fname -> bool) (s : stmt) : bool :=
  match s with
  | SCall _ _ f _ => P f
  | SSeq a b => calls_in P a && calls_in P b
  | SIf _ _ a => calls_in P a
  | SIfElse _ _ a b => calls_in P a && calls_in P b
  | SFor _ _ i _ po bo => calls_in P i && calls_in P po && calls_in P bo
  | _ => true
  end.

(* labels of the continue statements that can leave the statement ([inner] = labels of the loops entered so far
   inside it; a continue caught by one of them stays inside) *)
Fixpoint esc_conts (inner : list (option label)) (s : stmt) : list (option label) :=
  match s with
  | SContinue l => if existsb (targets l) inner then [] else [l]
  | SSeq a b => esc_conts inner a ++ esc_conts inner b
  | SIf _ _ a => esc_conts inner a
  | SIfElse _ _ a b => esc_conts inner a ++ esc_conts inner b
  | SFor _ lbl i _ po bo => esc_conts inner i ++ esc_conts inner po ++ esc_conts (lbl :: inner) bo
  | _ => []
  end.

(* a statement emitted in direct form: no receive inside, calls only to direct-form functions *)
Definition direct_okb (p : fprog) (s : stmt) : bool := calls_in (is_directb p) s && negb (has_yield s).

Definition post_okb (p : fprog) (ctx : list flow) (l : option label) : bool :=
  match find_flow l ctx with
  | Some fl => direct_okb p (fl_post fl)
  | None => true
  end.

Definition instr_okb (p : fprog) (i : instr) : bool :=
  match i with
  | IStruct ctx s => direct_okb p s && forallb (post_okb p ctx) (esc_conts [] s)
  | _ => true
  end.

Fixpoint labels (code : list instr) : list nat :=
  match code with
  | [] => []
  | ILbl n :: r => n :: labels r
  | ICall _ _ _ n :: r => n :: labels r
  | _ :: r => labels r
  end.

Fixpoint nodupb (l : list nat) : bool :=
  match l with
  | [] => true
  | x :: r => negb (existsb (Nat.eqb x) r) && nodupb r
  end.

Definition fn_okb (p : fprog) (f : ffn) : bool :=
  match f with
  | FDirect _ s => direct_okb p s
  | FFlat _ code => forallb (instr_okb p) code && nodupb (labels code)
  end.

Definition wf_progb (p : fprog) : bool := forallb (fn_okb p) p.

(* ------------------------------------------------------------------ source side conditions of Proofs/C02_Compile.compile_wf *)
Definition simple_stmt (s : stmt) : bool :=
  match s with
  | SSkip | SAssign _ _ | SGAssign _ _ | SPrint _ | SYield | SCall _ _ _ _ => true
  | _ => false
  end.

Fixpoint posts_simple (s : stmt) : bool :=
  match s with
  | SSeq a b => posts_simple a && posts_simple b
  | SIf _ _ a => posts_simple a
  | SIfElse _ _ a b => posts_simple a && posts_simple b
  | SFor _ _ i _ po bo => posts_simple i && simple_stmt po && posts_simple bo
  | _ => true
  end.

Definition src_ok (sp : sprog) : bool :=
  forallb (fun fn => calls_in (fun g => Nat.ltb g (length sp)) (sf_body fn) && posts_simple (sf_body fn)) sp.

