(* C02 — executable model of the resumable ("flattened") function form emitted by the
   GopherJS translator, of the direct form, and of the translation between them.
   Model only: no proofs in this file.

   Source (MiniGo, stage 1): integer locals/globals, println, if / if-else,
   for init;cond;post with optional label, break/continue with optional label,
   calls to named functions as statements [x = f(args)], return, and [yield] — the
   blocking primitive (a channel receive in the generated Go programs).
   Not in the model (stage 2 / differential tests only): goto, switch, range, defer,
   panic/recover, closures, calls inside expressions (&&/|| with a blocking operand,
   _arg temporaries), else-if chains.

   Mirrors, branch by branch:
     analysis/info.go      markBlocking (a node is Blocking/Flattened iff it contains a
                           blocking call), propagateContinueBlocking       -> [annot]
     statements.go         translateStmt / translateBranchingStmt /
                           translateLoopingStmt / BranchStmt / ReturnStmt in Flattened mode,
                           caseCounter numbering, isTerminated, EndsWithReturn -> [flatten]
     expressions.go        translateCall resume pattern
                           `r = f(a); $s = N; case N: if($c) { $c = false; r = r.$blk(); }
                            if (r && r.$blk !== undefined) { break s; }`     -> [ICall]/[IResume]
     functions.go          `var {..., $s, $r, $c} = $restore(this, {params})`,
                           `s: while (true) { switch ($s) { case 0: ... } return; }
                            var $f = {$blk, $c: true, $r, locals, $s}; return $f;` -> [call]/[run_code]
     goroutines.js         $go: `r = fun(...args); if (r && r.$blk) { fun = () => r.$blk(); ... }`
                           and rescheduling                                  -> [drive]
   A SCHEDULE is an arbitrary oracle [nat -> bool], consulted at every dynamic execution
   of the blocking primitive: "does this receive suspend the goroutine?". *)
From Coq Require Import List ZArith Bool Arith.
From Verif Require Import Model.C02_Blocking.
Import ListNotations.
Local Open Scope Z_scope.

Definition var := nat.
Definition fname := nat.
Definition label := nat.

(* ------------------------------------------------------------------ expressions (pure) *)
Inductive binop := OAdd | OSub | OMul | ORem | OLt | OLe | OEq | ONe | OAnd | OOr.

Inductive expr :=
| EConst (z : Z)
| EVar (x : var)
| EGlob (g : nat)
| EBin (o : binop) (a b : expr)
| ENot (a : expr).

Definition b2z (b : bool) : Z := if b then 1 else 0.
Definition truthy (z : Z) : bool := negb (z =? 0).

Definition eval_bin (o : binop) (a b : Z) : Z :=
  match o with
  | OAdd => a + b | OSub => a - b | OMul => a * b | ORem => Z.rem a b
  | OLt => b2z (a <? b) | OLe => b2z (a <=? b) | OEq => b2z (a =? b) | ONe => b2z (negb (a =? b))
  | OAnd => b2z (truthy a && truthy b) | OOr => b2z (truthy a || truthy b)
  end.

Definition lookup (x : nat) (l : list Z) : Z := nth x l 0.

Fixpoint upd (x : nat) (v : Z) (l : list Z) : list Z :=
  match x, l with
  | O, [] => [v]
  | O, _ :: t => v :: t
  | S x', [] => 0 :: upd x' v []
  | S x', h :: t => h :: upd x' v t
  end.

(* the part of the program state shared by all activations *)
Record world := mkW {
  w_glob : list Z;       (* package variables *)
  w_out  : list Z;       (* println output, newest first *)
  w_tick : nat           (* how many times the schedule oracle has been consulted *)
}.

Fixpoint eval (e : expr) (loc : list Z) (w : world) : Z :=
  match e with
  | EConst z => z
  | EVar x => lookup x loc
  | EGlob g => lookup g (w_glob w)
  | EBin o a b => eval_bin o (eval a loc w) (eval b loc w)
  | ENot a => b2z (negb (truthy (eval a loc w)))
  end.

(* ------------------------------------------------------------------ statements *)
(* The booleans are the analysis marks: for a call, FuncInfo.Blocking[callExpr];
   for if/for, FuncInfo.Flattened[stmt].  The generator emits them all [false];
   [annot] computes them. *)
Inductive stmt :=
| SSkip
| SAssign (x : var) (e : expr)
| SGAssign (g : nat) (e : expr)
| SPrint (e : expr)
| SYield
| SCall (b : bool) (dst : option var) (f : fname) (args : list expr)
| SSeq (s1 s2 : stmt)
| SIf (m : bool) (c : expr) (s1 : stmt)
| SIfElse (m : bool) (c : expr) (s1 s2 : stmt)
| SFor (m : bool) (lbl : option label) (init : stmt) (c : expr) (post body : stmt)
| SBreak (l : option label)
| SContinue (l : option label)
| SReturn (e : expr).

Inductive outcome := ONormal | OBreak (l : option label) | OContinue (l : option label) | OReturn (v : Z).

Definition set_dst (dst : option var) (v : Z) (loc : list Z) : list Z :=
  match dst with Some x => upd x v loc | None => loc end.

Definition w_print (v : Z) (w : world) : world := mkW (w_glob w) (v :: w_out w) (w_tick w).
Definition w_setg (g : nat) (v : Z) (w : world) : world := mkW (upd g v (w_glob w)) (w_out w) (w_tick w).
Definition w_ticked (w : world) : world := mkW (w_glob w) (w_out w) (S (w_tick w)).

Definition opt_label_eqb (a b : option label) : bool :=
  match a, b with
  | None, None => true
  | Some x, Some y => Nat.eqb x y
  | _, _ => false
  end.

(* does a break/continue with label [l] refer to the loop labelled [lbl]? *)
Definition targets (l lbl : option label) : bool :=
  match l with None => true | Some _ => opt_label_eqb l lbl end.

(* ------------------------------------------------------------------ structured execution *)
(* Used (a) as the DIRECT semantics (strict = false: yield only counts the receive), and (b) inside the
   flat machine for functions and statements that the translator emits in direct form
   (strict = true: reaching the blocking primitive from non-resumable code is an error;
   [callf] then only succeeds for calls that complete without suspending). *)
Section Exec.
  Variable callf : fname -> list Z -> world -> option (Z * world).
  Variable strict : bool.

  Fixpoint exec (n : nat) (s : stmt) (loc : list Z) (w : world) : option (outcome * list Z * world) :=
    match n with
    | O => None
    | S n' =>
      match s with
      | SSkip => Some (ONormal, loc, w)
      | SAssign x e => Some (ONormal, upd x (eval e loc w) loc, w)
      | SGAssign g e => Some (ONormal, loc, w_setg g (eval e loc w) w)
      | SPrint e => Some (ONormal, loc, w_print (eval e loc w) w)
      | SYield => if strict then None else Some (ONormal, loc, w_ticked w)
      | SCall _ dst f args =>
          match callf f (map (fun a => eval a loc w) args) w with
          | Some (v, w') => Some (ONormal, set_dst dst v loc, w')
          | None => None
          end
      | SSeq a b =>
          match exec n' a loc w with
          | Some (ONormal, loc', w') => exec n' b loc' w'
          | r => r
          end
      | SIf _ c a =>
          if truthy (eval c loc w) then exec n' a loc w else Some (ONormal, loc, w)
      | SIfElse _ c a b =>
          if truthy (eval c loc w) then exec n' a loc w else exec n' b loc w
      | SFor m lbl init c post body =>
          match exec n' init loc w with
          | Some (ONormal, l1, w1) =>
              if truthy (eval c l1 w1) then
                match exec n' body l1 w1 with
                | Some (o, l2, w2) =>
                    let again :=
                      match exec n' post l2 w2 with
                      | Some (ONormal, l3, w3) => exec n' (SFor m lbl SSkip c post body) l3 w3
                      | Some _ => None
                      | None => None
                      end in
                    match o with
                    | ONormal => again
                    | OContinue l => if targets l lbl then again else Some (o, l2, w2)
                    | OBreak l => if targets l lbl then Some (ONormal, l2, w2) else Some (o, l2, w2)
                    | OReturn _ => Some (o, l2, w2)
                    end
                | None => None
                end
              else Some (ONormal, l1, w1)
          | Some _ => None
          | None => None
          end
      | SBreak l => Some (OBreak l, loc, w)
      | SContinue l => Some (OContinue l, loc, w)
      | SReturn e => Some (OReturn (eval e loc w), loc, w)
      end
    end.
End Exec.

(* result of running a function body: the returned value (0 when falling off the end) *)
Definition body_result (r : option (outcome * list Z * world)) : option (Z * world) :=
  match r with
  | Some (OReturn v, _, w) => Some (v, w)
  | Some (ONormal, _, w) => Some (0, w)
  | _ => None
  end.

(* ------------------------------------------------------------------ direct semantics *)
Record sfn := { sf_nparams : nat; sf_body : stmt }.
Definition sprog := list sfn.

Fixpoint call_direct (p : sprog) (n : nat) (f : fname) (args : list Z) (w : world) : option (Z * world) :=
  match n with
  | O => None
  | S n' =>
    match nth_error p f with
    | Some fn => body_result (exec (call_direct p n') false n' (sf_body fn) args w)
    | None => None
    end
  end.

Definition w0 (nglob : nat) : world := mkW (repeat 0 nglob) [] O.

(* observable result: output (oldest first), returned value, final globals *)
Definition observe (r : option (Z * world)) : option (list Z * Z * list Z) :=
  match r with Some (v, w) => Some (rev (w_out w), v, w_glob w) | None => None end.

Definition run_direct (p : sprog) (nglob : nat) (fuel : nat) (main : fname) (args : list Z) :=
  observe (call_direct p fuel main args (w0 nglob)).

(* ------------------------------------------------------------------ flat target *)
Record flow := { fl_lbl : option label; fl_begin : nat; fl_end : nat; fl_post : stmt }.

Inductive callee := CPrim | CFn (f : fname).

Inductive instr :=
| ILbl (n : nat)                         (* case n: *)
| IGoto (n : nat)                        (* $s = n; continue; *)
| IIfGoto (c : expr) (n : nat)           (* if (c) { $s = n; continue; } *)
| IIfNotGoto (c : expr) (n : nat)        (* if(!(c)) { $s = n; continue; } *)
| IStruct (ctx : list flow) (s : stmt)   (* a statement emitted in its direct (structured) form *)
| ICall (dst : option var) (ce : callee) (args : list expr) (n : nat)   (* blocking call with resume point n *)
| IResume (dst : option var) (n : nat)   (* never emitted: the `case n:` entry inside ICall, see [find_case] *)
| IRet (e : expr).                       (* $s = -1; return e; *)

(* saved activation: `$f = {$blk: fn, $c: true, $r, locals, $s}`; the pending callee frame
   is what the result variable of the call site holds at the time of `break s`. *)
Inductive frame := FLeaf | FFrame (fid : fname) (s : nat) (loc : list Z) (r : frame).

Inductive entry := Fresh (ce : callee) (args : list Z) | Resume (f : frame).
Inductive result := Done (v : Z) | Blocked (f : frame).

Inductive ffn := FDirect (np : nat) (s : stmt) | FFlat (np : nat) (code : list instr).
Definition fprog := list ffn.

(* `switch ($s)`: position after `case n:`.  A resume point lies inside the call pattern. *)
Fixpoint find_case (n : nat) (code : list instr) : option (list instr) :=
  match code with
  | [] => None
  | ILbl m :: rest => if Nat.eqb m n then Some rest else find_case n rest
  | ICall dst ce args m :: rest => if Nat.eqb m n then Some (IResume dst m :: rest) else find_case n rest
  | _ :: rest => find_case n rest
  end.

Fixpoint find_flow (l : option label) (ctx : list flow) : option flow :=
  match ctx with
  | [] => None
  | fl :: r => if targets l (fl_lbl fl) then Some fl else find_flow l r
  end.

Section FlatFn.
  Variable callf : entry -> world -> option (result * world).
  Variable code : list instr.
  Variable fid : fname.

  (* calls made from code emitted in direct form: a suspension cannot be propagated *)
  Definition callf_nb (f : fname) (args : list Z) (w : world) : option (Z * world) :=
    match callf (Fresh (CFn f) args) w with
    | Some (Done v, w') => Some (v, w')
    | _ => None
    end.

  (* c = $c, r = the saved callee frame to re-enter when $c is set *)
  Fixpoint run_code (n : nat) (cur : list instr) (loc : list Z) (c : bool) (r : frame) (w : world)
    : option (result * world) :=
    match n with
    | O => None
    | S n' =>
      let jump m l' c' w' :=
        match find_case m code with
        | Some cur' => run_code n' cur' l' c' r w'
        | None => Some (Done 0, w')               (* no such case: leaves the switch, `return;` *)
        end in
      match cur with
      | [] => Some (Done 0, w)
      | ILbl _ :: rest => run_code n' rest loc c r w
      | IGoto m :: _ => jump m loc c w
      | IIfGoto e m :: rest => if truthy (eval e loc w) then jump m loc c w else run_code n' rest loc c r w
      | IIfNotGoto e m :: rest => if truthy (eval e loc w) then run_code n' rest loc c r w else jump m loc c w
      | IStruct ctx s :: rest =>
          match exec callf_nb true n' s loc w with
          | Some (ONormal, l', w') => run_code n' rest l' c r w'
          | Some (OBreak l, l', w') =>
              match find_flow l ctx with Some fl => jump (fl_end fl) l' c w' | None => None end
          | Some (OContinue l, l', w') =>
              match find_flow l ctx with
              | Some fl =>
                  match exec callf_nb true n' (fl_post fl) l' w' with
                  | Some (ONormal, l'', w'') => jump (fl_begin fl) l'' c w''
                  | _ => None
                  end
              | None => None
              end
          | Some (OReturn v, _, w') => Some (Done v, w')
          | None => None
          end
      | ICall dst ce args m :: rest =>
          if c then None                          (* `$c` still set at a fresh call: r.$blk() on a value *)
          else
            match callf (Fresh ce (map (fun a => eval a loc w) args)) w with
            | Some (Done v, w') => run_code n' rest (set_dst dst v loc) false r w'
            | Some (Blocked f, w') => Some (Blocked (FFrame fid m loc f), w')
            | None => None
            end
      | IResume dst m :: rest =>
          if c then
            match callf (Resume r) w with       (* $c = false; r = r.$blk(); *)
            | Some (Done v, w') => run_code n' rest (set_dst dst v loc) false FLeaf w'
            | Some (Blocked f, w') => Some (Blocked (FFrame fid m loc f), w')
            | None => None
            end
          else run_code n' rest loc c r w
      | IRet e :: _ => Some (Done (eval e loc w), w)
      end
    end.
End FlatFn.

Section Machine.
  Variable p : fprog.
  Variable sched : nat -> bool.

  Fixpoint call (n : nat) (en : entry) (w : world) : option (result * world) :=
    match n with
    | O => None
    | S n' =>
      match en with
      | Fresh CPrim _ =>
          (* $recv on a channel: either a value is ready, or $block() and return {$blk} *)
          if sched (w_tick w) then Some (Blocked FLeaf, w_ticked w) else Some (Done 0, w_ticked w)
      | Resume FLeaf => Some (Done 0, w)
      | Fresh (CFn f) args =>
          match nth_error p f with
          | Some (FDirect _ s) =>
              match body_result (exec (callf_nb (call n')) true n' s args w) with
              | Some (v, w') => Some (Done v, w')
              | None => None
              end
          | Some (FFlat _ code) => run_code (call n') code f n' code args false FLeaf w
          | None => None
          end
      | Resume (FFrame f s loc r) =>
          match nth_error p f with
          | Some (FFlat _ code) =>
              match find_case s code with
              | Some cur => run_code (call n') code f n' cur loc true r w
              | None => Some (Done 0, w)
              end
          | _ => None
          end
      end
    end.

  (* $go / $schedule: keep re-entering the saved chain until the goroutine's function returns *)
  (* [k] bounds the number of resumptions, [fuel] each (re-)entry *)
  Fixpoint drive (fuel : nat) (k : nat) (r : result) (w : world) : option (Z * world) :=
    match r with
    | Done v => Some (v, w)
    | Blocked f =>
        match k with
        | O => None
        | S k' =>
            match call fuel (Resume f) w with
            | Some (r', w') => drive fuel k' r' w'
            | None => None
            end
        end
    end.

  Definition run_machine (fuel : nat) (main : fname) (args : list Z) (w : world) : option (Z * world) :=
    match call fuel (Fresh (CFn main) args) w with
    | Some (r, w') => drive fuel fuel r w'
    | None => None
    end.
End Machine.

Definition run_flat (p : fprog) (sched : nat -> bool) (nglob : nat) (fuel : nat) (main : fname) (args : list Z) :=
  observe (run_machine p sched fuel main args (w0 nglob)).

(* ------------------------------------------------------------------ analysis: marks *)
(* call graph of the source program for C02_Blocking *)
Fixpoint has_yield (s : stmt) : bool :=
  match s with
  | SYield => true
  | SSeq a b => has_yield a || has_yield b
  | SIf _ _ a => has_yield a
  | SIfElse _ _ a b => has_yield a || has_yield b
  | SFor _ _ i _ po bo => has_yield i || has_yield po || has_yield bo
  | _ => false
  end.

Fixpoint callees_of (s : stmt) : list nat :=
  match s with
  | SCall _ _ f _ => [f]
  | SSeq a b => callees_of a ++ callees_of b
  | SIf _ _ a => callees_of a
  | SIfElse _ _ a b => callees_of a ++ callees_of b
  | SFor _ _ i _ po bo => callees_of i ++ callees_of po ++ callees_of bo
  | _ => []
  end.

Definition graph_of (p : sprog) : graph :=
  map (fun fn => {| direct := has_yield (sf_body fn); callees := callees_of (sf_body fn) |}) p.

Definition blocking_flags (p : sprog) : list bool := propagate (graph_of p).

(* enclosing loops seen by the analysis: label and "post statement is Blocking" *)
Definition actx := list (option label * bool).

Fixpoint find_actx (l : option label) (ctx : actx) : bool :=
  match ctx with
  | [] => false
  | (lbl, b) :: r => if targets l lbl then b else find_actx l r
  end.

(* [annot bl ctx s] = (s with marks set, Blocking[s]).  markBlocking marks every node on the
   visitor stack, so a node is Blocking iff it contains a blocking call — or a continue that
   leads to a blocking post statement (propagateContinueBlocking). *)
Fixpoint annot (bl : list bool) (ctx : actx) (s : stmt) : stmt * bool :=
  match s with
  | SYield => (SYield, true)
  | SCall _ dst f args => let b := flag bl f in (SCall b dst f args, b)
  | SSeq a b =>
      let '(a', ba) := annot bl ctx a in
      let '(b', bb) := annot bl ctx b in
      (SSeq a' b', ba || bb)
  | SIf _ c a =>
      let '(a', ba) := annot bl ctx a in (SIf ba c a', ba)
  | SIfElse _ c a b =>
      let '(a', ba) := annot bl ctx a in
      let '(b', bb) := annot bl ctx b in
      (SIfElse (ba || bb) c a' b', ba || bb)
  | SFor _ lbl i c po bo =>
      let '(i', bi) := annot bl ctx i in
      let '(po', bp) := annot bl ctx po in
      let '(bo', bb) := annot bl ((lbl, bp) :: ctx) bo in
      let m := bi || bp || bb in
      (SFor m lbl i' c po' bo', m)
  | SContinue l => (SContinue l, find_actx l ctx)
  | other => (other, false)
  end.

(* ------------------------------------------------------------------ translation *)
Fixpoint last_stmt (s : stmt) : stmt :=
  match s with
  | SSeq _ b => last_stmt b
  | x => x
  end.

(* astutil.EndsWithReturn *)
Definition ends_with_return (s : stmt) : bool :=
  match last_stmt s with SReturn _ => true | _ => false end.

(* translateLoopingStmt: the last statement of the body is a return or a branch statement *)
Definition is_terminated (s : stmt) : bool :=
  match last_stmt s with SReturn _ | SBreak _ | SContinue _ => true | _ => false end.

(* translateStmt of a simple statement (assignment, println, call): the only statements that can
   be a for-loop's post statement.  Shared by the loop tail and by every `continue` site. *)
Definition flat_simple (s : stmt) (ctx : list flow) (cc : nat) : list instr * nat :=
  match s with
  | SSkip => ([], cc)
  | SYield => ([ICall None CPrim [] cc], S cc)
  | SCall true dst f args => ([ICall dst (CFn f) args cc], S cc)
  | other => ([IStruct ctx other], cc)
  end.

(* translateStmt in a function whose Flattened set is not empty.  [cc] is fc.caseCounter. *)
Fixpoint flatten (s : stmt) (ctx : list flow) (cc : nat) : list instr * nat :=
  match s with
  | SSkip => ([], cc)
  | SYield => ([ICall None CPrim [] cc], S cc)
  | SCall true dst f args => ([ICall dst (CFn f) args cc], S cc)
  | SSeq a b =>
      let '(ia, c1) := flatten a ctx cc in
      let '(ib, c2) := flatten b ctx c1 in
      (ia ++ ib, c2)
  | SIf true c a =>
      (* caseOffset = cc, defaultCase = endCase = cc+1, caseCounter = cc+2 *)
      let '(ia, c1) := flatten a ctx (cc + 2)%nat in
      ([IIfGoto c cc; IGoto (cc + 1)%nat; ILbl cc] ++ ia ++ [ILbl (cc + 1)%nat], c1)
  | SIfElse true c a b =>
      (* caseOffset = cc, defaultCase = cc+1, endCase = cc+2, caseCounter = cc+3 *)
      let '(ia, c1) := flatten a ctx (cc + 3)%nat in
      let '(ib, c2) := flatten b ctx c1 in
      ([IIfGoto c cc; IGoto (cc + 1)%nat; ILbl cc] ++ ia
         ++ (if ends_with_return a then [] else [IGoto (cc + 2)%nat])
         ++ [ILbl (cc + 1)%nat] ++ ib ++ [ILbl (cc + 2)%nat], c2)
  | SFor true lbl init c post body =>
      let '(ii, c0) := flatten init ctx cc in
      let fl := {| fl_lbl := lbl; fl_begin := c0; fl_end := S c0; fl_post := post |} in
      let '(ib, c1) := flatten body (fl :: ctx) (c0 + 2)%nat in
      let term := is_terminated body in
      let '(ip, c2) := if term then ([], c1) else flat_simple post (fl :: ctx) c1 in
      (ii ++ [ILbl c0; IIfNotGoto c (S c0)] ++ ib ++ ip
          ++ (if term then [] else [IGoto c0]) ++ [ILbl (S c0)], c2)
  | SBreak l =>
      match find_flow l ctx with
      | Some fl => ([IGoto (fl_end fl)], cc)
      | None => ([IStruct ctx s], cc)
      end
  | SContinue l =>
      match find_flow l ctx with
      | Some fl =>
          (* data.postStmt() is printed at the continue site, then `$s = beginCase; continue;` *)
          let '(ip, c1) := flat_simple (fl_post fl) ctx cc in
          (ip ++ [IGoto (fl_begin fl)], c1)
      | None => ([IStruct ctx s], cc)
      end
  | SReturn e => ([IRet e], cc)
  | other => ([IStruct ctx other], cc)     (* assignments, println, non-blocking calls, unmarked if/for *)
  end.

Definition flatten_fn (blk : bool) (np : nat) (body : stmt) : ffn :=
  if blk then
    let '(code, _) := flatten body [] 1%nat in
    (* translateFunctionBody appends `$s = -1; return;` unless the body ends with a return *)
    FFlat np (code ++ (if ends_with_return body then [] else [IRet (EConst 0)]))
  else FDirect np body.

Definition annot_fn (bl : list bool) (fn : sfn) : sfn :=
  {| sf_nparams := sf_nparams fn; sf_body := fst (annot bl [] (sf_body fn)) |}.

Fixpoint zip_flatten (bl : list bool) (p : sprog) : fprog :=
  match p, bl with
  | fn :: p', b :: bl' => flatten_fn b (sf_nparams fn) (sf_body fn) :: zip_flatten bl' p'
  | fn :: p', [] => flatten_fn false (sf_nparams fn) (sf_body fn) :: zip_flatten [] p'
  | [], _ => []
  end.

(* the whole pipeline: analysis, marks, translation *)
Definition compile (p : sprog) : fprog :=
  let bl := blocking_flags p in
  zip_flatten bl (map (annot_fn bl) p).

(* ------------------------------------------------------------------ skeleton of the emitted code *)
(* What harness/py/props/c02.py can read off the real JavaScript with regular expressions:
   case labels, `$s = n; continue`, call resume points and returns, in textual order. *)
(* TP: a `return` without the preceding `$s = -1` inside a resumable function — never produced by the
   translator model; it only occurs in observations *)
Inductive tok := TL (n : nat) | TG (n : nat) | TC (n : nat) | TR | TP.

(* direct-form statement inside a flattened function: only jumps that leave it towards a
   flattened loop and returns are visible; [inner] = labels of loops inside the statement *)
Fixpoint struct_skel (ctx : list flow) (inner : list (option label)) (s : stmt) : list tok :=
  match s with
  | SSeq a b => struct_skel ctx inner a ++ struct_skel ctx inner b
  | SIf _ _ a => struct_skel ctx inner a
  | SIfElse _ _ a b => struct_skel ctx inner a ++ struct_skel ctx inner b
  | SFor _ lbl i _ po bo =>
      struct_skel ctx inner i ++ struct_skel ctx (lbl :: inner) bo
      ++ (if is_terminated bo then [] else struct_skel ctx (lbl :: inner) po)
  | SBreak l =>
      if existsb (targets l) inner then []
      else match find_flow l ctx with Some fl => [TG (fl_end fl)] | None => [] end
  | SContinue l =>
      if existsb (targets l) inner then []
      else match find_flow l ctx with Some fl => [TG (fl_begin fl)] | None => [] end
  | SReturn _ => [TR]
  | _ => []
  end.

Fixpoint skel (code : list instr) : list tok :=
  match code with
  | [] => []
  | ILbl n :: r => TL n :: skel r
  | IGoto n :: r => TG n :: skel r
  | IIfGoto _ n :: r => TG n :: skel r
  | IIfNotGoto _ n :: r => TG n :: skel r
  | IStruct ctx s :: r => struct_skel ctx [] s ++ skel r
  | ICall _ _ _ n :: r => TC n :: skel r
  | IResume _ _ :: r => skel r
  | IRet _ :: r => TR :: skel r
  end.

Definition skel_fn (f : ffn) : option (list tok) :=
  match f with FFlat _ code => Some (skel code) | FDirect _ _ => None end.
