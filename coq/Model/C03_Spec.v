(* C03 — the reference semantics of Go channels as a small labelled transition system (NO proofs here).
   Written from the Go language specification (send statements, receive operator, close, select statements),
   independent of GopherJS's queues: a channel is (capacity, FIFO buffer, closed flag); nothing else.

   Two-phase view of an operation, as in Go: an operation COMPLETES (possibly completed for a goroutine by its
   partner: a rendezvous, or a close that releases it), and LATER the goroutine OBSERVES the result when it runs
   again (status [SPend e]).  Only observing emits an event; the order in which different goroutines observe is
   free, what each goroutine observes is not.

     AOp g i      goroutine g completes its next operation on its own; i = chosen case of a select (0 otherwise):
                    send: buffer has room -> push;  closed -> panic         (never on a nil channel)
                    receive: buffer non-empty -> pop the head;  closed and drained -> (0,false)
                    close: nil -> panic;  closed -> panic;  else the channel becomes closed
                    select: any case that can proceed; the default case only if no case can proceed
                    print / go / Gosched / Goexit
     ARv g i h j  unbuffered rendezvous: the arriving goroutine g (case i) and a PARKED partner h (case j),
                    one sends and the other receives on the same open unbuffered non-nil channel; both complete
     APark g      g arrives at a communication that cannot proceed now (and has no default): it parks
     AObs g       g observes the result of its completed operation: the only step that emits an event
     AFin g       g's function returns
   "can proceed" = Go's notion: buffer room / value / closed, or (unbuffered) a partner is PARKED on the other side.
   The random fair choice of select is the oracle [i] of AOp/ARv: every enabled case is allowed. *)
From Coq Require Import List NArith Bool Arith.
From Verif Require Import Model.C03_Chan.
Import ListNotations.

Inductive sstatus := SRun | SParked | SPend (e : event) | SDone.
Record sgor := mkSGor { sg_code : script; sg_st : sstatus }.
Record schan := mkSChan { sc_nil : bool; sc_cap : nat; sc_buf : list val; sc_closed : bool }.
Record sstate := mkSState { s_chans : list schan; s_gors : list sgor }.

Inductive action := AOp (g : gid) (i : nat) | ARv (g : gid) (i : nat) (h : gid) (j : nat) | APark (g : gid) | AObs (g : gid) | AFin (g : gid).

Definition snil_chan : schan := mkSChan true 0 [] false.
Definition sdead : sgor := mkSGor [] SDone.
Definition sget_c (s : sstate) (c : cid) : schan := nth c (s_chans s) snil_chan.
Definition sget_g (s : sstate) (g : gid) : sgor := nth g (s_gors s) sdead.
Definition sset_c (s : sstate) (c : cid) (ch : schan) : sstate := mkSState (upd (s_chans s) c ch) (s_gors s).
Definition sset_g (s : sstate) (g : gid) (x : sgor) : sstate := mkSState (s_chans s) (upd (s_gors s) g x).
Definition spend (s : sstate) (g : gid) (e : event) : sstate := sset_g s g (mkSGor (sg_code (sget_g s g)) (SPend e)).

(* the communications an operation offers: a plain send/receive is a one-case select without default *)
Definition comms_of (o : op) : option (list comm) :=
  match o with
  | Send c v => Some [CSend c v]
  | Recv c | Range c => Some [CRecv c]
  | Select cs => Some cs
  | _ => None
  end.

(* what the goroutine observes when case i of its operation completed with result r *)
Definition comm_event (o : op) (i : nat) (r : option (val * bool)) : event :=
  match o, r with
  | Send _ _, None => EvSend
  | Recv _, Some (v, ok) | Range _, Some (v, ok) => EvRecv v ok
  | Select _, _ => EvSel i r
  | _, _ => EvOdd
  end.

Definition is_send_on (c : cid) (cm : comm) : bool := match cm with CSend c' _ => Nat.eqb c c' | _ => false end.
Definition is_recv_on (c : cid) (cm : comm) : bool := match cm with CRecv c' => Nat.eqb c c' | _ => false end.

Definition parked_comms (x : sgor) : list comm :=
  match sg_st x, sg_code x with
  | SParked, o :: _ => match comms_of o with Some cs => cs | None => [] end
  | _, _ => []
  end.

(* is some goroutine other than g parked on a communication satisfying [want]? *)
Fixpoint has_parked_from (gs : list sgor) (h : gid) (g : gid) (want : comm -> bool) : bool :=
  match gs with
  | [] => false
  | x :: r => (negb (Nat.eqb h g) && existsb want (parked_comms x)) || has_parked_from r (S h) g want
  end.
Definition has_parked (s : sstate) (g : gid) (want : comm -> bool) : bool := has_parked_from (s_gors s) 0 g want.

(* Go: "can proceed" *)
Definition can_proceed (s : sstate) (g : gid) (cm : comm) : bool :=
  match cm with
  | CDefault => false
  | CSend c _ => let ch := sget_c s c in
      negb (sc_nil ch) && (sc_closed ch || Nat.ltb (length (sc_buf ch)) (sc_cap ch)
                           || (Nat.eqb (sc_cap ch) 0 && has_parked s g (is_recv_on c)))
  | CRecv c => let ch := sget_c s c in
      negb (sc_nil ch) && (negb (Nat.eqb (length (sc_buf ch)) 0) || sc_closed ch
                           || (Nat.eqb (sc_cap ch) 0 && has_parked s g (is_send_on c)))
  end.

(* g completes communication cm (case i of operation o) without a partner *)
Definition complete_alone (s : sstate) (g : gid) (o : op) (i : nat) (cm : comm) : option sstate :=
  match cm with
  | CDefault => None
  | CSend c v =>
      let ch := sget_c s c in
      if sc_nil ch then None
      else if sc_closed ch then Some (spend s g (EvPanic PSendClosed))
      else if Nat.ltb (length (sc_buf ch)) (sc_cap ch)
           then Some (spend (sset_c s c (mkSChan false (sc_cap ch) (sc_buf ch ++ [v]) false)) g (comm_event o i None))
           else None
  | CRecv c =>
      let ch := sget_c s c in
      if sc_nil ch then None
      else match sc_buf ch with
           | v :: b => Some (spend (sset_c s c (mkSChan false (sc_cap ch) b (sc_closed ch))) g (comm_event o i (Some (v, true))))
           | [] => if sc_closed ch then Some (spend s g (comm_event o i (Some (0%N, false)))) else None
           end
  end.

Definition runnable (x : sgor) : bool := match sg_st x with SRun | SParked => true | _ => false end.
Definition arriving (x : sgor) : bool := match sg_st x with SRun => true | _ => false end.
Definition parked (x : sgor) : bool := match sg_st x with SParked => true | _ => false end.

(* the code after observing e at operation o *)
Definition after_obs (o : op) (rest : script) (e : event) : script :=
  match e with
  | EvPanic _ => []                                  (* the panic unwinds to the goroutine's top *)
  | EvRecv _ true => match o with Range _ => o :: rest | _ => rest end
  | _ => rest
  end.

Definition sstep (prog : program) (s : sstate) (a : action) : option (sstate * list (gid * event)) :=
  match a with
  | AOp g i =>
      let x := sget_g s g in
      match sg_code x with
      | [] => None
      | o :: _ =>
          if negb (runnable x) then None else
          match o with
          | Print v => Some (spend s g (EvPrint v), [])
          | Go k => Some (mkSState (s_chans (spend s g (EvGo k)))
                                   (s_gors (spend s g (EvGo k)) ++ [mkSGor (nth k (p_scripts prog) []) SRun]), [])
          | Gosched => Some (spend s g EvSched, [])
          | Goexit => Some (spend s g EvGoexit, [])
          | Close c =>
              let ch := sget_c s c in
              if sc_nil ch then Some (spend s g (EvPanic PCloseNil), [])
              else if sc_closed ch then Some (spend s g (EvPanic PCloseClosed), [])
              else Some (spend (sset_c s c (mkSChan false (sc_cap ch) (sc_buf ch) true)) g EvClose, [])
          | _ =>
              match comms_of o with
              | None => None
              | Some cs =>
                  match nth_error cs i with
                  | None => None
                  | Some CDefault =>
                      if existsb (can_proceed s g) cs then None else Some (spend s g (comm_event o i None), [])
                  | Some cm => match complete_alone s g o i cm with Some s' => Some (s', []) | None => None end
                  end
              end
          end
      end
  | ARv g i h j =>
      let x := sget_g s g in let y := sget_g s h in
      if Nat.eqb g h || negb (arriving x) || negb (parked y) then None else
      match sg_code x, sg_code y with
      | o :: _, p :: _ =>
          match comms_of o, comms_of p with
          | Some cs, Some ds =>
              match nth_error cs i, nth_error ds j with
              | Some (CSend c v), Some (CRecv c') | Some (CRecv c'), Some (CSend c v) =>
                  let ch := sget_c s c in
                  if Nat.eqb c c' && negb (sc_nil ch) && negb (sc_closed ch) && Nat.eqb (sc_cap ch) 0 then
                    let '(ex, ey) := match nth_error cs i with
                                     | Some (CSend _ _) => (comm_event o i None, comm_event p j (Some (v, true)))
                                     | _ => (comm_event o i (Some (v, true)), comm_event p j None)
                                     end in
                    Some (spend (spend s g ex) h ey, [])
                  else None
              | _, _ => None
              end
          | _, _ => None
          end
      | _, _ => None
      end
  | APark g =>
      let x := sget_g s g in
      match sg_st x, sg_code x with
      | SRun, o :: _ =>
          match comms_of o with
          | Some cs => if existsb (can_proceed s g) cs || existsb (fun cm => match cm with CDefault => true | _ => false end) cs
                       then None else Some (sset_g s g (mkSGor (sg_code x) SParked), [])
          | None => None
          end
      | _, _ => None
      end
  | AObs g =>
      let x := sget_g s g in
      match sg_st x, sg_code x with
      | SPend e, o :: rest =>
          Some (sset_g s g (match e with
                            | EvGoexit => mkSGor [] SDone
                            | _ => mkSGor (after_obs o rest e) SRun
                            end), [(g, e)])
      | _, _ => None
      end
  | AFin g =>
      let x := sget_g s g in
      match sg_st x, sg_code x with
      | SRun, [] => Some (sset_g s g (mkSGor [] SDone), [])
      | _, _ => None
      end
  end.

(* a finite sequence of spec steps with the events it emits *)
Fixpoint ssteps (prog : program) (s : sstate) (acts : list action) : option (sstate * list (gid * event)) :=
  match acts with
  | [] => Some (s, [])
  | a :: r => match sstep prog s a with
              | None => None
              | Some (s1, e1) => match ssteps prog s1 r with
                                 | None => None
                                 | Some (s2, e2) => Some (s2, e1 ++ e2)
                                 end
              end
  end.

Definition sinit (prog : program) : sstate :=
  mkSState (snil_chan :: map (fun cap => mkSChan false cap [] false) (p_caps prog)) [mkSGor (nth 0 (p_scripts prog) []) SRun].

(* quiescence: no goroutine can do anything any more (used for the final verdict: exit / deadlock) *)
Definition g_stuck (s : sstate) (g : gid) (x : sgor) : bool :=
  match sg_st x, sg_code x with
  | SDone, _ => true
  | SParked, o :: _ => match comms_of o with Some cs => negb (existsb (can_proceed s g) cs) | None => false end
  | _, _ => false
  end.
Fixpoint all_stuck_from (s : sstate) (gs : list sgor) (g : gid) : bool :=
  match gs with [] => true | x :: r => g_stuck s g x && all_stuck_from s r (S g) end.
Definition quiescent (s : sstate) : bool := all_stuck_from s (s_gors s) 0.
