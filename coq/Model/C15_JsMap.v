(* C15 — executable model of the JavaScript Map as used for Go maps, of the map operations the
   compiler emits (expressions.go / statements.go / prelude.js $mapIndex, $mapDelete, types.js
   $makeMap) and of the emitted range-over-map loop (statements.go, case *types.Map).
   Model only, no proofs. *)
From Coq Require Import List ZArith NArith Bool.
From Verif Require Import Model.C15_Keys.
Import ListNotations.

(* ------------------------------------------------------------------ ECMAScript Map
   [[MapData]] is a list of slots in insertion order; delete empties the slot (the list never
   shrinks), set on an existing key replaces the value in place, set on a new key appends.
   A Map iterator is an index into that list ("live": it sees later appends and deletes). *)
Section JsMap.
Variables K E : Type.
Variable keq : K -> K -> bool.            (* SameValueZero *)

Definition jsmap := list (option (K * E)).

Fixpoint m_get (m : jsmap) (k : K) : option E :=
  match m with
  | [] => None
  | Some (k', e) :: r => if keq k' k then Some e else m_get r k
  | None :: r => m_get r k
  end.

Fixpoint m_set (m : jsmap) (k : K) (e : E) : jsmap :=
  match m with
  | [] => [Some (k, e)]
  | Some (k', e') :: r => if keq k' k then Some (k', e) :: r else Some (k', e') :: m_set r k e
  | None :: r => None :: m_set r k e
  end.

Fixpoint m_delete (m : jsmap) (k : K) : jsmap :=
  match m with
  | [] => []
  | Some (k', e') :: r => if keq k' k then None :: r else Some (k', e') :: m_delete r k
  | None :: r => None :: m_delete r k
  end.

Fixpoint m_size (m : jsmap) : nat :=
  match m with
  | [] => 0
  | Some _ :: r => S (m_size r)
  | None :: r => m_size r
  end.

Fixpoint m_live (m : jsmap) : list (K * E) :=
  match m with
  | [] => []
  | Some x :: r => x :: m_live r
  | None :: r => m_live r
  end.

(* keys().next(): first non-empty slot at index >= pos; returns its key and the index after it *)
Fixpoint it_next (m : jsmap) (pos : nat) : option (K * nat) :=
  match m with
  | [] => None
  | slot :: r =>
      match pos with
      | O => match slot with
             | Some (k, _) => Some (k, 1)
             | None => match it_next r 0 with Some (k, p) => Some (k, S p) | None => None end
             end
      | S p => match it_next r p with Some (k, q) => Some (k, S q) | None => None end
      end
  end.

(* ---- the emitted range loop, over primitive Map mutations done by the loop body
     _i = 0; _keys = m.keys(); _size = m.size;
     while (_i < _size) { _key = _keys.next().value; _entry = m.get(_key);
                          if (_entry === undefined) { _i++; continue; }
                          k = _entry.k; v = _entry.v; BODY; _i++; }                     *)
Inductive mop := MSet (k : K) (e : E) | MDel (k : K).

Definition apply_mop (m : jsmap) (o : mop) : jsmap :=
  match o with MSet k e => m_set m k e | MDel k => m_delete m k end.

Inductive event := EVisit (k : K) (e : E) | EMut (o : mop).

Section Loop.
Variable S : Type.
Variable body : S -> K -> E -> S * list mop.   (* what the body does to the map when handed (k, e) *)

(* fuel = _size - _i *)
Fixpoint range_loop (fuel : nat) (m : jsmap) (pos : nat) (s : S) : list event * jsmap * S :=
  match fuel with
  | O => ([], m, s)
  | Datatypes.S f =>
      match it_next m pos with
      | None => range_loop f m pos s                (* next() is done: _key undefined, get misses *)
      | Some (k, pos') =>
          match m_get m k with
          | None => range_loop f m pos' s
          | Some e =>
              let (s', ops) := body s k e in
              let m' := fold_left apply_mop ops m in
              let '(ev, m'', s'') := range_loop f m' pos' s' in
              (EVisit k e :: map EMut ops ++ ev, m'', s'')
          end
      end
  end.

Definition range_over (m : jsmap) (s : S) : list event * jsmap * S :=
  range_loop (m_size m) m 0 s.
End Loop.
End JsMap.

Arguments m_get {K E}. Arguments m_set {K E}. Arguments m_delete {K E}. Arguments m_size {K E}.
Arguments m_live {K E}. Arguments it_next {K E}. Arguments MSet {K E}. Arguments MDel {K E}.
Arguments apply_mop {K E}. Arguments EVisit {K E}. Arguments EMut {K E}.
Arguments range_loop {K E} keq {S}. Arguments range_over {K E} keq {S}.

(* ------------------------------------------------------------------ Go maps as emitted
   a Go map variable is [false] (nil) or a Map from key to the entry object { k, v } *)
Definition entry := (val * Z)%type.
Definition gomap := option (jsmap jskey entry).

Inductive op :=
| OSet (k : val) (v : Z)       (* m[k] = v *)
| OGet (k : val)               (* m[k] *)
| OGet2 (k : val)              (* _, ok = m[k] *)
| ODel (k : val)               (* delete(m, k) *)
| OLen                         (* len(m) *)
| OLit (kvs : list (val * Z))  (* m = map[T]V{k: v, ...} *)
| OMakeNil.                    (* m = nil *)

Inductive obs :=
| RUnit
| RVal (v : Z)
| RVal2 (v : Z) (ok : bool)
| RLen (n : N)
| RNilMapPanic                 (* $throwRuntimeError("assignment to entry in nil map") *)
| RNoKeyFor.                   (* JS TypeError: keyFor is not a function (surfaces as a Go panic) *)

Section Ops.
Variable nts : Z -> str.
Variable by_id : bool.          (* see C15_Keys.iface_prefix *)
Variable t : kty.               (* the static key type of the map *)

Definition kf := key_for nts by_id t.

(* $makeMap(keyFor, entries) *)
Fixpoint make_map (kvs : list (val * Z)) (m : jsmap jskey entry) (s : st) : option (jsmap jskey entry) * st :=
  match kvs with
  | [] => (Some m, s)
  | (k, v) :: r =>
      match kf k s with
      | (Some key, s') => make_map r (m_set jskey_eqb m key (k, v)) s'
      | (None, s') => (None, s')
      end
  end.

Definition step (o : op) (m : gomap) (s : st) : obs * gomap * st :=
  match o with
  | OSet k v =>
      (* _key = k; (m || $throwRuntimeError(..)).set(T.keyFor(_key), { k: _key, v: v }) *)
      match m with
      | None => (RNilMapPanic, m, s)
      | Some jm =>
          match kf k s with
          | (Some key, s') => (RUnit, Some (m_set jskey_eqb jm key (k, v)), s')
          | (None, s') => (RNoKeyFor, m, s')
          end
      end
  | OGet k =>
      (* (_entry = $mapIndex(m, T.keyFor(k)), _entry !== undefined ? _entry.v : 0) *)
      match kf k s with
      | (Some key, s') =>
          match m with
          | None => (RVal 0, m, s')
          | Some jm => match m_get jskey_eqb jm key with
                       | Some (_, v) => (RVal v, m, s')
                       | None => (RVal 0, m, s')
                       end
          end
      | (None, s') => (RNoKeyFor, m, s')
      end
  | OGet2 k =>
      match kf k s with
      | (Some key, s') =>
          match m with
          | None => (RVal2 0 false, m, s')
          | Some jm => match m_get jskey_eqb jm key with
                       | Some (_, v) => (RVal2 v true, m, s')
                       | None => (RVal2 0 false, m, s')
                       end
          end
      | (None, s') => (RNoKeyFor, m, s')
      end
  | ODel k =>
      (* $mapDelete(m, T.keyFor(k)) *)
      match kf k s with
      | (Some key, s') =>
          match m with
          | None => (RUnit, m, s')
          | Some jm => (RUnit, Some (m_delete jskey_eqb jm key), s')
          end
      | (None, s') => (RNoKeyFor, m, s')
      end
  | OLen =>
      (* (m ? m.size : 0) *)
      (RLen (match m with None => 0%N | Some jm => N.of_nat (m_size jm) end), m, s)
  | OLit kvs =>
      match make_map kvs [] s with
      | (Some jm, s') => (RUnit, Some jm, s')
      | (None, s') => (RNoKeyFor, m, s')
      end
  | OMakeNil => (RUnit, None, s)
  end.

(* a history; after every operation the whole Map (live slots, in order) and $idCounter are observable *)
Definition snapshot := (obs * list (jskey * entry) * N)%type.

Definition live_of (m : gomap) : list (jskey * entry) :=
  match m with None => [] | Some jm => m_live jm end.

Fixpoint run (os : list op) (m : gomap) (s : st) : list snapshot :=
  match os with
  | [] => []
  | o :: r => let '(ob, m', s') := step o m s in (ob, live_of m', ctr s') :: run r m' s'
  end.

(* ---- range at the Go level: the body is a table "when handed key k (by ==), do these
   assignments / deletes", the key strings are computed by T.keyFor in the threaded state *)
Definition body_table := list (val * list op).

Fixpoint table_find (tb : body_table) (k : val) : list op :=
  match tb with
  | [] => []
  | (k', os) :: r => if go_eq t k' k then os else table_find r k
  end.

Fixpoint ops_to_mops (os : list op) (s : st) : list (mop jskey entry) * st :=
  match os with
  | [] => ([], s)
  | OSet k v :: r =>
      match kf k s with
      | (Some key, s') => let (ms, s'') := ops_to_mops r s' in (MSet key (k, v) :: ms, s'')
      | (None, s') => ops_to_mops r s'
      end
  | ODel k :: r =>
      match kf k s with
      | (Some key, s') => let (ms, s'') := ops_to_mops r s' in (MDel key :: ms, s'')
      | (None, s') => ops_to_mops r s'
      end
  | _ :: r => ops_to_mops r s
  end.

Definition go_body (tb : body_table) (s : st) (key : jskey) (e : entry) : st * list (mop jskey entry) :=
  let (ms, s') := ops_to_mops (table_find tb (fst e)) s in (s', ms).

(* the visited (k, v) pairs, the map afterwards *)
Definition go_range (tb : body_table) (m : gomap) (s : st) : list entry * gomap * st :=
  match m with
  | None => ([], None, s)
  | Some jm =>
      let '(ev, jm', s') := range_over jskey_eqb (go_body tb) jm s in
      (flat_map (fun e => match e with EVisit _ en => [en] | EMut _ => [] end) ev, Some jm', s')
  end.

End Ops.
