(* C07 — executable model of the value/reference machinery of the GopherJS prelude (no proofs here).

   Mirrors, branch by branch:
     compiler/prelude/types.js   array `zero`/`copy` (373-385, 152-163), struct `zero`/`copy` (387-389, 268-281,
                                 the $structType constructor 708-718), $makeSlice (675-691), slice constructor (227-237)
     compiler/prelude/prelude.js $clone (404-408), $copyArray (368-402), $copySlice (362-366), $subslice (168-186),
                                 $append/$appendSlice/$internalAppend (434-468), $calculateNewCapacity/$growSlice (473-515)

   A JS heap is a finite map location -> object.  An object is a JS Array / typed array ([OArr typed cells]) or a
   struct object ([OStruct fields]).  A value is a number-like leaf ([VNum]: numbers, strings and the *identity* of
   pointers / slices / maps stored in a field — reference kinds are copied by reference, as in types.js:277) or the
   location of an array/struct node ([VLoc]). *)
From Coq Require Import List ZArith Bool Arith.
Import ListNotations.
Local Open Scope Z_scope.

(* Go type shapes. [TNum] = numeric kinds backed by typed arrays ($nativeArray <> Array); [TScalar] = other
   immutable leaves (string, bool, 64-bit, complex); [TRef] = pointer / slice / map / chan / func / interface. *)
Inductive ty := TNum | TScalar | TRef | TArr (n : nat) (e : ty) | TStruct (fs : list ty).

Inductive val := VNum (z : Z) | VLoc (l : nat).
Inductive obj := OArr (typed : bool) (cells : list val) | OStruct (fields : list val).

Record heap := mkHeap { hcells : list (nat * obj); hnext : nat }.

Definition empty_heap : heap := mkHeap [] 0.

Fixpoint assoc {A} (l : list (nat * A)) (k : nat) : option A :=
  match l with
  | [] => None
  | (k', a) :: r => if Nat.eqb k k' then Some a else assoc r k
  end.

Definition lookup (h : heap) (l : nat) : option obj := assoc (hcells h) l.
Definition store (h : heap) (l : nat) (o : obj) : heap := mkHeap ((l, o) :: hcells h) (hnext h).
Definition alloc (h : heap) (o : obj) : val * heap :=
  (VLoc (hnext h), mkHeap ((hnext h, o) :: hcells h) (S (hnext h))).

Definition is_node (t : ty) : bool := match t with TArr _ _ | TStruct _ => true | _ => false end.
Definition is_num (t : ty) : bool := match t with TNum => true | _ => false end.

Definition cells_of (o : obj) : list val := match o with OArr _ c => c | OStruct c => c end.
Definition with_cells (o : obj) (c : list val) : obj := match o with OArr t _ => OArr t c | OStruct _ => OStruct c end.

Fixpoint set_nth {A} (l : list A) (i : nat) (a : A) : option (list A) :=
  match l, i with
  | [], _ => None
  | _ :: r, O => Some (a :: r)
  | x :: r, S i' => match set_nth r i' a with Some r' => Some (x :: r') | None => None end
  end.

Definition get_cell (h : heap) (l i : nat) : option val :=
  match lookup h l with Some o => nth_error (cells_of o) i | None => None end.
Definition set_cell (h : heap) (l i : nat) (v : val) : option heap :=
  match lookup h l with
  | Some o => match set_nth (cells_of o) i v with Some c => Some (store h l (with_cells o c)) | None => None end
  | None => None
  end.

(* ---------------------------------------------------------------- zero values *)

(* run an allocating computation n times *)
Fixpoint zero_n (z : heap -> val * heap) (n : nat) (h : heap) : list val * heap :=
  match n with
  | O => ([], h)
  | S n' => let '(v, h1) := z h in let '(vs, h2) := zero_n z n' h1 in (v :: vs, h2)
  end.

(* types.js 373-389 + $structType constructor: a typed array of zeros, an Array of element zero values, or a
   struct object whose fields are the field types' zero values; leaves are 0 / "" / nil *)
Fixpoint zero (t : ty) (h : heap) {struct t} : val * heap :=
  match t with
  | TNum | TScalar | TRef => (VNum 0, h)
  | TArr n e =>
      if is_num e then alloc h (OArr true (repeat (VNum 0) n))
      else let '(vs, h1) := zero_n (zero e) n h in alloc h1 (OArr false vs)
  | TStruct fs =>
      let '(vs, h1) :=
        (fix zs (fs : list ty) (h : heap) : list val * heap :=
           match fs with
           | [] => ([], h)
           | f :: r => let '(v, h1) := zero f h in let '(vs, h2) := zs r h1 in (v :: vs, h2)
           end) fs h in
      alloc h1 (OStruct vs)
  end.

(* ---------------------------------------------------------------- $copyArray *)

Fixpoint copy_loop (step : heap -> nat -> option heap) (idx : list nat) (h : heap) : option heap :=
  match idx with
  | [] => Some h
  | i :: r => match step h i with Some h' => copy_loop step r h' | None => None end
  end.

Definition sublist {A} (l : list A) (off n : nat) : list A := firstn n (skipn off l).
(* TypedArray.prototype.set(source, offset): all of source is read before anything is written *)
Definition splice {A} (l : list A) (off : nat) (src : list A) : list A :=
  firstn off l ++ src ++ skipn (off + length src) l.

(* prelude.js 368-402.  [cp] is the element type's copy, [enode] = elem.kind is Array or Struct. *)
Definition copy_array (cp : heap -> val -> val -> option heap) (enode : bool)
           (h : heap) (dst src : nat) (dOff sOff n : nat) : option heap :=
  if Nat.eqb n 0 || (Nat.eqb dst src && Nat.eqb dOff sOff) then Some h else
  match lookup h src, lookup h dst with
  | Some (OArr true sc), Some (OArr dt dc) =>                                  (* src.subarray *)
      if (Nat.leb (sOff + n) (length sc) && Nat.leb (dOff + n) (length dc))%bool
      then Some (store h dst (OArr dt (splice dc dOff (sublist sc sOff n)))) else None
  | Some (OArr false _), Some (OArr _ _) =>
      let backwards := Nat.eqb dst src && Nat.ltb sOff dOff in
      let idx := if backwards then rev (seq 0 n) else seq 0 n in
      if enode then
        copy_loop (fun h i => match get_cell h dst (dOff + i), get_cell h src (sOff + i) with
                              | Some dv, Some sv => cp h dv sv
                              | _, _ => None end) idx h
      else
        copy_loop (fun h i => match get_cell h src (sOff + i) with
                              | Some sv => set_cell h dst (dOff + i) sv
                              | None => None end) idx h
  | _, _ => None
  end%nat.

(* ---------------------------------------------------------------- type.copy and $clone *)

(* types.js 152-163 (array, source is an array) and 268-281 (struct) *)
Fixpoint copy (t : ty) (h : heap) (dst src : val) {struct t} : option heap :=
  match t, dst, src with
  | TArr n e, VLoc d, VLoc s =>
      match lookup h s with
      | Some (OArr _ sc) => copy_array (copy e) (is_node e) h d s 0 0 (length sc)
      | _ => None
      end
  | TStruct fs, VLoc d, VLoc s =>
      (fix cf (fs : list ty) (i : nat) (h : heap) : option heap :=
         match fs with
         | [] => Some h
         | f :: r =>
             match get_cell h s i, get_cell h d i with
             | Some sv, Some dv =>
                 match (if is_node f then copy f h dv sv else set_cell h d i sv) with
                 | Some h' => cf r (S i) h'
                 | None => None
                 end
             | _, _ => None
             end
         end) fs 0%nat h
  | _, _, _ => None
  end.

(* prelude.js 404-408 *)
Definition clone (t : ty) (h : heap) (src : val) : option (val * heap) :=
  let '(c, h1) := zero t h in
  match copy t h1 c src with Some h2 => Some (c, h2) | None => None end.

(* ---------------------------------------------------------------- slices *)

Inductive slice := SNil | SHdr (arr : nat) (off len cap : Z).

Definition slen (s : slice) : Z := match s with SNil => 0 | SHdr _ _ l _ => l end.
Definition scap (s : slice) : Z := match s with SNil => 0 | SHdr _ _ _ c => c end.
Definition soff (s : slice) : Z := match s with SNil => 0 | SHdr _ o _ _ => o end.

(* prelude.js 168-186 *)
Definition subslice (s : slice) (lo : Z) (hi mx : option Z) : option slice :=
  let high := match hi with Some x => x | None => slen s end in
  let max := match mx with Some x => x | None => scap s end in
  if (lo <? 0) || (high <? lo) || (max <? high) || (scap s <? high) || (scap s <? max) then None
  else match s with
       | SNil => Some SNil
       | SHdr a o _ _ => Some (SHdr a (o + lo) (high - lo) (max - lo))
       end.

(* types.js 675-691 *)
Definition make_slice (e : ty) (h : heap) (len cap : Z) : option (slice * heap) :=
  if (len <? 0) || (2147483647 <? len) then None
  else if (cap <? 0) || (cap <? len) || (2147483647 <? cap) then None
  else
    let n := Z.to_nat cap in
    let '(a, h1) :=
      if is_num e then alloc h (OArr true (repeat (VNum 0) n))
      else let '(vs, h1) := zero_n (zero e) n h in alloc h1 (OArr false vs) in
    match a with VLoc l => Some (SHdr l 0 len cap, h1) | _ => None end.

(* prelude.js 473-475 *)
Definition calc_new_cap (minCap oldCap : Z) : Z :=
  Z.max minCap (if oldCap <? 1024 then oldCap * 2 else (oldCap * 5) / 4).

(* the backing array of a slice as (typed?, cells); the nil slice's array is an empty (typed) array *)
Definition slice_array (e : ty) (h : heap) (s : slice) : option (bool * list val) :=
  match s with
  | SNil => Some (is_num e, [])
  | SHdr a _ _ _ => match lookup h a with Some (OArr t c) => Some (t, c) | _ => None end
  end.

(* $clone every value of a list (array/struct element type) *)
Fixpoint clone_list (e : ty) (h : heap) (vs : list val) : option (list val * heap) :=
  match vs with
  | [] => Some ([], h)
  | v :: r =>
      match clone e h v with
      | Some (c, h1) => match clone_list e h1 r with Some (cs, h2) => Some (c :: cs, h2) | None => None end
      | None => None
      end
  end.

(* prelude.js $growSlice.  Array branch: `array.slice(offset, offset+length)` copies the element references; for
   array/struct elements every copied element is then replaced by its $clone (fix 0872144), so the new backing array
   owns its elements; the tail is filled with fresh zero values. *)
Definition grow_slice (e : ty) (h : heap) (s : slice) (minCap : Z) : option (slice * heap) :=
  match slice_array e h s with
  | None => None
  | Some (typed, cells) =>
      if scap s <? minCap then
        let cap' := calc_new_cap minCap (scap s) in
        let old := sublist cells (Z.to_nat (soff s)) (Z.to_nat (slen s)) in
        if Nat.ltb (length old) (Z.to_nat (slen s)) then None else
        if typed then
          match alloc h (OArr true (old ++ repeat (VNum 0) (Z.to_nat (cap' - slen s)))) with
          | (VLoc l, h1) => Some (SHdr l 0 (slen s) cap', h1)
          | _ => None
          end
        else
          match (if is_node e then clone_list e h old else Some (old, h)) with
          | None => None
          | Some (old', h0) =>
              let '(zs, h1) := zero_n (zero e) (Z.to_nat (cap' - slen s)) h0 in
              match alloc h1 (OArr false (old' ++ zs)) with
              | (VLoc l, h2) => Some (SHdr l 0 (slen s) cap', h2)
              | _ => None
              end
          end
      else
        match s with
        | SNil => (* new slice.constructor(nil.$array): a header over the shared empty array; not distinguishable *)
            Some (SNil, h)
        | SHdr a o l c => Some (SHdr a o l c, h)
        end
  end.

(* prelude.js 455-468; [src] is the location of the array the new elements are read from *)
Definition internal_append (e : ty) (h : heap) (s : slice) (src : nat) (offset length : Z) : option (slice * heap) :=
  if length =? 0 then Some (s, h) else
  let newLength := slen s + length in
  match grow_slice e h s newLength with
  | Some (SHdr a o l c, h1) =>
      match copy_array (copy e) (is_node e) h1 a src (Z.to_nat (o + l)) (Z.to_nat offset) (Z.to_nat length) with
      | Some h2 => Some (SHdr a o newLength c, h2)
      | None => None
      end
  | _ => None
  end.

(* prelude.js 434-436: the appended values arrive in the `arguments` object (an untyped array-like) *)
Definition append_vals (e : ty) (h : heap) (s : slice) (vs : list val) : option (slice * heap) :=
  match alloc h (OArr false vs) with
  | (VLoc args, h1) => internal_append e h1 s args 0 (Z.of_nat (length vs))
  | _ => None
  end.

(* prelude.js 438-444 (slice operand) *)
Definition append_slice (e : ty) (h : heap) (s t : slice) : option (slice * heap) :=
  match t with
  | SNil => Some (s, h)
  | SHdr a o l _ => internal_append e h s a o l
  end.

(* prelude.js 362-366 *)
Definition copy_slice (e : ty) (h : heap) (dst src : slice) : option (Z * heap) :=
  let n := Z.min (slen src) (slen dst) in
  match dst, src with
  | SHdr da dof _ _, SHdr sa sof _ _ =>
      match copy_array (copy e) (is_node e) h da sa (Z.to_nat dof) (Z.to_nat sof) (Z.to_nat n) with
      | Some h' => Some (n, h')
      | None => None
      end
  | _, _ => Some (n, h)          (* n = 0: $copyArray returns at once *)
  end.

(* types.js 153-158: array.copy with a slice source ([N]T(s)) ; None = run-time error *)
Inductive outcome (A : Type) := Done (a : A) | Err | Stuck.
Arguments Done {A} a. Arguments Err {A}. Arguments Stuck {A}.

Definition copy_arr_from_slice (e : ty) (h : heap) (dst : nat) (s : slice) : outcome heap :=
  match lookup h dst with
  | Some (OArr _ dc) =>
      let n := length dc in
      if slen s <? Z.of_nat n then Err else
      match s with
      | SNil => Done h
      | SHdr a o _ _ =>
          (* $copyArray(dst, src.$array, 0, src.$offset, dst.length, elem) (fix 978c5d8) *)
          match copy_array (copy e) (is_node e) h dst a 0 (Z.to_nat o) n with Some h' => Done h' | None => Stuck end
      end
  | _ => Stuck
  end.
