(* C10 — executable model of compiler/linkname/linkname.go and the part of
   compiler/internal/symbol/symbol.go it relies on.  Model only, no proofs.

     readLinknameFromComment      -> [read_linkname]
     ParseGoLinknames/processComment (validation) -> [process_comment], [parse_file]
     lookupTopNode                -> [lookup_node]
     GoLinknameSet.Add / IsImplementation / FindImplementation -> [gls_add], [gls_is_impl], [gls_find]
     WriteProgramCode's aggregation loop (returns Add's error)   -> [link_program], [program_gls]
     symbol.Name.IsMethod         -> [is_method]

   The mitigation tables (isMitigatedVarLinkname, isMitigatedInsertLinkname) are
   regenerated from the source into Gen/C10_Tables.v on every run.
   Directive text is assumed to be ASCII: strings.Fields splits on unicode.IsSpace, whose
   ASCII part is modelled ([is_space]). *)
From Coq Require Import List NArith Arith Bool.
From Verif Require Import Model.C10_Order Gen.C10_Tables.
Import ListNotations.
Local Open Scope N_scope.

Definition SLASH : N := 47.
Definition DOT : N := 46.
Definition STAR : N := 42.
Definition LPAREN : N := 40.
Definition RPAREN : N := 41.

(* "//go:linkname " *)
Definition PREFIX : str := [47; 47; 103; 111; 58; 108; 105; 110; 107; 110; 97; 109; 101; 32].

Fixpoint has_prefix (p s : str) : bool :=
  match p, s with
  | [], _ => true
  | x :: p', y :: s' => (x =? y) && has_prefix p' s'
  | _ :: _, [] => false
  end.

(* unicode.IsSpace restricted to ASCII: \t \n \v \f \r and space *)
Definition is_space (c : N) : bool :=
  (c =? 9) || (c =? 10) || (c =? 11) || (c =? 12) || (c =? 13) || (c =? 32).

(* strings.Fields *)
Fixpoint fields_go (acc : str) (s : str) : list str :=
  match s with
  | [] => match acc with [] => [] | _ => [acc] end
  | c :: r =>
      if is_space c
      then match acc with [] => fields_go [] r | _ => acc :: fields_go [] r end
      else fields_go (acc ++ [c]) r
  end.
Definition fields (s : str) : list str := fields_go [] s.

(* strings.IndexByte / strings.LastIndexByte *)
Fixpoint index_byte (c : N) (s : str) : option nat :=
  match s with
  | [] => None
  | x :: r => if x =? c then Some O else match index_byte c r with Some i => Some (S i) | None => None end
  end.

Fixpoint last_index_byte (c : N) (s : str) : option nat :=
  match s with
  | [] => None
  | x :: r => match last_index_byte c r with
              | Some i => Some (S i)
              | None => if x =? c then Some O else None
              end
  end.

Definition sym := (str * str)%type.     (* symbol.Name{PkgPath, Name} *)
Definition sym_eqb (a b : sym) : bool := str_eqb (fst a) (fst b) && str_eqb (snd a) (snd b).
Definition sym_string (s : sym) : str := fst s ++ [DOT] ++ snd s.      (* Name.String *)

Record link := { l_ref : sym; l_impl : sym }.      (* GoLinkname{Reference, Implementation} *)

Inductive parsed := PNone | PErr | PLink (l : link).

Definition read_linkname (pkg : str) (text : str) : parsed :=
  if negb (has_prefix PREFIX text) then PNone
  else match fields text with
       | [_; _] => PNone                       (* one-argument form: ignored *)
       | [_; localName; ext] =>
           if str_eqb localName ext then PNone   (* self-referencing: ignored *)
           else
             let off := match last_index_byte SLASH ext with Some p => S p | None => O end in
             match index_byte DOT (skipn off ext) with
             | Some idx => PLink {| l_ref := (pkg, localName);
                                    l_impl := (firstn (off + idx) ext, skipn (off + idx + 1) ext) |}
             | None => PLink {| l_ref := (pkg, localName); l_impl := ([], ext) |}
             end
       | _ => PErr                             (* usage requires 2 arguments *)
       end.

(* what lookupTopNode finds for a name *)
Inductive node := NodeFunc (has_body : bool) | NodeOther.    (* FuncDecl | TypeSpec/ValueSpec *)

Fixpoint lookup_node (decls : list (str * node)) (name : str) : option node :=
  match decls with
  | [] => None
  | (n, d) :: r => if str_eqb n name then Some d else lookup_node r name
  end.

Definition in_table (s : str) (t : list str) : bool := existsb (str_eqb s) t.

Definition mitigated_var (s : sym) : bool := in_table (sym_string s) mitigated_var_links.
Definition mitigated_insert (s : sym) : bool :=
  in_table (fst s) mitigated_insert_pkgs || in_table (sym_string s) mitigated_insert_links.

Inductive lerror := EUsage | ENoUnsafe | ENotFound | ENotFunc | EInsert.
Inductive verdict := VSkip | VLink (l : link) | VError (e : lerror).

(* processComment inside ParseGoLinknames *)
Definition process_comment (pkg : str) (imports_unsafe : bool) (decls : list (str * node)) (text : str) : verdict :=
  match read_linkname pkg text with
  | PErr => VError EUsage
  | PNone => VSkip
  | PLink l =>
      if negb imports_unsafe then VError ENoUnsafe
      else match lookup_node decls (snd (l_ref l)) with
           | None => VError ENotFound
           | Some NodeOther => if mitigated_var (l_ref l) then VSkip else VError ENotFunc
           | Some (NodeFunc true) => if mitigated_insert (l_ref l) then VSkip else VError EInsert
           | Some (NodeFunc false) => VLink l
           end
  end.

(* ParseGoLinknames: all comments of a file, in order; directives and errors *)
Fixpoint parse_file (pkg : str) (imports_unsafe : bool) (decls : list (str * node)) (comments : list str)
  : list link * list lerror :=
  match comments with
  | [] => ([], [])
  | c :: r =>
      let '(ls, es) := parse_file pkg imports_unsafe decls r in
      match process_comment pkg imports_unsafe decls c with
      | VSkip => (ls, es)
      | VLink l => (l :: ls, es)
      | VError e => (ls, e :: es)
      end
  end.

(* ---- GoLinknameSet ------------------------------------------------------ *)

Record gls := { by_impl : list (sym * list link); by_ref : list (sym * link) }.
Definition gls_empty : gls := {| by_impl := []; by_ref := [] |}.

Fixpoint sym_lookup {B} (t : list (sym * B)) (s : sym) : option B :=
  match t with
  | [] => None
  | (k, v) :: r => if sym_eqb s k then Some v else sym_lookup r s
  end.

Fixpoint impl_append (t : list (sym * list link)) (e : link) : list (sym * list link) :=
  match t with
  | [] => [(l_impl e, [e])]
  | (k, v) :: r => if sym_eqb (l_impl e) k then (k, v ++ [e]) :: r else (k, v) :: impl_append r e
  end.

(* Add: returns the set and whether it reported a conflict; on a conflict it returns
   immediately, the conflicting entry is already in byImplementation and the REST OF THE
   ENTRIES IS NOT ADDED *)
Fixpoint gls_add (entries : list link) (g : gls) : gls * bool :=
  match entries with
  | [] => (g, false)
  | e :: r =>
      let bi := impl_append (by_impl g) e in
      match sym_lookup (by_ref g) (l_ref e) with
      | Some _ => ({| by_impl := bi; by_ref := by_ref g |}, true)
      | None => gls_add r {| by_impl := bi; by_ref := (l_ref e, e) :: by_ref g |}
      end
  end.

Definition gls_is_impl (g : gls) (s : sym) : bool :=
  match sym_lookup (by_impl g) s with Some _ => true | None => false end.

Definition gls_find (g : gls) (s : sym) : option sym :=
  match sym_lookup (by_ref g) s with Some l => Some (l_impl l) | None => None end.

(* the set built by the aggregation loop of WriteProgramCode when no Add reports a conflict
   (see [link_program] for the loop with its error exit) *)
Definition program_gls (pkgs : list (list link)) : gls :=
  fold_left (fun g es => fst (gls_add es g)) pkgs gls_empty.

(* did any Add report a conflict *)
Fixpoint program_conflict (pkgs : list (list link)) (g : gls) : bool :=
  match pkgs with
  | [] => false
  | es :: r => let '(g', c) := gls_add es g in c || program_conflict r g'
  end.

(* ---- symbol.Name.IsMethod ---------------------------------------------- *)
(* returns (recv, method); recv loses one pair of enclosing parentheses when longer than 2 *)
Definition is_method (s : sym) : option (str * str) :=
  match index_byte DOT (snd s) with
  | None => None
  | Some pos =>
      let recv := firstn pos (snd s) in
      let meth := skipn (S pos) (snd s) in
      let size := length recv in
      let recv' :=
        if Nat.ltb 2 size && (nth O recv 0 =? LPAREN) && (nth (size - 1) recv 0 =? RPAREN)
        then firstn (size - 2) (skipn 1 recv) else recv in
      Some (recv', meth)
  end.

(* WriteProgramCode (after fix cecde06):
     for _, pkg := range pkgs { if err := gls.Add(pkg.GoLinknames); err != nil { return err } }
   [None] = the build fails with "conflicting go:linkname directives". *)
Fixpoint link_program_from (pkgs : list (list link)) (g : gls) : option gls :=
  match pkgs with
  | [] => Some g
  | es :: r => let '(g', c) := gls_add es g in if c then None else link_program_from r g'
  end.

Definition link_program (pkgs : list (list link)) : option gls := link_program_from pkgs gls_empty.
