(* C12 — the property's law, written as plain specifications over the abstract files of
   Model/C12_Merge.v (no proofs here).  "What a file declares" is the ordered list of
   its declared items: functions (with receiver, signature parts, body origin), types, and one
   item per non-blank variable/constant name (with its own initial value when the spec has one
   value per name).  Imports are covered separately ([law_import]). *)
From Coq Require Import List String Ascii Bool NArith ZArith.
From Verif Require Import Gen.C12_Tables Model.C12_Merge.
Import ListNotations.
Local Open Scope string_scope.

Inductive ditem :=
| DIFunc (f : fdecl)
| DIType (t : tspec)
| DIValue (tk : tok) (name : string) (typ : bool) (val : option vexpr).

Definition is_blank_name (n : string) : bool := String.eqb "_" n.

Fixpoint declared_pairs (tk : tok) (typ : bool) (ns : list string) (vs : list vexpr) : list ditem :=
  match ns, vs with
  | n :: ns', v :: vs' =>
      (if is_blank_name n then [] else [DIValue tk n typ (Some v)]) ++ declared_pairs tk typ ns' vs'
  | _, _ => []
  end.
Definition declared_shared (tk : tok) (typ : bool) (ns : list string) : list ditem :=
  flat_map (fun n => if is_blank_name n then [] else [DIValue tk n typ None]) ns.
Definition declared_vspec (tk : tok) (v : vspec) : list ditem :=
  if Nat.eqb (List.length (v_names v)) (List.length (v_values v))
  then declared_pairs tk (v_typ v) (v_names v) (v_values v)
  else declared_shared tk (v_typ v) (v_names v).
Definition declared_spec (tk : tok) (s : spec) : list ditem :=
  match s with
  | SImport _ => []
  | SType t => [DIType t]
  | SValue v => declared_vspec tk v
  end.
Definition declared_decl (d : decl) : list ditem :=
  match d with
  | DFunc f => [DIFunc f]
  | DGen g => flat_map (declared_spec (g_tok g)) (g_specs g)
  end.
Definition declared (f : file) : list ditem := flat_map declared_decl f.

(* ---- the law for the original files: what happens to one declared item *)

Definition is_some {A} (o : option A) : bool := match o with Some _ => true | None => false end.

Definition receiver_purged (ov : overrides) (f : fdecl) : bool :=
  let rk := func_receiver_key f in
  negb (String.eqb rk "") && match lookup rk ov with Some info => o_purge info | None => false end.

Definition law_func (ov : overrides) (f : fdecl) : list ditem :=
  match lookup (func_key f) ov with
  | Some info =>
      (* overridden: gone, unless keep-original (same body under the prefixed name) and/or
         override-signature (same body under the overlay's receiver/type params/params/results) *)
      if o_keep info || is_some (o_sig info) then
        let f1 := if o_keep info then rename_keep f else f in
        [DIFunc (match o_sig info with Some sg => transplant sg f1 | None => f1 end)]
      else []
  | None => if receiver_purged ov f then [] else [DIFunc f]
  end.

Definition law_item (ov : overrides) (it : ditem) : list ditem :=
  match it with
  | DIFunc f => law_func ov f
  | DIType t => if has_key (t_name t) ov then [] else [it]
  | DIValue _ n _ _ => if has_key n ov then [] else [it]
  end.

(* ---- the law for an overlay file: everything except purged declarations/specs and
        override-signature stubs *)

Definition overlay_law_spec (tk : tok) (s : spec) : list ditem :=
  if has_directive (spec_comments s) action_purge then [] else declared_spec tk s.
Definition overlay_law_decl (d : decl) : list ditem :=
  match d with
  | DFunc f => if has_directive (f_doc f) action_purge || has_directive (f_doc f) action_sig then [] else [DIFunc f]
  | DGen g => if has_directive (g_doc g) action_purge then [] else flat_map (overlay_law_spec (g_tok g)) (g_specs g)
  end.
Definition overlay_law (f : file) : list ditem := flat_map overlay_law_decl f.

(* ---- the overrides the overlay asks for, in source order; a later entry for the same key wins *)

Definition spec_entries (purge_decl : bool) (s : spec) : list (string * oinfo) :=
  match s with
  | SType t => [(t_name t, mko false (purge_decl || has_directive (spec_comments s) action_purge) None)]
  | SValue v => map (fun n => (n, plain)) (v_names v)
  | SImport _ => []
  end.
Definition decl_entries (d : decl) : list (string * oinfo) :=
  match d with
  | DFunc f => [(func_key f, mko (has_directive (f_doc f) action_keep) false
                                 (if has_directive (f_doc f) action_sig then Some f else None))]
  | DGen g => flat_map (spec_entries (has_directive (g_doc g) action_purge)) (g_specs g)
  end.
Definition file_entries (f : file) : list (string * oinfo) := flat_map decl_entries f.

Definition lookup_after {A} (k : string) (es : list (string * A)) (init : option A) : option A :=
  fold_left (fun acc e => if String.eqb k (fst e) then Some (snd e) else acc) es init.

(* ---- imports: what pruneImports does to one import of a file that is not import-only *)

Definition blank_import (i : ispec) : ispec := mki (Some "_") (i_path i) (i_doc i) (i_cmt i).
Definition law_import (f : file) (i : ispec) : list ispec :=
  if String.eqb (import_name i) "" then [i]                      (* blank, dot *)
  else if mem (import_name i) (file_uses f) then [i]             (* still used *)
  else if directive_required f i then [blank_import i]           (* needed by go:linkname / go:embed *)
  else [].

(* ---- well-formedness that go/parser guarantees *)

Definition is_import_spec (s : spec) : bool := match s with SImport _ => true | _ => false end.
(* an import declaration holds import specs only *)
Definition wf_decl (d : decl) : bool :=
  match d with
  | DGen g => match g_tok g with TImport => forallb is_import_spec (g_specs g) | _ => true end
  | DFunc _ => true
  end.
Definition wf_file (f : file) : bool := forallb wf_decl f.
(* a declaration without parentheses holds at most one spec *)
Definition wf_paren_decl (d : decl) : bool :=
  match d with
  | DGen g => g_paren g || Nat.leb (List.length (g_specs g)) 1
  | DFunc _ => true
  end.
Definition wf_paren (f : file) : bool := forallb wf_paren_decl f.

(* ---- order: the surviving items, as a subsequence *)

Inductive sublist {A : Type} : list A -> list A -> Prop :=
| sl_nil : sublist [] []
| sl_skip x l1 l2 : sublist l1 l2 -> sublist l1 (x :: l2)
| sl_keep x l1 l2 : sublist l1 l2 -> sublist (x :: l1) (x :: l2).

(* an item of the result stems from an item of the original: same body and comments for a
   function (name and signature may have been rewritten), identical otherwise *)
Definition same_origin (a b : ditem) : Prop :=
  match a, b with
  | DIFunc f, DIFunc f' => f_body f = f_body f' /\ f_doc f = f_doc f'
  | _, _ => a = b
  end.

(* ---- constant groups: no overridden name inside a parenthesised const group *)
Definition spec_names (s : spec) : list string := match s with SValue v => v_names v | _ => [] end.
Definition decl_nokey (ov : overrides) (d : decl) : bool :=
  match d with
  | DGen g => negb (is_const_group g) ||
              forallb (fun n => negb (has_key n ov)) (flat_map spec_names (g_specs g))
  | DFunc _ => true
  end.
Definition no_override_in_const_groups (ov : overrides) (f : file) : bool := forallb (decl_nokey ov) f.

(* "initial values untouched" for constants: a constant that is not overridden has the same
   value (or the same absence of one) after the rewrite *)
Definition consts_preserved (ov : overrides) (before after : file) : Prop :=
  forall n z, has_key n ov = false -> In (n, z) (file_consts before) -> In (n, z) (file_consts after).
