(* C06 — what the Go specification defines for integer operators and conversions
   (the reference side; written from the language spec, independent of the compiler).
   Values of a kind are mathematical integers in the kind's range.  No proofs here. *)
From Coq Require Import ZArith Bool List.
From Verif Require Import Base.C06_JsNum.
Local Open Scope Z_scope.

Definition bits (k : kind) : Z :=
  match k with
  | Int8 | Uint8 => 8 | Int16 | Uint16 => 16
  | Int32 | Uint32 | Int | Uint | Uintptr => 32        (* GopherJS is a 32-bit platform *)
  | Int64 | Uint64 => 64
  end.
Definition signed (k : kind) : bool :=
  match k with Int8 | Int16 | Int32 | Int64 | Int => true | _ => false end.
Definition is64 (k : kind) : bool := match k with Int64 | Uint64 => true | _ => false end.

Definition wrapu (w z : Z) : Z := z mod 2 ^ w.
Definition wraps (w z : Z) : Z := let m := z mod 2 ^ w in if m <? 2 ^ (w - 1) then m else m - 2 ^ w.
(* two's-complement wrap-around into the range of k *)
Definition wrap (k : kind) (z : Z) : Z := if signed k then wraps (bits k) z else wrapu (bits k) z.

Definition kmin (k : kind) : Z := if signed k then - 2 ^ (bits k - 1) else 0.
Definition kmax (k : kind) : Z := if signed k then 2 ^ (bits k - 1) - 1 else 2 ^ bits k - 1.
Definition in_range (k : kind) (z : Z) : Prop := kmin k <= z <= kmax k.
Definition in_rangeb (k : kind) (z : Z) : bool := (kmin k <=? z) && (z <=? kmax k).

Inductive gres (A : Type) := GVal (a : A) | GPanicDivide.
Arguments GVal {A} a. Arguments GPanicDivide {A}.

(* binary operators on two values of kind k ("Arithmetic operators", "Integer overflow") *)
Definition go_bin (k : kind) (o : binop) (x y : Z) : gres Z :=
  match o with
  | Add => GVal (wrap k (x + y))
  | Sub => GVal (wrap k (x - y))
  | Mul => GVal (wrap k (x * y))
  | Quo => if y =? 0 then GPanicDivide else GVal (wrap k (Z.quot x y))      (* truncated toward zero *)
  | Rem => if y =? 0 then GPanicDivide else GVal (Z.rem x y)                 (* sign of the dividend *)
  | And => GVal (Z.land x y)
  | Or => GVal (Z.lor x y)
  | Xor => GVal (wrap k (Z.lxor x y))
  | AndNot => GVal (wrap k (Z.land x (Z.lnot y)))
  end.

(* shifts: the count n is any non-negative integer (a negative run-time count is a documented
   permitted difference, property C01, and is outside this specification) *)
Definition go_shift (k : kind) (s : shop) (x n : Z) : Z :=
  match s with
  | Shl => wrap k (x * 2 ^ n)
  | Shr => Z.shiftr x n            (* arithmetic for signed, logical for unsigned: x >= 0 there *)
  end.

Definition go_un (k : kind) (u : unop) (x : Z) : Z :=
  match u with Neg => wrap k (- x) | Not => wrap k (Z.lnot x) end.

Definition go_cmp (c : cmpop) (x y : Z) : bool :=
  match c with
  | Eql => x =? y | Neq => negb (x =? y)
  | Lss => x <? y | Leq => x <=? y | Gtr => y <? x | Geq => y <=? x
  end.

(* conversion between integer kinds: sign-extend / truncate *)
Definition go_conv (k2 : kind) (x : Z) : Z := wrap k2 x.

(* conversion of a finite non-integer or integer real n/d (d > 0) to an integer kind, value in range *)
Definition go_conv_real (n d : Z) : Z := Z.quot n d.
