(* C06 — model of the 64-bit integer runtime: the $Int64/$Uint64 constructors
   (compiler/prelude/types.js:102-116) and $flatten64, $shiftLeft64, $shiftRightInt64,
   $shiftRightUint64, $mul64, $div64 (compiler/prelude/numeric.js).  Model only, no proofs.

   A 64-bit Go integer is a JS object with a signed ($Int64) or unsigned ($Uint64) 32-bit
   $high and an unsigned 32-bit $low; both are always produced by `>> 0` / `>>> 0`, hence
   plain integers (never -0).

   $mul64 and $div64 are transliterated over Z: their intermediates are sums of at most four
   products of 16-bit digits plus carries (< 2^35) resp. differences of 33-bit quantities,
   far below 2^53, and the only possible -0 (`high * s`) is erased by the constructor. *)
From Coq Require Import ZArith Bool List.
From Verif Require Import Base.C06_JsNum.
Import ListNotations.
Local Open Scope Z_scope.

Inductive jso := O64 (sg : bool) (hi lo : Z) | OUnk.     (* sg: true = $Int64, false = $Uint64 *)

Definition o_hi (x : jso) : jsnum := match x with O64 _ h _ => Fin h | OUnk => Unk end.
Definition o_lo (x : jso) : jsnum := match x with O64 _ _ l => Fin l | OUnk => Unk end.

(* function (high, low) { this.$high = (high + Math.floor(Math.ceil(low) / 4294967296)) >> 0   [>>> 0 for $Uint64]
                          this.$low  = low >>> 0 }
   [tr] = the constructor uses Math.trunc(low) instead of Math.ceil(low) (probed per run).
   ceil/trunc of an integer-valued low is low itself; for a quotient n/d they differ. *)
Definition ceil_q (n d : Z) : Z := - ((- n) / d).
Definition new64v (tr : bool) (sg : bool) (h l : jsnum) : jso :=
  match jval h with
  | None => OUnk
  | Some hv =>
      let mk (lround ltrunc : Z) :=
        match chk (hv + lround / two32) with
        | Fin s => O64 sg (if sg then to_int32 s else to_uint32 s) (to_uint32 ltrunc)
        | _ => OUnk
        end in
      match l with
      | Fin lv => mk lv lv
      | NZ => mk 0 0
      | NonInt n d => mk (if tr then Z.quot n d else ceil_q n d) (Z.quot n d)
      | _ => OUnk
      end
  end.

Section WithCtor.
Variable tr : bool.
Definition new64 := new64v tr.

(* $flatten64: x.$high * 4294967296 + x.$low *)
Definition flatten64 (x : jso) : jsnum := js_add (js_mul (o_hi x) (Fin two32)) (o_lo x).

(* ---- shifts; the count is a JS number ------------------------------------- *)
Definition shl64 (x : jso) (y : jsnum) : jso :=
  match x with
  | OUnk => OUnk
  | O64 sg h l =>
    match js_seq y (Fin 0) with
    | None => OUnk
    | Some true => x
    | Some false =>
      match js_lt y (Fin 32) with
      | None => OUnk
      | Some true => new64 sg (js_or (js_shl (Fin h) y) (js_ushr (Fin l) (js_sub (Fin 32) y))) (js_ushr (js_shl (Fin l) y) (Fin 0))
      | Some false =>
        match js_lt y (Fin 64) with
        | None => OUnk
        | Some true => new64 sg (js_shl (Fin l) (js_sub y (Fin 32))) (Fin 0)
        | Some false => new64 sg (Fin 0) (Fin 0)
        end
      end
    end
  end.

Definition shr64 (x : jso) (y : jsnum) : jso :=          (* $shiftRightInt64 *)
  match x with
  | OUnk => OUnk
  | O64 sg h l =>
    match js_seq y (Fin 0) with
    | None => OUnk
    | Some true => x
    | Some false =>
      match js_lt y (Fin 32) with
      | None => OUnk
      | Some true => new64 sg (js_shr (Fin h) y) (js_ushr (js_or (js_ushr (Fin l) y) (js_shl (Fin h) (js_sub (Fin 32) y))) (Fin 0))
      | Some false =>
        match js_lt y (Fin 64) with
        | None => OUnk
        | Some true => new64 sg (js_shr (Fin h) (Fin 31)) (js_ushr (js_shr (Fin h) (js_sub y (Fin 32))) (Fin 0))
        | Some false =>
          if h <? 0 then new64 sg (js_neg (Fin 1)) (Fin 4294967295) else new64 sg (Fin 0) (Fin 0)
        end
      end
    end
  end.

Definition ushr64 (x : jso) (y : jsnum) : jso :=         (* $shiftRightUint64 *)
  match x with
  | OUnk => OUnk
  | O64 sg h l =>
    match js_seq y (Fin 0) with
    | None => OUnk
    | Some true => x
    | Some false =>
      match js_lt y (Fin 32) with
      | None => OUnk
      | Some true => new64 sg (js_ushr (Fin h) y) (js_ushr (js_or (js_ushr (Fin l) y) (js_shl (Fin h) (js_sub (Fin 32) y))) (Fin 0))
      | Some false =>
        match js_lt y (Fin 64) with
        | None => OUnk
        | Some true => new64 sg (Fin 0) (js_ushr (Fin h) (js_sub y (Fin 32)))
        | Some false => new64 sg (Fin 0) (Fin 0)
        end
      end
    end
  end.

(* ---- $mul64 --------------------------------------------------------------- *)
Definition lo16 (a : Z) : Z := and32 a 65535.
Definition hi16 (a : Z) : Z := ushr32 a 16.

Definition mul64 (x y : jso) : jso :=
  match x, y with
  | O64 sg xh xl, O64 _ yh yl =>
    let x48 := hi16 xh in let x32 := lo16 xh in let x16 := hi16 xl in let x00 := lo16 xl in
    let y48 := hi16 yh in let y32 := lo16 yh in let y16 := hi16 yl in let y00 := lo16 yl in
    let z00 := x00 * y00 in
    let z16 := hi16 z00 in
    let z00 := lo16 z00 in
    let z16 := z16 + x16 * y00 in
    let z32 := hi16 z16 in
    let z16 := lo16 z16 in
    let z16 := z16 + x00 * y16 in
    let z32 := z32 + hi16 z16 in
    let z16 := lo16 z16 in
    let z32 := z32 + x32 * y00 in
    let z48 := hi16 z32 in
    let z32 := lo16 z32 in
    let z32 := z32 + x16 * y16 in
    let z48 := z48 + hi16 z32 in
    let z32 := lo16 z32 in
    let z32 := z32 + x00 * y32 in
    let z48 := z48 + hi16 z32 in
    let z32 := lo16 z32 in
    let z48 := z48 + (x48 * y00 + x32 * y16 + x16 * y32 + x00 * y48) in
    let z48 := lo16 z48 in
    let hi := to_uint32 (or32 (shl32 z48 16) z32) in
    let lo := to_uint32 (or32 (shl32 z16 16) z00) in
    new64 sg (Fin hi) (Fin lo)
  | _, _ => OUnk
  end.

(* ---- $div64 --------------------------------------------------------------- *)
(* xHigh = -xHigh; if (xLow !== 0) { xHigh--; xLow = 4294967296 - xLow; } *)
Definition negpair (h l : Z) : Z * Z := if l =? 0 then (- h, l) else (- h - 1, two32 - l).

Definition gt2 (ah al bh bl : Z) : bool := (bh <? ah) || ((ah =? bh) && (bl <? al)).
Definition ge2 (ah al bh bl : Z) : bool := (bh <? ah) || ((ah =? bh) && (bl <=? al)).

(* while (yHigh < 2147483648 && x > y) { y <<= 1; n++ } *)
Fixpoint div_norm (fuel : nat) (xh xl yh yl n : Z) : Z * Z * Z :=
  match fuel with
  | O => (yh, yl, n)
  | S f =>
      if (yh <? two31) && gt2 xh xl yh yl
      then div_norm f xh xl (to_uint32 (or32 (shl32 yh 1) (ushr32 yl 31))) (to_uint32 (shl32 yl 1)) (n + 1)
      else (yh, yl, n)
  end.

Record dstate := { d_xh : Z; d_xl : Z; d_yh : Z; d_yl : Z; d_high : Z; d_low : Z }.

Definition div_step (s : dstate) : dstate :=
  let high := or32 (shl32 (d_high s) 1) (ushr32 (d_low s) 31) in
  let low := to_uint32 (shl32 (d_low s) 1) in
  let '(xh, xl, high, low) :=
    if ge2 (d_xh s) (d_xl s) (d_yh s) (d_yl s) then
      let xh := d_xh s - d_yh s in
      let xl := d_xl s - d_yl s in
      let '(xh, xl) := if xl <? 0 then (xh - 1, xl + two32) else (xh, xl) in
      let low := low + 1 in
      let '(high, low) := if low =? two32 then (high + 1, 0) else (high, low) in
      (xh, xl, high, low)
    else (d_xh s, d_xl s, high, low) in
  {| d_xh := xh; d_xl := xl;
     d_yh := ushr32 (d_yh s) 1;
     d_yl := to_uint32 (or32 (ushr32 (d_yl s) 1) (shl32 (d_yh s) 31));
     d_high := high; d_low := low |}.

Fixpoint div_iter (k : nat) (s : dstate) : dstate :=
  match k with O => s | S k' => div_iter k' (div_step s) end.

Definition div64 (x y : jso) (rem : bool) : res jso :=
  match x, y with
  | O64 sg xh xl, O64 _ yh yl =>
    if (yh =? 0) && (yl =? 0) then Throw DivideByZero
    else
      let '(s, rs, xh, xl) := if xh <? 0 then let '(h, l) := negpair xh xl in (-1, -1, h, l) else (1, 1, xh, xl) in
      let '(s, yh, yl) := if yh <? 0 then let '(h, l) := negpair yh yl in (s * -1, h, l) else (s, yh, yl) in
      let '(yh', yl', n) := div_norm 64 xh xl yh yl 0 in
      let st := div_iter (Z.to_nat (n + 1)) {| d_xh := xh; d_xl := xl; d_yh := yh'; d_yl := yl'; d_high := 0; d_low := 0 |} in
      if rem then Ret (new64 sg (Fin (d_xh st * rs)) (Fin (d_xl st * rs)))
      else Ret (new64 sg (Fin (d_high st * s)) (Fin (d_low st * s)))
  | _, _ => RUnk
  end.

End WithCtor.
