(* C18 phase 4 — the file-name rule written as an independent, executable
   SUFFIX specification (no splitting on "_", no reversal): directly from the
   go/build documentation

     "If a file's name, after stripping the extension and a possible _test
      suffix, matches any of the following patterns: *_GOOS, *_GOARCH,
      *_GOOS_GOARCH (example: source_windows_amd64.go) where GOOS and GOARCH
      represent any known operating system and architecture values
      respectively, then the file is considered to have an implicit build
      constraint requiring those terms."

   The extension is everything from the FIRST "." (so a.b_linux.go is
   unconstrained), the element must be preceded by a "_" (so linux.go is
   unconstrained: the pre-Go1.4 compatibility exception).
   Model only, no proofs.  Proved equal to name_tags (the mirror of go/build's
   goodOSArchFile) for every name in Proofs/C18_P4_Name.v. *)
From Coq Require Import List String Ascii Bool.
From Verif Require Import Gen.C18_BuildEnv Model.C18_Build.
Import ListNotations.
Local Open Scope string_scope.

(* s without its last n characters *)
Definition drop_last (n : nat) (s : string) : string := substring 0 (String.length s - n) s.

(* the name without extension (first ".") and without one trailing "_test" *)
Definition spec_stem (name : string) : string :=
  let b := cut_dot name in
  if has_suffix "_test" b then drop_last 5 b else b.

(* first pair (o, a) of the two tables such that the stem ends in _o_a *)
Definition find_os_arch (b : string) : option (string * string) :=
  find (fun oa => has_suffix ("_" ++ fst oa ++ "_" ++ snd oa) b) (list_prod known_os known_arch).

(* first known element x such that the stem ends in _x *)
Definition find_one (b : string) : option string :=
  find (fun x => has_suffix ("_" ++ x) b) (known_os ++ known_arch)%list.

(* the tags a file name requires (architecture first, as go/build consults them) *)
Definition spec_name_tags (name : string) : list string :=
  let b := spec_stem name in
  match find_os_arch b with
  | Some (o, a) => [a; o]
  | None => match find_one b with
            | Some x => [x]
            | None => []
            end
  end.

(* selection by name under an environment, on the specification side *)
Definition spec_good_name (e : env) (name : string) : bool :=
  forallb (match_tag e) (spec_name_tags name).
