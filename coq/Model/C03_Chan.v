(* C03 — executable model of GopherJS channels, select and the goroutine scheduler.
   Mirrors compiler/prelude/goroutines.js ($go, $schedule, $runScheduled, $block, $setTimeout, $send,
   $recv, $close, $select) and types.js ($Chan, $chanNil) branch by branch.  NO proofs here.

   The record [fx : variant] selects between the code AS IT IS in the repository ([as_is]) and the
   code with the two minimal repairs proposed for findings F6/F7 ([repaired]), one flag per repair:
     F6  $close has no nil check               -> [do_close] panics PCloseNil on the nil channel
     F7  the send entry registered by $select ignores its [closed] argument and throws inside the
         caller ($close / $recv)               -> the entry records closedDuringSend like $send does and
                                                  the selector panics when it is resumed.
   harness/py/props/c03.py probes the real runtime with the two witnesses and evaluates the matching
   variant.

   Goroutines run scripts; channel 0 is the nil channel ($chanNil: capacity 0, queues whose push is a
   no-op).  The scheduler is modelled with its timers: [TRun] is the timer $runScheduled queues for
   itself, [TWake g] is runtime.Gosched's $setTimeout(close(c)) for goroutine g.  Nondeterminism:
   [picks] (Math.random in $select) and [breaks] (the 4 ms time-slice test in $runScheduled). *)
From Coq Require Import List NArith ZArith Bool Arith.
From RecordUpdate Require Import RecordSet.
Import ListNotations RecordSetNotations.

Definition val := N.
Definition gid := nat.
Definition cid := nat.   (* 0 = nil channel *)

Inductive comm := CDefault | CRecv (c : cid) | CSend (c : cid) (v : val).
Inductive op :=
| Send (c : cid) (v : val) | Recv (c : cid) | Close (c : cid) | Select (cs : list comm)
| Range (c : cid) | Go (k : nat) | Gosched | Goexit | Print (v : val).
Definition script := list op.
Record program := { p_caps : list nat;          (* capacities of channels 1..n *)
                    p_scripts : list script }.  (* script 0 = main; [Go k] starts script k *)

Inductive pkind := PSendClosed | PCloseClosed | PCloseNil | PJsError.

(* queue entries: the closures pushed on $sendQueue / $recvQueue *)
Inductive sentry := SPlain (g : gid) (v : val) | SSel (g : gid) (i : nat) (v : val).
Inductive rentry := RPlain (g : gid) | RSel (g : gid) (i : nat).

(* what a queue entry leaves for the sleeping goroutine's $blk *)
Inductive wake :=
| WSend (closed : bool) | WRecv (v : val) (ok : bool)
| WSelRecv (i : nat) (v : val) (ok : bool) | WSelSend (i : nat) (closed : bool) | WTimer.

Inductive blocked := BSend (c : cid) (v : val) | BRecv (c : cid) | BSel (cs : list comm) | BTimer.

Inductive event :=
| EvSend | EvRecv (v : val) (ok : bool) | EvClose | EvSel (i : nat) (r : option (val * bool))
| EvPanic (k : pkind) | EvPrint (v : val) | EvGo (k : nat) | EvSched | EvGoexit | EvOdd.

Inductive outcome := OExit | ODeadlock | OFuel.
Inductive timer := TRun (id : nat) | TWake (g : gid).
Inductive mode := MIdle | MPass | MRun (g : gid).

Record chanst := mkChan {
  c_nil : bool; c_cap : nat; c_buf : list val; c_sendq : list sentry; c_recvq : list rentry; c_closed : bool;
  c_acc : list val;   (* ghost: values accepted by the channel (buffered or handed to a receiver) *)
  c_rcv : list val }. (* ghost: values handed to receivers with ok = true *)
#[export] Instance eta_chanst : Settable _ := settable! mkChan <c_nil; c_cap; c_buf; c_sendq; c_recvq; c_closed; c_acc; c_rcv>.

Record gor := mkGor {
  g_code : script; g_asleep : bool; g_exit : bool; g_blocked : option blocked; g_wake : option wake }.
#[export] Instance eta_gor : Settable _ := settable! mkGor <g_code; g_asleep; g_exit; g_blocked; g_wake>.

Record state := mkState {
  chans : list chanst; gors : list gor;
  scheduled : list gid;              (* $scheduled *)
  md : mode;                         (* where control is: event loop / $runScheduled loop / inside goroutine g *)
  timers : list timer; next_tid : nat; pass_tid : nat;
  awake : Z; total : Z; main_finished : bool;     (* $awakeGoroutines, $totalGoroutines, $mainFinished *)
  picks : list nat; breaks : list bool;
  trace : list (gid * event);        (* newest first *)
  halted : option outcome }.
#[export] Instance eta_state : Settable _ := settable! mkState
  <chans; gors; scheduled; md; timers; next_tid; pass_tid; awake; total; main_finished; picks; breaks; trace; halted>.

Definition nil_chan : chanst := mkChan true 0 [] [] [] false [] [].
Definition new_chan (cap : nat) : chanst := mkChan false cap [] [] [] false [] [].
Definition dead_gor : gor := mkGor [] true true None None.

Fixpoint upd {A} (l : list A) (n : nat) (x : A) : list A :=
  match l, n with
  | [], _ => []
  | _ :: t, O => x :: t
  | h :: t, S m => h :: upd t m x
  end.

Definition get_chan (st : state) (c : cid) : chanst := nth c (chans st) nil_chan.
Definition set_chan (st : state) (c : cid) (ch : chanst) : state := st <| chans := upd (chans st) c ch |>.
Definition get_g (st : state) (g : gid) : gor := nth g (gors st) dead_gor.
Definition set_g (st : state) (g : gid) (x : gor) : state := st <| gors := upd (gors st) g x |>.

(* the fake queues of $chanNil: push() {} *)
Definition push_sendq (st : state) (c : cid) (e : sentry) : state :=
  let ch := get_chan st c in
  if c_nil ch then st else set_chan st c (ch <| c_sendq := c_sendq ch ++ [e] |>).
Definition push_recvq (st : state) (c : cid) (e : rentry) : state :=
  let ch := get_chan st c in
  if c_nil ch then st else set_chan st c (ch <| c_recvq := c_recvq ch ++ [e] |>).

Definition sentry_eqb (a b : sentry) : bool :=
  match a, b with
  | SPlain g v, SPlain g' v' => Nat.eqb g g' && N.eqb v v'
  | SSel g i v, SSel g' i' v' => Nat.eqb g g' && Nat.eqb i i' && N.eqb v v'
  | _, _ => false
  end.
Definition rentry_eqb (a b : rentry) : bool :=
  match a, b with
  | RPlain g, RPlain g' => Nat.eqb g g'
  | RSel g i, RSel g' i' => Nat.eqb g g' && Nat.eqb i i'
  | _, _ => false
  end.

(* queue.indexOf(entry) / splice(index, 1): remove the first occurrence *)
Fixpoint remove_first {A} (eqb : A -> A -> bool) (x : A) (l : list A) : list A :=
  match l with
  | [] => []
  | y :: t => if eqb x y then t else y :: remove_first eqb x t
  end.

(* removeFromQueues of the select that goroutine g is blocked in (entries = one per non-default comm) *)
Fixpoint remove_entries (g : gid) (cs : list comm) (i : nat) (st : state) : state :=
  match cs with
  | [] => st
  | CDefault :: r => remove_entries g r (S i) st
  | CRecv c :: r =>
      let ch := get_chan st c in
      remove_entries g r (S i) (set_chan st c (ch <| c_recvq := remove_first rentry_eqb (RSel g i) (c_recvq ch) |>))
  | CSend c v :: r =>
      let ch := get_chan st c in
      remove_entries g r (S i) (set_chan st c (ch <| c_sendq := remove_first sentry_eqb (SSel g i v) (c_sendq ch) |>))
  end.
Definition remove_from_queues (g : gid) (st : state) : state :=
  match g_blocked (get_g st g) with
  | Some (BSel cs) => remove_entries g cs 0 st
  | _ => st
  end.

(* $schedule(goroutine) called while a goroutine or a timer callback is running; the
   "if ($curGoroutine === $noGoroutine) $runScheduled()" part is in [fire_timer] *)
Definition schedule (g : gid) (st : state) : state :=
  let x := get_g st g in
  let st1 := if g_asleep x then set_g st g (x <| g_asleep := false |>) <| awake := (awake st + 1)%Z |> else st in
  st1 <| scheduled := scheduled st1 ++ [g] |>.

(* a queue entry fires: store the result for $blk, (select) removeFromQueues, $schedule *)
Definition wake_up (g : gid) (w : wake) (st : state) : state :=
  let st1 := remove_from_queues g st in
  let x := get_g st1 g in
  schedule g (set_g st1 g (x <| g_wake := Some w |> <| g_blocked := None |>)).

(* which of the two proposed repairs the code has *)
Record variant := { fix_close_nil : bool;      (* F6: $close panics on the nil channel *)
                    fix_select_send : bool }.  (* F7: select's send entry records closedDuringSend *)
Definition as_is : variant := {| fix_close_nil := false; fix_select_send := false |}.
Definition repaired : variant := {| fix_close_nil := true; fix_select_send := true |}.

Inductive sres := SOk (st : state) (v : val) | SThrow (st : state) (k : pkind).

(* queuedSend(closed); c is the channel whose queue held the entry *)
Definition invoke_send_entry (fx : variant) (st : state) (c : cid) (e : sentry) (closed : bool) : sres :=
  match e with
  | SPlain g v => SOk (wake_up g (WSend closed) st) v
  | SSel g i v =>
      if fix_select_send fx then SOk (wake_up g (WSelSend i closed) st) v
      else if c_closed (get_chan st c) then SThrow st PSendClosed   (* F7: throws in the caller *)
      else SOk (wake_up g (WSelSend i false) st) v
  end.

(* queuedRecv([value, ok]) *)
Definition invoke_recv_entry (st : state) (e : rentry) (v : val) (ok : bool) : state :=
  match e with
  | RPlain g => wake_up g (WRecv v ok) st
  | RSel g i => wake_up g (WSelRecv i v ok) st
  end.

(* $block() *)
Definition block (g : gid) (b : blocked) (st : state) : state :=
  let x := get_g st g in set_g st g (x <| g_asleep := true |> <| g_blocked := Some b |>).

Inductive opres := Done (st : state) | Blocked (st : state) | Panicked (st : state) (k : pkind).
Inductive rres := RDone (st : state) (v : val) (ok : bool) | RBlocked (st : state) | RPanicked (st : state) (k : pkind).

Definition do_send (st : state) (g : gid) (c : cid) (v : val) : opres :=
  let ch := get_chan st c in
  if c_closed ch then Panicked st PSendClosed else
  match c_recvq ch with
  | e :: q =>
      let st1 := set_chan st c (ch <| c_recvq := q |> <| c_acc := c_acc ch ++ [v] |> <| c_rcv := c_rcv ch ++ [v] |>) in
      Done (invoke_recv_entry st1 e v true)
  | [] =>
      if Nat.ltb (length (c_buf ch)) (c_cap ch)
      then Done (set_chan st c (ch <| c_buf := c_buf ch ++ [v] |> <| c_acc := c_acc ch ++ [v] |>))
      else Blocked (block g (BSend c v) (push_sendq st c (SPlain g v)))
  end.

(* the part of $recv before "var thisGoroutine" : Some (st, v, ok) when it returns at once *)
Inductive rnow := RNow (st : state) (v : val) (ok : bool) | RWait (st : state) | RThrow (st : state) (k : pkind).
Definition recv_now (fx : variant) (st : state) (c : cid) : rnow :=
  let ch := get_chan st c in
  let r1 := match c_sendq ch with
            | e :: q =>
                match invoke_send_entry fx (set_chan st c (ch <| c_sendq := q |>)) c e false with
                | SThrow st2 k => SThrow st2 k
                | SOk st2 v' => let ch2 := get_chan st2 c in
                                SOk (set_chan st2 c (ch2 <| c_buf := c_buf ch2 ++ [v'] |> <| c_acc := c_acc ch2 ++ [v'] |>)) v'
                end
            | [] => SOk st 0%N
            end in
  match r1 with
  | SThrow st2 k => RThrow st2 k
  | SOk st2 _ =>
      let ch2 := get_chan st2 c in
      match c_buf ch2 with
      | v :: b => RNow (set_chan st2 c (ch2 <| c_buf := b |> <| c_rcv := c_rcv ch2 ++ [v] |>)) v true
      | [] => if c_closed ch2
              then (if c_nil ch2 then RThrow st2 PJsError   (* $chanNil.$elem is null: only after F6 *)
                    else RNow st2 0%N false)
              else RWait st2
      end
  end.

Definition do_recv (fx : variant) (st : state) (g : gid) (c : cid) : rres :=
  match recv_now fx st c with
  | RNow st1 v ok => RDone st1 v ok
  | RThrow st1 k => RPanicked st1 k
  | RWait st1 => RBlocked (block g (BRecv c) (push_recvq st1 c (RPlain g)))
  end.

(* the two while(true) loops of $close; fuel = queue length at loop entry (each turn shifts one entry) *)
Fixpoint close_senders (fx : variant) (fuel : nat) (st : state) (c : cid) : sres :=
  match fuel with
  | O => SOk st 0%N
  | S f =>
      let ch := get_chan st c in
      match c_sendq ch with
      | [] => SOk st 0%N
      | e :: q =>
          match invoke_send_entry fx (set_chan st c (ch <| c_sendq := q |>)) c e true with
          | SThrow st2 k => SThrow st2 k
          | SOk st2 _ => close_senders fx f st2 c
          end
      end
  end.
Fixpoint close_receivers (fuel : nat) (st : state) (c : cid) : state :=
  match fuel with
  | O => st
  | S f =>
      let ch := get_chan st c in
      match c_recvq ch with
      | [] => st
      | e :: q => close_receivers f (invoke_recv_entry (set_chan st c (ch <| c_recvq := q |>)) e 0%N false) c
      end
  end.

Definition do_close (fx : variant) (st : state) (c : cid) : opres :=
  let ch := get_chan st c in
  if fix_close_nil fx && c_nil ch then Panicked st PCloseNil else       (* F6 repair *)
  if c_closed ch then Panicked st PCloseClosed else
  let st1 := set_chan st c (ch <| c_closed := true |>) in
  match close_senders fx (length (c_sendq ch)) st1 c with
  | SThrow st2 k => Panicked st2 k
  | SOk st2 _ => Done (close_receivers (length (c_recvq (get_chan st2 c))) st2 c)
  end.

(* first loop of $select: None = threw "send on closed channel" *)
Fixpoint sel_scan (st : state) (cs : list comm) (i : nat) (selection : option nat) (ready : list nat)
  : option (option nat * list nat) :=
  match cs with
  | [] => Some (selection, ready)
  | CDefault :: r => sel_scan st r (S i) (Some i) ready
  | CRecv c :: r =>
      let ch := get_chan st c in
      if negb (Nat.eqb (length (c_sendq ch)) 0) || negb (Nat.eqb (length (c_buf ch)) 0) || c_closed ch
      then sel_scan st r (S i) selection (ready ++ [i]) else sel_scan st r (S i) selection ready
  | CSend c v :: r =>
      let ch := get_chan st c in
      if c_closed ch then None
      else if negb (Nat.eqb (length (c_recvq ch)) 0) || Nat.ltb (length (c_buf ch)) (c_cap ch)
      then sel_scan st r (S i) selection (ready ++ [i]) else sel_scan st r (S i) selection ready
  end.

(* Math.floor(Math.random() * n) with Math.random() = (k mod 60 + 1/2) / 60 *)
Definition pick_index (k n : nat) : nat := ((2 * (k mod 60) + 1) * n) / 120.

Fixpoint sel_register (g : gid) (cs : list comm) (i : nat) (st : state) : state :=
  match cs with
  | [] => st
  | CDefault :: r => sel_register g r (S i) st
  | CRecv c :: r => sel_register g r (S i) (push_recvq st c (RSel g i))
  | CSend c v :: r => sel_register g r (S i) (push_sendq st c (SSel g i v))
  end.

Inductive selres :=
| SelDone (st : state) (i : nat) (r : option (val * bool)) | SelBlocked (st : state)
| SelPanicked (st : state) (k : pkind) | SelOdd (st : state).

Definition do_select (fx : variant) (st : state) (g : gid) (cs : list comm) : selres :=
  match sel_scan st cs 0 None [] with
  | None => SelPanicked st PSendClosed
  | Some (selection, ready) =>
      let '(selection1, st1) :=
        match ready with
        | [] => (selection, st)
        | _ => let k := hd 0 (picks st) in
               (Some (nth (pick_index k (length ready)) ready 0), st <| picks := tl (picks st) |>)
        end in
      match selection1 with
      | Some i =>
          match nth i cs CDefault with
          | CDefault => SelDone st1 i None
          | CRecv c =>
              match recv_now fx st1 c with
              | RNow st2 v ok => SelDone st2 i (Some (v, ok))
              | RThrow st2 k => SelPanicked st2 k
              | RWait st2 => SelOdd st2          (* a ready receive never waits *)
              end
          | CSend c v =>
              match do_send st1 g c v with
              | Done st2 => SelDone st2 i None
              | Panicked st2 k => SelPanicked st2 k
              | Blocked st2 => SelOdd st2        (* a ready send never blocks *)
              end
          end
      | None => SelBlocked (block g (BSel cs) (sel_register g cs 0 st1))
      end
  end.

(* ------------------------------------------------------------------ scheduler *)

Definition remove_timer (id : nat) (ts : list timer) : list timer :=
  filter (fun t => match t with TRun i => negb (Nat.eqb i id) | TWake _ => true end) ts.

(* entry of $runScheduled: var nextRun = setTimeout($runScheduled) *)
Definition start_pass (st : state) : state :=
  st <| timers := timers st ++ [TRun (next_tid st)] |> <| pass_tid := next_tid st |>
     <| next_tid := S (next_tid st) |> <| md := MPass |>.

(* the finally block of $runScheduled *)
Definition end_pass (st : state) : state :=
  let st1 := match scheduled st with
             | [] => st <| timers := remove_timer (pass_tid st) (timers st) |>
             | _ => st
             end in
  st1 <| md := MIdle |>.

(* goroutine g's function returned to $goroutine (blocked or finished): the finally block of
   $goroutine, then back in the loop of $runScheduled: the elapsed-time test *)
Definition yield (g : gid) (st : state) : state :=
  let x := get_g st g in
  let st1 := if g_exit x then set_g st g (x <| g_asleep := true |>) <| total := (total st - 1)%Z |> else st in
  let st2 := if g_asleep (get_g st1 g) then st1 <| awake := (awake st1 - 1)%Z |> else st1 in
  if g_asleep (get_g st1 g) && negb (main_finished st2) && Z.eqb (awake st2) 0
  then st2 <| halted := Some ODeadlock |> <| md := MIdle |>
  else
    let b := hd false (breaks st2) in
    let st3 := st2 <| breaks := tl (breaks st2) |> in
    if b then end_pass st3 else st3 <| md := MPass |>.

Definition log (g : gid) (e : event) (st : state) : state := st <| trace := (g, e) :: trace st |>.
Definition set_code (g : gid) (s : script) (st : state) : state :=
  let x := get_g st g in set_g st g (x <| g_code := s |>).
(* a panic unwinds to the deferred recover() at the top of the goroutine: the function returns normally *)
Definition panic_g (g : gid) (k : pkind) (st : state) : state := set_code g [] (log g (EvPanic k) st).
Definition clear_wake (g : gid) (st : state) : state :=
  let x := get_g st g in set_g st g (x <| g_wake := None |>).

(* $go(fun, args) *)
Definition spawn (prog : program) (k : nat) (st : state) : state :=
  let n := length (gors st) in
  let st1 := st <| total := (total st + 1)%Z |> <| awake := (awake st + 1)%Z |>
                <| gors := gors st ++ [mkGor (nth k (p_scripts prog) []) false false None None] |> in
  schedule n st1.

(* one statement of goroutine g (or the re-entry through $blk after a wake-up) *)
Definition step_goroutine (fx : variant) (prog : program) (g : gid) (st : state) : state :=
  let x := get_g st g in
  match g_code x with
  | [] =>   (* function returns: $goroutine.exit = true ($init sets $mainFinished after main()) *)
      let st1 := set_g st g (x <| g_exit := true |>) in
      let st2 := if Nat.eqb g 0 then st1 <| main_finished := true |> else st1 in
      yield g st2
  | o :: rest =>
      match g_wake x with
      | Some w =>     (* $r = $r.$blk() *)
          let st0 := clear_wake g st in
          match o, w with
          | Send _ _, WSend closed =>
              if closed then panic_g g PSendClosed st0 else set_code g rest (log g EvSend st0)
          | Recv _, WRecv v ok => set_code g rest (log g (EvRecv v ok) st0)
          | Range _, WRecv v ok => set_code g (if ok then o :: rest else rest) (log g (EvRecv v ok) st0)
          | Select _, WSelRecv i v ok => set_code g rest (log g (EvSel i (Some (v, ok))) st0)
          | Select _, WSelSend i closed =>
              if closed then panic_g g PSendClosed st0 else set_code g rest (log g (EvSel i None) st0)
          | Gosched, WTimer => set_code g rest (log g EvSched st0)
          | _, _ => set_code g rest (log g EvOdd st0)
          end
      | None =>
          match o with
          | Send c v =>
              match do_send st g c v with
              | Done st1 => set_code g rest (log g EvSend st1)
              | Blocked st1 => yield g st1
              | Panicked st1 k => panic_g g k st1
              end
          | Recv c =>
              match do_recv fx st g c with
              | RDone st1 v ok => set_code g rest (log g (EvRecv v ok) st1)
              | RBlocked st1 => yield g st1
              | RPanicked st1 k => panic_g g k st1
              end
          | Range c =>
              match do_recv fx st g c with
              | RDone st1 v ok => set_code g (if ok then o :: rest else rest) (log g (EvRecv v ok) st1)
              | RBlocked st1 => yield g st1
              | RPanicked st1 k => panic_g g k st1
              end
          | Close c =>
              match do_close fx st c with
              | Done st1 => set_code g rest (log g EvClose st1)
              | Blocked st1 => st1
              | Panicked st1 k => panic_g g k st1
              end
          | Select cs =>
              match do_select fx st g cs with
              | SelDone st1 i r => set_code g rest (log g (EvSel i r) st1)
              | SelBlocked st1 => yield g st1
              | SelPanicked st1 k => panic_g g k st1
              | SelOdd st1 => set_code g rest (log g EvOdd st1)
              end
          | Go k => set_code g rest (spawn prog k (log g (EvGo k) st))
          | Gosched =>   (* c := make(chan); $setTimeout(close(c), 0); <-c *)
              yield g (block g BTimer (st <| awake := (awake st + 1)%Z |> <| timers := timers st ++ [TWake g] |>))
          | Goexit =>    (* $curGoroutine.exit = true; $throw(null) *)
              yield g (set_g (log g EvGoexit st) g (x <| g_exit := true |>))
          | Print v => set_code g rest (log g (EvPrint v) st)
          end
      end
  end.

(* the event loop runs the next timer callback *)
Definition fire_timer (st : state) : state :=
  match timers st with
  | [] => st
  | TRun _ :: ts => start_pass (st <| timers := ts |>)
  | TWake g :: ts =>
      (* $awakeGoroutines--; f() = close(c) -> queuedRecv -> $schedule(g) -> $runScheduled() *)
      start_pass (wake_up g WTimer (st <| timers := ts |> <| awake := (awake st - 1)%Z |>))
  end.

Definition impl_step (fx : variant) (prog : program) (st : state) : state :=
  match halted st with
  | Some _ => st
  | None =>
      match md st with
      | MIdle => fire_timer st
      | MPass =>      (* while ((r = $scheduled.shift()) !== undefined) r() *)
          match scheduled st with
          | [] => end_pass st
          | g :: q => st <| scheduled := q |> <| md := MRun g |>
          end
      | MRun g => step_goroutine fx prog g st
      end
  end.

Definition final (st : state) : bool :=
  match halted st with
  | Some _ => true
  | None => match md st, timers st with MIdle, [] => true | _, _ => false end
  end.

(* top level of a program: channels made, $go(main) called from no goroutine -> $runScheduled() *)
Definition init_state (prog : program) (pk : list nat) (bk : list bool) : state :=
  start_pass (mkState (nil_chan :: map new_chan (p_caps prog))
                      [mkGor (nth 0 (p_scripts prog) []) false false None None]
                      [0] MIdle [] 0 0 1%Z 1%Z false pk bk [] None).

Fixpoint run (fx : variant) (prog : program) (fuel : nat) (st : state) : state :=
  match fuel with
  | O => st
  | S f => if final st then st else run fx prog f (impl_step fx prog st)
  end.

Definition outcome_of (st : state) : outcome :=
  match halted st with
  | Some o => o
  | None => if final st then OExit else OFuel
  end.
