(* C08, part A (phase 4) — guards that depend on the SHAPE of a JavaScript value rather than on integer
   operands: assignment to an entry of a nil map, reads of a nil map, field access through a nil struct
   pointer, type assertions (panicking form and comma-ok form).  Model only (no proofs).

   Anchors: compiler/statements.go translateAssign  `(m || $throwRuntimeError("assignment to entry in nil map")).set(K.keyFor(k), {k, v})`;
   compiler/expressions.go  `(e = $mapIndex(m, K.keyFor(k)), e !== undefined ? e.v : zero)`; compiler/prelude/prelude.js $mapIndex;
   compiler/prelude/types.js: map zero value `false`, `typ.ptr.nil` of a struct type (one throwing getter/setter per field),
   $assertType.  Integer conversions of out-of-range CONSTANTS have no run-time guard: go/types rejects them at compile time. *)
From Coq Require Import List ZArith Bool.
From Verif Require Import Model.C08_Guards.
Import ListNotations.
Local Open Scope Z_scope.

(* ---- maps: the nil map is the JavaScript value `false`, any other map a Map object ---------------- *)
Inductive jmap := JMNil | JMMap (kv : list (Z * Z)).
Fixpoint kv_get (kv : list (Z * Z)) (k : Z) : option Z :=
  match kv with [] => None | (k', v) :: r => if k' =? k then Some v else kv_get r k end.
(* Map.prototype.set keeps the position of an existing key *)
Fixpoint kv_set (kv : list (Z * Z)) (k v : Z) : list (Z * Z) :=
  match kv with [] => [(k, v)] | (k', v') :: r => if k' =? k then (k, v) :: r else (k', v') :: kv_set r k v end.
Fixpoint kv_flat (kv : list (Z * Z)) : list Z := match kv with [] => [] | (k, v) :: r => k :: v :: kv_flat r end.
Definition js_truthy_map (m : jmap) : bool := match m with JMNil => false | JMMap _ => true end.
Definition js_has_get (m : jmap) : bool := match m with JMNil => false | JMMap _ => true end.   (* typeof m.get === "function" *)

Definition impl_map_store (m : jmap) (k v : Z) : gres :=
  if js_truthy_map m then GOk (kv_flat (kv_set (match m with JMMap kv => kv | JMNil => [] end) k v)) else GThrow.
Definition spec_map_store (m : jmap) (k v : Z) : gres :=
  match m with JMNil => GThrow | JMMap kv => GOk (kv_flat (kv_set kv k v)) end.

Definition impl_mapindex (m : jmap) (k : Z) : option Z :=
  if js_has_get m then kv_get (match m with JMMap kv => kv | JMNil => [] end) k else None.
(* value and the comma-ok flag; never throws *)
Definition impl_map_read (m : jmap) (k : Z) : gres :=
  match impl_mapindex m k with Some v => GOk [v; 1] | None => GOk [0; 0] end.
Definition spec_map_read (m : jmap) (k : Z) : gres :=
  match m with
  | JMNil => GOk [0; 0]
  | JMMap kv => match kv_get kv k with Some v => GOk [v; 1] | None => GOk [0; 0] end
  end.

(* ---- struct pointers: typ.ptr.nil has a throwing getter and setter for each of the n fields -------- *)
Inductive jptr := JPNil (nfields : nat) | JPObj (fields : list Z).
Fixpoint upd (l : list Z) (i : nat) (v : Z) : list Z :=
  match l, i with
  | [], _ => []
  | _ :: r, O => v :: r
  | x :: r, S j => x :: upd r j v
  end.
(* p.f_i ; GOk [] stands for `undefined` (no such property: excluded by the type checker) *)
Definition impl_ptr_get (p : jptr) (i : nat) : gres :=
  match p with
  | JPNil n => if Nat.ltb i n then GThrow else GOk []
  | JPObj fs => match nth_error fs i with Some v => GOk [v] | None => GOk [] end
  end.
Definition impl_ptr_set (p : jptr) (i : nat) (v : Z) : gres :=
  match p with
  | JPNil n => if Nat.ltb i n then GThrow else GOk []
  | JPObj fs => GOk (upd fs i v)
  end.
Definition spec_ptr_get (p : jptr) (i : nat) : gres :=
  match p with JPNil _ => GThrow | JPObj fs => match nth_error fs i with Some v => GOk [v] | None => GOk [] end end.
Definition spec_ptr_set (p : jptr) (i : nat) (v : Z) : gres :=
  match p with JPNil _ => GThrow | JPObj fs => GOk (upd fs i v) end.
Definition ptr_nfields (p : jptr) : nat := match p with JPNil n => n | JPObj fs => length fs end.

(* ---- $assertType(value, type, returnTuple) ---------------------------------------------------------- *)
(* an interface value: nil, or a dynamic type (its identity, its method set as method identities) and a payload *)
Inductive jiface := JINil | JIVal (tid : Z) (methods : list Z) (payload : Z).
Inductive jtarget := TConcrete (tid : Z) | TIface (methods : list Z).
Definition zmem (x : Z) (l : list Z) : bool := existsb (Z.eqb x) l.
Definition assert_ok (v : jiface) (t : jtarget) : bool :=
  match v with
  | JINil => false
  | JIVal tid ms _ =>
      match t with
      | TConcrete t' => tid =? t'                                   (* value.constructor === type *)
      | TIface im => forallb (fun m => zmem m ms) im                 (* every interface method found in the method set *)
      end
  end.
Definition impl_assert (v : jiface) (t : jtarget) (tuple : bool) : gres :=
  if assert_ok v t
  then match v with
       | JIVal _ _ pl => if tuple then GOk [pl; 1] else GOk [pl]
       | JINil => GThrow
       end
  else if tuple then GOk [0; 0]      (* [type.zero(), false] *)
  else GThrow.                        (* $panic(new runtime.TypeAssertionError ...) *)

(* ---- evaluation entry (op codes continue Model/C08_Guards.impl_op) --------------------------------- *)
Fixpoint unflat (l : list Z) : list (Z * Z) :=
  match l with k :: v :: r => (k, v) :: unflat r | _ => [] end.
Definition mk_map (isnil : Z) (l : list Z) : jmap := if isnil =? 0 then JMMap (unflat l) else JMNil.
Definition mk_ptr (isnil n : Z) (l : list Z) : jptr := if isnil =? 0 then JPObj l else JPNil (Z.to_nat n).
Definition impl_op2 (op : Z) (a : list Z) : option gres :=
  match op, a with
  | 11, isnil :: k :: v :: l => Some (impl_map_store (mk_map isnil l) k v)
  | 12, isnil :: k :: l => Some (impl_map_read (mk_map isnil l) k)
  | 13, isnil :: n :: i :: l => Some (impl_ptr_get (mk_ptr isnil n l) (Z.to_nat i))
  | 14, isnil :: n :: i :: v :: l => Some (impl_ptr_set (mk_ptr isnil n l) (Z.to_nat i) v)
  | 15, tuple :: vnil :: vtid :: pl :: tkind :: ttid :: nvm :: l =>
      let vms := firstn (Z.to_nat nvm) l in
      let ims := skipn (Z.to_nat nvm) l in
      Some (impl_assert (if vnil =? 0 then JIVal vtid vms pl else JINil)
                        (if tkind =? 0 then TConcrete ttid else TIface ims) (negb (tuple =? 0)))
  | _, _ => None
  end.
