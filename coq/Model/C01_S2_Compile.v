(* C01 stage 2 — Gallina mirror of the translator for multi-function MiniGo (no proofs here).
   Mirrors compiler/functions.go (one funcContext per top-level function: the parameters are the
   first names handed out by newVariable and are listed in the function's `var` line together
   with locals and temporaries; every function numbers its names on its own), compiler/
   expressions.go translateCall/translateArgs for a non-blocking callee (`f(args)`, arguments
   translated left to right by translateExpr, constants as numbers), compiler/statements.go
   ReturnStmt (`return;` / `return e;`), ExprStmt of a call (`f(args);`), AssignStmt with a call
   on the right (the right-hand side is translated before the defined variable gets its name),
   IfStmt and ForStmt (`while (true) { if (!(c)) { break; } body post }`).  Call-free statements
   go through the stage-1 mirror [cstmt]. *)
From Coq Require Import ZArith List String Bool.
From Verif Require Import Model.C01_GoSem Model.C01_JsSem Model.C01_Compile Model.C01_S2_GoSem Model.C01_S2_JsSem.
Import ListNotations.
Local Open Scope Z_scope.

Fixpoint cparams (st : cstate) (ps : list name) : list name * cstate :=
  match ps with
  | [] => ([], st)
  | p :: r => let '(n, st1) := declare st p in let '(ns, st2) := cparams st1 r in (n :: ns, st2)
  end.

Definition loop_head (jc : jexpr) : jstmt2 := J2Base (JSIf (JUn JNot jc) [JSBreak None] JNoElse).

Fixpoint cstmt2 (st : cstate) (s : stmt2) {struct s} : list jstmt2 * cstate :=
  match s with
  | TSkip => ([], st)
  | TBase b => let '(js, st1) := cstmt [] st b in (map J2Base js, st1)
  | TSeq a b => let '(ja, st1) := cstmt2 st a in let '(jb, st2) := cstmt2 st1 b in (ja ++ jb, st2)
  | TCall dst f args =>
      let '(ja, st1) := cexprs st args in
      match dst with
      | None => ([J2Call None f ja], st1)
      | Some (v, None) => ([J2Call (Some (js_name st1 v)) f ja], st1)
      | Some (v, Some _) => let '(n, st2) := declare st1 v in ([J2Call (Some n) f ja], st2)
      end
  | TIf c t e =>
      let '(jc, st0) := cexpr st c in
      let '(jt, st1) := cstmt2 st0 t in
      match e with
      | TSkip => ([J2If jc jt None], st1)
      | _ => let '(je, st2) := cstmt2 st1 e in ([J2If jc jt (Some je)], st2)
      end
  | TFor init c post body =>
      let '(ji, st0) := csimple st init in
      let '(jc, st1) := cexpr st0 c in
      let '(jb, st2) := cstmt2 st1 body in
      let '(jp, st3) := cpost st2 post in
      (map J2Base ji ++ [J2While (loop_head jc :: jb ++ map J2Base jp)], st3)
  | TReturn None => ([J2Return None], st)
  | TReturn (Some e) => let '(je, st1) := cexpr st e in ([J2Return (Some je)], st1)
  end.

Definition compile_fn (fd : fdef) : jfdef :=
  let '(ns, st0) := cparams cstate0 (map fst (f_params fd)) in
  let '(body, st) := cstmt2 st0 (f_body fd) in
  {| jf_params := ns; jf_vars := sort_names (log st); jf_body := body |}.

Definition compile_fns (fe : fenv) : list (fname * jfdef) := map (fun x => (fst x, compile_fn (snd x))) fe.

Definition compile2 (p : prog2) : jprog2 :=
  {| jp2_funcs := compile_fns (p_funcs p); jp2_main := p_main p |}.
