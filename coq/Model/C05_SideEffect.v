(* C05 — executable model of compiler/internal/analysis/sideeffect.go (HasSideEffect) and of the
   rule of compiler/decls.go:289 that makes a package-level variable declaration a DCE root:
       if len(init.Lhs) != 1 || analysis.HasSideEffect(init.Rhs, ...) { d.Dce().SetAsAlive() }
   Model only: no proofs here.

   Expressions are the go/ast node kinds that matter for the visitor; identifiers, literals and
   type expressions carry no information.  A CallExpr is classified by what go/types records for
   its Fun:  [CSig]  TypeOf(Fun) is literally a *types.Signature and Fun is a value (functions,
   methods, values of an unnamed func type, builtins);  [CNamedFunc]  Fun is a VALUE whose type is a
   named func type (`type F func() int; var f F; f()`) — TypeOf(Fun) is a *types.Named whose
   Underlying() is a *types.Signature;  [CConvFunc]  Fun is a TYPE whose underlying type is a func
   type: a conversion `F(g)` / `(func() int)(g)`, which the analysis cannot tell from a call;
   [CConv]  Fun is any other type: a conversion T(x).
   [EFuncLit body] is a function literal; ast.Walk descends into its body. *)
From Coq Require Import List Bool NArith.
Import ListNotations.

Inductive unop := UArrow | UNeg | UXor | UNot | UAddr.
Inductive binop := BAdd | BSub | BMul | BQuo | BRem | BShl | BShr | BAnd | BEq.

Inductive callkind := CSig | CNamedFunc | CConvFunc | CConv.

Inductive expr :=
| ELit
| EIdent
| EParen (e : expr)
| ECall (k : callkind) (f : expr) (args : list expr)
| EUnary (op : unop) (e : expr)
| EStar (e : expr)
| EBinary (op : binop) (a b : expr)
| EIndex (a i : expr)
| ESlice (a lo hi : expr)
| ESelector (e : expr)
| ETypeAssert (e : expr)
| EComposite (elts : list expr)
| EFuncLit (body : list expr).

(* `if t := TypeOf(n.Fun); t != nil { _, isSig := t.Underlying().( *types.Signature) ... }` (since de84ca0) *)
Definition is_sig (k : callkind) : bool := match k with CConv => false | _ => true end.
(* the CallExpr really calls a function *)
Definition is_call (k : callkind) : bool := match k with CSig | CNamedFunc => true | _ => false end.

(* hasSideEffectVisitor.Visit driven by ast.Walk: true as soon as a CallExpr with a signature-typed
   Fun or a UnaryExpr with Op == ARROW is met; every child of every other node is visited. *)
Fixpoint has_side_effect (e : expr) : bool :=
  let any := fix any (l : list expr) : bool := match l with [] => false | x :: r => has_side_effect x || any r end in
  match e with
  | ELit | EIdent => false
  | EParen e => has_side_effect e
  | ECall k f args => is_sig k || has_side_effect f || any args
  | EUnary UArrow _ => true
  | EUnary _ e => has_side_effect e
  | EStar e => has_side_effect e
  | EBinary _ a b => has_side_effect a || has_side_effect b
  | EIndex a i => has_side_effect a || has_side_effect i
  | ESlice a lo hi => has_side_effect a || has_side_effect lo || has_side_effect hi
  | ESelector e => has_side_effect e
  | ETypeAssert e => has_side_effect e
  | EComposite elts => any elts
  | EFuncLit body => any body
  end.

(* decls.go:289 — is the variable declaration `var lhs1, .., lhsn = e` marked alive? *)
Definition var_is_root (nlhs : N) (e : expr) : bool := negb (N.eqb nlhs 1) || has_side_effect e.

(* ---- specification side -------------------------------------------------- *)

(* Evaluating the expression runs a call or a receive (a function literal's body is NOT evaluated). *)
Fixpoint evaluates_call_or_recv (e : expr) : bool :=
  let any := fix any (l : list expr) : bool := match l with [] => false | x :: r => evaluates_call_or_recv x || any r end in
  match e with
  | ELit | EIdent => false
  | EParen e => evaluates_call_or_recv e
  | ECall k f args => is_call k || evaluates_call_or_recv f || any args
  | EUnary UArrow _ => true
  | EUnary _ e => evaluates_call_or_recv e
  | EStar e => evaluates_call_or_recv e
  | EBinary _ a b => evaluates_call_or_recv a || evaluates_call_or_recv b
  | EIndex a i => evaluates_call_or_recv a || evaluates_call_or_recv i
  | ESlice a lo hi => evaluates_call_or_recv a || evaluates_call_or_recv lo || evaluates_call_or_recv hi
  | ESelector e => evaluates_call_or_recv e
  | ETypeAssert e => evaluates_call_or_recv e
  | EComposite elts => any elts
  | EFuncLit _ => false
  end.

(* Node kinds whose evaluation can raise a run-time panic by themselves (Go spec): index / slice out
   of range, nil dereference (explicit, or implicit in a selector), failed type assertion, integer
   division by zero, negative shift count, comparison of interface values holding uncomparable
   types, slice-to-array conversion. *)
Definition binop_may_panic (op : binop) : bool :=
  match op with BQuo | BRem | BShl | BShr | BEq => true | _ => false end.

Fixpoint may_panic (e : expr) : bool :=
  let any := fix any (l : list expr) : bool := match l with [] => false | x :: r => may_panic x || any r end in
  match e with
  | ELit | EIdent => false
  | EParen e => may_panic e
  | ECall k f args => (match k with CConv => true | _ => false end) || may_panic f || any args
  | EUnary _ e => may_panic e
  | EStar _ => true
  | EBinary op a b => binop_may_panic op || may_panic a || may_panic b
  | EIndex _ _ => true
  | ESlice _ _ _ => true
  | ESelector _ => true
  | ETypeAssert _ => true
  | EComposite elts => any elts
  | EFuncLit _ => false
  end.

(* what the property needs: an initialiser whose evaluation can have an observable effect *)
Definition can_have_effect (e : expr) : bool := evaluates_call_or_recv e || may_panic e.
