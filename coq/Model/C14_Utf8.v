(* C14 — executable model of the string half of the GopherJS prelude
   (compiler/prelude/prelude.js: $substring, $decodeRune, $encodeRune, $stringToBytes,
   $bytesToString, $stringToRunes, $runesToString, $copyString), of the range-over-string
   loop emitted by compiler/statements.go and of the string(int64) conversion emitted by
   compiler/expressions.go — plus a specification written from the Unicode standard
   (Table 3-6 / 3-7) with no bit operations.

   Model only: no proofs in this file.

   A JS string is a list of UTF-16 code units [N]; a Go string uses only units < 256
   (one byte per unit).  [str.charCodeAt(pos)] is [nth_error s pos]; [None] is NaN, for which
   every comparison is false and [c !== c] is true.  JS numbers that are Go ints are [Z].
   The int32 bit operations of JS are modelled by the [N] ones: every operand that reaches
   them is < 2^16 (a code unit) or <= 0x10FFFF (a checked rune), so nothing wraps. *)
From Coq Require Import List NArith ZArith Bool Arith.
Import ListNotations.
Local Open Scope N_scope.

Definition ERR : N * nat := (0xFFFD, 1%nat).

(* ---- $decodeRune(str, pos) -> [rune, width] ----------------------------------------- *)

Definition decode_rune (s : list N) (pos : nat) : N * nat :=
  match nth_error s pos with
  | None => ERR                                   (* c0 !== c0 *)
  | Some c0 =>
    if c0 <? 0x80 then (c0, 1%nat) else
    if c0 <? 0xC0 then ERR else
    match nth_error s (pos + 1) with
    | None => ERR
    | Some c1 =>
      if (c1 <? 0x80) || (0xC0 <=? c1) then ERR else
      if c0 <? 0xE0 then
        let r := N.lor (N.shiftl (N.land c0 0x1F) 6) (N.land c1 0x3F) in
        if r <=? 0x7F then ERR else (r, 2%nat)
      else
      match nth_error s (pos + 2) with
      | None => ERR
      | Some c2 =>
        if (c2 <? 0x80) || (0xC0 <=? c2) then ERR else
        if c0 <? 0xF0 then
          let r := N.lor (N.lor (N.shiftl (N.land c0 0x0F) 12) (N.shiftl (N.land c1 0x3F) 6)) (N.land c2 0x3F) in
          if r <=? 0x7FF then ERR else
          if (0xD800 <=? r) && (r <=? 0xDFFF) then ERR else (r, 3%nat)
        else
        match nth_error s (pos + 3) with
        | None => ERR
        | Some c3 =>
          if (c3 <? 0x80) || (0xC0 <=? c3) then ERR else
          if c0 <? 0xF8 then
            let r := N.lor (N.lor (N.lor (N.shiftl (N.land c0 0x07) 18) (N.shiftl (N.land c1 0x3F) 12))
                                  (N.shiftl (N.land c2 0x3F) 6)) (N.land c3 0x3F) in
            if (r <=? 0xFFFF) || (0x10FFFF <? r) then ERR else (r, 4%nat)
          else ERR
        end
      end
    end
  end.

(* ---- $encodeRune(r) ------------------------------------------------------------------ *)

Definition encode_rune (r : Z) : list N :=
  let r := if ((r <? 0) || (0x10FFFF <? r) || ((0xD800 <=? r) && (r <=? 0xDFFF)))%Z then 0xFFFD%Z else r in
  let r := Z.to_N r in
  if r <=? 0x7F then [r]
  else if r <=? 0x7FF then [N.lor 0xC0 (N.shiftr r 6); N.lor 0x80 (N.land r 0x3F)]
  else if r <=? 0xFFFF then
    [N.lor 0xE0 (N.shiftr r 12); N.lor 0x80 (N.land (N.shiftr r 6) 0x3F); N.lor 0x80 (N.land r 0x3F)]
  else
    [N.lor 0xF0 (N.shiftr r 18); N.lor 0x80 (N.land (N.shiftr r 12) 0x3F);
     N.lor 0x80 (N.land (N.shiftr r 6) 0x3F); N.lor 0x80 (N.land r 0x3F)].

(* string(x) for a 64-bit integer x: expressions.go emits
     $encodeRune(x.$high === 0 ? x.$low : -1)
   $high is the signed high word (floor (x / 2^32)), $low the unsigned low word. *)
Definition string_of_int64 (x : Z) : list N :=
  encode_rune (if (x / 4294967296 =? 0)%Z then (x mod 4294967296)%Z else (-1)%Z).

(* ---- the range-over-string loop (statements.go) and $stringToRunes ------------------- *)
(*   for (_i = 0; _i < _ref.length; _i += _rune[1]) { _rune = $decodeRune(_ref, _i); body(_i, _rune[0]) }
   One entry (index, rune, width) per iteration.  [fuel] = length of the string is enough because
   every width is >= 1 (proved: range_loop_fuel). *)
Fixpoint range_from (fuel : nat) (s : list N) (i : nat) : list (nat * N * nat) :=
  match fuel with
  | O => []
  | S f =>
    if Nat.ltb i (length s) then
      let '(r, w) := decode_rune s i in (i, r, w) :: range_from f s (i + w)
    else []
  end.

Definition range_loop (s : list N) : list (nat * N * nat) := range_from (length s) s 0.

(* $stringToRunes: the same loop storing rune[0]; result = array.subarray(0, j) *)
Definition string_to_runes (s : list N) : list N := map (fun x => snd (fst x)) (range_loop s).

(* a Go slice over a typed array: $array, $offset, $length *)
Definition window {A} (arr : list A) (off len : nat) : list A := firstn len (skipn off arr).

(* $runesToString(slice): concatenation of $encodeRune of every element (Int32Array -> Z) *)
Definition runes_to_string (arr : list Z) (off len : nat) : list N :=
  flat_map encode_rune (window arr off len).

(* ---- $stringToBytes / $bytesToString / $copyString ------------------------------------ *)

(* Uint8Array element store = ToUint8 = mod 256 *)
Definition string_to_bytes (s : list N) : list N := map (fun c => c mod 256) s.

(* $bytesToString: String.fromCharCode.apply on chunks of [k] = 10000 elements, concatenated.
   [fuel] bounds the number of chunks. *)
Fixpoint b2s_loop (fuel : nat) (k : nat) (arr : list N) (off len i : nat) : list N :=
  match fuel with
  | O => []
  | S f =>
    if Nat.ltb i len
    then firstn (Nat.min len (i + k) - i) (skipn (off + i) arr) ++ b2s_loop f k arr off len (i + k)
    else []
  end.

Definition bytes_to_string_k (k : nat) (arr : list N) (off len : nat) : list N :=
  if Nat.eqb len 0 then [] else b2s_loop (S len) k arr off len 0.

Definition CHUNK : nat := N.to_nat 10000.
Definition bytes_to_string := bytes_to_string_k CHUNK.

(* $copyString(dst, src): returns n and the new contents of dst.$array *)
Definition copy_string (arr : list N) (off len : nat) (src : list N) : nat * list N :=
  let n := Nat.min (length src) len in
  (n, firstn off arr ++ map (fun c => c mod 256) (firstn n src) ++ skipn (off + n) arr).

(* ---- $substring(str, low, high) ------------------------------------------------------- *)
(* String.prototype.substring: both ends clamped to [0, length], swapped when start > end. *)
Definition js_substring (s : list N) (a b : Z) : list N :=
  let len := Z.of_nat (length s) in
  let a := Z.min (Z.max a 0) len in
  let b := Z.min (Z.max b 0) len in
  let lo := Z.min a b in let hi := Z.max a b in
  firstn (Z.to_nat (hi - lo)) (skipn (Z.to_nat lo) s).

(* [high = None] is the two-argument call emitted for s[low:] (expressions.go): $substring
   replaces an undefined high by str.length before the checks.
   [None] as a result = $throwRuntimeError("slice bounds out of range"). *)
Definition substring (s : list N) (low : Z) (high : option Z) : option (list N) :=
  let len := Z.of_nat (length s) in
  let h := match high with Some h => h | None => len end in
  if ((low <? 0) || (h <? low) || (len <? h))%Z then None else Some (js_substring s low h).

(* ---- s[i] ------------------------------------------------------------------------------ *)
(* expressions.go emits, through rangeCheck (utils.go),
     (i < 0 || i >= s.length) ? $throwRuntimeError("index out of range") : s.charCodeAt(i)
   for a non-constant index; for a constant index (never negative: the type checker rejects it) only
   [i >= s.length] is tested; when index AND string are constants the type checker has already
   verified the range and the bare s.charCodeAt(i) is emitted ([index_unchecked]).
   [None] = the run-time panic; a number or NaN otherwise. *)
Inductive jsnum := NaN | Num (n : N).

Definition index_unchecked (s : list N) (i : Z) : jsnum :=
  if (i <? 0)%Z then NaN
  else match nth_error s (Z.to_nat i) with Some c => Num c | None => NaN end.

Definition index_emitted (const_index : bool) (s : list N) (i : Z) : option jsnum :=
  let len := Z.of_nat (length s) in
  if (if const_index then (len <=? i)%Z else ((i <? 0) || (len <=? i))%Z) then None
  else Some (index_unchecked s i).

(* int(s[i]) = s.charCodeAt(i) >> 0 *)
Definition to_int (x : jsnum) : N := match x with NaN => 0 | Num n => n end.

(* ======================================================================================
   Specification, written from The Unicode Standard, Table 3-7 (well-formed UTF-8 byte
   sequences) and Table 3-6 (bit distribution), using only ranges and + * / mod.
   ====================================================================================== *)

Definition between (lo hi c : N) : bool := (lo <=? c) && (c <=? hi).
Definition tail (c : N) : bool := between 0x80 0xBF c.

(* allowed range of the second byte, per lead byte *)
Definition second_ok (b0 b1 : N) : bool :=
  if b0 =? 0xE0 then between 0xA0 0xBF b1
  else if b0 =? 0xED then between 0x80 0x9F b1
  else if b0 =? 0xF0 then between 0x90 0xBF b1
  else if b0 =? 0xF4 then between 0x80 0x8F b1
  else tail b1.

(* Go semantics: an ill-formed or truncated sequence yields (U+FFFD, 1) *)
Definition spec_decode (s : list N) : N * nat :=
  match s with
  | [] => ERR
  | b0 :: t =>
    if b0 <=? 0x7F then (b0, 1%nat)
    else if between 0xC2 0xDF b0 then
      match t with
      | b1 :: _ => if tail b1 then ((b0 - 0xC0) * 64 + (b1 - 0x80), 2%nat) else ERR
      | _ => ERR
      end
    else if between 0xE0 0xEF b0 then
      match t with
      | b1 :: b2 :: _ =>
          if second_ok b0 b1 && tail b2
          then ((b0 - 0xE0) * 4096 + (b1 - 0x80) * 64 + (b2 - 0x80), 3%nat) else ERR
      | _ => ERR
      end
    else if between 0xF0 0xF4 b0 then
      match t with
      | b1 :: b2 :: b3 :: _ =>
          if second_ok b0 b1 && tail b2 && tail b3
          then ((b0 - 0xF0) * 262144 + (b1 - 0x80) * 4096 + (b2 - 0x80) * 64 + (b3 - 0x80), 4%nat) else ERR
      | _ => ERR
      end
    else ERR
  end.

Definition valid_scalar (r : Z) : bool :=
  ((0 <=? r) && (r <=? 0x10FFFF) && negb ((0xD800 <=? r) && (r <=? 0xDFFF)))%Z.

Definition spec_encode (r : N) : list N :=
  if r <=? 0x7F then [r]
  else if r <=? 0x7FF then [0xC0 + r / 64; 0x80 + r mod 64]
  else if r <=? 0xFFFF then [0xE0 + r / 4096; 0x80 + (r / 64) mod 64; 0x80 + r mod 64]
  else [0xF0 + r / 262144; 0x80 + (r / 4096) mod 64; 0x80 + (r / 64) mod 64; 0x80 + r mod 64].

(* Go: string(rune) of an invalid code point is "�" *)
Definition spec_string_of_rune (r : Z) : list N :=
  if valid_scalar r then spec_encode (Z.to_N r) else [0xEF; 0xBF; 0xBD].

(* the rune/width sequence of a range loop, by repeated spec_decode *)
Fixpoint spec_runes_fuel (fuel : nat) (s : list N) : list (N * nat) :=
  match fuel with
  | O => []
  | S f =>
    match s with
    | [] => []
    | _ => let '(r, w) := spec_decode s in (r, w) :: spec_runes_fuel f (skipn w s)
    end
  end.

Definition spec_runes (s : list N) : list (N * nat) := spec_runes_fuel (length s) s.

(* Go strings: every unit is a byte *)
Definition is_bytes (s : list N) : bool := forallb (fun c => c <? 256) s.

(* indexing per the Go spec: s[i] is defined iff 0 <= i < len(s) *)
Definition spec_index (s : list N) (i : Z) : option jsnum :=
  if ((0 <=? i) && (i <? Z.of_nat (length s)))%Z
  then match nth_error s (Z.to_nat i) with Some c => Some (Num c) | None => None end
  else None.

(* slicing per the Go spec: s[lo:hi] is defined iff 0 <= lo <= hi <= len(s) *)
Definition spec_slice (s : list N) (lo hi : Z) : option (list N) :=
  if ((0 <=? lo) && (lo <=? hi) && (hi <=? Z.of_nat (length s)))%Z
  then Some (firstn (Z.to_nat (hi - lo)) (skipn (Z.to_nat lo) s)) else None.
