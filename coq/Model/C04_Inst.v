(* C04 — executable model of GopherJS' whole-program discovery of generic instances.
   Mirrors compiler/internal/typeparams/{collect,instance,map,resolver,utils}.go and the
   part of internal/govendor/subst that the Resolver uses (no proofs in this file).

   A generic program is a table of objects.  Every object has a TEMPLATE: the list, in
   AST-walk order, of the identifiers in its declaration that go/types recorded in
   Info.Instances (a use of a generic function / type with type arguments) or in Info.Defs
   (the declaration of a non-generic type inside a generic function).  Type arguments are
   first-order terms over the object's own type parameters (TOwn), the type parameters of
   the function it is nested in (TNestV) and type parameters that the Resolver of the
   scanning context does not replace (TFree: the parameters of a generic type declared
   inside the function being scanned). *)
From Coq Require Import List NArith Bool Arith.
Import ListNotations.

Inductive ty :=
| TBase (b : N)                      (* closed non-generic type: int, string, pkg.P ... *)
| TCon (c : N) (args : list ty)      (* slice, pointer, map, chan, array, func, struct *)
| TNamed (o : N) (args : list ty)    (* instantiated generic named type / local type (args = []) *)
| TOwn (i : nat)
| TNestV (i : nat)
| TFree (i : N).

Fixpoint ty_eqb (a b : ty) {struct a} : bool :=
  let fix list_eqb (l1 l2 : list ty) {struct l1} : bool :=
    match l1, l2 with
    | [], [] => true
    | x :: r1, y :: r2 => ty_eqb x y && list_eqb r1 r2
    | _, _ => false
    end in
  match a, b with
  | TBase x, TBase y => N.eqb x y
  | TCon c l, TCon d m => N.eqb c d && list_eqb l m
  | TNamed c l, TNamed d m => N.eqb c d && list_eqb l m
  | TOwn i, TOwn j => Nat.eqb i j
  | TNestV i, TNestV j => Nat.eqb i j
  | TFree i, TFree j => N.eqb i j
  | _, _ => false
  end.

Fixpoint tys_eqb (l1 l2 : list ty) : bool :=
  match l1, l2 with
  | [], [] => true
  | x :: r1, y :: r2 => ty_eqb x y && tys_eqb r1 r2
  | _, _ => false
  end.

(* typeparams.Instance: Object, TArgs, TNest.  map.go compares the object by pointer and
   both lists with types.Identical = structural equality of the terms. *)
Record inst := mkInst { i_obj : N; i_targs : list ty; i_tnest : list ty }.

Definition inst_eqb (a b : inst) : bool :=
  N.eqb (i_obj a) (i_obj b) && tys_eqb (i_targs a) (i_targs b) && tys_eqb (i_tnest a) (i_tnest b).

Inductive item :=
| RInst (target : N) (es : list ty) (nested : bool)   (* Info.Instances[ident]; nested = obj.Parent().Contains(ident.Pos()) *)
| RDef (target : N).                                  (* Info.Defs[ident] is a non-generic *types.Named *)

Inductive kind := KFunc | KType.     (* *types.Signature (functions and methods) / *types.Named *)

Record obj := mkObj {
  o_pkg : N;
  o_kind : kind;
  o_methods : list N;        (* t.Method(i).Origin() for a named type, in order *)
  o_nest : option N;         (* FindNestingFunc *)
  o_lazy : bool;             (* local type whose (unsubstituted) underlying type mentions the nest's parameters *)
  o_tmpl : list item         (* idents of c.objMap[obj]; [] when the object has no objMap entry *)
}.

Record prog := mkProg { p_npkg : nat; p_objs : list obj; p_seed : list item }.

Definition dummy_obj := mkObj 0 KFunc [] None false [].
Definition get_obj (p : prog) (o : N) : obj := nth (N.to_nat o) (p_objs p) dummy_obj.

(* ---- Resolver.Substitute (subst.typ with origin = nil: named types are never cloned) *)
Fixpoint subst (own nest : list ty) (t : ty) : ty :=
  match t with
  | TBase b => TBase b
  | TCon c l => TCon c (map (subst own nest) l)
  | TNamed o l => TNamed o (map (subst own nest) l)
  | TOwn i => nth i own (TOwn i)
  | TNestV i => nth i nest (TNestV i)
  | TFree i => TFree i
  end.

Definition opt_N_eqb (a b : option N) : bool :=
  match a, b with Some x, Some y => N.eqb x y | None, None => true | _, _ => false end.

(* ---- utils.go isGeneric(ignore, types): a type parameter is left, or a local type whose
   lazily substituted underlying type still mentions parameters that are not ignored *)
Fixpoint is_generic (p : prog) (ign : option N) (t : ty) : bool :=
  match t with
  | TBase _ => false
  | TCon _ l => existsb (is_generic p ign) l
  | TNamed o l => existsb (is_generic p ign) l
                  || (o_lazy (get_obj p o) && negb (opt_N_eqb ign (o_nest (get_obj p o))))
  | TOwn _ | TNestV _ | TFree _ => true
  end.

(* ---- InstanceSet / PackageInstanceSets: per package the discovery list and the cursor *)
Record iset := mkSet { s_vals : list inst; s_cur : nat }.
Definition state := list iset.           (* indexed by package number *)

Definition empty_set := mkSet [] 0.
Definition get_set (st : state) (k : nat) : iset := nth k st empty_set.

Fixpoint upd_set (st : state) (k : nat) (f : iset -> iset) : state :=
  match st, k with
  | [], _ => []
  | s :: r, O => f s :: r
  | s :: r, S k' => s :: upd_set r k' f
  end.

Definition mem_inst (i : inst) (l : list inst) : bool := existsb (inst_eqb i) l.

(* InstanceSet.Add for one instance *)
Definition add_one (p : prog) (st : state) (i : inst) : state :=
  let k := N.to_nat (o_pkg (get_obj p (i_obj i))) in
  if mem_inst i (s_vals (get_set st k)) then st
  else upd_set st k (fun s => mkSet (s_vals s ++ [i]) (s_cur s)).

(* visitor.addInstance after the isGeneric test: the instance, then the methods of a named type *)
Definition with_methods (p : prog) (i : inst) : list inst :=
  i :: map (fun m => mkInst m (i_targs i) (i_tnest i)) (o_methods (get_obj p (i_obj i))).

Definition add_inst (p : prog) (st : state) (i : inst) : state :=
  fold_left (add_one p) (with_methods p i) st.

(* the scanning context: None = seedVisitor (resolver nil), Some root = scanSignature/scanNamed *)
Definition ctx_own (c : option inst) : list ty := match c with Some r => i_targs r | None => [] end.
Definition ctx_nest (c : option inst) : list ty := match c with Some r => i_tnest r | None => [] end.

(* visitor.nestTParams (as the function owning them) and visitor.nestTArgs *)
Definition ctx_nest_fn (p : prog) (c : option inst) : option N :=
  match c with
  | None => None
  | Some r => match o_kind (get_obj p (i_obj r)) with
              | KFunc => Some (i_obj r)
              | KType => o_nest (get_obj p (i_obj r))
              end
  end.
Definition ctx_nest_args (p : prog) (c : option inst) : list ty :=
  match c with
  | None => []
  | Some r => match o_kind (get_obj p (i_obj r)) with
              | KFunc => i_targs r
              | KType => i_tnest r
              end
  end.

(* what one identifier contributes: visitIdent -> visitInstance / visitNestedType -> addInstance *)
Definition produced (p : prog) (c : option inst) (it : item) : option inst :=
  match it with
  | RInst t es nested =>
      let targs := map (subst (ctx_own c) (ctx_nest c)) es in
      let ign := if nested then ctx_nest_fn p c else None in
      let na := if nested then ctx_nest_args p c else [] in
      if existsb (is_generic p ign) targs then None else Some (mkInst t targs na)
  | RDef t =>
      match ctx_own c with
      | [] => None                       (* len(c.resolver.TypeArgs()) == 0 *)
      | own => Some (mkInst t [] own)
      end
  end.

Definition step (p : prog) (c : option inst) (st : state) (it : item) : state :=
  match produced p c it with
  | Some i => add_inst p st i
  | None => st
  end.

(* scanSignature / scanNamed: walk the declaration of the root's object *)
Definition scan (p : prog) (st : state) (root : inst) : state :=
  fold_left (step p (Some root)) (o_tmpl (get_obj p (i_obj root))) st.

(* Collector.propagate(pkg): process the package's set until its cursor reaches the end *)
Fixpoint propagate (p : prog) (fuel : nat) (k : nat) (st : state) : state :=
  match fuel with
  | O => st
  | S f =>
      let s := get_set st k in
      match nth_error (s_vals s) (s_cur s) with
      | None => st                                           (* exhausted *)
      | Some root =>
          let st1 := upd_set st k (fun s => mkSet (s_vals s) (S (s_cur s))) in   (* next() *)
          propagate p f k (scan p st1 root)
      end
  end.

(* Collector.Scan of all packages (non-generic code), in the order given by p_seed *)
Definition seed_state (p : prog) : state :=
  fold_left (step p None) (p_seed p) (repeat empty_set (p_npkg p)).

(* Collector.Finish: `for !allExhausted { for pkg := range map { propagate(pkg) } }`.
   The Go map is ranged in an unspecified order, so the sequence of package visits is a
   parameter; Finish returns exactly when all_exhausted holds. *)
Definition collect (p : prog) (fuel : nat) (sched : list nat) : state :=
  fold_left (fun st k => propagate p fuel k st) sched (seed_state p).

Definition exhausted (s : iset) : bool := length (s_vals s) <=? s_cur s.
Definition all_exhausted (st : state) : bool := forallb exhausted st.

Definition all_vals (st : state) : list inst := flat_map s_vals st.

(* InstanceSet.ID: position in the package's discovery list *)
Fixpoint index_of (i : inst) (l : list inst) : option nat :=
  match l with
  | [] => None
  | x :: r => if inst_eqb i x then Some O else option_map S (index_of i r)
  end.

Definition inst_id (p : prog) (st : state) (i : inst) : option nat :=
  index_of i (s_vals (get_set st (N.to_nat (o_pkg (get_obj p (i_obj i)))))).

(* round-robin schedule used by the evaluation entry points *)
Definition rounds (order : list nat) (n : nat) : list nat := concat (repeat order n).
