(* C13 — executable model of compiler/natives/src/sync/atomic/atomic.go for the integer types:
   every function is the plain sequential read-modify-write on one memory cell.
   Model only, no proofs.  A type is (width in bits, signed?). *)
From Coq Require Import ZArith List Bool.
Import ListNotations.
Local Open Scope Z_scope.

Record ity := { width : Z; signed : bool }.
Definition Int32 := {| width := 32; signed := true |}.
Definition Uint32 := {| width := 32; signed := false |}.
Definition Int64 := {| width := 64; signed := true |}.
Definition Uint64 := {| width := 64; signed := false |}.

(* Go's wrap-around arithmetic of the type *)
Definition wrap (t : ity) (x : Z) : Z :=
  let m := 2 ^ width t in
  if signed t then (x + m / 2) mod m - m / 2 else x mod m.

Definition in_range (t : ity) (x : Z) : Prop :=
  if signed t then - 2 ^ (width t - 1) <= x < 2 ^ (width t - 1) else 0 <= x < 2 ^ width t.

(* each function: cell -> args -> (new cell, result) *)
Definition swap (cell new : Z) : Z * Z := (new, cell).                                   (* old := *addr; *addr = new; return old *)
Definition cas (cell old new : Z) : Z * bool := if cell =? old then (new, true) else (cell, false).
Definition add (t : ity) (cell delta : Z) : Z * Z := let n := wrap t (cell + delta) in (n, n).   (* new := *addr + delta; *addr = new *)
Definition load (cell : Z) : Z * Z := (cell, cell).
Definition store (cell val : Z) : Z * unit := (val, tt).

(* the script the table program runs per case (AtomicInt32/Uint32/Int64/Uint64): returns the observed values *)
Definition script (t : ity) (a b c : Z) : list Z :=
  let v := a in
  let '(v, r_add) := add t v b in
  let after_add := v in
  let '(v, r_swap) := swap v c in
  let '(v, c1) := cas v c a in
  let '(v, c2) := cas v b 7 in
  let '(v, r_load) := load v in
  let '(v, _) := store v b in
  [r_add; after_add; r_swap; r_load; (if c1 then 1 else 0); (if c2 then 1 else 0); v].
