(* C12 — executable model of the overlay merge of build/build.go
   (augmentOverlayFile, augmentOriginalImports, augmentOriginalFile, pruneImports,
   finalizeRemovals, the glue of parseAndAugment) and of the helpers it uses from
   compiler/astutil (FuncKey, FuncReceiverKey, ImportName, the directive regexp,
   HasDirectivePrefix).  Model only — no proofs.  Tables that come from the source
   (nosync package list, keep-original prefix, directive-import table) are regenerated
   into Gen/C12_Tables.v on every run.

   Abstract syntax: a file is its list of top-level declarations.  Expressions, bodies and
   signatures are abstracted to an origin marker plus the list of import names they refer
   to through selector expressions with an unresolved base identifier (exactly what
   pruneImports looks at).  "set to nil, then finalizeRemovals/Squeeze" is modelled as
   direct removal; the [changed] flags mirror anyChange/declChanged of the code. *)
From Coq Require Import List String Ascii Bool NArith ZArith.
From Verif Require Import Gen.C12_Tables.
Import ListNotations.
Local Open Scope string_scope.

Definition comment := string.

Record recv := mkrecv { r_var : string; r_ptr : bool; r_ntp : N; r_type : string }.
(* a piece of syntax: origin marker + import names used in it *)
Record part := mkpart { p_mark : string; p_uses : list string }.

Record fdecl := mkf {
  f_name : string; f_recv : option recv; f_tps : option part; f_par : part;
  f_res : option part; f_body : option part; f_doc : list comment }.

Inductive vexpr :=
| VLit (n : Z)                    (* integer literal *)
| VIota (k : Z)                   (* iota + k *)
| VSel (imp fld : string)         (* imp.fld *)
| VCall (imp fn : string).        (* imp.fn() *)

Record ispec := mki { i_name : option string; i_path : string; i_doc : list comment; i_cmt : list comment }.
Record tspec := mkt { t_name : string; t_ntp : N; t_body : part; t_doc : list comment; t_cmt : list comment }.
Record vspec := mkv { v_names : list string; v_typ : bool; v_values : list vexpr;
                      v_doc : list comment; v_cmt : list comment }.
Inductive spec := SImport (i : ispec) | SType (t : tspec) | SValue (v : vspec).
Inductive tok := TImport | TType | TVar | TConst.
Record gdecl := mkg { g_tok : tok; g_paren : bool; g_doc : list comment; g_specs : list spec }.
Inductive decl := DFunc (f : fdecl) | DGen (g : gdecl).
Definition file := list decl.

(* ------------------------------------------------------------------ strings *)

Definition mem (s : string) (l : list string) : bool := existsb (String.eqb s) l.

Fixpoint prefix_of (p s : string) : bool :=
  match p, s with
  | EmptyString, _ => true
  | String a p', String b s' => Ascii.eqb a b && prefix_of p' s'
  | _, _ => false
  end.

Fixpoint drop_prefix (p s : string) : option string :=
  match p, s with
  | EmptyString, _ => Some s
  | String a p', String b s' => if Ascii.eqb a b then drop_prefix p' s' else None
  | _, _ => None
  end.

(* \w of Go's regexp (ASCII letters, digits, underscore) or '-' *)
Definition is_action_char (c : ascii) : bool :=
  let n := N_of_ascii c in
  ((48 <=? n) && (n <=? 57) || (65 <=? n) && (n <=? 90) || (97 <=? n) && (n <=? 122)
   || (n =? 95) || (n =? 45))%N.

Fixpoint take_action (s : string) : string :=
  match s with
  | String c s' => if is_action_char c then String c (take_action s') else EmptyString
  | EmptyString => EmptyString
  end.

(* astutil.directiveMatcher = ^\/(?:\/|\* )gopherjs:([\w-]+)  — the action of a comment *)
Definition directive_action (c : comment) : option string :=
  let rest := match drop_prefix "//gopherjs:" c with
              | Some r => Some r
              | None => drop_prefix "/*gopherjs:" c
              end in
  match rest with
  | Some r => match take_action r with EmptyString => None | a => Some a end
  | None => None
  end.

(* astutil.hasDirective over the comment groups directly attached to a node *)
Definition has_directive (cs : list comment) (action : string) : bool :=
  existsb (fun c => match directive_action c with Some a => String.eqb a action | None => false end) cs.

(* path.Base of an import path *)
Fixpoint strip_trailing_slashes_rev (r : list ascii) : list ascii :=
  match r with
  | c :: r' => if Ascii.eqb c "/" then strip_trailing_slashes_rev r' else r
  | [] => []
  end.
Fixpoint take_until_slash (r : list ascii) : list ascii :=
  match r with
  | c :: r' => if Ascii.eqb c "/" then [] else c :: take_until_slash r'
  | [] => []
  end.
Definition path_base (p : string) : string :=
  match list_ascii_of_string p with
  | [] => "."
  | l => match strip_trailing_slashes_rev (rev l) with
         | [] => "/"
         | r => string_of_list_ascii (rev (take_until_slash r))
         end
  end.

(* astutil.ImportName *)
Definition import_name (i : ispec) : string :=
  let n := match i_name i with Some n => n | None => path_base (i_path i) end in
  if String.eqb n "_" || String.eqb n "." || String.eqb n "/" then "" else n.

(* astutil.FuncReceiverKey / FuncKey *)
Definition func_receiver_key (f : fdecl) : string :=
  match f_recv f with Some r => r_type r | None => "" end.
Definition func_key (f : fdecl) : string :=
  let rk := func_receiver_key f in
  if String.eqb rk "" then f_name f else rk ++ "." ++ f_name f.

(* ------------------------------------------------------------------ overrides *)

Record oinfo := mko { o_keep : bool; o_purge : bool; o_sig : option fdecl }.
Definition overrides := list (string * oinfo).

Fixpoint lookup {A} (k : string) (m : list (string * A)) : option A :=
  match m with
  | [] => None
  | (k', v) :: m' => if String.eqb k k' then Some v else lookup k m'
  end.
Fixpoint set {A} (k : string) (v : A) (m : list (string * A)) : list (string * A) :=
  match m with
  | [] => [(k, v)]
  | (k', v') :: m' => if String.eqb k k' then (k, v) :: m' else (k', v') :: set k v m'
  end.
Fixpoint remove_key {A} (k : string) (m : list (string * A)) : list (string * A) :=
  match m with
  | [] => []
  | (k', v') :: m' => if String.eqb k k' then remove_key k m' else (k', v') :: remove_key k m'
  end.
Definition has_key {A} (k : string) (m : list (string * A)) : bool :=
  match lookup k m with Some _ => true | None => false end.

Definition plain : oinfo := mko false false None.

(* ------------------------------------------------------------------ imports *)

Definition spec_comments (s : spec) : list comment :=
  match s with
  | SImport i => i_doc i ++ i_cmt i
  | SType t => t_doc t ++ t_cmt t
  | SValue v => v_doc v ++ v_cmt v
  end.

Definition opt_uses (p : option part) : list string := match p with Some p => p_uses p | None => [] end.
Definition vexpr_uses (e : vexpr) : list string :=
  match e with VSel i _ => [i] | VCall i _ => [i] | _ => [] end.
Definition spec_uses (s : spec) : list string :=
  match s with
  | SImport _ => []
  | SType t => p_uses (t_body t)
  | SValue v => flat_map vexpr_uses (v_values v)
  end.
Definition decl_uses (d : decl) : list string :=
  match d with
  | DFunc f => opt_uses (f_tps f) ++ p_uses (f_par f) ++ opt_uses (f_res f) ++ opt_uses (f_body f)
  | DGen g => flat_map spec_uses (g_specs g)
  end.
Definition file_uses (f : file) : list string := flat_map decl_uses f.

(* comments that are still attached to a node (what file.Comments holds after finalizeRemovals) *)
Definition decl_comments (d : decl) : list comment :=
  match d with
  | DFunc f => f_doc f
  | DGen g => g_doc g ++ flat_map spec_comments (g_specs g)
  end.
Definition has_directive_prefix (f : file) (p : string) : bool :=
  existsb (prefix_of p) (flat_map decl_comments f).

Definition is_import_decl (d : decl) : bool :=
  match d with DGen g => match g_tok g with TImport => true | _ => false end | _ => false end.
Definition is_only_imports (f : file) : bool := forallb is_import_decl f.

Definition spec_imports (s : spec) : list ispec := match s with SImport i => [i] | _ => [] end.
Definition decl_imports (d : decl) : list ispec :=
  match d with DGen g => flat_map spec_imports (g_specs g) | _ => [] end.
(* file.Imports *)
Definition file_imports (f : file) : list ispec := flat_map decl_imports f.

(* what pruneImports decides for one import spec *)
Inductive iaction := IKeep | IBlank | IDrop.

(* the [unused] map of pruneImports: name -> index, a later import of the same name replaces the entry *)
Fixpoint unused_map (idx : nat) (is : list ispec) (m : list (string * nat)) : list (string * nat) :=
  match is with
  | [] => m
  | i :: r => let n := import_name i in
              unused_map (S idx) r (if String.eqb n "" then m else set n idx m)
  end.

Definition directive_required (f : file) (i : ispec) : bool :=
  match lookup (i_path i) directive_imports with
  | Some pre => has_directive_prefix f pre
  | None => false
  end.

Definition index_in (idx : nat) (m : list (string * nat)) : bool :=
  existsb (fun '(_, j) => Nat.eqb idx j) m.

(* apply per-import actions (by index into file.Imports); an import declaration that lost
   a spec and became empty disappears (finalizeRemovals) *)
Fixpoint apply_specs (act : nat -> iaction) (idx : nat) (ss : list spec) : list spec * bool * nat :=
  match ss with
  | [] => ([], false, idx)
  | SImport i :: r =>
      let '(r', ch, n) := apply_specs act (S idx) r in
      match act idx with
      | IKeep => (SImport i :: r', ch, n)
      | IBlank => (SImport (mki (Some "_") (i_path i) (i_doc i) (i_cmt i)) :: r', ch, n)
      | IDrop => (r', true, n)
      end
  | s :: r => let '(r', ch, n) := apply_specs act idx r in (s :: r', ch, n)
  end.
Fixpoint apply_imports (act : nat -> iaction) (idx : nat) (f : file) : file :=
  match f with
  | [] => []
  | DGen g :: r =>
      let '(ss, ch, n) := apply_specs act idx (g_specs g) in
      let r' := apply_imports act n r in
      if ch && (match ss with [] => true | _ => false end) then r'
      else DGen (mkg (g_tok g) (g_paren g) (g_doc g) ss) :: r'
  | d :: r => d :: apply_imports act idx r
  end.

(* build.pruneImports *)
Definition prune_imports (f : file) : file :=
  if is_only_imports f && negb (has_directive_prefix f linkname_prefix) then []
  else
    let imps := file_imports f in
    let used := file_uses f in
    let unused := filter (fun '(n, _) => negb (mem n used)) (unused_map 0 imps []) in
    let act (idx : nat) : iaction :=
      if index_in idx unused then
        match nth_error imps idx with
        | Some i => if directive_required f i then IBlank else IDrop
        | None => IKeep
        end
      else IKeep in
    match unused with
    | [] => f
    | _ => apply_imports act 0 f
    end.

(* build.augmentOriginalImports *)
Definition nosync_spec (s : spec) : spec :=
  match s with
  | SImport i =>
      if String.eqb (i_path i) "sync"
      then SImport (mki (match i_name i with None => Some "sync" | n => n end) nosync_path (i_doc i) (i_cmt i))
      else s
  | _ => s
  end.
Definition nosync_decl (d : decl) : decl :=
  match d with
  | DGen g => DGen (mkg (g_tok g) (g_paren g) (g_doc g) (map nosync_spec (g_specs g)))
  | _ => d
  end.
Definition augment_original_imports (import_path : string) (f : file) : file :=
  if mem import_path nosync_pkgs then map nosync_decl f else f.

(* ------------------------------------------------------------------ overlay scan *)

(* one spec of an overlay GenDecl: updated overrides, whether it is purged *)
Definition scan_spec (purge_decl : bool) (s : spec) (ov : overrides) : overrides * bool :=
  let purge_spec := purge_decl || has_directive (spec_comments s) action_purge in
  let ov' := match s with
             | SType t => set (t_name t) (mko false purge_spec None) ov
             | SValue v => fold_left (fun m n => set n plain m) (v_names v) ov
             | SImport _ => ov
             end in
  (ov', purge_spec).

Fixpoint scan_specs (purge_decl : bool) (ss : list spec) (ov : overrides) : list spec * overrides * bool :=
  match ss with
  | [] => ([], ov, false)
  | s :: r =>
      let '(ov1, purged) := scan_spec purge_decl s ov in
      let '(r', ov2, ch) := scan_specs purge_decl r ov1 in
      if purged then (r', ov2, true) else (s :: r', ov2, ch)
  end.

Definition scan_decl (d : decl) (ov : overrides) : option decl * overrides * bool :=
  match d with
  | DFunc f =>
      let osig := has_directive (f_doc f) action_sig in
      let purge_decl := has_directive (f_doc f) action_purge || osig in
      let oi := mko (has_directive (f_doc f) action_keep) false (if osig then Some f else None) in
      (if purge_decl then None else Some d, set (func_key f) oi ov, purge_decl)
  | DGen g =>
      let purge_decl := has_directive (g_doc g) action_purge in
      let '(ss, ov', ch) := scan_specs purge_decl (g_specs g) ov in
      let gone := purge_decl || (ch && match ss with [] => true | _ => false end) in
      (if gone then None else Some (DGen (mkg (g_tok g) (g_paren g) (g_doc g) ss)), ov', purge_decl || ch)
  end.

Fixpoint scan_decls (ds : list decl) (ov : overrides) : list decl * overrides * bool :=
  match ds with
  | [] => ([], ov, false)
  | d :: r =>
      let '(od, ov1, ch1) := scan_decl d ov in
      let '(r', ov2, ch2) := scan_decls r ov1 in
      (match od with Some d' => d' :: r' | None => r' end, ov2, ch1 || ch2)
  end.

(* build.augmentOverlayFile *)
Definition scan_overlay_file (f : file) (ov : overrides) : file * overrides :=
  let '(ds, ov', ch) := scan_decls f ov in
  (if ch then prune_imports ds else ds, ov').

Fixpoint scan_overlay (fs : list file) (ov : overrides) : list file * overrides :=
  match fs with
  | [] => ([], ov)
  | f :: r => let '(f', ov1) := scan_overlay_file f ov in
              let '(r', ov2) := scan_overlay r ov1 in (f' :: r', ov2)
  end.

(* ------------------------------------------------------------------ rewrite of the originals *)

Definition rename_keep (f : fdecl) : fdecl :=
  mkf (keep_prefix ++ f_name f) (f_recv f) (f_tps f) (f_par f) (f_res f) (f_body f) (f_doc f).
(* d.Recv, d.Type.TypeParams, d.Type.Params, d.Type.Results come from the overlay declaration *)
Definition transplant (sg f : fdecl) : fdecl :=
  mkf (f_name f) (f_recv sg) (f_tps sg) (f_par sg) (f_res sg) (f_body f) (f_doc f).

Definition rewrite_func (ov : overrides) (f : fdecl) : option fdecl * bool :=
  match lookup (func_key f) ov with
  | Some info =>
      let f1 := if o_keep info then rename_keep f else f in
      let f2 := match o_sig info with Some sg => transplant sg f1 | None => f1 end in
      (if o_keep info || (match o_sig info with Some _ => true | None => false end) then Some f2 else None, true)
  | None =>
      let rk := func_receiver_key f in
      if negb (String.eqb rk "") && (match lookup rk ov with Some info => o_purge info | None => false end)
      then (None, true) else (Some f, false)
  end.

(* names and values of a multi-value spec (len names = len values) that survive *)
Fixpoint filter_pairs (ov : overrides) (ns : list string) (vs : list vexpr) : list string * list vexpr :=
  match ns, vs with
  | n :: ns', v :: vs' =>
      let '(a, b) := filter_pairs ov ns' vs' in
      if has_key n ov then (a, b) else (n :: a, v :: b)
  | _, _ => ([], [])
  end.

Definition blank_names (ov : overrides) (ns : list string) : list string :=
  map (fun n => if has_key n ov then "_" else n) ns.

(* one ValueSpec of an original file: result (None = spec removed), anyChange.
   [cb] selects the variant of the code: false = every ValueSpec is treated alike (the code as
   first verified: known finding const-group-iota-shift-on-override); true = inside a
   parenthesised const group overridden names are blanked and nothing is removed
   (the repair `if d.Tok == token.CONST && d.Lparen.IsValid()`).  [grp] = the spec sits in
   such a group.  Gen.C12_Tables.const_group_blanking says which variant the tree has. *)
Definition rewrite_vspec (cb grp : bool) (ov : overrides) (v : vspec) : option vspec * bool :=
  if cb && grp then (Some (mkv (blank_names ov (v_names v)) (v_typ v) (v_values v) (v_doc v) (v_cmt v)), false)
  else if Nat.eqb (List.length (v_names v)) (List.length (v_values v)) then
    let '(ns, vs) := filter_pairs ov (v_names v) (v_values v) in
    let ch := existsb (fun n => has_key n ov) (v_names v) in
    (match ns with
     | [] => if ch then None else Some v
     | _ => Some (mkv ns (v_typ v) vs (v_doc v) (v_cmt v))
     end, ch)
  else
    let name_removed := existsb (fun n => has_key n ov) (v_names v) in
    let ns := blank_names ov (v_names v) in
    if name_removed && forallb (String.eqb "_") ns then (None, true)
    else (Some (mkv ns (v_typ v) (v_values v) (v_doc v) (v_cmt v)), false).

(* specs of one GenDecl: surviving specs, anyChange, declChanged (a spec disappeared) *)
Fixpoint rewrite_specs (cb grp : bool) (ov : overrides) (ss : list spec) : list spec * bool * bool :=
  match ss with
  | [] => ([], false, false)
  | s :: r =>
      let '(r', ch, dch) := rewrite_specs cb grp ov r in
      match s with
      | SType t => if has_key (t_name t) ov then (r', true, true) else (s :: r', ch, dch)
      | SValue v =>
          match rewrite_vspec cb grp ov v with
          | (Some v', c) => (SValue v' :: r', c || ch, dch)
          | (None, c) => (r', true, true)
          end
      | SImport _ => (s :: r', ch, dch)
      end
  end.

Definition is_const_group (g : gdecl) : bool :=
  match g_tok g with TConst => g_paren g | _ => false end.

Definition rewrite_decl (cb : bool) (ov : overrides) (d : decl) : option decl * bool :=
  match d with
  | DFunc f => match rewrite_func ov f with (Some f', c) => (Some (DFunc f'), c) | (None, c) => (None, c) end
  | DGen g =>
      let '(ss, ch, dch) := rewrite_specs cb (is_const_group g) ov (g_specs g) in
      if dch && (match ss with [] => true | _ => false end) then (None, true)
      else (Some (DGen (mkg (g_tok g) (g_paren g) (g_doc g) ss)), ch)
  end.

Fixpoint rewrite_decls (cb : bool) (ov : overrides) (ds : list decl) : list decl * bool :=
  match ds with
  | [] => ([], false)
  | d :: r =>
      let '(od, c1) := rewrite_decl cb ov d in
      let '(r', c2) := rewrite_decls cb ov r in
      (match od with Some d' => d' :: r' | None => r' end, c1 || c2)
  end.

(* build.augmentOriginalFile *)
Definition rewrite_original_file (cb : bool) (ov : overrides) (f : file) : file :=
  let '(ds, ch) := rewrite_decls cb ov f in
  if ch then prune_imports ds else ds.

(* the glue of build.parseAndAugment *)
Definition merge (cb : bool) (import_path : string) (ovs origs : list file) : overrides * list file * list file :=
  let '(ovs', ov0) := scan_overlay ovs [] in
  let ov := remove_key "init" ov0 in
  let origs1 := map (augment_original_imports import_path) origs in
  let origs2 := match ov with [] => origs1 | _ => map (rewrite_original_file cb ov) origs1 end in
  (ov, ovs', origs2).

(* ------------------------------------------------------------------ constant values
   Go's rules for a constant declaration group: iota is the index of the ConstSpec inside
   its parenthesised group; a ConstSpec without expressions repeats the expression list of
   the closest preceding one that has expressions.  The synthetic imported packages of the
   check define the constant X = 7. *)

Definition eval_vexpr (iota : Z) (e : vexpr) : option Z :=
  match e with
  | VLit n => Some n
  | VIota k => Some (iota + k)%Z
  | VSel _ fld => if String.eqb fld "X" then Some 7%Z else None
  | VCall _ _ => None
  end.

Fixpoint zip_consts (iota : Z) (ns : list string) (vs : list vexpr) : list (string * option Z) :=
  match ns, vs with
  | [], _ => []
  | n :: ns', v :: vs' => (n, eval_vexpr iota v) :: zip_consts iota ns' vs'
  | n :: ns', [] => (n, None) :: zip_consts iota ns' []
  end.

Fixpoint const_specs (iota : Z) (prev : list vexpr) (ss : list spec) : list (string * option Z) :=
  match ss with
  | [] => []
  | SValue v :: r =>
      let vals := match v_values v with [] => prev | vs => vs end in
      zip_consts iota (v_names v) vals ++ const_specs (iota + 1) vals r
  | _ :: r => const_specs iota prev r    (* cannot occur inside a constant declaration *)
  end.

Definition decl_consts (d : decl) : list (string * option Z) :=
  match d with
  | DGen g => match g_tok g with TConst => const_specs 0 [] (g_specs g) | _ => [] end
  | _ => []
  end.
Definition is_blank (p : string * option Z) : bool := String.eqb (fst p) "_".
(* the constants a file declares, with their values (None: not a valid constant declaration) *)
Definition file_consts (f : file) : list (string * option Z) :=
  filter (fun p => negb (is_blank p)) (flat_map decl_consts f).
