(* C01 — MiniJS: the JavaScript subset the code generator emits for the MiniGo fragment,
   and a fuel-indexed interpreter for it (no proofs here).
   Numbers: integers are [Z] (-0 is identified with 0); `/` may produce a non-integer
   (JFrac), an infinity or NaN, which only ToInt32/ToUint32, === and !== consume.
   + - * are exact below 2^53 (the interpreter is stuck above, the theorems show it never is). *)
From Coq Require Import ZArith List String Bool.
From Verif Require Import Model.C01_GoSem.
Import ListNotations.
Local Open Scope Z_scope.

Inductive jval := JI (z : Z) | JB (b : bool) | JFrac (a b : Z) | JPInf | JNInf | JNaN.

Inductive jbin := JAdd | JSub | JMul | JDiv | JMod | JShl | JShr | JUshr | JBand | JBor | JBxor
                | JLt | JLe | JGt | JGe | JSeq | JSne.
Inductive jun := JNeg | JBnot | JNot.

Inductive jexpr :=
| JNum (z : Z)
| JBoolE (b : bool)
| JVar (n : name)
| JBin (op : jbin) (a b : jexpr)
| JUn (op : jun) (a : jexpr)
| JAsg (n : name) (e : jexpr)              (* n = e *)
| JComma (a b : jexpr)
| JCond (c a b : jexpr)
| JAnd (a b : jexpr) | JOr (a b : jexpr)
| JImul (a b : jexpr)                      (* $imul(a, b) = Math.imul *)
| JMin (a b : jexpr)                       (* $min(a, b)  = Math.min *)
| JThrowE (msg : string).                  (* $throwRuntimeError("msg") *)

Inductive jstmt :=
| JSExpr (e : jexpr)
| JSLog (args : list jexpr)                (* console.log(args) *)
| JSIf (c : jexpr) (t : list jstmt) (e : jelse)
| JSWhile (l : option string) (body : list jstmt)      (* [l:] while (true) { body } *)
| JSBreak (l : option string)
| JSContinue (l : option string)
with jelse :=
| JNoElse
| JElse (b : list jstmt)
| JElif (s : jstmt).

Record jprog := { jp_vars : list name; jp_body : list jstmt }.

(* ---------------------------------------------------------------- operators *)
Definition to_int32 (v : jval) : option Z :=
  match v with
  | JI z => Some (smod 32 z)
  | JFrac a b => Some (smod 32 (Z.quot a b))
  | JPInf | JNInf | JNaN => Some 0
  | JB _ => None
  end.
Definition to_uint32 (v : jval) : option Z :=
  match to_int32 v with Some z => Some (umod 32 z) | None => None end.

Definition exact (z : Z) : option jval := if Z.abs z <=? 2 ^ 53 then Some (JI z) else None.

Definition js_div (a b : Z) : jval :=
  if b =? 0 then (if 0 <? a then JPInf else if a <? 0 then JNInf else JNaN)
  else if a mod b =? 0 then JI (a / b) else JFrac a b.

Definition js_seq (a b : jval) : bool :=
  match a, b with
  | JI x, JI y => x =? y
  | JB x, JB y => Bool.eqb x y
  | JFrac p q, JFrac r s => p * s =? r * q
  | JPInf, JPInf | JNInf, JNInf => true
  | _, _ => false
  end.

Definition js_bin (op : jbin) (a b : jval) : option jval :=
  match op with
  | JAdd => match a, b with JI x, JI y => exact (x + y) | _, _ => None end
  | JSub => match a, b with JI x, JI y => exact (x - y) | _, _ => None end
  | JMul => match a, b with JI x, JI y => exact (x * y) | _, _ => None end
  | JDiv => match a, b with JI x, JI y => Some (js_div x y) | _, _ => None end
  | JMod => match a, b with JI x, JI y => Some (if y =? 0 then JNaN else JI (Z.rem x y)) | _, _ => None end
  | JShl => match to_int32 a, to_uint32 b with
            | Some x, Some c => Some (JI (smod 32 (x * 2 ^ (c mod 32)))) | _, _ => None end
  | JShr => match to_int32 a, to_uint32 b with
            | Some x, Some c => Some (JI (x / 2 ^ (c mod 32))) | _, _ => None end
  | JUshr => match to_uint32 a, to_uint32 b with
             | Some x, Some c => Some (JI (x / 2 ^ (c mod 32))) | _, _ => None end
  | JBand => match to_int32 a, to_int32 b with Some x, Some y => Some (JI (Z.land x y)) | _, _ => None end
  | JBor => match to_int32 a, to_int32 b with Some x, Some y => Some (JI (Z.lor x y)) | _, _ => None end
  | JBxor => match to_int32 a, to_int32 b with Some x, Some y => Some (JI (Z.lxor x y)) | _, _ => None end
  | JLt => match a, b with JI x, JI y => Some (JB (x <? y)) | _, _ => None end
  | JLe => match a, b with JI x, JI y => Some (JB (x <=? y)) | _, _ => None end
  | JGt => match a, b with JI x, JI y => Some (JB (x >? y)) | _, _ => None end
  | JGe => match a, b with JI x, JI y => Some (JB (x >=? y)) | _, _ => None end
  | JSeq => Some (JB (js_seq a b))
  | JSne => Some (JB (negb (js_seq a b)))
  end.

Definition js_un (op : jun) (a : jval) : option jval :=
  match op with
  | JNeg => match a with JI x => Some (JI (- x)) | _ => None end
  | JBnot => match to_int32 a with Some x => Some (JI (Z.lnot x)) | None => None end
  | JNot => match a with JB b => Some (JB (negb b)) | _ => None end
  end.

(* ---------------------------------------------------------------- expressions *)
Inductive jres := JOk (v : jval) (s : store jval) | JThrow | JStuck.

Fixpoint jeval (s : store jval) (e : jexpr) : jres :=
  match e with
  | JNum z => JOk (JI z) s
  | JBoolE b => JOk (JB b) s
  | JVar n => match get s n with Some v => JOk v s | None => JStuck end
  | JBin op a b =>
      match jeval s a with
      | JOk va s1 =>
          match jeval s1 b with
          | JOk vb s2 => match js_bin op va vb with Some v => JOk v s2 | None => JStuck end
          | r => r
          end
      | r => r
      end
  | JUn op a =>
      match jeval s a with
      | JOk va s1 => match js_un op va with Some v => JOk v s1 | None => JStuck end
      | r => r
      end
  | JAsg n e =>
      match jeval s e with JOk v s1 => JOk v (set s1 n v) | r => r end
  | JComma a b =>
      match jeval s a with JOk _ s1 => jeval s1 b | r => r end
  | JCond c a b =>
      match jeval s c with
      | JOk (JB true) s1 => jeval s1 a
      | JOk (JB false) s1 => jeval s1 b
      | JOk _ _ => JStuck
      | r => r
      end
  | JAnd a b =>
      match jeval s a with
      | JOk (JB true) s1 => jeval s1 b
      | JOk (JB false) s1 => JOk (JB false) s1
      | JOk _ _ => JStuck
      | r => r
      end
  | JOr a b =>
      match jeval s a with
      | JOk (JB false) s1 => jeval s1 b
      | JOk (JB true) s1 => JOk (JB true) s1
      | JOk _ _ => JStuck
      | r => r
      end
  | JImul a b =>
      match jeval s a with
      | JOk va s1 =>
          match jeval s1 b with
          | JOk vb s2 => match to_int32 va, to_int32 vb with
                         | Some x, Some y => JOk (JI (smod 32 (x * y))) s2
                         | _, _ => JStuck
                         end
          | r => r
          end
      | r => r
      end
  | JMin a b =>
      match jeval s a with
      | JOk va s1 =>
          match jeval s1 b with
          | JOk vb s2 => match va, vb with JI x, JI y => JOk (JI (Z.min x y)) s2 | _, _ => JStuck end
          | r => r
          end
      | r => r
      end
  | JThrowE _ => JThrow
  end.

(* ---------------------------------------------------------------- statements *)
(* what console.log prints for the values of the fragment, as the Go-side [val] *)
Definition printable (v : jval) : option val :=
  match v with JI z => Some (VI z) | JB b => Some (VB b) | _ => None end.

Fixpoint jeval_list (s : store jval) (es : list jexpr) : option (list val * store jval) + jres :=
  match es with
  | [] => inl (Some ([], s))
  | e :: r =>
      match jeval s e with
      | JOk v s1 =>
          match printable v with
          | Some pv => match jeval_list s1 r with
                       | inl (Some (vs, s2)) => inl (Some (pv :: vs, s2))
                       | o => o
                       end
          | None => inl None
          end
      | o => inr o
      end
  end.

Section ExecList.
  Variable ex : jstmt -> store jval -> sres (store jval).
  Fixpoint exec_list (l : list jstmt) (s : store jval) {struct l} : sres (store jval) :=
    match l with
    | [] => ROk SNormal s []
    | a :: r => match ex a s with
                | ROk SNormal s1 o1 => prepend o1 (exec_list r s1)
                | q => q
                end
    end.
End ExecList.

Fixpoint jexec (fuel : nat) : jstmt -> store jval -> sres (store jval) :=
  fix ex (st : jstmt) (s : store jval) {struct st} : sres (store jval) :=
    match st with
    | JSExpr e => match jeval s e with
                  | JOk _ s1 => ROk SNormal s1 []
                  | JThrow => RPanic []
                  | JStuck => RStuck
                  end
    | JSLog args => match jeval_list s args with
                    | inl (Some (vs, s1)) => ROk SNormal s1 [vs]
                    | inl None => RStuck
                    | inr JThrow => RPanic []
                    | inr _ => RStuck
                    end
    | JSIf c t e =>
        match jeval s c with
        | JOk (JB true) s1 => exec_list ex t s1
        | JOk (JB false) s1 =>
            match e with
            | JNoElse => ROk SNormal s1 []
            | JElse b => exec_list ex b s1
            | JElif i => ex i s1
            end
        | JOk _ _ => RStuck
        | JThrow => RPanic []
        | JStuck => RStuck
        end
    | JSWhile l body =>
        match exec_list ex body s with
        | ROk g s1 o1 =>
            match g with
            | SBrk t => if catches l t then ROk SNormal s1 o1 else ROk g s1 o1
            | _ =>
                if match g with SCont t => catches l t | _ => true end then
                  match fuel with
                  | O => ROOF
                  | S f => prepend o1 (jexec f (JSWhile l body) s1)
                  end
                else ROk g s1 o1
            end
        | r => r
        end
    | JSBreak l => ROk (SBrk l) s []
    | JSContinue l => ROk (SCont l) s []
    end.

Definition jexec_list (fuel : nat) : list jstmt -> store jval -> sres (store jval) := exec_list (jexec fuel).

Definition run_js (fuel : nat) (p : jprog) : outcome := outcome_of (jexec_list fuel (jp_body p) []).

(* "use strict": every identifier read or assigned must be declared in the var list *)
Fixpoint jexpr_names (e : jexpr) : list name :=
  match e with
  | JNum _ | JBoolE _ | JThrowE _ => []
  | JVar n => [n]
  | JBin _ a b | JComma a b | JAnd a b | JOr a b | JImul a b | JMin a b => jexpr_names a ++ jexpr_names b
  | JUn _ a => jexpr_names a
  | JAsg n e => n :: jexpr_names e
  | JCond c a b => jexpr_names c ++ jexpr_names a ++ jexpr_names b
  end.

Fixpoint jstmt_names (s : jstmt) : list name :=
  let l := fix l (ss : list jstmt) : list name :=
    match ss with [] => [] | a :: r => jstmt_names a ++ l r end in
  match s with
  | JSExpr e => jexpr_names e
  | JSLog args => flat_map jexpr_names args
  | JSIf c t e => jexpr_names c ++ l t ++
                  match e with JNoElse => [] | JElse b => l b | JElif i => jstmt_names i end
  | JSWhile _ b => l b
  | JSBreak _ | JSContinue _ => []
  end.

Definition closedb (p : jprog) : bool :=
  forallb (fun n => existsb (name_eqb n) (jp_vars p)) (flat_map jstmt_names (jp_body p)).
