(* C18 — executable model of source-file selection in GopherJS.
   Model only, no proofs (so that it still evaluates when a proof breaks).

   Mirrors, branch by branch:
     build/context.go        DefaultEnv, goCtx, applyPreloadTweaks, isStd,
                             isDefinitelyNotStdImportPath, simpleCtx.Import
     compiler/incjs/file.go  FromDir / fromFileInfo / isIncJS
     go/build (GOROOT)       matchTag, goodOSArchFile, matchFile, shouldBuild,
                             the per-file part of Context.Import, NoGoError
     go/build/constraint     Expr.Eval and the meaning of a "// +build" line
   All concrete constants (tags, GOOS/GOARCH, compiler, versions, known OS /
   arch lists, extensions) come from Gen/C18_BuildEnv.v, which is regenerated
   from the sources on every run.

   Not modelled (inputs are generated in well-formed shape only): the text
   parsers of go/build (constraint syntax, header scanning, import scanning);
   a file is given by its name plus the already-parsed header. *)
From Coq Require Import List String Ascii Bool Arith.
From Coq Require DecimalString.
From Verif Require Import Gen.C18_BuildEnv.
Import ListNotations.
Local Open Scope string_scope.

(* ---- strings --------------------------------------------------------- *)

Definition mem (x : string) (l : list string) : bool := existsb (String.eqb x) l.

(* strings.HasSuffix *)
Fixpoint has_suffix (suf s : string) : bool :=
  (s =? suf) || match s with EmptyString => false | String _ r => has_suffix suf r end.

(* strings.HasPrefix *)
Definition has_prefix (p s : string) : bool := String.prefix p s.

(* name, _, _ = strings.Cut(name, ".") *)
Fixpoint cut_dot (s : string) : string :=
  match s with
  | EmptyString => EmptyString
  | String c r => if Ascii.eqb c "." then EmptyString else String c (cut_dot r)
  end.

(* name[strings.Index(name, "_"):], None when there is no "_" *)
Fixpoint from_first_us (s : string) : option string :=
  match s with
  | EmptyString => None
  | String c r => if Ascii.eqb c "_" then Some s else from_first_us r
  end.

(* strings.Split(s, sep) for a one-character separator *)
Fixpoint split_on (sep : ascii) (s : string) : list string :=
  match s with
  | EmptyString => [EmptyString]
  | String c r =>
      if Ascii.eqb c sep then EmptyString :: split_on sep r
      else match split_on sep r with
           | h :: t => String c h :: t
           | [] => [String c EmptyString]
           end
  end.

(* name[strings.LastIndex(name, "."):], "" when there is no "." *)
Fixpoint ext_of (s : string) : string :=
  match s with
  | EmptyString => EmptyString
  | String c r =>
      match ext_of r with
      | EmptyString => if Ascii.eqb c "." then s else EmptyString
      | e => e
      end
  end.

Fixpoint contains_char (c : ascii) (s : string) : bool :=
  match s with
  | EmptyString => false
  | String d r => Ascii.eqb c d || contains_char c r
  end.

(* ---- constraint expressions (go/build/constraint) --------------------- *)

Inductive cexpr :=
| Tag (t : string)
| Not (e : cexpr)
| And (a b : cexpr)
| Or (a b : cexpr).

Fixpoint eval (sat : string -> bool) (e : cexpr) : bool :=
  match e with
  | Tag t => sat t
  | Not a => negb (eval sat a)
  | And a b => eval sat a && eval sat b
  | Or a b => eval sat a || eval sat b
  end.

(* one "// +build" line: options separated by spaces are OR-ed, the terms of
   an option separated by commas are AND-ed, a term is tag or !tag.
   A line without options parses to the tag "ignore". *)
Definition pterm := (bool * string)%type.          (* (negated, tag) *)
Definition pline := list (list pterm).

Definition pterm_ok (sat : string -> bool) (t : pterm) : bool :=
  if fst t then negb (sat (snd t)) else sat (snd t).

Definition pline_ok (sat : string -> bool) (l : pline) : bool :=
  match l with
  | [] => sat "ignore"
  | _ => existsb (fun opt => forallb (pterm_ok sat) opt) l
  end.

(* ---- the constraint environment: go/build.Context ---------------------- *)

Record env := {
  e_goos : string; e_goarch : string; e_compiler : string; e_cgo : bool;
  e_build_tags : list string; e_tool_tags : list string; e_release_tags : list string
}.

(* go/build matchTag *)
Definition match_tag (e : env) (name : string) : bool :=
  if e_cgo e && (name =? "cgo") then true
  else if (name =? e_goos e) || (name =? e_goarch e) || (name =? e_compiler e) then true
  else if (e_goos e =? "android") && (name =? "linux") then true
  else if (e_goos e =? "illumos") && (name =? "solaris") then true
  else if (e_goos e =? "ios") && (name =? "darwin") then true
  else if (name =? "unix") && mem (e_goos e) unix_os then true
  else
    let name := if name =? "boringcrypto" then "goexperiment.boringcrypto" else name in
    mem name (e_build_tags e) || mem name (e_tool_tags e) || mem name (e_release_tags e).

(* go1.k *)
Definition go_tag (k : nat) : string := "go1." ++ DecimalString.NilEmpty.string_of_uint (Nat.to_uint k).

(* build.Default.ReleaseTags of the Go toolchain (minor version m) that
   compiled gopherjs: go1.1 ... go1.m *)
Definition toolchain_release_tags (m : nat) : list string := map go_tag (seq 1 m).

(* l[lo:hi]; None = run-time panic (bounds).  (Go allows hi up to cap(l); the
   model treats hi > len(l) as out of range.) *)
Definition slice {A} (l : list A) (lo hi : nat) : option (list A) :=
  if Nat.leb lo hi && Nat.leb hi (List.length l) then Some (firstn (hi - lo) (skipn lo l)) else None.

(* what the process environment and the command line provide *)
Record config := {
  c_env_goos : string;           (* $GOOS, "" = unset *)
  c_env_goarch : string;         (* $GOARCH, "" = unset *)
  c_user_tags : list string;     (* --tags *)
  c_toolchain : nat              (* len(build.Default.ReleaseTags) *)
}.

(* build.DefaultEnv *)
Definition env_goos (c : config) : string := if c_env_goos c =? "" then default_goos else c_env_goos c.
Definition env_goarch (c : config) : string := if c_env_goarch c =? "" then default_goarch else c_env_goarch c.

(* build.goCtx(e).bctx as created by NewBuildContext(installSuffix, tags) *)
Definition go_ctx (c : config) : option env :=
  match (if release_truncated
         then slice (toolchain_release_tags (c_toolchain c)) release_lo release_hi
         else Some (toolchain_release_tags (c_toolchain c))) with
  | None => None
  | Some rel =>
      Some {| e_goos := env_goos c; e_goarch := env_goarch c;
              e_compiler := compiler; e_cgo := cgo_enabled;
              e_build_tags := (if user_tags_used then c_user_tags c else []) ++
                              (if default_tags_used then default_build_tags else []);
              e_tool_tags := tool_tags;
              e_release_tags := rel |}
  end.

(* isDefinitelyNotStdImportPath *)
Definition is_local_import (p : string) : bool :=
  (p =? ".") || (p =? "..") || has_prefix "./" p || has_prefix "../" p.

Fixpoint first_element (p : string) : string :=
  match p with
  | EmptyString => EmptyString
  | String c r => if Ascii.eqb c "/" then EmptyString else String c (first_element r)
  end.

Definition definitely_not_std (p : string) : bool :=
  (p =? "") || is_local_import p || contains_char "." (first_element p).

(* simpleCtx.isStd; [in_goroot] is what bctx.Import(path, srcDir, FindOnly)
   reports as pkg.Goroot (false when the lookup fails) *)
Definition is_std (import_path : string) (in_goroot : bool) : bool :=
  if negb (mem import_path gopherjs_paths) && definitely_not_std import_path then false
  else in_goroot.

(* simpleCtx.applyPreloadTweaks *)
Definition preload (e : env) (std : bool) : env :=
  if std then
    {| e_goos := match std_goos with Some v => v | None => e_goos e end;
       e_goarch := match std_goarch with Some v => v | None => e_goarch e end; e_compiler := e_compiler e; e_cgo := e_cgo e;
       e_build_tags := e_build_tags e; e_tool_tags := e_tool_tags e; e_release_tags := e_release_tags e |}
  else e.

(* ---- files ------------------------------------------------------------ *)

Inductive pkgkind := PkgSame | PkgDoc | PkgXTest.   (* package p / documentation / p_test *)

Record file := {
  f_name : string;
  f_isdir : bool;
  f_gobuild : option cexpr;     (* the //go:build line of the header, if any *)
  f_plus : list pline;          (* the // +build lines of the leading comment block *)
  f_detached : bool;            (* that block is followed by a blank line *)
  f_pkg : pkgkind;
  f_cgo : bool                  (* the file imports "C" *)
}.

(* go/build goodOSArchFile: the tags the file NAME requires, in
   the order in which matchTag is consulted *)
Definition known_os_b (s : string) : bool := mem s known_os.
Definition known_arch_b (s : string) : bool := mem s known_arch.

Definition name_tags (name : string) : list string :=
  let base := cut_dot name in
  match from_first_us base with
  | None => []
  | Some rest =>
      let l := split_on "_" rest in
      let l := match rev l with
               | x :: r => if x =? "test" then rev r else l
               | [] => l
               end in
      match rev l with
      | a :: o :: _ =>
          if known_os_b o && known_arch_b a then [a; o]
          else if known_os_b a || known_arch_b a then [a]
          else []
      | [a] => if known_os_b a || known_arch_b a then [a] else []
      | [] => []
      end
  end.

Definition good_os_arch_file (e : env) (name : string) : bool :=
  forallb (match_tag e) (name_tags name).

(* go/build shouldBuild *)
Definition should_build (e : env) (f : file) : bool :=
  match f_gobuild f with
  | Some x => eval (match_tag e) x
  | None => if f_detached f then forallb (pline_ok (match_tag e)) (f_plus f) else true
  end.

Definition hidden (name : string) : bool := has_prefix "_" name || has_prefix "." name.

Definition is_test_name (name : string) : bool := has_suffix "_test.go" name.

(* what the loop of go/build.Context.Import does with one directory entry *)
Inductive cls :=
| CDir          (* directories are skipped *)
| CHidden       (* "_" / "." prefix: skipped silently *)
| CSkipExt      (* unknown extension: skipped silently *)
| COther        (* .c .s .h ... : some non-Go list (not observed) *)
| CIgnored      (* IgnoredGoFiles *)
| CBad          (* error: cgo in a test file *)
| CCgo | CXTest | CTest | CGo.

Definition classify (e : env) (f : file) : cls :=
  let name := f_name f in
  if f_isdir f then CDir
  else if hidden name then CHidden
  else
    let ext := ext_of name in
    if negb (ext =? ".go") then (if mem ext other_exts then COther else CSkipExt)
    else if negb (good_os_arch_file e name) then CIgnored
    else if negb (should_build e f) then CIgnored
    else match f_pkg f with
         | PkgDoc => CIgnored
         | k =>
             let is_test := is_test_name name in
             if f_cgo f then (if is_test then CBad else if e_cgo e then CCgo else CIgnored)
             else if is_test then (match k with PkgXTest => CXTest | _ => CTest end)
             else CGo
         end.

Definition cls_eqb (a b : cls) : bool :=
  match a, b with
  | CDir, CDir | CHidden, CHidden | CSkipExt, CSkipExt | COther, COther | CIgnored, CIgnored
  | CBad, CBad | CCgo, CCgo | CXTest, CXTest | CTest, CTest | CGo, CGo => true
  | _, _ => false
  end.

(* incjs.fromFileInfo: taken or not *)
Definition is_incjs (f : file) : bool :=
  if negb (has_suffix incjs_ext (f_name f)) || f_isdir f then false
  else negb (existsb (fun p => has_prefix p (f_name f)) incjs_hidden).

Inductive result :=
| RPanic                         (* slice bounds out of range while building the context *)
| RBad                           (* go/build reported an invalid Go file *)
| RNoGo                          (* *build.NoGoError *)
| ROk (go test xtest ignored js : list string).

Definition names_of (e : env) (c : cls) (fs : list file) : list string :=
  map f_name (filter (fun f => cls_eqb (classify e f) c) fs).

(* simpleCtx.Import on a directory whose entries (sorted by name) are [fs] *)
Definition import_with (e0 : env) (std : bool) (fs : list file) : result :=
  let e := preload e0 std in
  if existsb (fun f => cls_eqb (classify e f) CBad) fs then RBad
  else
    let go := names_of e CGo fs in
    let cgo := names_of e CCgo fs in
    let test := names_of e CTest fs in
    let xtest := names_of e CXTest fs in
    match (go ++ cgo ++ test ++ xtest)%list with
    | [] => RNoGo
    | _ => ROk go test xtest (names_of e CIgnored fs)
               (map f_name (filter is_incjs fs))          (* incjs.FromDir(&sc.bctx, pkg.Dir) *)
    end.

Definition import_pkg (c : config) (import_path : string) (in_goroot : bool) (fs : list file) : result :=
  match go_ctx c with
  | None => RPanic
  | Some e0 => import_with e0 (is_std import_path in_goroot) fs
  end.
