(* C13 — executable model of /repo/nosync (Mutex, RWMutex, WaitGroup, Once) as state machines, and of
   the single-goroutine behaviour of the sync package they replace.  Model only, no proofs.
   `int`/`int32` fields wrap at 32 bits (GopherJS's int is 32 bits wide; sync.WaitGroup's counter and
   sync.RWMutex's reader count are int32 upstream). *)
From Coq Require Import ZArith List Bool.
Import ListNotations.
Local Open Scope Z_scope.

Definition wrap32s (x : Z) : Z := (x + 2147483648) mod 4294967296 - 2147483648.

(* what the function passed to Once.Do does *)
Inductive fbehaviour := FPlain | FPanics | FReenters.

Inductive op :=
| MLock | MUnlock                                  (* Mutex *)
| RWLock | RWUnlock | RWRLock | RWRUnlock          (* RWMutex *)
| WGAdd (delta : Z) | WGDone | WGWait              (* WaitGroup *)
| OnceDo (b : fbehaviour).                         (* Once *)

(* ------------------------------------------------------------------ nosync (the code in /repo/nosync) *)
Inductive nstate :=
| NMutex (locked : bool)
| NRW (writeLocked : bool) (readLockCounter : Z)
| NWG (counter : Z)
| NOnce (doing done : bool).

(* outcome of a call: returned (with the number of times the user function ran, 0 for non-Once) or panicked *)
Inductive nout := NOk (ran : Z) | NPanic (ran : Z).

Definition wg_add (c d : Z) : nstate * nout :=
  let c' := wrap32s (c + d) in
  (NWG c', if c' <? 0 then NPanic 0 else NOk 0).

Definition nstep (s : nstate) (o : op) : nstate * nout :=
  match s, o with
  | NMutex l, MLock => if l then (s, NPanic 0) else (NMutex true, NOk 0)
  | NMutex l, MUnlock => if negb l then (s, NPanic 0) else (NMutex false, NOk 0)
  | NRW w r, RWLock => if negb (r =? 0) || w then (s, NPanic 0) else (NRW true r, NOk 0)
  | NRW w r, RWUnlock => if negb w then (s, NPanic 0) else (NRW false r, NOk 0)
  | NRW w r, RWRLock => if w then (s, NPanic 0) else (NRW w (wrap32s (r + 1)), NOk 0)
  | NRW w r, RWRUnlock => if r =? 0 then (s, NPanic 0) else (NRW w (wrap32s (r - 1)), NOk 0)
  | NWG c, WGAdd d => wg_add c d
  | NWG c, WGDone => wg_add c (-1)
  | NWG c, WGWait => if negb (c =? 0) then (s, NPanic 0) else (s, NOk 0)
  | NOnce doing done, OnceDo b =>
      if done then (s, NOk 0)
      else if doing then (s, NPanic 0)
      else (* doing = true; defer {doing = false; done = true}; f() *)
        match b with
        | FPlain => (NOnce false true, NOk 1)
        | FPanics => (NOnce false true, NPanic 1)
        | FReenters => (* the inner Do sees done = false, doing = true and panics; the panic leaves f *)
                       (NOnce false true, NPanic 1)
        end
  | _, _ => (s, NOk 0)      (* operation of another type: not applicable *)
  end.

Fixpoint nrun (s : nstate) (h : list op) : list nout :=
  match h with
  | [] => []
  | o :: r => let '(s', out) := nstep s o in out :: nrun s' r
  end.

(* ------------------------------------------------------------------ sync, one goroutine *)
Inductive sstate :=
| SMutex (locked : bool)
| SRW (writer : bool) (readers : Z)
| SWG (v : Z)
| SOnce (done : bool).

(* returned / recoverable panic (state already updated) / blocks forever / fatal error (process dies) *)
Inductive sout := SRet (ran : Z) | SPanic (ran : Z) | SBlock | SFatal.

Definition swg_add (v d : Z) : sstate * sout :=
  let v' := wrap32s (v + d) in            (* state.Add(uint64(delta) << 32); v := int32(state >> 32) *)
  (SWG v', if v' <? 0 then SPanic 0 else SRet 0).

Definition sstep (s : sstate) (o : op) : sstate * sout :=
  match s, o with
  | SMutex l, MLock => if l then (s, SBlock) else (SMutex true, SRet 0)
  | SMutex l, MUnlock => if l then (SMutex false, SRet 0) else (s, SFatal)
  | SRW w r, RWLock => if w || (0 <? r) then (s, SBlock) else (SRW true r, SRet 0)
  | SRW w r, RWUnlock => if w then (SRW false r, SRet 0) else (s, SFatal)
  | SRW w r, RWRLock => if w then (s, SBlock) else (SRW w (r + 1), SRet 0)
  | SRW w r, RWRUnlock => if 0 <? r then (SRW w (r - 1), SRet 0) else (s, SFatal)
  | SWG v, WGAdd d => swg_add v d
  | SWG v, WGDone => swg_add v (-1)
  | SWG v, WGWait => if v =? 0 then (s, SRet 0) else (s, SBlock)
  | SOnce done, OnceDo b =>
      if done then (s, SRet 0)
      else match b with
           | FPlain => (SOnce true, SRet 1)
           | FPanics => (SOnce true, SPanic 1)      (* defer o.done.Store(1) runs, the panic propagates *)
           | FReenters => (s, SBlock)               (* inner Do locks o.m, held by the outer Do: deadlock *)
           end
  | _, _ => (s, SRet 0)
  end.

Definition stops (o : sout) : bool := match o with SBlock | SFatal => true | _ => false end.

(* a blocked goroutine never continues and a fatal error ends the process: the history stops there *)
Fixpoint srun (s : sstate) (h : list op) : list sout :=
  match h with
  | [] => []
  | o :: r => let '(s', out) := sstep s o in
              if stops out then [out] else out :: srun s' r
  end.

(* "returns what sync returns, or panics exactly when sync would block or itself panic" *)
Definition agrees (s : sout) (n : nout) : bool :=
  match s, n with
  | SRet a, NOk b => a =? b
  | SPanic a, NPanic b => a =? b
  | SBlock, NPanic _ => true
  | SFatal, NPanic _ => true
  | _, _ => false
  end.

Fixpoint agree_prefix (ss : list sout) (ns : list nout) : bool :=
  match ss, ns with
  | [], _ => true
  | s :: ss', n :: ns' => agrees s n && agree_prefix ss' ns'
  | _ :: _, [] => false
  end.

Definition abs (n : nstate) : sstate :=
  match n with
  | NMutex l => SMutex l
  | NRW w r => SRW w r
  | NWG c => SWG c
  | NOnce _ done => SOnce done
  end.

Definition ninit (k : Z) : nstate :=
  if k =? 0 then NMutex false else if k =? 1 then NRW false 0 else if k =? 2 then NWG 0 else NOnce false false.
