(* C18 phase 4 — shape predicates on constraint expressions used by the statements of
   the parser theorems (computable, no proofs). *)
From Coq Require Import List String Ascii Bool.
From Verif Require Import Model.C18_Build Model.C18_Constraint.
Import ListNotations.
Local Open Scope string_scope.

Definition is_not (e : cexpr) : bool := match e with Not _ => true | _ => false end.

(* the shape the parser produces: left-nested && / ||, no double negation *)
Fixpoint nf (e : cexpr) : bool :=
  match e with
  | Tag _ => true
  | Not x => negb (is_not x) && nf x
  | And x y => nf x && nf y && negb (is_and y)
  | Or x y => nf x && nf y && negb (is_or y)
  end.

Fixpoint tags_valid (e : cexpr) : bool :=
  match e with
  | Tag t => valid_tag t
  | Not x => tags_valid x
  | And x y | Or x y => tags_valid x && tags_valid y
  end.

(* tags in positive / negative position *)
Fixpoint pos_tags (e : cexpr) : list string :=
  match e with Tag t => [t] | Not x => neg_tags x | And x y | Or x y => pos_tags x ++ pos_tags y end
with neg_tags (e : cexpr) : list string :=
  match e with Tag t => [] | Not x => pos_tags x | And x y | Or x y => neg_tags x ++ neg_tags y end.

(* a legacy line whose literals are proper tags *)
Definition pline_valid (l : pline) : bool :=
  forallb (fun clause => negb (match clause with [] => true | _ => false end) &&
                         forallb (fun t : pterm => valid_tag (snd t)) clause) l.
