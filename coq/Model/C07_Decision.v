(* C07 (phase 4) — executable mirror of the TRANSLATOR's copy decisions (no proofs here).

   Mirrors, function by function (GopherJS compiler, /repo/compiler):
     expressions.go  translateImplicitConversionWithCloning  -> [with_cloning]
                     translateImplicitConversion / translateConversion (non-identical struct/array types fall through
                     to ...WithCloning; identical types: translateExpr)                          -> [own_clones]
                     translateImplicitConversion, interface case (`new T(x)` / `new x.constructor.elem(x)`) -> [box]
                     makeReceiver (direct calls and method values: ...WithCloning of the receiver) -> CRecv*, CMethodValueBind
                     CompositeLit (every element, key and value through ...WithCloning)          -> CLit*
                     translateBuiltin "append" (translateExprSlice: no clone, $append copies at run time) -> CAppendArg
     statements.go   translateAssign (map-index lhs; `define && rhs is *ast.CompositeLit` skips; struct/array:
                     `$clone` on define, `T.copy(lhs, rhs)` otherwise)                            -> [translate_assign]
                     SendStmt (...WithCloning, then a synthetic $send call whose args go through translateArgs)
                     SelectStmt send clause, RangeStmt (`_ref = translateExpr(X)`; value through translateAssign),
                     translateResults (translateImplicitConversion: no clone), `_ = x` ($unused)
     utils.go        translateArgs (every argument through ...WithCloning)
     functions.go    value-receiver proxies (`this.$val` / `this.$get()`: no clone)               -> CIfaceCall, CMethodExprPtrCall

   A site is (context, type shape, expression class).  The model predicts how many `$clone(` and how many `T.copy(`
   the emitted JavaScript of that site contains; harness/py/c07_sites.py compiles one Go function per site with the
   real compiler and counts. *)
From Coq Require Import List Bool Arith.
Import ListNotations.

(* type shape of the value that flows (types.Type as seen by the compiler) *)
Inductive shape := ShStruct | ShNamedStruct | ShArray | ShNamedArray | ShPointer | ShSlice | ShBasic | ShMap.

(* `switch t.Underlying().(type) { case *types.Struct, *types.Array:` *)
Definition underlying_value (sh : shape) : bool :=
  match sh with ShStruct | ShNamedStruct | ShArray | ShNamedArray => true | _ => false end.
Definition underlying_array (sh : shape) : bool := match sh with ShArray | ShNamedArray => true | _ => false end.
Definition named_value (sh : shape) : bool := match sh with ShNamedStruct | ShNamedArray => true | _ => false end.
Definition comparable (sh : shape) : bool := match sh with ShSlice | ShMap => false | _ => true end.

(* syntactic class of the source expression *)
Inductive eclass :=
| EVar          (* package-level or local variable *)
| EField        (* x.f *)
| EIndexSlice   (* s[i] *)
| EIndexArr     (* a[i] *)
| EDeref        (* *p *)
| EMapIndex     (* m[k] *)
| ECall         (* f() *)
| ECompLit      (* T{...} : the AST node IS an *ast.CompositeLit *)
| EParenLit     (* (T{...}) : an *ast.ParenExpr *)
| EConvSame     (* T(x), x already of type T: types.Identical -> translateExpr(x) *)
| EConvOther    (* T(x), x of another type with the same underlying type *)
| ETypeAssert   (* i.(T) *)
| ERecv.        (* <-ch *)

Definition is_composite_lit_node (e : eclass) : bool := match e with ECompLit => true | _ => false end.

Inductive context :=
| CAssignVar | CAssignField | CAssignSliceElem | CAssignArrElem | CAssignDeref
| CDefine | CVarDecl | CVarDeclInfer | CTupleDefine | CCommaOk | CTypeSwitchBind
| CArg | CArgVariadic | CGoArg | CDeferArg | CAppendArg | CMethodExprValArg
| CLitStructField | CLitStructPos | CLitArrayElem | CLitSliceElem | CLitMapValue | CLitMapKey
| CSend | CSelectSend | CMapInsertValue | CMapInsertKey
| CRangeValSlice | CRangeValArray | CRangeValPtrArray | CRangeValMap | CRangeValAssign | CRangeExprArray
| CRecvDirect | CRecvViaPtr | CMethodValueBind | CMethodValueCall | CIfaceCall | CIfacePtrCall | CMethodExprPtrCall
| CBoxAssign | CBoxArg | CBoxReturn
| CReturn | CBlank.

(* what the translator emits for the context itself *)
Record emitted := mkEm { em_clones : nat; em_copies : nat; em_runtime : bool }.
Definition em_none : emitted := mkEm 0 0 false.

(* translateImplicitConversionWithCloning(expr, desiredType) *)
Definition with_cloning (sh : shape) : emitted := if underlying_value sh then mkEm 1 0 false else em_none.

(* translateAssign(lhs, rhs, define), lhs not a map index *)
Definition translate_assign (define : bool) (sh : shape) (e : eclass) : emitted :=
  if is_composite_lit_node e && define then em_none                    (* "skip $copy" *)
  else if underlying_value sh then (if define then mkEm 1 0 false else mkEm 0 1 false)
  else em_none.

Definition em_add (a b : emitted) : emitted :=
  mkEm (em_clones a + em_clones b) (em_copies a + em_copies b) (em_runtime a || em_runtime b).

Definition decide (c : context) (sh : shape) (e : eclass) : emitted :=
  match c with
  | CAssignVar | CAssignField | CAssignSliceElem | CAssignArrElem | CAssignDeref | CRangeValAssign => translate_assign false sh e
  | CDefine | CVarDecl | CVarDeclInfer | CTupleDefine | CCommaOk | CTypeSwitchBind
  | CRangeValSlice | CRangeValArray | CRangeValPtrArray | CRangeValMap => translate_assign true sh e
  | CArg | CArgVariadic | CGoArg | CDeferArg | CMethodExprValArg => with_cloning sh                  (* translateArgs *)
  | CLitStructField | CLitStructPos | CLitArrayElem | CLitSliceElem | CLitMapValue | CLitMapKey => with_cloning sh
  | CSend => em_add (with_cloning sh) (with_cloning sh)     (* SendStmt clones, the synthetic $send call clones again *)
  | CSelectSend => with_cloning sh
  | CMapInsertValue | CMapInsertKey => with_cloning sh      (* translateAssign, map-index branch *)
  | CRecvDirect | CRecvViaPtr | CMethodValueBind => with_cloning sh                                   (* makeReceiver *)
  | CAppendArg => mkEm 0 0 (underlying_value sh)            (* translateExprSlice; $append -> $copyArray copies elements *)
  | CRangeExprArray => em_none                              (* `_ref = translateExpr(s.X)` *)
  | CMethodValueCall | CIfaceCall | CIfacePtrCall | CMethodExprPtrCall => em_none   (* $methodVal / proxy `this.$val`, `this.$get()` *)
  | CBoxAssign | CBoxArg | CBoxReturn => em_none            (* new T(x) / new x.constructor.elem(x) *)
  | CReturn => em_none                                      (* translateResults: translateImplicitConversion *)
  | CBlank => em_none                                       (* $unused(x) *)
  end.

(* clones emitted by translating the source expression itself (translateExpr): only a conversion between
   non-identical types with struct/array underlying type clones *)
Definition own_clones (sh : shape) (e : eclass) : nat :=
  match e with EConvOther => if underlying_value sh then 1 else 0 | _ => 0 end.

(* what the emitted JavaScript of the whole site contains: (number of `$clone(`, number of `.copy(`) *)
Definition site_counts (c : context) (sh : shape) (e : eclass) : nat * nat :=
  (em_clones (decide c sh e) + own_clones sh e, em_copies (decide c sh e)).

(* the value ends up independent of the source: a clone / copy is emitted or the run-time helper copies *)
Definition copies_value (c : context) (sh : shape) (e : eclass) : bool :=
  Nat.ltb 0 (em_clones (decide c sh e)) || Nat.ltb 0 (em_copies (decide c sh e)) || em_runtime (decide c sh e).

(* ---------------------------------------------------------------- the Go side of the statement *)

(* the JavaScript value produced by translating the expression may be an object that stays reachable from
   existing storage.  Call results: `return` emits no clone (decide CReturn = none), so a call may hand out a stored
   object.  Composite literals, conversions that clone and received values (cloned by the sender) are fresh. *)
Definition may_alias (e : eclass) : bool :=
  match e with
  | ECompLit | EParenLit | EConvOther | ERecv => false
  | _ => true
  end.

(* Go's semantics makes a copy that lives on after the statement (parameter, variable, element, boxed value,
   receiver, the ranged-over array).  `return` hands the value to the caller's context; `_ = x` discards it. *)
Definition stores (c : context) : bool := match c with CReturn | CBlank => false | _ => true end.

(* the recorded findings: interface boxing, range over an array value, value receivers reached indirectly *)
Definition finding (c : context) : bool :=
  match c with
  | CBoxAssign | CBoxArg | CBoxReturn | CRangeExprArray
  | CMethodValueCall | CIfaceCall | CIfacePtrCall | CMethodExprPtrCall => true
  | _ => false
  end.

(* which (context, shape, class) combinations are Go programs (the generator emits exactly these) *)
Definition eclass_eqb (a b : eclass) : bool :=
  match a, b with
  | EVar, EVar | EField, EField | EIndexSlice, EIndexSlice | EIndexArr, EIndexArr | EDeref, EDeref | EMapIndex, EMapIndex
  | ECall, ECall | ECompLit, ECompLit | EParenLit, EParenLit | EConvSame, EConvSame | EConvOther, EConvOther
  | ETypeAssert, ETypeAssert | ERecv, ERecv => true
  | _, _ => false
  end.

Definition fixed_classes (c : context) : option (list eclass) :=
  match c with
  | CTupleDefine => Some [ECall]
  | CCommaOk => Some [ETypeAssert; EMapIndex; ERecv]
  | CTypeSwitchBind => Some [ETypeAssert]
  | CRangeValSlice | CRangeValAssign => Some [EIndexSlice]
  | CRangeValArray | CRangeValPtrArray => Some [EIndexArr]
  | CRangeValMap => Some [EMapIndex]
  | CRecvViaPtr | CIfacePtrCall | CMethodExprPtrCall => Some [EDeref]
  | CMethodValueCall | CIfaceCall => Some [EVar]
  | _ => None
  end.

Definition needs_methods (c : context) : bool :=
  match c with
  | CRecvDirect | CRecvViaPtr | CMethodValueBind | CMethodValueCall | CIfaceCall | CIfacePtrCall | CMethodExprPtrCall
  | CMethodExprValArg => true
  | _ => false
  end.

Definition valid (c : context) (sh : shape) (e : eclass) : bool :=
  (match fixed_classes c with Some l => existsb (eclass_eqb e) l | None => true end) &&
  (negb (needs_methods c) || named_value sh) &&
  (match c with CLitMapKey | CMapInsertKey => comparable sh | _ => true end) &&
  (match c with CRangeExprArray => underlying_array sh && negb (is_composite_lit_node e) | _ => true end) &&
  (match e, sh with (ECompLit | EParenLit), (ShBasic | ShPointer) => false | _, _ => true end).

Definition all_contexts : list context :=
  [CAssignVar; CAssignField; CAssignSliceElem; CAssignArrElem; CAssignDeref;
   CDefine; CVarDecl; CVarDeclInfer; CTupleDefine; CCommaOk; CTypeSwitchBind;
   CArg; CArgVariadic; CGoArg; CDeferArg; CAppendArg; CMethodExprValArg;
   CLitStructField; CLitStructPos; CLitArrayElem; CLitSliceElem; CLitMapValue; CLitMapKey;
   CSend; CSelectSend; CMapInsertValue; CMapInsertKey;
   CRangeValSlice; CRangeValArray; CRangeValPtrArray; CRangeValMap; CRangeValAssign; CRangeExprArray;
   CRecvDirect; CRecvViaPtr; CMethodValueBind; CMethodValueCall; CIfaceCall; CIfacePtrCall; CMethodExprPtrCall;
   CBoxAssign; CBoxArg; CBoxReturn; CReturn; CBlank].
Definition all_shapes : list shape := [ShStruct; ShNamedStruct; ShArray; ShNamedArray; ShPointer; ShSlice; ShBasic; ShMap].
Definition all_classes : list eclass :=
  [EVar; EField; EIndexSlice; EIndexArr; EDeref; EMapIndex; ECall; ECompLit; EParenLit; EConvSame; EConvOther; ETypeAssert; ERecv].

(* ---------------------------------------------------------------- values flowing through returns *)

(* a value that reaches a context through any number of `return`s: the caller sees a call expression *)
Inductive flow := FDirect (e : eclass) | FReturn (f : flow).

Definition flow_head (f : flow) : eclass := match f with FDirect e => e | FReturn _ => ECall end.
Fixpoint flow_aliases (f : flow) : bool := match f with FDirect e => may_alias e | FReturn f' => flow_aliases f' end.
(* a copy made by one of the `return`s on the way *)
Fixpoint flow_copied (sh : shape) (f : flow) : bool :=
  match f with FDirect _ => false | FReturn f' => copies_value CReturn sh (flow_head f') || flow_copied sh f' end.
