(* C02 — executable model of the cross-function part of the blocking analysis
   (compiler/internal/analysis/info.go: PropagateAnalysis / propagateFunctionBlocking).

   A function node carries
     direct   : the body itself contains a blocking operation (channel send/receive,
                select without default, range over a channel, a call through an
                interface / function value / indexed callee, a body-less declaration)
                — these are the places where Visit/visitCallExpr/callToNamedFunc call
                markBlocking immediately;
     callees  : the named functions / directly called literals it calls
                (FuncInfo.instCallees and literalFuncCallees; `go f()` is NOT an edge).
   Functions are numbered in the order of Info.allInfos, packages concatenated.

   propagateFunctionBlocking makes one pass over all callers in order and marks a
   caller as soon as one of its callees is blocking *now* (so marks made earlier in
   the same pass are already visible: Gauss–Seidel); PropagateAnalysis repeats the pass
   until one pass changes nothing.  Model only, no proofs in this file. *)
From Coq Require Import List Bool Arith.
Import ListNotations.

Record fnode := { direct : bool; callees : list nat }.
Definition graph := list fnode.

Definition flag (bl : list bool) (f : nat) : bool := nth f bl false.

Fixpoint set_flag (f : nat) (bl : list bool) : list bool :=
  match f, bl with
  | _, [] => []
  | O, _ :: t => true :: t
  | S f', h :: t => h :: set_flag f' t
  end.

(* caller [f] after looking at its callees: IsBlocking(callee) for any of them -> markBlocking *)
Definition visit_caller (g : graph) (f : nat) (bl : list bool) : list bool :=
  match nth_error g f with
  | Some nd => if existsb (flag bl) (callees nd) then set_flag f bl else bl
  | None => bl
  end.

(* one call of propagateFunctionBlocking over all infos: callers f, f+1, ... in order *)
Fixpoint pass_from (g : graph) (k : nat) (f : nat) (bl : list bool) : list bool :=
  match k with
  | O => bl
  | S k' => pass_from g k' (S f) (visit_caller g f bl)
  end.

Definition pass (g : graph) (bl : list bool) : list bool := pass_from g (length g) 0 bl.

Fixpoint list_beq (a b : list bool) : bool :=
  match a, b with
  | [], [] => true
  | x :: a', y :: b' => Bool.eqb x y && list_beq a' b'
  | _, _ => false
  end.

(* `for !done { done = true; for each info: if !propagate() {done = false} }`
   [k] bounds the number of passes; [propagate] supplies a sufficient bound. *)
Fixpoint iterate (k : nat) (g : graph) (bl : list bool) : list bool :=
  match k with
  | O => bl
  | S k' => let bl' := pass g bl in if list_beq bl' bl then bl else iterate k' g bl'
  end.

Definition init_flags (g : graph) : list bool := map direct g.

Definition propagate (g : graph) : list bool := iterate (length g) g (init_flags g).

(* number of passes actually made before the fixpoint was seen (for the evidence) *)
Fixpoint passes_used (k : nat) (g : graph) (bl : list bool) : nat :=
  match k with
  | O => O
  | S k' => let bl' := pass g bl in if list_beq bl' bl then 1 else S (passes_used k' g bl')
  end.

(* specification side: f reaches f' along callee edges (reflexive) *)
Inductive reaches (g : graph) : nat -> nat -> Prop :=
| reach_refl : forall f, reaches g f f
| reach_step : forall f nd c f', nth_error g f = Some nd -> In c (callees nd) -> reaches g c f' -> reaches g f f'.

Definition is_direct (g : graph) (f : nat) : Prop :=
  exists nd, nth_error g f = Some nd /\ direct nd = true.
