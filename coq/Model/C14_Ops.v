(* C14 (phase 4) — the string OPERATORS as the compiler emits them.

   Model only: no proofs in this file.

   A Go string is a byte list; at run time it is a JS string with one UTF-16 code unit per byte
   (a [list N] with [is_bytes]).  This file has
     * the JS semantics of the operators the emitted templates use on such strings
       (ECMAScript IsLessThan on Strings, ===, +, .length, charCodeAt, Map lookup by key);
     * a small deep embedding [jx] of the JavaScript expressions that compiler/expressions.go emits for
       x+y, x==y, x!=y, x<y, x<=y, x>y, x>=y, len(x), x[i], x[i:j], x[i:], x[:j], []byte(x), string(b),
       []rune(x), string(rs), string(r), string(int64), m[k] on map[string]int, with an evaluator [jeval]
       over the helper models of Model/C14_Utf8.v.  coq/Gen/C14_Templates.v (regenerated on every run
       from a table program compiled by the REAL compiler, harness/py/c14_gen.py) holds the templates as
       emitted today; the hand-written [T_*] below are what the theorems talk about and
       Proofs/C14_P4_Tie.v re-checks Gen = hand-written by conversion;
     * the emitted string switch (if / else-if chain of ===) and the map operations through
       $String.keyFor ("$" + x) on a JS Map. *)
From Coq Require Import List NArith ZArith Bool Arith.
From Verif Require Import Model.C14_Utf8.
Import ListNotations.
Local Open Scope N_scope.

(* ---- JS semantics of string comparison -------------------------------------------------- *)

Fixpoint units_eqb (a b : list N) : bool :=
  match a, b with
  | [], [] => true
  | x :: a', y :: b' => (x =? y) && units_eqb a' b'
  | _, _ => false
  end.

(* IsStringPrefix(p, q): p is a prefix of q *)
Fixpoint is_prefix (p q : list N) : bool :=
  match p, q with
  | [], _ => true
  | x :: p', y :: q' => (x =? y) && is_prefix p' q'
  | _ :: _, [] => false
  end.

(* the code units at the smallest index k where the two strings differ *)
Fixpoint first_diff (a b : list N) : option (N * N) :=
  match a, b with
  | x :: a', y :: b' => if x =? y then first_diff a' b' else Some (x, y)
  | _, _ => None
  end.

(* ECMAScript IsLessThan(px, py) for two Strings (ECMA-262 7.2.13 step 3):
   a. if IsStringPrefix(py, px) return false;  b. if IsStringPrefix(px, py) return true;
   c-f. k = smallest index with different code units m, n: return m < n. *)
Definition js_str_lt (px py : list N) : bool :=
  if is_prefix py px then false
  else if is_prefix px py then true
  else match first_diff px py with Some (m, n) => m <? n | None => false end.

(* x <= y is  not (y < x);  x > y is y < x;  x >= y is not (x < y)   (13.10.1; no NaN among strings) *)
Definition js_str_le (a b : list N) : bool := negb (js_str_lt b a).
Definition js_str_gt (a b : list N) : bool := js_str_lt b a.
Definition js_str_ge (a b : list N) : bool := negb (js_str_lt a b).

(* ---- values ------------------------------------------------------------------------------ *)

Inductive ekind := EU8 | EI32.

Inductive jv :=
| VStr (s : list N)
| VNum (z : Z)                                   (* a JS number holding an integer *)
| VNaN
| VBool (b : bool)
| VUndef
| VU8 (a : list N)                               (* Uint8Array *)
| VI32 (a : list Z)                              (* Int32Array *)
| VBytes (arr : list N) (off len cap : nat)      (* Go []byte: $array, $offset, $length, $capacity *)
| VRunes (arr : list Z) (off len cap : nat)      (* Go []rune *)
| VI64 (hi lo : Z)                               (* $high (signed), $low (unsigned) *)
| VEntry (k : list N) (v : Z)                    (* map entry { k, v } *)
| VMap (m : list (list N * (list N * Z))).       (* JS Map: key string -> entry *)

Inductive res := Ok (v : jv) | Panic (msg : list N) | Stuck.

Definition bind (r : res) (k : jv -> res) : res := match r with Ok v => k v | e => e end.

(* "slice bounds out of range" — the message $substring passes to $throwRuntimeError *)
Definition MSG_SLICE : list N :=
  [115;108;105;99;101;32;98;111;117;110;100;115;32;111;117;116;32;111;102;32;114;97;110;103;101].
(* "index out of range" *)
Definition MSG_INDEX : list N := [105;110;100;101;120;32;111;117;116;32;111;102;32;114;97;110;103;101].

(* "$" + x *)
Definition key_for (s : list N) : list N := 36 :: s.

Fixpoint map_get (m : list (list N * (list N * Z))) (key : list N) : option (list N * Z) :=
  match m with
  | [] => None
  | (k, e) :: r => if units_eqb k key then Some e else map_get r key
  end.

(* Map.prototype.set: replaces the value of an existing key (position kept), appends otherwise *)
Fixpoint map_set (m : list (list N * (list N * Z))) (key : list N) (e : list N * Z) : list (list N * (list N * Z)) :=
  match m with
  | [] => [(key, e)]
  | (k, e0) :: r => if units_eqb k key then (k, e) :: r else (k, e0) :: map_set r key e
  end.

Fixpoint map_delete (m : list (list N * (list N * Z))) (key : list N) : list (list N * (list N * Z)) :=
  match m with
  | [] => []
  | (k, e0) :: r => if units_eqb k key then r else (k, e0) :: map_delete r key
  end.

(* the Go-level operations as emitted (statements.go / expressions.go):
     m[k] = v      ->  m.set($String.keyFor(k), { k: k, v: v })
     v, ok := m[k] ->  (_entry = $mapIndex(m, $String.keyFor(k)), _entry !== undefined ? [_entry.v, true] : [0, false])
     delete(m, k)  ->  $mapDelete(m, $String.keyFor(k)) *)
Definition go_map_set m (k : list N) (v : Z) := map_set m (key_for k) (k, v).
Definition go_map_get2 m (k : list N) : Z * bool :=
  match map_get m (key_for k) with Some (_, v) => (v, true) | None => (0%Z, false) end.
Definition go_map_delete m (k : list N) := map_delete m (key_for k).
(* for k, v := range m: the entries' own k fields *)
Definition go_map_keys (m : list (list N * (list N * Z))) : list (list N) := map (fun p => fst (snd p)) m.

(* ---- expressions -------------------------------------------------------------------------- *)

Inductive binop := OAdd | OLt | OLe | OGt | OGe | OSeq | OSne | OOr | OAnd | OComma.
Inductive fld := FLength | FHigh | FLow | FV.
Inductive prim := PSubstring | PStringToBytes | PBytesToString | PStringToRunes | PRunesToString
                | PEncodeRune | PKeyFor | PMapIndex | PThrow.

Inductive jx :=
| XVar (n : nat)                       (* n-th parameter of the template function *)
| XTmp                                 (* the template's temporary (_entry) *)
| XNum (z : Z)
| XStr (s : list N)
| XUndef
| XBin (o : binop) (a b : jx)
| XNot (a : jx)
| XCond (c a b : jx)
| XFld (a : jx) (f : fld)              (* a.length  a.$high  a.$low  a.v *)
| XCharCodeAt (a i : jx)
| XCall1 (p : prim) (a : jx)
| XCall2 (p : prim) (a b : jx)
| XCall3 (p : prim) (a b c : jx)
| XNewSlice (k : ekind) (a : jx)       (* new sliceType(a), sliceType = $sliceType($Uint8 | $Int32) *)
| XLet (a b : jx)                      (* (_entry = a, b) *)
| XBad.                                (* something the translator does not know *)

Definition cmp_eval (o : binop) (va vb : jv) : res :=
  match o, va, vb with
  | OLt, VStr a, VStr b => Ok (VBool (js_str_lt a b))
  | OLe, VStr a, VStr b => Ok (VBool (js_str_le a b))
  | OGt, VStr a, VStr b => Ok (VBool (js_str_gt a b))
  | OGe, VStr a, VStr b => Ok (VBool (js_str_ge a b))
  | OLt, VNum a, VNum b => Ok (VBool (a <? b)%Z)
  | OLe, VNum a, VNum b => Ok (VBool (a <=? b)%Z)
  | OGt, VNum a, VNum b => Ok (VBool (b <? a)%Z)
  | OGe, VNum a, VNum b => Ok (VBool (b <=? a)%Z)
  | _, _, _ => Stuck
  end.

(* strict equality on the values that reach it *)
Definition seq_eval (va vb : jv) : option bool :=
  match va, vb with
  | VStr a, VStr b => Some (units_eqb a b)
  | VNum a, VNum b => Some (a =? b)%Z
  | VUndef, VUndef => Some true
  | VEntry _ _, VUndef => Some false
  | VUndef, VEntry _ _ => Some false
  | VBool a, VBool b => Some (Bool.eqb a b)
  | _, _ => None
  end.

Definition binop_eval (o : binop) (va vb : jv) : res :=
  match o with
  | OAdd => match va, vb with VStr a, VStr b => Ok (VStr (a ++ b)) | _, _ => Stuck end
  | OLt | OLe | OGt | OGe => cmp_eval o va vb
  | OSeq => match seq_eval va vb with Some b => Ok (VBool b) | None => Stuck end
  | OSne => match seq_eval va vb with Some b => Ok (VBool (negb b)) | None => Stuck end
  | _ => Stuck
  end.

Definition sub_res (r : option (list N)) : res :=
  match r with Some s => Ok (VStr s) | None => Panic MSG_SLICE end.

Definition call1 (p : prim) (a : jv) : res :=
  match p, a with
  | PStringToBytes, VStr s => Ok (VU8 (string_to_bytes s))
  | PBytesToString, VBytes arr off len _ => Ok (VStr (bytes_to_string arr off len))
  | PStringToRunes, VStr s => Ok (VI32 (map Z.of_N (string_to_runes s)))
  | PRunesToString, VRunes arr off len _ => Ok (VStr (runes_to_string arr off len))
  | PEncodeRune, VNum r => Ok (VStr (encode_rune r))
  | PKeyFor, VStr s => Ok (VStr (key_for s))
  | PThrow, VStr msg => Panic msg
  | _, _ => Stuck
  end.

Definition call2 (p : prim) (a b : jv) : res :=
  match p, a, b with
  | PSubstring, VStr s, VNum lo => sub_res (substring s lo None)
  | PMapIndex, VMap m, VStr key =>
      match map_get m key with Some (k, v) => Ok (VEntry k v) | None => Ok VUndef end
  | PMapIndex, VBool false, VStr _ => Ok VUndef       (* a nil map: typeof m.get !== "function" *)
  | _, _, _ => Stuck
  end.

Definition call3 (p : prim) (a b c : jv) : res :=
  match p, a, b, c with
  | PSubstring, VStr s, VNum lo, VNum hi => sub_res (substring s lo (Some hi))
  | _, _, _, _ => Stuck
  end.

Definition fld_eval (f : fld) (a : jv) : res :=
  match f, a with
  | FLength, VStr s => Ok (VNum (Z.of_nat (length s)))
  | FHigh, VI64 hi _ => Ok (VNum hi)
  | FLow, VI64 _ lo => Ok (VNum lo)
  | FV, VEntry _ v => Ok (VNum v)
  | _, _ => Stuck
  end.

Definition new_slice (k : ekind) (a : jv) : res :=
  match k, a with
  | EU8, VU8 arr => Ok (VBytes arr 0 (length arr) (length arr))
  | EI32, VI32 arr => Ok (VRunes arr 0 (length arr) (length arr))
  | _, _ => Stuck
  end.

Fixpoint jeval (env : list jv) (tmp : jv) (e : jx) : res :=
  match e with
  | XVar n => match nth_error env n with Some v => Ok v | None => Stuck end
  | XTmp => Ok tmp
  | XNum z => Ok (VNum z)
  | XStr s => Ok (VStr s)
  | XUndef => Ok VUndef
  | XBin OOr a b =>
      bind (jeval env tmp a) (fun va =>
        match va with VBool true => Ok (VBool true) | VBool false => jeval env tmp b | _ => Stuck end)
  | XBin OAnd a b =>
      bind (jeval env tmp a) (fun va =>
        match va with VBool false => Ok (VBool false) | VBool true => jeval env tmp b | _ => Stuck end)
  | XBin OComma a b => bind (jeval env tmp a) (fun _ => jeval env tmp b)
  | XBin o a b => bind (jeval env tmp a) (fun va => bind (jeval env tmp b) (fun vb => binop_eval o va vb))
  | XNot a => bind (jeval env tmp a) (fun va => match va with VBool b => Ok (VBool (negb b)) | _ => Stuck end)
  | XCond c a b =>
      bind (jeval env tmp c) (fun vc =>
        match vc with VBool true => jeval env tmp a | VBool false => jeval env tmp b | _ => Stuck end)
  | XFld a f => bind (jeval env tmp a) (fld_eval f)
  | XCharCodeAt a i =>
      bind (jeval env tmp a) (fun va => bind (jeval env tmp i) (fun vi =>
        match va, vi with
        | VStr s, VNum z => Ok (match index_unchecked s z with NaN => VNaN | Num c => VNum (Z.of_N c) end)
        | _, _ => Stuck
        end))
  | XCall1 p a => bind (jeval env tmp a) (call1 p)
  | XCall2 p a b => bind (jeval env tmp a) (fun va => bind (jeval env tmp b) (call2 p va))
  | XCall3 p a b c =>
      bind (jeval env tmp a) (fun va => bind (jeval env tmp b) (fun vb => bind (jeval env tmp c) (call3 p va vb)))
  | XNewSlice k a => bind (jeval env tmp a) (new_slice k)
  | XLet a b => bind (jeval env tmp a) (fun va => jeval env va b)
  | XBad => Stuck
  end.

Definition run (t : jx) (args : list jv) : res := jeval args VUndef t.

(* ---- the templates, as compiler/expressions.go emits them ---------------------------------- *)

Definition X0 := XVar 0. Definition X1 := XVar 1. Definition X2 := XVar 2.

Definition T_Add : jx := XBin OAdd X0 X1.                       (* x + y *)
Definition T_Eql : jx := XBin OSeq X0 X1.                       (* x === y *)
Definition T_Neq : jx := XNot (XBin OSeq X0 X1).                (* !(x === y) *)
Definition T_Lss : jx := XBin OLt X0 X1.                        (* x < y *)
Definition T_Leq : jx := XBin OLe X0 X1.                        (* x <= y *)
Definition T_Gtr : jx := XBin OGt X0 X1.                        (* x > y *)
Definition T_Geq : jx := XBin OGe X0 X1.                        (* x >= y *)
Definition T_Len : jx := XFld X0 FLength.                       (* x.length *)
(* (i < 0 || i >= x.length) ? ($throwRuntimeError("index out of range"), undefined) : x.charCodeAt(i) *)
Definition T_Idx : jx :=
  XCond (XBin OOr (XBin OLt X1 (XNum 0)) (XBin OGe X1 (XFld X0 FLength)))
        (XBin OComma (XCall1 PThrow (XStr MSG_INDEX)) XUndef)
        (XCharCodeAt X0 X1).
Definition T_Sl2 : jx := XCall3 PSubstring X0 X1 X2.            (* $substring(x, i, j) *)
Definition T_SlLo : jx := XCall2 PSubstring X0 X1.              (* $substring(x, i) *)
Definition T_SlHi : jx := XCall3 PSubstring X0 (XNum 0) X1.     (* $substring(x, 0, j) *)
Definition T_ToBytes : jx := XNewSlice EU8 (XCall1 PStringToBytes X0).     (* new sliceType($stringToBytes(x)) *)
Definition T_FromBytes : jx := XCall1 PBytesToString X0.        (* $bytesToString(b) *)
Definition T_ToRunes : jx := XNewSlice EI32 (XCall1 PStringToRunes X0).
Definition T_FromRunes : jx := XCall1 PRunesToString X0.
Definition T_FromRune : jx := XCall1 PEncodeRune X0.            (* $encodeRune(r) *)
(* $encodeRune(r.$high === 0 ? r.$low : -1) *)
Definition T_FromI64 : jx :=
  XCall1 PEncodeRune (XCond (XBin OSeq (XFld X0 FHigh) (XNum 0)) (XFld X0 FLow) (XNum (-1))).
(* (_entry = $mapIndex(m, $String.keyFor(k)), _entry !== undefined ? _entry.v : 0) *)
Definition T_MapGet : jx :=
  XLet (XCall2 PMapIndex X0 (XCall1 PKeyFor X1))
       (XCond (XBin OSne XTmp XUndef) (XFld XTmp FV) (XNum 0)).

(* ---- the emitted string switch --------------------------------------------------------------- *)
(*   _1 = tag; if (_1 === (c00) || _1 === (c01)) { clause 0 } else if (_1 === (c10)) { clause 1 } ... else default
   [Some i] = clause i is entered, [None] = the default / nothing. *)
Fixpoint switch_emitted (tag : list N) (clauses : list (list (list N))) (i : nat) : option nat :=
  match clauses with
  | [] => None
  | cs :: r => if existsb (units_eqb tag) cs then Some i else switch_emitted tag r (S i)
  end.

(* ---- specification side ------------------------------------------------------------------------ *)

(* Go: strings are compared lexically byte-wise.  a < b iff a is a proper prefix of b, or at the first
   position where they differ a has the smaller byte. *)
Definition bytes_lt (a b : list N) : Prop :=
  (exists c t, b = a ++ c :: t) \/
  (exists p x y ta tb, a = p ++ x :: ta /\ b = p ++ y :: tb /\ x < y).

(* a comparison template evaluates to true / to false on two strings *)
Definition holds (t : jx) (a b : list N) : Prop := run t [VStr a; VStr b] = Ok (VBool true).
Definition fails (t : jx) (a b : list N) : Prop := run t [VStr a; VStr b] = Ok (VBool false).

(* observable result of s[i] given the specification's answer *)
Definition idx_res (r : option jsnum) : res :=
  match r with Some (Num c) => Ok (VNum (Z.of_N c)) | Some NaN => Ok VNaN | None => Panic MSG_INDEX end.
