(* C01 stage 2 — MiniJS with functions: what the code generator emits for stage-2 MiniGo
   (no proofs here).  `f = function f$1(p1, .., pn) { var ..; body }`, calls in the non-blocking
   form `f(args)` as expression statements `f(args);` / `x = f(args);`, `return;` / `return e;`,
   if/else and `while (true) { if (!(c)) { break; } .. }` around them.  Statements without calls
   or returns are stage-1 MiniJS statements ([J2Base]).  A call evaluates the arguments left to
   right, binds the parameters in a NEW store (JavaScript function scope; the fragment has no
   package-level variables), runs the body; falling off the end or `return;` yields undefined,
   which no statement of the fragment can consume (stuck). *)
From Coq Require Import ZArith List String Bool.
From Verif Require Import Model.C01_GoSem Model.C01_JsSem Model.C01_S2_GoSem.
Import ListNotations.
Local Open Scope Z_scope.

Inductive jstmt2 :=
| J2Base (s : jstmt)
| J2Call (dst : option name) (f : fname) (args : list jexpr)     (* f(args);  /  dst = f(args); *)
| J2If (c : jexpr) (t : list jstmt2) (e : option (list jstmt2))
| J2While (body : list jstmt2)                                    (* while (true) { body } *)
| J2Return (e : option jexpr).

Record jfdef := { jf_params : list name; jf_vars : list name; jf_body : list jstmt2 }.
Record jprog2 := { jp2_funcs : list (fname * jfdef); jp2_main : fname }.

Definition inj2 (v : val) : jval := match v with VI z => JI z | VB b => JB b end.

Section ExecList2.
  Variable ex : jstmt2 -> store jval -> res2 (store jval) jval.
  Fixpoint exec_list2 (l : list jstmt2) (s : store jval) {struct l} : res2 (store jval) jval :=
    match l with
    | [] => Q2Ok GNorm s []
    | a :: r => match ex a s with
                | Q2Ok GNorm s1 o1 => prepend2 o1 (exec_list2 r s1)
                | q => q
                end
    end.
End ExecList2.

Section JExec2.
  Variable jfe : list (fname * jfdef).

  Fixpoint jexec2 (fuel : nat) : jstmt2 -> store jval -> res2 (store jval) jval :=
    fix ex (st : jstmt2) (s : store jval) {struct st} : res2 (store jval) jval :=
      match st with
      | J2Base b => of_sres (jexec fuel b s)
      | J2Call dst f args =>
          match jeval_list s args with
          | inl (Some (vs, s1)) =>
              match fuel with
              | O => Q2OOF
              | S fl =>
                  match find_fn jfe f with
                  | None => Q2Stuck
                  | Some fd =>
                      match bind_params (jf_params fd) (map inj2 vs) [] with
                      | None => Q2Stuck
                      | Some s0 =>
                          after_call (fun s a => set s (match dst with Some n => n | None => (""%string, 0%N) end) a)
                            (has_dst dst) s1
                            (finish_call (exec_list2 (jexec2 fl) (jf_body fd) s0))
                      end
                  end
              end
          | inl None => Q2Stuck
          | inr JThrow => Q2Panic []
          | inr _ => Q2Stuck
          end
      | J2If c t e =>
          match jeval s c with
          | JOk (JB true) s1 => exec_list2 ex t s1
          | JOk (JB false) s1 =>
              match e with
              | None => Q2Ok GNorm s1 []
              | Some b => exec_list2 ex b s1
              end
          | JOk _ _ => Q2Stuck
          | JThrow => Q2Panic []
          | JStuck => Q2Stuck
          end
      | J2While body =>
          match exec_list2 ex body s with
          | Q2Ok GNorm s1 o1 =>
              match fuel with
              | O => Q2OOF
              | S fl => prepend2 o1 (jexec2 fl (J2While body) s1)
              end
          | Q2Ok GBrk s1 o1 => Q2Ok GNorm s1 o1
          | r => r
          end
      | J2Return None => Q2Ok (GRet None) s []
      | J2Return (Some e) =>
          match jeval s e with
          | JOk v s1 => Q2Ok (GRet (Some v)) s1 []
          | JThrow => Q2Panic []
          | JStuck => Q2Stuck
          end
      end.

  Definition jexec2_list (fuel : nat) : list jstmt2 -> store jval -> res2 (store jval) jval :=
    exec_list2 (jexec2 fuel).
End JExec2.

Definition run_js2 (fuel : nat) (p : jprog2) : outcome :=
  match find_fn (jp2_funcs p) (jp2_main p) with
  | Some fd => outcome_of_cres (finish_call (jexec2_list (jp2_funcs p) fuel (jf_body fd) []))
  | None => Stuck
  end.

(* "use strict": every identifier read or assigned in a function is a parameter or in its var list
   (the translator lists the parameters in the var list too) *)
Fixpoint jstmt2_names (s : jstmt2) : list name :=
  let l := fix l (ss : list jstmt2) : list name :=
    match ss with [] => [] | a :: r => jstmt2_names a ++ l r end in
  match s with
  | J2Base b => jstmt_names b
  | J2Call dst _ args => match dst with Some n => [n] | None => [] end ++ flat_map jexpr_names args
  | J2If c t e => jexpr_names c ++ l t ++ match e with Some b => l b | None => [] end
  | J2While b => l b
  | J2Return (Some e) => jexpr_names e
  | J2Return None => []
  end.

Definition closedb_fn (fd : jfdef) : bool :=
  forallb (fun n => existsb (name_eqb n) (jf_vars fd)) (jf_params fd ++ flat_map jstmt2_names (jf_body fd)).
Definition closedb2 (p : jprog2) : bool := forallb (fun x => closedb_fn (snd x)) (jp2_funcs p).
