(* C14 — executable model of compiler/utils.go encodeString (Go string constant -> JS string
   literal, as ASCII codes) and of the JavaScript reading of exactly the escapes it emits.
   Model only: no proofs in this file. *)
From Coq Require Import List NArith Bool.
Import ListNotations.
Local Open Scope N_scope.

(* fmt "%02X" digit *)
Definition hexdig (d : N) : N := if d <? 10 then 48 + d else 55 + d.

(* one byte of the constant *)
Definition enc_byte (r : N) : list N :=
  if r =? 8 then [92; 98]            (* \b *)
  else if r =? 12 then [92; 102]     (* \f *)
  else if r =? 10 then [92; 110]     (* \n *)
  else if r =? 13 then [92; 114]     (* \r *)
  else if r =? 9 then [92; 116]      (* \t *)
  else if r =? 11 then [92; 118]     (* \v *)
  else if r =? 34 then [92; 34]      (* backslash, double quote *)
  else if r =? 92 then [92; 92]      (* \\ *)
  else if (r <? 0x20) || (0x7E <? r) then [92; 120; hexdig (r / 16); hexdig (r mod 16)]   (* \xHH *)
  else [r].

Definition encode_string (s : list N) : list N := 34 :: flat_map enc_byte s ++ [34].

(* ---- JavaScript side: value of a double-quoted string literal ---------------------------
   ECMAScript StringLiteral, restricted to SingleEscapeCharacter b f n r t v, double quote, backslash, and
   HexEscapeSequence xHH; any other escape or a raw line terminator is rejected (None).
   Returns the string value (code units) and the input left after the closing quote. *)
Definition hexval (c : N) : option N :=
  if (48 <=? c) && (c <=? 57) then Some (c - 48)
  else if (65 <=? c) && (c <=? 70) then Some (c - 55)
  else if (97 <=? c) && (c <=? 102) then Some (c - 87)
  else None.

Definition single_escape (e : N) : option N :=
  if e =? 98 then Some 8 else if e =? 102 then Some 12 else if e =? 110 then Some 10
  else if e =? 114 then Some 13 else if e =? 116 then Some 9 else if e =? 118 then Some 11
  else if e =? 34 then Some 34 else if e =? 92 then Some 92 else None.

Definition push (c : N) (r : option (list N * list N)) : option (list N * list N) :=
  match r with Some (v, rest) => Some (c :: v, rest) | None => None end.

Fixpoint js_body (l : list N) : option (list N * list N) :=
  match l with
  | [] => None                                        (* unterminated literal *)
  | c :: t =>
    if c =? 34 then Some ([], t)                      (* closing quote *)
    else if (c =? 10) || (c =? 13) then None          (* raw line terminator *)
    else if c =? 92 then
      match t with
      | [] => None
      | e :: t2 =>
        if e =? 120 then
          match t2 with
          | h1 :: h2 :: t3 =>
              match hexval h1, hexval h2 with
              | Some a, Some b => push (a * 16 + b) (js_body t3)
              | _, _ => None
              end
          | _ => None
          end
        else match single_escape e with
             | Some v => push v (js_body t2)
             | None => None
             end
      end
    else push c (js_body t)
  end.

Definition js_unescape (l : list N) : option (list N * list N) :=
  match l with
  | q :: t => if q =? 34 then js_body t else None
  | [] => None
  end.

Definition printable (c : N) : bool := (0x20 <=? c) && (c <=? 0x7E).
