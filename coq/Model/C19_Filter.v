(* C19 — executable model of internal/sourcemapx: hint codec (hint.go) and
   Filter.Write (filter.go).  Model only: no proofs in this file, so that the
   model still evaluates (correspondence check) when a proof breaks.

   Bytes are [N] (< 256).  Positions (line, column) are [nat]; they are
   produced by counting, never written as numerals. *)
From Coq Require Import List NArith Arith Bool.
Import ListNotations.
Local Open Scope N_scope.

Definition byte := N.
Definition MAGIC : byte := 8.      (* HintMagic = '\b' *)
Definition NL : byte := 10.

(* ---- hint.go ---------------------------------------------------------- *)

(* Hint.WriteTo: magic, 16-bit big-endian size, payload.  Panics (None) when
   the payload is longer than 0xFFFF. *)
Definition encode_hint (p : list byte) : option (list byte) :=
  let n := N.of_nat (length p) in
  if 65535 <? n then None
  else Some (MAGIC :: (n / 256) :: (n mod 256) :: p).

(* FindHint = bytes.IndexByte(b, '\b') *)
Fixpoint find_hint (b : list byte) : option nat :=
  match b with
  | [] => None
  | x :: r => if x =? MAGIC then Some O
              else match find_hint r with Some i => Some (S i) | None => None end
  end.

(* ReadHint: panics (None) when shorter than 3, when b[0] is not the magic or
   when shorter than size+3; otherwise the payload and the occupied length. *)
Definition read_hint (b : list byte) : option (list byte * nat) :=
  match b with
  | m :: hi :: lo :: rest =>
      if negb (m =? MAGIC) then None
      else
        let size := N.to_nat (hi * 256 + lo) in
        if Nat.ltb (length rest) size then None
        else Some (firstn size rest, (size + 3)%nat)
  | _ => None
  end.

(* ---- filter.go -------------------------------------------------------- *)

Record mapping := { m_line : nat; m_col : nat; m_payload : list byte }.

Record fstate := {
  f_line : nat;              (* Filter.line, 0-based *)
  f_col  : nat;              (* Filter.column *)
  f_out  : list byte;        (* everything written to Filter.Writer, in order *)
  f_maps : list mapping      (* callbacks issued, oldest first *)
}.

Definition f_init : fstate :=
  {| f_line := O; f_col := O; f_out := []; f_maps := [] |}.

(* the inner loop of Filter.Write: walk over the written bytes, a newline
   increments line and resets column, any other byte advances column. *)
Fixpoint advance (line col : nat) (w : list byte) : nat * nat :=
  match w with
  | [] => (line, col)
  | x :: r => if x =? NL then advance (S line) O r else advance line (S col) r
  end.

Definition write_plain (st : fstate) (w : list byte) : fstate :=
  let '(l, c) := advance (f_line st) (f_col st) w in
  {| f_line := l; f_col := c; f_out := f_out st ++ w; f_maps := f_maps st |}.

Definition add_mapping (st : fstate) (p : list byte) : fstate :=
  {| f_line := f_line st; f_col := f_col st; f_out := f_out st;
     f_maps := f_maps st ++ [ {| m_line := S (f_line st); m_col := f_col st; m_payload := p |} ] |}.

(* Filter.Write(p): outer loop.  [fuel] bounds the number of hints in the chunk
   (each iteration consumes at least 3 bytes); [None] = ReadHint panicked
   (chunk ends inside a hint) — or fuel ran out, which [filter_write] below
   excludes by construction. *)
Fixpoint write_loop (fuel : nat) (st : fstate) (p : list byte) : option fstate :=
  match fuel with
  | O => None
  | S fuel' =>
      match find_hint p with
      | None => Some (write_plain st p)
      | Some i =>
          let st1 := write_plain st (firstn i p) in
          match read_hint (skipn i p) with
          | None => None
          | Some (payload, len) =>
              write_loop fuel' (add_mapping st1 payload) (skipn (i + len) p)
          end
      end
  end.

Definition filter_write (st : fstate) (p : list byte) : option fstate :=
  write_loop (S (length p)) st p.

Fixpoint filter_run (st : fstate) (chunks : list (list byte)) : option fstate :=
  match chunks with
  | [] => Some st
  | c :: cs => match filter_write st c with
               | None => None
               | Some st' => filter_run st' cs
               end
  end.

(* ---- the stream the compiler writes ----------------------------------- *)

Inductive item :=
| Code (bs : list byte)     (* generated code; contains no MAGIC byte *)
| Hint (payload : list byte).

Definition render_item (it : item) : list byte :=
  match it with
  | Code bs => bs
  | Hint p => match encode_hint p with Some e => e | None => [] end
  end.

Definition render (its : list item) : list byte := flat_map render_item its.

Definition code_ok (bs : list byte) : bool := forallb (fun x => negb (x =? MAGIC)) bs.

Definition item_ok (it : item) : bool :=
  match it with
  | Code bs => code_ok bs
  | Hint p => N.of_nat (length p) <=? 65535
  end.

(* ---- specification, written independently of the loop above ----------- *)

(* what the output must be: the code with the hints erased *)
Definition erase (its : list item) : list byte :=
  flat_map (fun it => match it with Code bs => bs | Hint _ => [] end) its.

(* position of the next byte after a given output prefix, from scratch *)
Definition count_nl (bs : list byte) : nat := length (filter (fun x => x =? NL) bs).

Fixpoint last_line_len (bs : list byte) (acc : nat) : nat :=
  match bs with
  | [] => acc
  | x :: r => if x =? NL then last_line_len r O else last_line_len r (S acc)
  end.

(* mapping expected for each hint: 1-based line and 0-based column at which
   the first code byte after the hint lands in the erased output *)
Fixpoint spec_mappings (pre : list byte) (its : list item) : list mapping :=
  match its with
  | [] => []
  | Code bs :: r => spec_mappings (pre ++ bs) r
  | Hint p :: r =>
      {| m_line := S (count_nl pre); m_col := last_line_len pre O; m_payload := p |}
      :: spec_mappings pre r
  end.

(* ---- observable projection used by the correspondence check ----------- *)

Definition obs := option (list byte * list (N * N * list byte)).

Definition observe (r : option fstate) : obs :=
  match r with
  | None => None
  | Some st => Some (f_out st,
                     map (fun m => (N.of_nat (m_line m), N.of_nat (m_col m), m_payload m)) (f_maps st))
  end.

Definition run_chunks (chunks : list (list byte)) : obs := observe (filter_run f_init chunks).
