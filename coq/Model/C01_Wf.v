(* C01 — the boolean well-formedness check that delimits the proved fragment (no proofs here).
   It is what go/types + the fragment's restrictions amount to for a resolved MiniGo program:
   typing, scoping (uses only of variables whose declaration is in scope), every declaration
   its own identity, literals in range of their kind, no operator applied to constants only
   (go/types would fold it; literals are the only constants), no constant zero divisor,
   shift counts constant >= 0 or of an unsigned kind, labels refer to enclosing loops. *)
From Coq Require Import ZArith List String Bool.
From Verif Require Import Model.C01_GoSem.
Import ListNotations.
Local Open Scope Z_scope.

Definition env := list (name * ty).
Fixpoint env_get (g : env) (v : name) : option ty :=
  match g with
  | [] => None
  | (u, t) :: r => if name_eqb u v then Some t else env_get r v
  end.

Fixpoint has_var (e : expr) : bool :=
  match e with
  | EVar _ => true
  | ELit _ _ | EBool _ => false
  | EBin _ _ _ a b | ECmp _ _ a b | EAnd a b | EOr a b => has_var a || has_var b
  | ENot a | ENeg _ a | ECpl _ a | EConv _ _ a => has_var a
  end.

Definition is_div (op : binop) : bool := match op with Quo | Rem => true | _ => false end.
Definition is_boollit (e : expr) : bool := match e with EBool _ => true | _ => false end.

Definition opt_ty_is (o : option ty) (t : ty) : bool :=
  match o with Some u => ty_eqb u t | None => false end.

Fixpoint wf_expr (g : env) (e : expr) : option ty :=
  match e with
  | EVar v => env_get g v
  | ELit k z => if in_range k z then Some (TI k) else None
  | EBool _ => Some TB
  | EBin p k op a b =>
      let okb :=
        if is_shift op then
          has_var a &&
          match b with
          | ELit _ c => 0 <=? c
          | _ => match wf_expr g b with Some (TI kb) => negb (signed kb) | _ => false end
          end
        else
          opt_ty_is (wf_expr g b) (TI k) &&
          negb (is_div op && match b with ELit _ 0 => true | _ => false end) in
      if opt_ty_is (wf_expr g a) (TI k) && okb && (has_var a || has_var b) then Some (TI k) else None
  | ECmp t op a b =>
      let okop := match t, op with
                  | TB, Eq | TB, Ne => negb (is_boollit a) && negb (is_boollit b)
                  | TB, _ => false
                  | TI _, _ => true
                  end in
      if opt_ty_is (wf_expr g a) t && opt_ty_is (wf_expr g b) t && okop && (has_var a || has_var b)
      then Some TB else None
  | EAnd a b | EOr a b =>
      if opt_ty_is (wf_expr g a) TB && opt_ty_is (wf_expr g b) TB && (has_var a || has_var b)
      then Some TB else None
  | ENot a => if opt_ty_is (wf_expr g a) TB && has_var a then Some TB else None
  | ENeg k a | ECpl k a => if opt_ty_is (wf_expr g a) (TI k) && has_var a then Some (TI k) else None
  | EConv from to a => if opt_ty_is (wf_expr g a) (TI from) && has_var a then Some (TI to) else None
  end.

(* simple statements: what may stand as for-init / for-post; returns the extended scope *)
Definition wf_simple (g : env) (s : stmt) (allow_define : bool) : option env :=
  match s with
  | SSkip => Some g
  | SDefine v t e => if allow_define && opt_ty_is (wf_expr g e) t then Some ((v, t) :: g) else None
  | SAssign v e =>
      match env_get g v with
      | Some t => if opt_ty_is (wf_expr g e) t then Some g else None
      | None => None
      end
  | SOpAssign v k op e =>
      if opt_ty_is (env_get g v) (TI k) && opt_ty_is (wf_expr g (EBin true k op (EVar v) e)) (TI k)
      then Some g else None
  | SIncDec v k inc =>
      if opt_ty_is (env_get g v) (TI k) then Some g else None
  | _ => None
  end.

Definition label_ok (loops : list (option string)) (l : option string) : bool :=
  match loops with
  | [] => false
  | _ => match l with
         | None => true
         | Some _ => existsb (opt_label_eqb l) loops
         end
  end.

Fixpoint wf_stmt (loops : list (option string)) (g : env) (s : stmt) {struct s} : option env :=
  match s with
  | SSkip | SNoElse => Some g
  | SSeq a b => match wf_stmt loops g a with Some g1 => wf_stmt loops g1 b | None => None end
  | SDefine _ _ _ | SAssign _ _ | SOpAssign _ _ _ _ | SIncDec _ _ _ => wf_simple g s true
  | SIf c t e =>
      if opt_ty_is (wf_expr g c) TB then
        match wf_stmt loops g t, wf_stmt loops g e with
        | Some _, Some _ => Some g
        | _, _ => None
        end
      else None
  | SFor l init c post body =>
      match wf_simple g init true with
      | Some g1 =>
          let okc := match c with
                     | None => true
                     | Some ce => opt_ty_is (wf_expr g1 ce) TB && negb (is_boollit ce)
                     end in
          let okl := match l with Some _ => negb (existsb (opt_label_eqb l) loops) | None => true end in
          match wf_simple g1 post false, wf_stmt (l :: loops) g1 body with
          | Some _, Some _ => if okc && okl then Some g else None
          | _, _ => None
          end
      | None => None
      end
  | SBreak l | SContinue l => if label_ok loops l then Some g else None
  | SPrint es =>
      if forallb (fun e => match wf_expr g e with Some _ => has_var e | None => false end) es
      then Some g else None
  end.

Fixpoint defs (s : stmt) : list name :=
  match s with
  | SDefine v _ _ => [v]
  | SSeq a b => defs a ++ defs b
  | SIf _ t e => defs t ++ defs e
  | SFor _ init _ post body => defs init ++ defs body
  | _ => []
  end.

Fixpoint nodupb (l : list name) : bool :=
  match l with
  | [] => true
  | a :: r => negb (existsb (name_eqb a) r) && nodupb r
  end.

Definition wf_prog (p : stmt) : bool :=
  match wf_stmt [] [] p with Some _ => nodupb (defs p) | None => false end.
