(* C01 — Gallina mirror of the translator for the MiniGo fragment (no proofs here).
   Mirrors compiler/expressions.go (translateExpr: BinaryExpr / UnaryExpr / conversion cases,
   fixNumber), compiler/statements.go (translateStmt: If via translateBranchingStmt, For via
   translateLoopingStmt, BranchStmt, AssignStmt, println), compiler/filter/{assign,incdecstmt}.go
   and compiler/utils.go newVariable (name, name$1, name$2 .. per function, user variables and
   temporaries share the counters).  The order in which sub-terms are translated is the order
   in which the Go code calls translateExpr, because that order decides the temp names. *)
From Coq Require Import ZArith List String Bool Ascii.
From Verif Require Import Model.C01_GoSem Model.C01_JsSem.
Import ListNotations.
Local Open Scope Z_scope.

(* ---------------------------------------------------------------- allocator state *)
Record cstate := {
  cnt : list (string * N);            (* fc.allVars restricted to the bases used *)
  rho : list (name * name);           (* fc.objectNames: Go variable -> JS name *)
  log : list name                     (* fc.localVars, most recent first *)
}.
Definition cstate0 : cstate := {| cnt := []; rho := []; log := [] |}.

Fixpoint count_of (c : list (string * N)) (b : string) : N :=
  match c with
  | [] => 0%N
  | (b', n) :: r => if String.eqb b' b then n else count_of r b
  end.

(* newVariable(base): base$n with n = allVars[base]++ *)
Definition alloc (st : cstate) (b : string) : name * cstate :=
  let n := count_of (cnt st) b in
  ((b, n), {| cnt := (b, N.succ n) :: cnt st; rho := rho st; log := (b, n) :: log st |}).

Fixpoint lookup (r : list (name * name)) (v : name) : option name :=
  match r with
  | [] => None
  | (u, n) :: r' => if name_eqb u v then Some n else lookup r' v
  end.
Definition js_name (st : cstate) (v : name) : name :=
  match lookup (rho st) v with Some n => n | None => ("$undeclared"%string, 0%N) end.

(* objectName(o) at the first encounter of a local variable (its definition) *)
Definition declare (st : cstate) (v : name) : name * cstate :=
  let '(n, st1) := alloc st (fst v) in
  (n, {| cnt := cnt st1; rho := (v, n) :: rho st1; log := log st1 |}).

(* ---------------------------------------------------------------- expressions *)
Definition jshl e n := JBin JShl e (JNum n).
Definition jshr e n := JBin JShr e (JNum n).
Definition jushr e n := JBin JUshr e (JNum n).

(* fixNumber *)
Definition fix_number (k : kind) (e : jexpr) : jexpr :=
  match k with
  | I8 => jshr (jshl e 24) 24
  | U8 => jushr (jshl e 24) 24
  | I16 => jshr (jshl e 16) 16
  | U16 => jushr (jshl e 16) 16
  | I32 | I => jshr e 0
  | U32 | U => jushr e 0
  end.

Definition div_msg := "integer divide by zero"%string.
Definition jinf := JBin JDiv (JNum 1) (JNum 0).
Definition jninf := JBin JDiv (JNum (-1)) (JNum 0).

Definition const_of (p : bool) (b : expr) : option Z :=
  if p then None else match b with ELit _ c => Some c | _ => None end.

Definition is_var (e : expr) : bool := match e with EVar _ => true | _ => false end.

(* temporaries of the operator templates (allocated before the operands are translated) *)
Definition temp_base (op : binop) : option string :=
  match op with Quo => Some "_q"%string | Rem => Some "_r"%string | _ => None end.

(* the templates of translateExpr's BinaryExpr case for the operators other than shifts;
   t is the temporary (_q / _r, unused otherwise) *)
Definition tmpl (k : kind) (op : binop) (t : name) (ja jb : jexpr) : jexpr :=
  match op with
  | Add => fix_number k (JBin JAdd ja jb)
  | Sub => fix_number k (JBin JSub ja jb)
  | Mul => match k with
           | I32 | I => JImul ja jb
           | U32 | U => jushr (JImul ja jb) 0
           | _ => fix_number k (JBin JMul ja jb)
           end
  | Quo =>
      let q := JComma (JAsg t (JBin JDiv ja jb))
                 (JCond (JAnd (JAnd (JBin JSeq (JVar t) (JVar t)) (JBin JSne (JVar t) jinf))
                              (JBin JSne (JVar t) jninf))
                        (if signed k then jshr (JVar t) 0 else jushr (JVar t) 0)
                        (JThrowE div_msg)) in
      match k with I8 | I16 => fix_number k q | _ => q end
  | Rem =>
      fix_number k (JComma (JAsg t (JBin JMod ja jb))
                      (JCond (JBin JSeq (JVar t) (JVar t)) (JVar t) (JThrowE div_msg)))
  | And => let o := JBin JBand ja jb in if signed k then o else jushr o 0
  | Or => let o := JBin JBor ja jb in if signed k then o else jushr o 0
  | Xor => fix_number k (JBin JBxor ja jb)
  | AndNot => fix_number k (JBin JBand ja (JUn JBnot jb))
  | Shl | Shr => JNum 0
  end.

Definition shift_op (k : kind) (op : binop) : jbin :=
  match op with Shl => JShl | _ => if signed k then JShr else JUshr end.

(* (y = count, y < 32 ? (x op y) : 0) *)
Definition shift_cond (k : kind) (op : binop) (y : name) (jx : jexpr) : jexpr :=
  JCond (JBin JLt (JVar y) (JNum 32)) (JBin (shift_op k op) jx (JVar y)) (JNum 0).

Fixpoint cexpr (st : cstate) (e : expr) : jexpr * cstate :=
  match e with
  | EVar v => (JVar (js_name st v), st)
  | ELit _ z => (JNum z, st)
  | EBool b => (JBoolE b, st)
  | EBin p k op a b =>
      if is_shift op then
        match const_of p b with
        | Some c =>
            if 32 <=? c then
              match op, signed k with
              | Shr, true => let '(ja, st1) := cexpr st a in (fix_number k (jshr ja 31), st1)
              | _, _ => if is_var a then (JNum 0, st)
                        else let '(ja, st1) := cexpr st a in (JComma ja (JNum 0), st1)
              end
            else let '(ja, st1) := cexpr st a in (fix_number k (JBin (shift_op k op) ja (JNum c)), st1)
        | None =>
            match op, signed k with
            | Shr, true =>
                let '(ja, st1) := cexpr st a in let '(jb, st2) := cexpr st1 b in
                (fix_number k (JBin JShr ja (JMin jb (JNum 31))), st2)
            | _, _ =>
                let '(y, st0) := alloc st "y"%string in
                if is_var a then
                  let '(jb, st1) := cexpr st0 b in let '(ja, st2) := cexpr st1 a in
                  (fix_number k (JComma (JAsg y jb) (shift_cond k op y ja)), st2)
                else
                  let '(x, st0') := alloc st0 "x"%string in
                  let '(ja, st1) := cexpr st0' a in let '(jb, st2) := cexpr st1 b in
                  (fix_number k (JComma (JComma (JAsg x ja) (JAsg y jb)) (shift_cond k op y (JVar x))), st2)
            end
        end
      else
        let '(t, st0) := match temp_base op with
                         | Some b => alloc st b
                         | None => ((""%string, 0%N), st)
                         end in
        let '(ja, st1) := cexpr st0 a in let '(jb, st2) := cexpr st1 b in
        (tmpl k op t ja jb, st2)
  | ECmp t op a b =>
      let '(ja, st1) := cexpr st a in let '(jb, st2) := cexpr st1 b in
      (match op with
       | Eq => JBin JSeq ja jb
       | Ne => JUn JNot (JBin JSeq ja jb)
       | Lt => JBin JLt ja jb | Le => JBin JLe ja jb | Gt => JBin JGt ja jb | Ge => JBin JGe ja jb
       end, st2)
  | EAnd a b => let '(ja, st1) := cexpr st a in let '(jb, st2) := cexpr st1 b in (JAnd ja jb, st2)
  | EOr a b => let '(ja, st1) := cexpr st a in let '(jb, st2) := cexpr st1 b in (JOr ja jb, st2)
  | ENot a => let '(ja, st1) := cexpr st a in (JUn JNot ja, st1)
  | ENeg k a => let '(ja, st1) := cexpr st a in (fix_number k (JUn JNeg ja), st1)
  | ECpl k a => let '(ja, st1) := cexpr st a in (fix_number k (JUn JBnot ja), st1)
  | EConv from to a =>
      let '(ja, st1) := cexpr st a in
      (if kind_eqb from to then ja else fix_number to ja, st1)
  end.

Fixpoint cexprs (st : cstate) (es : list expr) : list jexpr * cstate :=
  match es with
  | [] => ([], st)
  | e :: r => let '(je, st1) := cexpr st e in let '(jr, st2) := cexprs st1 r in (je :: jr, st2)
  end.

(* ---------------------------------------------------------------- statements *)
(* flowDatas: enclosing loops, innermost first: label and post statement *)
Definition ctx := list (option string * stmt).

Fixpoint find_post (c : ctx) (l : option string) : stmt :=
  match c with
  | [] => SSkip
  | (l', p) :: r => if catches l' l then p else find_post r l
  end.

(* simple statements (for-init, for-post, and the statements they desugar to) *)
Definition cassign (st : cstate) (v : name) (e : expr) (define : bool) : list jstmt * cstate :=
  let '(je, st1) := cexpr st e in
  if define then let '(n, st2) := declare st1 v in ([JSExpr (JAsg n je)], st2)
  else ([JSExpr (JAsg (js_name st1 v) je)], st1).

Definition csimple (st : cstate) (s : stmt) : list jstmt * cstate :=
  match s with
  | SDefine v _ e => cassign st v e true
  | SAssign v e => cassign st v e false
  | SOpAssign v k op e => cassign st v (EBin true k op (EVar v) e) false
  | SIncDec v k inc => cassign st v (EBin true k (if inc then Add else Sub) (EVar v) (ELit k 1)) false
  | _ => ([], st)
  end.

(* for-post statements (Go does not allow a declaration there) *)
Definition cpost (st : cstate) (s : stmt) : list jstmt * cstate :=
  match s with SDefine _ _ _ => ([], st) | _ => csimple st s end.

(* all conditions of an if / else-if chain are translated before any body
   (translateBranchingStmt builds condStrs first) *)
Fixpoint chain_conds (st : cstate) (s : stmt) : list jexpr * cstate :=
  match s with
  | SIf c _ e => let '(jc, st1) := cexpr st c in let '(r, st2) := chain_conds st1 e in (jc :: r, st2)
  | _ => ([], st)
  end.

Fixpoint last_stmt (s : stmt) : stmt :=
  match s with
  | SSeq a b => match last_stmt b with SSkip => last_stmt a | x => x end
  | x => x
  end.
Definition is_branch (s : stmt) : bool :=
  match s with SBreak _ | SContinue _ => true | _ => false end.

Fixpoint cstmt (cx : ctx) (st : cstate) (s : stmt) {struct s} : list jstmt * cstate :=
  match s with
  | SSkip | SNoElse => ([], st)
  | SSeq a b => let '(ja, st1) := cstmt cx st a in let '(jb, st2) := cstmt cx st1 b in (ja ++ jb, st2)
  | SDefine _ _ _ | SAssign _ _ | SOpAssign _ _ _ _ | SIncDec _ _ _ => csimple st s
  | SIf c t e =>
      let '(jc, st0) := cexpr st c in
      let '(cs, st1) := chain_conds st0 e in
      let '(jt, st2) := cstmt cx st1 t in
      let '(je, st3) := match e with
                        | SNoElse => (JNoElse, st2)
                        | SIf _ _ _ => celif cx st2 e cs
                        | _ => let '(jb, st') := cstmt cx st2 e in (JElse jb, st')
                        end in
      ([JSIf jc jt je], st3)
  | SFor l init c post body =>
      let '(ji, st0) := csimple st init in
      let '(jc, st1) := match c with
                        | None => ([], st0)
                        | Some ce => let '(je, st') := cexpr st0 ce in
                                     ([JSIf (JUn JNot je) [JSBreak None] JNoElse], st')
                        end in
      let '(jb, st2) := cstmt ((l, post) :: cx) st1 body in
      let '(jp, st3) := if is_branch (last_stmt body) then ([], st2) else cpost st2 post in
      (ji ++ [JSWhile l (jc ++ jb ++ jp)], st3)
  | SBreak l => ([JSBreak l], st)
  | SContinue l => let '(jp, st1) := cpost st (find_post cx l) in (jp ++ [JSContinue l], st1)
  | SPrint es => let '(js, st1) := cexprs st es in ([JSLog js], st1)
  end
with celif (cx : ctx) (st : cstate) (e : stmt) (cs : list jexpr) {struct e} : jelse * cstate :=
  match e with
  | SIf _ t e' =>
      match cs with
      | jc :: cs' =>
          let '(jt, st2) := cstmt cx st t in
          let '(je, st3) := match e' with
                            | SNoElse => (JNoElse, st2)
                            | SIf _ _ _ => celif cx st2 e' cs'
                            | _ => let '(jb, st') := cstmt cx st2 e' in (JElse jb, st')
                            end in
          (JElif (JSIf jc jt je), st3)
      | [] => (JNoElse, st)
      end
  | _ => (JNoElse, st)
  end.

(* ---------------------------------------------------------------- the var list *)
(* the rendered identifier: base, base$1, base$2 .. ; the translator sorts them as strings *)
Fixpoint digits (fuel : nat) (n : N) (acc : string) : string :=
  match fuel with
  | O => acc
  | S f => let d := String (ascii_of_N (48 + n mod 10)) acc in
           if (n <? 10)%N then d else digits f (n / 10)%N d
  end.
Definition render (n : name) : string :=
  if (snd n =? 0)%N then fst n else fst n ++ "$"%string ++ digits 40 (snd n) ""%string.

Fixpoint str_ltb (a b : string) : bool :=
  match a, b with
  | EmptyString, EmptyString => false
  | EmptyString, _ => true
  | _, EmptyString => false
  | String x a', String y b' =>
      if (N_of_ascii x <? N_of_ascii y)%N then true
      else if (N_of_ascii y <? N_of_ascii x)%N then false else str_ltb a' b'
  end.

Fixpoint insert_name (n : name) (l : list name) : list name :=
  match l with
  | [] => [n]
  | m :: r => if str_ltb (render m) (render n) then m :: insert_name n r else n :: l
  end.
Definition sort_names (l : list name) : list name := fold_right insert_name [] l.

Definition compile (p : stmt) : jprog :=
  let '(body, st) := cstmt [] cstate0 p in
  {| jp_vars := sort_names (log st); jp_body := body |}.
