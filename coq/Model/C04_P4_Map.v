(* C04 phase 4 — executable model of typeparams.InstanceMap (compiler/internal/typeparams/map.go).
   No proofs in this file.

   Go:   data map[types.Object] map[uint32] []*mapEntry      (two Go maps, then a slice with nil holes)
   here: an association list keyed by (object, hash) whose values are buckets = list (option (inst * V)).
   The per-type hash (typeutil.Hasher.Hash) is a PARAMETER [h]: the theorems hold for every function h,
   in particular for one that sends everything to the same bucket.  typeHash xors the hashes of TNest and TArgs. *)
From Coq Require Import List NArith Bool Arith.
From Verif Require Import Model.C04_Inst.
Import ListNotations.

Section IMap.
Variable V : Type.

Definition entry := (inst * V)%type.
Definition bucket := list (option entry).
Definition bkey := (N * N)%type.                       (* (object, typeHash) *)
Record imap := mkMap { m_data : list (bkey * bucket); m_len : nat }.

Definition empty_map : imap := mkMap [] 0.

(* typeHash(hasher, nestTypes, types) *)
Definition type_hash (h : ty -> N) (nest args : list ty) : N :=
  fold_left (fun a t => N.lxor a (h t)) args (fold_left (fun a t => N.lxor a (h t)) nest 0%N).

Definition key_of (h : ty -> N) (k : inst) : bkey := (i_obj k, type_hash h (i_tnest k) (i_targs k)).

Definition bkey_eqb (a b : bkey) : bool := N.eqb (fst a) (fst b) && N.eqb (snd a) (snd b).

(* im.data[obj][hash]: a missing Go map entry reads as the nil slice *)
Fixpoint lookup (d : list (bkey * bucket)) (k : bkey) : bucket :=
  match d with
  | [] => []
  | (k', b) :: r => if bkey_eqb k k' then b else lookup r k
  end.

(* im.data[obj][hash] = b *)
Fixpoint store (d : list (bkey * bucket)) (k : bkey) (b : bucket) : list (bkey * bucket) :=
  match d with
  | [] => [(k, b)]
  | (k', b') :: r => if bkey_eqb k k' then (k', b) :: r else (k', b') :: store r k b
  end.

(* candidateArgsMatch: candidate != nil && TNest.Equal && TArgs.Equal (the object is the outer map key) *)
Definition args_match (key : inst) (c : option entry) : bool :=
  match c with
  | None => false
  | Some (k, _) => tys_eqb (i_tnest k) (i_tnest key) && tys_eqb (i_targs k) (i_targs key)
  end.

(* findIndex: first matching candidate *)
Fixpoint find_index (key : inst) (b : bucket) : option nat :=
  match b with
  | [] => None
  | c :: r => if args_match key c then Some 0 else option_map S (find_index key r)
  end.

Definition map_get (h : ty -> N) (m : imap) (key : inst) : option V :=
  let b := lookup (m_data m) (key_of h key) in
  match find_index key b with
  | Some i => match nth i b None with Some (_, v) => Some v | None => None end
  | None => None
  end.

Definition map_has (h : ty -> N) (m : imap) (key : inst) : bool :=
  match map_get h m key with Some _ => true | None => false end.

Fixpoint set_nth (b : bucket) (i : nat) (c : option entry) : bucket :=
  match b, i with
  | [], _ => []
  | _ :: r, O => c :: r
  | x :: r, S j => x :: set_nth r j c
  end.

(* the loop of Set: walks the whole bucket; `hole` is overwritten at every nil, the loop returns at the first match *)
Fixpoint set_scan (key : inst) (b : bucket) (i : nat) (hole : option nat) : (option nat) * (option nat) :=
  match b with                                 (* (index of the match, last hole seen before it / in the bucket) *)
  | [] => (None, hole)
  | None :: r => set_scan key r (S i) (Some i)
  | Some e :: r => if args_match key (Some e) then (Some i, hole) else set_scan key r (S i) hole
  end.

(* Set: returns the map and the previous value (None = Go's zero value, key absent) *)
Definition map_set (h : ty -> N) (m : imap) (key : inst) (v : V) : imap * option V :=
  let bk := key_of h key in
  let b := lookup (m_data m) bk in
  match set_scan key b 0 None with
  | (Some i, _) =>
      let old := match nth i b None with Some (_, o) => Some o | None => None end in
      let k0 := match nth i b None with Some (k, _) => k | None => key end in    (* candidate.value = value: the stored key stays *)
      (mkMap (store (m_data m) bk (set_nth b i (Some (k0, v)))) (m_len m), old)
  | (None, Some hl) => (mkMap (store (m_data m) bk (set_nth b hl (Some (key, v)))) (S (m_len m)), None)
  | (None, None) => (mkMap (store (m_data m) bk (b ++ [Some (key, v)])) (S (m_len m)), None)
  end.

(* Delete: bucket[i] = nil; len-- *)
Definition map_delete (h : ty -> N) (m : imap) (key : inst) : imap * bool :=
  let bk := key_of h key in
  let b := lookup (m_data m) bk in
  match find_index key b with
  | Some i => (mkMap (store (m_data m) bk (set_nth b i None)) (pred (m_len m)), true)
  | None => (m, false)
  end.

(* Keys(): all non-nil entries (order unspecified in Go: compared as a set) *)
Definition map_keys (m : imap) : list inst :=
  flat_map (fun kb => flat_map (fun c => match c with Some (k, _) => [k] | None => [] end) (snd kb)) (m_data m).

(* ---- histories *)
Inductive op := OSet (k : inst) (v : V) | OGet (k : inst) | OHas (k : inst) | ODelete (k : inst) | OLen.

Inductive obs := RVal (o : option V) | RBool (b : bool) | RLen (n : nat).

Definition map_step (h : ty -> N) (m : imap) (o : op) : imap * obs :=
  match o with
  | OSet k v => let (m', old) := map_set h m k v in (m', RVal old)
  | OGet k => (m, RVal (map_get h m k))
  | OHas k => (m, RBool (map_has h m k))
  | ODelete k => let (m', b) := map_delete h m k in (m', RBool b)
  | OLen => (m, RLen (m_len m))
  end.

Fixpoint map_run (h : ty -> N) (m : imap) (ops : list op) : imap * list obs :=
  match ops with
  | [] => (m, [])
  | o :: r => let (m1, x) := map_step h m o in let (m2, xs) := map_run h m1 r in (m2, x :: xs)
  end.

(* ---- the specification: a finite map keyed by instance identity (association list, no hashing) *)
Definition fmap := list (inst * V).

Fixpoint spec_get (s : fmap) (k : inst) : option V :=
  match s with
  | [] => None
  | (k', v) :: r => if inst_eqb k k' then Some v else spec_get r k
  end.

Fixpoint spec_remove (s : fmap) (k : inst) : fmap :=
  match s with
  | [] => []
  | (k', v) :: r => if inst_eqb k k' then spec_remove r k else (k', v) :: spec_remove r k
  end.

Definition spec_set (s : fmap) (k : inst) (v : V) : fmap := (k, v) :: spec_remove s k.

Definition spec_step (s : fmap) (o : op) : fmap * obs :=
  match o with
  | OSet k v => (spec_set s k v, RVal (spec_get s k))
  | OGet k => (s, RVal (spec_get s k))
  | OHas k => (s, RBool (match spec_get s k with Some _ => true | None => false end))
  | ODelete k => (spec_remove s k, RBool (match spec_get s k with Some _ => true | None => false end))
  | OLen => (s, RLen (length s))
  end.

Fixpoint spec_run (s : fmap) (ops : list op) : fmap * list obs :=
  match ops with
  | [] => (s, [])
  | o :: r => let (s1, x) := spec_step s o in let (s2, xs) := spec_run s1 r in (s2, x :: xs)
  end.

End IMap.

Arguments empty_map {V}.
Arguments OSet {V}. Arguments OGet {V}. Arguments OHas {V}. Arguments ODelete {V}. Arguments OLen {V}.
Arguments RVal {V}. Arguments RBool {V}. Arguments RLen {V}.

(* two concrete hash functions for the evaluation entry points: everything collides / a structural hash *)
Definition hash_const (_ : ty) : N := 0%N.

Fixpoint hash_struct (t : ty) : N :=
  match t with
  | TBase b => N.succ (N.double b)
  | TCon c l => N.land (fold_left (fun a x => N.lxor (a * 31) (hash_struct x)) l (c * 7 + 3)) 65535
  | TNamed o l => N.land (fold_left (fun a x => N.lxor (a * 31) (hash_struct x)) l (o * 11 + 5)) 65535
  | TOwn i => 101 + N.of_nat i
  | TNestV i => 211 + N.of_nat i
  | TFree i => 307 + i
  end%N.
